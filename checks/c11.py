"""C11: QS domain -- callbacks run once, by the owner's run(), only after a full grace period, and do run."""
import sys
import vlib
from comp.qs import check as qs

def main():
    c = vlib.Check("C11")
    c.rule = qs.RULE
    c.trusted = ["Coq 8.16.1 kernel (coqc; vm_compute in the generated-fact lemmas and Examples)"] + qs.TRUSTED
    c.assumptions = qs.ASSUMPTIONS
    c.kind_filter = lambda k: k not in vlib.LIFETIME_KINDS
    qs.regen(c)          # Gen/QsOrders.v must be current before the proofs are checked
    c.prove(["C11"])
    qs.run(c)
    sys.exit(c.finish())

main()
