"""TIE: leaf functions regenerated from /repo's current source (clang AST -> Gallina) equal the hand-written models (proved)."""
import sys
import vlib
from comp.cxxleaf import check as cxxleaf

def main():
    c = vlib.Check("TIE")
    c.rule = cxxleaf.RULE
    c.trusted = ["Coq 8.16.1 kernel (coqc; vm_compute only in Examples)"] + cxxleaf.TRUSTED
    c.assumptions = cxxleaf.ASSUMPTIONS
    parts = cxxleaf.available_parts()
    cxxleaf.run(c, parts)
    c.checker_cmd = "make -C coq " + " ".join("Props/Properties_%s.vo" % p for p in cxxleaf.prop_ids(parts)) + " (coqc 8.16.1) + Print Assumptions"
    c.prove(cxxleaf.prop_ids(parts))
    sys.exit(c.finish())

main()
