"""C19: printf / fmt / stack_buffer_logger formatting."""
import vlib, merged
PARTS = [("printf", "printf"), ("fmt", "fmt")]
merged.run_merged("C19", PARTS, kind_filter=lambda k: k not in vlib.LIFETIME_KINDS,
                  rule_prefix="directive products and format strings; ")
