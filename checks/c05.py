"""C05: slab_pool is thread-safe, deadlock-free, and calls the policy without holding pool locks."""
import sys
import vlib
from comp.slabconc import check as slabconc

def main():
    c = vlib.Check("C05")
    c.rule = slabconc.RULE
    c.trusted = ["Coq 8.16.1 kernel (coqc; vm_compute for skeleton_disciplined, conc_slab_shapes_match and the Examples)"] + slabconc.TRUSTED
    c.assumptions = slabconc.ASSUMPTIONS
    c.kind_filter = lambda k: k not in vlib.LIFETIME_KINDS
    slabconc.regen()                      # Gen/SlabSkeleton.v must be current before the proof leg imports it
    c.prove(["C05", "C05_slab"])          # C05_slab: the concrete pool of C01-C04 under concurrency (coq/SlabConc/ConcSlab*.v)
    slabconc.run(c)
    sys.exit(c.finish())

main()
