"""C16, string part: every block basic_string obtains from its allocator is given back exactly once."""
import sys
import vlib
from comp.str import check as strc

def main():
    c = vlib.Check("C16")
    c.rule = strc.RULE
    c.trusted = ["Coq 8.16.1 kernel (coqc; vm_compute only in Examples)"] + strc.TRUSTED
    c.assumptions = strc.ASSUMPTIONS + ["detach() hands the buffer to the caller, who frees it (scripts do so at once)"]
    c.kind_filter = lambda k: k in vlib.LIFETIME_KINDS
    c.prove(["C16_str"])
    strc.run(c)
    sys.exit(c.finish())

main()
