"""C01: slab pool live blocks are valid, big enough, aligned and pairwise disjoint."""
import sys
import vlib
from comp.slab import check as slab

def main():
    c = vlib.Check("C01")
    c.rule = slab.RULE
    c.trusted = ["Coq 8.16.1 kernel (coqc; vm_compute only in Examples)"] + slab.TRUSTED
    c.assumptions = slab.ASSUMPTIONS
    c.prove()
    slab.run(c, "C01")
    sys.exit(c.finish())

main()
