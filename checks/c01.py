"""C01: slab pool live blocks are valid, big enough, aligned and pairwise disjoint."""
import sys
import vlib
from comp.slab import check as slab
from comp.cxxleaf import check as cxxleaf

def main():
    c = vlib.Check("C01")
    c.rule = slab.RULE
    c.trusted = ["Coq 8.16.1 kernel (coqc; vm_compute only in Examples)"] + slab.TRUSTED
    c.assumptions = slab.ASSUMPTIONS
    cxxleaf.run(c, ["slab"])      # size_to_bucket/bucket_to_size re-translated from the current source (translator tie)
    c.trusted = c.trusted + cxxleaf.TRUSTED
    c.prove(["C01"] + cxxleaf.prop_ids(["slab"]))
    slab.run(c, "C01")
    sys.exit(c.finish())

main()
