"""C12: spinlocks exclude, hand over in order, and lock guards stay balanced."""
import sys
import vlib
from comp.locks import check as locks

def main():
    c = vlib.Check("C12")
    c.rule = locks.RULE
    c.trusted = ["Coq 8.16.1 kernel (coqc; vm_compute in Examples and generated obligations)"] + locks.TRUSTED
    c.assumptions = locks.ASSUMPTIONS
    c.kind_filter = lambda k: k not in vlib.LIFETIME_KINDS
    c.prove(["C12"])
    locks.run(c)
    sys.exit(c.finish())

main()
