"""C12: spinlocks exclude, hand over in order, and lock guards stay balanced."""
import sys
import vlib
from comp.cxxleaf import check as cxxleaf
from comp.locks import check as locks

def main():
    c = vlib.Check("C12")
    c.rule = locks.RULE
    c.trusted = ["Coq 8.16.1 kernel (coqc; vm_compute in Examples and generated obligations)"] + locks.TRUSTED
    c.assumptions = locks.ASSUMPTIONS
    c.kind_filter = lambda k: k not in vlib.LIFETIME_KINDS
    locks.gen_spin_orders(c)      # coq/Gen/SpinOrders.v from the current spinlock.hpp, before the proof leg uses it
    cxxleaf.run(c, ["locks"])      # leaf functions re-translated from the current source (translator tie)
    c.trusted = c.trusted + cxxleaf.TRUSTED
    c.prove(["C12"] + cxxleaf.prop_ids(["locks"]))
    locks.run(c)
    if c.tier == "thorough" and not c.replay:
        locks.coqchk(c, "FV.Props.Properties_C12")
    sys.exit(c.finish(widen=lambda: locks.widen(c)))

main()
