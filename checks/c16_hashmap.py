"""C16 (hash_map part): every Value is constructed in raw storage, used only while alive and destroyed exactly
once; every block is given back exactly once with its allocation size; nothing survives ~hash_map."""
import sys
import vlib
from comp.hashmap import check as hashmap

def main():
    c = vlib.Check("C16")
    c.rule = hashmap.RULE + "; per op the allocator/lifetime event sequence of the real code is compared with the model's"
    c.trusted = ["Coq 8.16.1 kernel (coqc; vm_compute only in Examples)"] + hashmap.TRUSTED
    c.assumptions = ["hash is any total function; sizeof(chain *), sizeof(chain) are arbitrary (model parameters, measured for the tie)",
                     "insert only of absent keys (documented precondition)",
                     "the allocator returns a fresh block for every allocate (tracked by vh::TrackAlloc in the harness)"]
    c.kind_filter = lambda k: k in vlib.LIFETIME_KINDS     # functional kinds (and sanitizer crashes) are reported by C14
    c.prove(["C16_hashmap"])
    hashmap.run(c)
    sys.exit(c.finish())

main()
