"""C10: rcu_radixtree - lock-free readers never see partial state or lose present keys."""
import sys
import vlib
from comp.radixconc import check as radixconc

def main():
    c = vlib.Check("C10")
    c.rule = radixconc.RULE
    c.trusted = ["Coq 8.16.1 kernel (coqc; vm_compute in the Examples and in the generated obligations)"] + radixconc.TRUSTED
    c.assumptions = radixconc.ASSUMPTIONS
    c.kind_filter = lambda k: k not in vlib.LIFETIME_KINDS     # lifetime/allocation kinds belong to C16
    radixconc.regen()                  # Gen/RadixConcOrders.v must be current before the proof leg imports it
    c.prove(["C10"])
    radixconc.run(c)
    sys.exit(c.finish())

main()
