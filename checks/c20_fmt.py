"""C20 (fmt part): the fmt() format-string parser is memory-safe and total on arbitrary format strings."""
import sys
import vlib
from comp.fmt import check as fmt

def main():
    c = vlib.Check("C20")
    c.rule = fmt.RULE
    c.trusted = ["Coq 8.16.1 kernel (coqc; vm_compute in Examples)"] + fmt.TRUSTED
    c.assumptions = fmt.ASSUMPTIONS
    c.kind_filter = lambda k: k not in vlib.LIFETIME_KINDS
    c.prove(["C20_fmt"])
    fmt.run(c, "C20")
    sys.exit(c.finish())

main()
