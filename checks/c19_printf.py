"""C19 (printf part): printf_format + do_printf_* produce byte for byte what ISO C prescribes."""
import sys
import vlib
from comp.printf import check as printf

def main():
    c = vlib.Check("C19")
    c.rule = printf.RULE
    c.trusted = ["Coq 8.16.1 kernel (coqc; vm_compute in Examples and _refuted witnesses)"] + printf.TRUSTED
    c.assumptions = printf.ASSUMPTIONS
    c.prove(["C19_printf"])
    printf.run(c, "C19")
    sys.exit(c.finish())

main()
