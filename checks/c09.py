"""C09: rcu_radixtree is an exact map over all 64-bit keys, stable addresses, ordered iteration."""
import sys
import vlib
from comp.cxxleaf import check as cxxleaf
from comp.radix import check as radix

def main():
    c = vlib.Check("C09")
    c.rule = radix.RULE
    c.trusted = ["Coq 8.16.1 kernel (coqc; vm_compute only in Examples)"] + radix.TRUSTED
    c.assumptions = radix.ASSUMPTIONS
    c.kind_filter = lambda k: k not in vlib.LIFETIME_KINDS     # lifetime/allocation kinds belong to C16
    cxxleaf.run(c, ["radix"])      # leaf functions re-translated from the current source (translator tie)
    c.trusted = c.trusted + cxxleaf.TRUSTED
    c.prove(["C09"] + cxxleaf.prop_ids(["radix"]))
    radix.run(c)
    sys.exit(c.finish())

main()
