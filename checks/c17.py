"""C17: optional, expected, variant, tuple, manual_box are faithful value holders."""
import sys
import vlib
from comp.holders import check as holders

def main():
    c = vlib.Check("C17")
    c.rule = holders.RULE
    c.trusted = ["Coq 8.16.1 kernel (coqc; vm_compute only in Examples)"] + holders.TRUSTED
    c.assumptions = holders.ASSUMPTIONS
    c.kind_filter = lambda k: k not in vlib.LIFETIME_KINDS     # lifetime/allocation kinds belong to C16
    c.prove(["C17"])
    holders.run(c)
    sys.exit(c.finish())

main()
