"""C16 (radix part): every node deallocated once with its size, every value present at destruction destroyed once."""
import sys
import vlib
from comp.radix import check as radix

def main():
    c = vlib.Check("C16_radix")
    c.rule = radix.RULE
    c.trusted = ["Coq 8.16.1 kernel (coqc; vm_compute only in Examples)"] + radix.TRUSTED
    c.assumptions = radix.ASSUMPTIONS
    c.kind_filter = lambda k: k in vlib.LIFETIME_KINDS or k == "crash"
    c.prove(["C16_radix"])
    radix.run(c)
    sys.exit(c.finish())

main()
