"""C16 (holders part): optional, expected, variant, manual_box, tuple, unique_ptr, unique_memory
destroy what they construct exactly once and release every block exactly once."""
import sys
import vlib
from comp.holders import check as holders

def main():
    c = vlib.Check("C16_holders")
    c.rule = holders.RULE
    c.trusted = ["Coq 8.16.1 kernel (coqc; vm_compute only in Examples)"] + holders.TRUSTED
    c.assumptions = holders.ASSUMPTIONS
    c.kind_filter = lambda k: k in vlib.LIFETIME_KINDS or k == "crash"
    c.prove(["C16_holders"])
    holders.run(c)
    sys.exit(c.finish())

main()
