"""C16 (seq part): vector, small_vector, dyn_array, stack, frg::list destroy every element exactly once and return
every block exactly once.  Same scripts as C13; only the lifetime/allocation oracle kinds count here."""
import sys
import vlib
from comp.seq import check as seq

def main():
    c = vlib.Check("C16")
    c.rule = seq.RULE
    c.trusted = ["Coq 8.16.1 kernel (coqc; vm_compute only in Examples)"] + seq.TRUSTED
    c.assumptions = seq.ASSUMPTIONS
    c.kind_filter = lambda k: k in vlib.LIFETIME_KINDS or k == "crash"
    c.prove(["C16_seq"])
    seq.run(c)
    sys.exit(c.finish())

main()
