"""C02: slab pool realloc/free semantics, content stability, bounded footprint."""
import sys
import vlib
from comp.slab import check as slab

def main():
    c = vlib.Check("C02")
    c.rule = slab.RULE
    c.trusted = ["Coq 8.16.1 kernel (coqc; vm_compute only in Examples)"] + slab.TRUSTED
    c.assumptions = slab.ASSUMPTIONS
    c.prove()
    slab.run(c, "C02")
    sys.exit(c.finish())

main()
