"""C18: bitset, array, PRNGs and sort agree with their standard references."""
import sys
import vlib
from comp.bits import check as bits

def main():
    c = vlib.Check("C18")
    c.rule = bits.RULE
    c.trusted = ["Coq 8.16.1 kernel (coqc; vm_compute only in Examples)"] + bits.TRUSTED
    c.assumptions = bits.ASSUMPTIONS
    c.kind_filter = lambda k: k not in vlib.LIFETIME_KINDS
    c.prove()
    bits.run(c)
    sys.exit(c.finish())

main()
