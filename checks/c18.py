"""C18: bitset, array, PRNGs and sort agree with their standard references."""
import sys
import vlib
from comp.cxxleaf import check as cxxleaf
from comp.bits import check as bits

def main():
    c = vlib.Check("C18")
    c.rule = bits.RULE
    c.trusted = ["Coq 8.16.1 kernel (coqc; vm_compute only in Examples)"] + bits.TRUSTED
    c.assumptions = bits.ASSUMPTIONS
    c.kind_filter = lambda k: k not in vlib.LIFETIME_KINDS
    cxxleaf.run(c, ["bits"])      # leaf functions re-translated from the current source (translator tie)
    c.trusted = c.trusted + cxxleaf.TRUSTED
    c.prove(["C18"] + cxxleaf.prop_ids(["bits"]))
    bits.run(c)
    sys.exit(c.finish())

main()
