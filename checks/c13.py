"""C13: sequence containers equal their abstract sequence after any operation sequence."""
import sys
import vlib
from comp.seq import check as seq

def main():
    c = vlib.Check("C13")
    c.rule = seq.RULE
    c.trusted = ["Coq 8.16.1 kernel (coqc; vm_compute only in Examples)"] + seq.TRUSTED
    c.assumptions = seq.ASSUMPTIONS
    c.kind_filter = lambda k: k not in vlib.LIFETIME_KINDS     # lifetime/allocation kinds belong to C16
    c.prove()
    seq.run(c)
    sys.exit(c.finish())

main()
