"""C20, cmdline part: parse_arguments is memory-safe and total on arbitrary input."""
import sys
import vlib
from comp.cmdline import check as cmdl

C20_KINDS = {"crash", "UB", "oob", "timeout"}

def main():
    c = vlib.Check("C20")
    c.rule = cmdl.RULE
    c.trusted = ["Coq 8.16.1 kernel (coqc; vm_compute only in Examples)"] + cmdl.TRUSTED
    c.assumptions = cmdl.ASSUMPTIONS
    c.kind_filter = lambda k: k in C20_KINDS
    c.prove(["C20_cmdline"])
    cmdl.run(c)
    sys.exit(c.finish())

main()
