"""C20 (printf part): printf_format is memory-safe and total on arbitrary format strings."""
import sys
import vlib
from comp.printf import check as printf

def main():
    c = vlib.Check("C20")
    c.rule = printf.RULE
    c.trusted = ["Coq 8.16.1 kernel (coqc; vm_compute in Examples)"] + printf.TRUSTED
    c.assumptions = printf.ASSUMPTIONS
    c.prove(["C20_printf"])
    printf.run(c, "C20")
    sys.exit(c.finish())

main()
