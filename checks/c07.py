"""C07: interval tree -- overlap queries are exact after any insert/remove history."""
import sys
import vlib
from comp.interval import check as interval

def main():
    c = vlib.Check("C07")
    c.rule = interval.RULE
    c.trusted = ["Coq 8.16.1 kernel (coqc; vm_compute only in Examples)"] + interval.TRUSTED
    c.assumptions = interval.ASSUMPTIONS
    c.kind_filter = lambda k: k not in vlib.LIFETIME_KINDS     # lifetime/allocation kinds belong to C16 (the tree owns nothing)
    c.prove(['C07', 'C07_ptr'])    # C07_ptr: interval_tree on the pointer-level rbtree model: subtree_max fields and for_overlaps exact
    interval.run(c)
    sys.exit(c.finish())

main()
