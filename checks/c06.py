"""C06: red-black tree -- order, balance and neighbour links after any insert/remove."""
import sys
import vlib
from comp.rb import check as rb

def main():
    c = vlib.Check("C06")
    c.rule = rb.RULE
    c.trusted = ["Coq 8.16.1 kernel (coqc; vm_compute only in Examples)"] + rb.TRUSTED
    c.assumptions = rb.ASSUMPTIONS
    c.kind_filter = lambda k: k not in vlib.LIFETIME_KINDS     # lifetime/allocation kinds belong to C16 (rb owns nothing)
    c.prove(['C06', 'C06_ptr'])    # C06_ptr: pointer-level model of rbtree.hpp refines the functional core
    rb.run(c)
    sys.exit(c.finish())

main()
