"""C06: red-black tree -- order, balance and neighbour links after any insert/remove."""
import sys
import vlib
from comp.rb import check as rb
from comp.ptrgen import check as ptrgen

def main():
    c = vlib.Check("C06")
    c.rule = rb.RULE
    c.trusted = ["Coq 8.16.1 kernel (coqc; vm_compute only in Examples)"] + rb.TRUSTED
    c.assumptions = rb.ASSUMPTIONS
    c.kind_filter = lambda k: k not in vlib.LIFETIME_KINDS     # lifetime/allocation kinds belong to C16 (rb owns nothing)
    ptrgen.run(c, ["rb"])          # pointer-level definitions re-translated from the current source (translator tie)
    c.trusted = c.trusted + ptrgen.TRUSTED
    # C06_ptr: pointer-level model of rbtree.hpp refines the functional core; TIE_ptr_rb: the regenerated definitions equal it
    c.prove(['C06', 'C06_ptr'] + ptrgen.prop_ids(["rb"]))
    rb.run(c)
    sys.exit(c.finish())

main()
