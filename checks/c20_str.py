"""C20, to_number part: to_number<T> is memory-safe and total on arbitrary bytes."""
import sys
import vlib
from comp.str import check as strc

C20_KINDS = {"crash", "UB", "oob", "timeout"}

def main():
    c = vlib.Check("C20")
    c.rule = ("to_number<T>, 8 integer types, on exact-size buffers: digit strings around every type's maximum, a non-digit at "
              "every position, long digit runs; every byte string of length <= 3 (quick) / <= 6 (thorough) over {'0','9','2','a'}; "
              "non-trivial = distinct script whose view ends exactly at the end of its buffer")
    c.trusted = ["Coq 8.16.1 kernel (coqc; vm_compute only in Examples)"] + strc.TRUSTED
    c.assumptions = ["the view handed to to_number lies inside its buffer"]
    c.kind_filter = lambda k: k in C20_KINDS
    c.prove(["C20_str"])
    strc.run(c, parts=("number",))
    sys.exit(c.finish())

main()
