"""C15: strings and string views denote exactly their character sequence, in bounds."""
import sys
import vlib
from comp.cxxleaf import check as cxxleaf
from comp.str import check as strc

def main():
    c = vlib.Check("C15")
    c.rule = strc.RULE
    c.trusted = ["Coq 8.16.1 kernel (coqc; vm_compute only in Examples)"] + strc.TRUSTED
    c.assumptions = strc.ASSUMPTIONS
    c.kind_filter = lambda k: k not in vlib.LIFETIME_KINDS     # lifetime/allocation kinds belong to C16
    cxxleaf.run(c, ["str"])      # leaf functions re-translated from the current source (translator tie)
    c.trusted = c.trusted + cxxleaf.TRUSTED
    c.prove(["C15"] + cxxleaf.prop_ids(["str"]))
    strc.run(c)
    sys.exit(c.finish())

main()
