"""C20: the four parsers (printf format, fmt format, kernel command line, to_number) are memory-safe and total."""
import vlib, merged
PARTS = [("printf", "printf"), ("fmt", "fmt"), ("cmdline", "cmdline"), ("str", "str")]
merged.run_merged("C20", PARTS, kind_filter=lambda k: k not in vlib.LIFETIME_KINDS,
                  rule_prefix="malformed-input streams of each parser in exact-size buffers under ASan/UBSan; ")
