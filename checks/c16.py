"""C16: each element destroyed exactly once, each allocation returned exactly once — over all owning types."""
import vlib, merged
PARTS = [("hashmap", "hashmap"), ("seq", "seq"), ("str", "str"), ("holders", "holders"), ("radix", "radix")]
merged.run_merged("C16", PARTS, kind_filter=lambda k: k in vlib.LIFETIME_KINDS or k == "crash",
                  rule_prefix="union of the owning components' op-script generators, elements of a lifetime-registering type, block-tracking allocator; ")
