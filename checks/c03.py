"""C03: slab pool policy protocol: map/unmap pairing, page accounting, poisoning."""
import sys
import vlib
from comp.slab import check as slab

def main():
    c = vlib.Check("C03")
    c.rule = slab.RULE
    c.trusted = ["Coq 8.16.1 kernel (coqc; vm_compute only in Examples)"] + slab.TRUSTED
    c.assumptions = slab.ASSUMPTIONS
    c.prove()
    slab.run(c, "C03")
    sys.exit(c.finish())

main()
