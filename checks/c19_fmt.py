"""C19 (fmt / logger part): fmt() renders its {}-specs as documented and echoes malformed or out-of-range
specs unchanged; all text reaches the sink complete and in order through stack_buffer_logger's chunking."""
import sys
import vlib
from comp.fmt import check as fmt

def main():
    c = vlib.Check("C19")
    c.rule = fmt.RULE
    c.trusted = ["Coq 8.16.1 kernel (coqc; vm_compute in Examples)"] + fmt.TRUSTED
    c.assumptions = fmt.ASSUMPTIONS
    c.kind_filter = lambda k: k not in vlib.LIFETIME_KINDS
    c.prove(["C19_fmt"])
    fmt.run(c, "C19")
    sys.exit(c.finish())

main()
