"""C08: pairing_heap -- top is always a maximum; pop/remove take out exactly one element; hooks are reset.
Properties_C08.v: theorems about the functional model; Properties_C08_ptr.v: the pointer-level transliteration of
pairing_heap.hpp refines the functional model (so the theorems hold of the pointer surgery itself)."""
import sys
import vlib
from comp.pairing import check as pairing
from comp.ptrgen import check as ptrgen

def main():
    c = vlib.Check("C08")
    c.rule = pairing.RULE
    c.trusted = ["Coq 8.16.1 kernel (coqc; vm_compute only in Examples)"] + pairing.TRUSTED
    c.assumptions = pairing.ASSUMPTIONS
    c.kind_filter = lambda k: k not in vlib.LIFETIME_KINDS     # pairing_heap owns nothing; no lifetime kinds are produced
    ptrgen.run(c, ["pairing"])    # pointer-level definitions re-translated from the current source (translator tie)
    c.trusted = c.trusted + ptrgen.TRUSTED
    c.prove(["C08", "C08_ptr"] + ptrgen.prop_ids(["pairing"]))
    pairing.run(c)
    sys.exit(c.finish())

main()
