"""TIE_PTR: pointer-level models regenerated from /repo's current source (clang AST -> Gallina over an explicit heap) equal the
hand-written pointer-level models of pairing_heap / hash_map / rbtree (proved), which refine the functional models."""
import sys
import vlib
from comp.ptrgen import check as ptrgen

def main():
    c = vlib.Check("TIE_PTR")
    c.rule = ptrgen.RULE
    c.trusted = ["Coq 8.16.1 kernel (coqc; vm_compute only in Examples)"] + ptrgen.TRUSTED
    c.assumptions = ptrgen.ASSUMPTIONS
    parts = ptrgen.available_parts()
    ptrgen.run(c, parts)
    c.checker_cmd = "make -C coq " + " ".join("Props/Properties_%s.vo" % p for p in ptrgen.prop_ids(parts)) + " (coqc 8.16.1) + Print Assumptions"
    c.prove(ptrgen.prop_ids(parts))
    sys.exit(c.finish())

main()
