"""C14: hash_map holds exactly the reference key->value association."""
import os, sys
import vlib
from comp.hashmap import gen

def crossed_rehash(cid, lines, ri):
    n_ins = sum(1 for l in lines if l[0] in "ix")
    if n_ins <= 10:
        return None
    return ("|".join(lines))   # distinct script that crossed at least one rehash

def main():
    c = vlib.Check("C14")
    c.rule = ("seeded op scripts (insert/operator[]=/get+find/remove/iterate/size) over 5 hash functions "
              "(identity, constant, mod 3, frg::hash<uint64_t>, high bits) and key spaces 8..2^40, biased to "
              "cross rehash thresholds; non-trivial = distinct script with more than 10 insertions (>= 1 rehash beyond the first)")
    c.trusted = ["Coq 8.16.1 kernel (coqc; vm_compute not used by the C14 proofs)", "extraction: ExtrOcamlBasic only; OCaml 4.13.1; comp/hashmap/driver.ml",
                 "correspondence harness comp/hashmap/harness.cpp (g++ -fsanitize=address,undefined, -fno-access-control)",
                 "oracle: std::unordered_map, lifetime/allocation registries in lib/vharness.hpp",
                 "modelled, not verified: chain pointers as lists, placement new/destroy (checked by the registries)"]
    c.assumptions = ["hash is any total function (Section variable)", "insert only of absent keys (documented precondition)",
                     "keys compared with ==; element copy/move behave as value transfer"]
    c.prove()
    okm, _ = vlib.coq_make(["HashMap/HashMapExtract.vo"])
    okd, drv, dlog = vlib.ocaml_build("hashmap_m", ["hashmap_model"], os.path.join(vlib.ROOT, "comp/hashmap/driver.ml"))
    okh, har, hlog = vlib.cxx_build("hashmap_h", os.path.join(vlib.ROOT, "comp/hashmap/harness.cpp"))
    if not (okm and okd):
        c.broken.append("model extraction/driver build failed: " + dlog[-500:])
    if not okh:
        c.broken.append("harness does not compile against /repo: " + hlog[-1500:])
        return c.finish()
    if c.replay:
        cases = vlib.read_replay(c.replay)
    else:
        cases = gen.corpus()
        n = 600 if c.tier == "quick" else 6000
        for i in range(n):
            cases.append(("g%d" % i, gen.gen_case(c.rng, c.rng.choice([12, 30, 60, 150, 400]))))
        if c.tier == "thorough":
            cases += gen.exhaustive_small(4)
    for _, ls in cases:
        c.count("ops", len(ls)); c.count("hash_kind_" + ls[0].split()[-1])
    impl = vlib.run_cases(har, cases)
    model = vlib.run_cases(drv, cases) if okd else {}
    c.compare(cases, impl, model, crossed_rehash)
    sys.exit(c.finish())

main()
