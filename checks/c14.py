"""C14: hash_map holds exactly the reference key->value association.
Properties_C14.v: theorems about the chain-level model; Properties_C14_ptr.v: the pointer-level transliteration of
hash_map.hpp refines the chain-level model (so the theorems hold of the pointer code itself)."""
import sys
import vlib
from comp.hashmap import check as hashmap
from comp.ptrgen import check as ptrgen

def main():
    c = vlib.Check("C14")
    c.rule = hashmap.RULE
    c.trusted = ["Coq 8.16.1 kernel (coqc; vm_compute only in Examples)"] + hashmap.TRUSTED
    c.assumptions = ["hash is any total function OF THE KEY VALUE, fixed when the map is constructed (Section variable): the map uses its own "
                     "copy of the hasher, and the hasher gives one result per key value whatever C++ integer type get<KeyCompatible>() is "
                     "handed -- both are checked by the harness (caller's hasher re-seeded / temporary; get() through int, short, long)",
                     "insert only of absent keys (documented precondition)",
                     "keys compared with ==; element copy/move behave as value transfer"]
    c.kind_filter = lambda k: k not in vlib.LIFETIME_KINDS     # lifetime/allocation kinds belong to C16
    ptrgen.run(c, ["hashmap"])    # pointer-level definitions re-translated from the current source (translator tie)
    c.trusted = c.trusted + ptrgen.TRUSTED
    c.prove(["C14", "C14_ptr"] + ptrgen.prop_ids(["hashmap"]))
    hashmap.run(c)
    sys.exit(c.finish())

main()
