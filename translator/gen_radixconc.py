#!/usr/bin/env python3
"""Regenerates coq/Gen/RadixConcOrders.v from the CURRENT source of $VERIF_REPO/include/frg/rcu_radixtree.hpp (C10).

From the clang JSON AST of find / find_or_insert / erase it extracts
  * the memory order of every atomic access site  -> `actual : orders` (coq/RadixConc/ConcModel.v), and
  * the KINDS of the writer's writes in program order, per case of find_or_insert and for erase:
    non-atomic field assignments (x->prefix/depth/parent = ...), placement new, atomic stores, with the object
    written (n = new entry node, r = new link node, anything else = a node that already existed)
and writes obligations closed by vm_compute:
    actual_sufficient      orders_sufficient actual = true
    actual_embedded        the orders the sequential model (Radix/RadixModel.v) embeds in its micro-steps are these
    skel_*_ok              the kinds/program order of the model's micro-step programs (on witness states) are the source's
    skel_*_no_destroy      erase / find_or_insert / find contain no destructor call (p->~T(), std::destroy_at, frg::destruct,
                           delete): the library never ends the lifetime of a value that readers can still reach
Exits non-zero on any AST shape it does not recognise."""
import json, os, subprocess, sys, tempfile

ROOT = os.path.dirname(os.path.dirname(os.path.abspath(__file__)))
REPO = os.environ.get("VERIF_REPO", "/repo")
OUT = os.path.join(ROOT, "coq", "Gen", "RadixConcOrders.v")
ORDERS = {"memory_order_relaxed": "Relaxed", "memory_order_acquire": "Acquire", "memory_order_release": "Release"}


def die(code, msg):
    sys.stderr.write("gen_radixconc: " + msg + "\n")
    sys.exit(code)


def dump(fn):
    with tempfile.TemporaryDirectory() as d:
        tu = os.path.join(d, "tu.cpp")
        open(tu, "w").write("#include <frg/rcu_radixtree.hpp>\n")
        p = subprocess.run(["clang++", "-std=c++20", "-fsized-deallocation", "-I" + os.path.join(REPO, "include"),
                            "-fsyntax-only", "-Xclang", "-ast-dump=json", "-Xclang", "-ast-dump-filter=" + fn, tu],
                           capture_output=True, text=True, timeout=300)
    if p.returncode != 0:
        die(2, "clang failed on rcu_radixtree.hpp: " + p.stderr[-400:])
    txt, dec, i, objs = p.stdout, json.JSONDecoder(), 0, []
    while i < len(txt):
        j = txt.find("{", i)
        if j < 0:
            break
        if j > 0 and txt[j - 1] not in "\n":
            k = txt.rfind("\n", 0, j)
            if txt[k + 1:j].strip():
                i = txt.find("\n", j) + 1
                if i == 0:
                    break
                continue
        o, i = dec.raw_decode(txt, j)
        objs.append(o)
    return objs


def kids(n):
    return [c for c in (n.get("inner") or []) if isinstance(c, dict)]


def walk(n, f):
    f(n)
    for c in kids(n):
        walk(c, f)


def strip(n):
    while n.get("kind") in ("ImplicitCastExpr", "ParenExpr", "ExprWithCleanups", "CXXStaticCastExpr") and kids(n):
        n = kids(n)[-1]
    return n


def base_var(n):
    """name of the variable a member expression x->f / x->f[i] starts from"""
    n = strip(n)
    k = n.get("kind")
    if k == "DeclRefExpr":
        return (n.get("referencedDecl") or {}).get("name")
    if k == "MemberExpr" and n.get("name") == "_root":
        return "_root"
    if k in ("CXXDependentScopeMemberExpr", "ArraySubscriptExpr", "MemberExpr", "UnaryOperator") and kids(n):
        return base_var(kids(n)[0])
    return None


def who(var):
    return {"n": "NewE", "r": "NewL"}.get(var, "Old")


def atomic_call(n):
    """(kind, cell, var, order) of a load/store call on one of the tree's atomics, else None"""
    if n.get("kind") != "CallExpr":
        return None
    inner = kids(n)
    if not inner or inner[0].get("kind") != "CXXDependentScopeMemberExpr" or inner[0].get("member") not in ("load", "store"):
        return None
    obj = strip(kids(inner[0])[0]) if kids(inner[0]) else {}
    cell = None
    if obj.get("kind") == "MemberExpr" and obj.get("name") == "_root":
        cell = "root"
    elif obj.get("kind") == "CXXDependentScopeMemberExpr" and obj.get("member") == "mask":
        cell = "mask"
    elif obj.get("kind") == "ArraySubscriptExpr":
        b = strip(kids(obj)[0]) if kids(obj) else {}
        if b.get("kind") == "CXXDependentScopeMemberExpr" and b.get("member") == "links":
            cell = "links"
    if cell is None:
        return None
    orders = []
    for a in inner[1:]:
        walk(a, lambda m: orders.append(m["referencedDecl"]["name"]) if m.get("kind") == "DeclRefExpr"
             and (m.get("referencedDecl") or {}).get("name", "").startswith("memory_order_") else None)
    if len(orders) != 1 or orders[0] not in ORDERS:
        die(4, "an atomic %s on %s without exactly one modelled memory order: %s" % (inner[0]["member"], cell, orders))
    return (inner[0]["member"], cell, base_var(obj), ORDERS[orders[0]])


def events(n, out, mult=1):
    """write events of a statement subtree in source order: ('F', who, field) | ('N', who) | ('S', cell, who, order) | ('L', cell, order)"""
    k = n.get("kind")
    if k == "ForStmt":
        lits = []
        cond = kids(n)[2] if len(kids(n)) > 2 else {}
        walk(cond, lambda m: lits.append(m.get("value")) if m.get("kind") == "IntegerLiteral" else None)
        if lits != ["16"]:
            die(7, "a for loop whose bound is not the literal 16: %s" % lits)
        body = kids(n)[-1]
        events(body, out, mult * 16)
        return
    if k in ("WhileStmt", "DoStmt"):
        # the d++ loop of case 2 (no accesses to the tree): check that a nested loop contains no writes
        sub = []
        for c in kids(n):
            events(c, sub, mult)
        if [e for e in sub if e[0] != "L"]:
            die(7, "a nested loop that writes to the tree")
        out.extend(sub)
        return
    a = atomic_call(n)
    if a:
        kind, cell, var, order = a
        if kind == "store":
            out.extend([("S", cell, who(var), order)] * mult)
        else:
            out.append(("L", cell, order))
        return
    if k == "BinaryOperator" and n.get("opcode") == "=":
        lhs = strip(kids(n)[0])
        if lhs.get("kind") == "CXXDependentScopeMemberExpr" and lhs.get("member") in ("prefix", "depth", "parent"):
            out.extend([("F", who(base_var(lhs)), lhs["member"])] * mult)
            events(kids(n)[1], out, mult)
            return
        if lhs.get("kind") == "CXXDependentScopeMemberExpr":
            die(7, "assignment to an unexpected member %s" % lhs.get("member"))
    if k in ("CompoundAssignOperator", "UnaryOperator") and kids(n):
        t = strip(kids(n)[0])
        if t.get("kind") == "CXXDependentScopeMemberExpr" and t.get("member") in ("prefix", "depth", "parent", "mask", "links"):
            die(7, "a compound update of %s" % t.get("member"))
    # the end of a value's lifetime: p->~T(), std::destroy_at(p), frg::destruct(..), delete
    dname = n.get("name") or n.get("member") or (n.get("referencedDecl") or {}).get("name") or ""
    if k in ("CXXPseudoDestructorExpr", "CXXDeleteExpr") or \
       (k in ("CXXDependentScopeMemberExpr", "MemberExpr") and dname.startswith("~")) or \
       (k in ("UnresolvedLookupExpr", "DeclRefExpr", "UnresolvedMemberExpr") and dname in ("destroy_at", "destroy", "destroy_n", "destruct", "destruct_n")):
        v = base_var(kids(n)[0]) if kids(n) else None
        out.extend([("D", who(v))] * mult)
        return
    if k == "CXXNewExpr":
        vars_ = []
        walk(n, lambda m: vars_.append(base_var(m)) if m.get("kind") == "CXXDependentScopeMemberExpr" and m.get("member") == "entries" else None)
        if len(vars_) != 1:
            die(7, "a new-expression that is not a placement new into entries[]")
        out.extend([("N", who(vars_[0]))] * mult)
        return
    for c in kids(n):
        events(c, out, mult)


def function(fn):
    cands = [o for o in dump(fn) if o.get("name") == fn and '"_root"' in json.dumps(o)]
    if len(cands) != 1:
        die(3, "expected exactly one definition of rcu_radixtree::%s using _root, found %d" % (fn, len(cands)))
    f = cands[0]
    if f.get("kind") == "FunctionTemplateDecl":
        ms = [c for c in kids(f) if c.get("kind") == "CXXMethodDecl" and c.get("name") == fn]
        if len(ms) != 1:
            die(3, "%s: template without exactly one method pattern" % fn)
        f = ms[0]
    return f


def top_while(f):
    body = [c for c in kids(f) if c.get("kind") == "CompoundStmt"]
    if len(body) != 1:
        die(3, "%s: no body" % f.get("name"))
    ws = [c for c in kids(body[0]) if c.get("kind") == "WhileStmt"]
    if len(ws) != 1:
        die(3, "%s: expected exactly one top-level while(true) loop" % f.get("name"))
    pre = []
    for c in kids(body[0]):
        if c is ws[0]:
            break
        events(c, pre)
    wb = [c for c in kids(ws[0]) if c.get("kind") == "CompoundStmt"]
    if len(wb) != 1:
        die(3, "%s: while without a compound body" % f.get("name"))
    return pre, kids(wb[0])


def coq_kind(e):
    if e[0] == "F":
        return "KField %s %s" % (e[1], {"prefix": "FPrefix", "depth": "FDepth", "parent": "FParent"}[e[2]])
    if e[0] == "N":
        return "KNew %s" % e[1]
    if e[0] == "D":
        return "KDestroy %s" % e[1]
    if e[0] == "S":
        return {"mask": "KMask %s" % e[2], "links": "KLink %s" % e[2], "root": "KRoot"}[e[1]]
    raise KeyError(e)


def main():
    # ---- find: three acquire loads
    pre_f, stmts_f = top_while(function("find"))
    ev = list(pre_f)
    for s_ in stmts_f:
        events(s_, ev)
    loads = {e[1]: e[2] for e in ev if e[0] == "L"}
    if [e[:2] for e in ev if e[0] != "D"] != [("L", "root"), ("L", "mask"), ("L", "links")]:
        die(6, "find: accesses changed: %s" % ev)
    # ---- find_or_insert: the three cases are the three if statements of the loop body
    pre, stmts = top_while(function("find_or_insert"))
    if [e[:2] for e in pre] != [("L", "root")]:
        die(6, "find_or_insert: unexpected accesses before the loop: %s" % pre)
    ifs = [s for s in stmts if s.get("kind") == "IfStmt"]
    others = []
    for s in stmts:
        if s.get("kind") != "IfStmt":
            events(s, others)
    if len(ifs) != 3 or others:
        die(6, "find_or_insert: expected three if statements (cases 1-3) in the loop body, found %d (+%d stray accesses)" % (len(ifs), len(others)))
    cases = []
    for s in ifs:
        evs = []
        for c in kids(s)[1:]:
            events(c, evs)
        cases.append(evs)
    c1 = [e for e in cases[0] if e[0] != "L"]
    c2 = [e for e in cases[1] if e[0] != "L"]
    c3 = [e for e in cases[2] if e[0] != "L"]
    if [e[0] for e in cases[0] if e[0] == "L"] or [e[0] for e in cases[1] if e[0] == "L"]:
        die(6, "find_or_insert: an atomic load inside case 1 / case 2")
    st1 = [e for e in c1 if e[0] == "S"]
    st2 = [e for e in c2 if e[0] == "S"]
    st3 = [e for e in c3 if e[0] == "S"]
    if [e[1] for e in st1] != ["mask", "links", "root"]:
        die(6, "case 1: atomic stores changed: %s" % st1)
    if [e[1] for e in st2] != ["mask"] + ["links"] * 19 + ["root"]:
        die(6, "case 2: atomic stores changed: %s" % [e[1] for e in st2])
    if [e[1] for e in st3] != ["mask"]:
        die(6, "case 3: atomic stores changed: %s" % st3)
    if len(set(e[3] for e in st2[1:17])) != 1:
        die(6, "case 2: the 16 stores of the loop do not share one order")
    # ---- erase
    pre_e, stmts_e = top_while(function("erase"))
    eve = []
    for s in stmts_e:
        events(s, eve)
    ste = [e for e in eve if e[0] == "S"]
    pre_d = [e for e in pre_e if e[0] == "D"]
    eve = pre_d + eve
    if [e[1] for e in ste] != ["mask"] or [e for e in eve if e[0] in ("F", "N")]:
        die(6, "erase: writes changed: %s" % eve)

    rec = [loads["root"], loads["mask"], loads["links"],
           st1[0][3], st1[1][3], st1[2][3],
           st2[0][3], st2[1][3], st2[17][3], st2[18][3], st2[19][3], st2[20][3],
           st3[0][3], ste[0][3]]
    lst = lambda evs: "[" + "; ".join(coq_kind(e) for e in evs) + "]"
    os.makedirs(os.path.dirname(OUT), exist_ok=True)
    with open(OUT, "w") as f:
        f.write("(* GENERATED by translator/gen_radixconc.py from the clang AST of $REPO/include/frg/rcu_radixtree.hpp -- do not edit.\n"
                "   Memory orders per access site (find: root, mask, link; case 1: mask, link, root; case 2: mask, loop, links[k], links[s],\n"
                "   link, root; case 3: mask; erase: mask) and the kinds of the writer's writes in program order. *)\n"
                "From Coq Require Import List NArith.\n"
                "From FV Require Import Radix.RadixModel RadixConc.ConcModel RadixConc.ConcSkel.\nImport ListNotations.\n\n")
        f.write("Definition actual : orders := mk_orders %s.\n\n" % " ".join(rec))
        f.write("Definition src_c1 : list wkind := %s.\n" % lst(c1))
        f.write("Definition src_c2 : list wkind := %s.\n" % lst(c2))
        f.write("Definition src_c3 : list wkind := %s.\n" % lst(c3))
        f.write("Definition src_erase : list wkind := %s.\n" % lst([e for e in eve if e[0] != "L"]))
        f.write("Definition src_find : list wkind := %s.\n\n" % lst([e for e in ev if e[0] != "L"]))
        obl = [
            ("actual_sufficient", "orders_sufficient actual = true"),
            ("actual_embedded", "orders_embedded actual = true"),
            ("skel_c1_link_ok", "kinds_of wit_c1_link = drop_root src_c1"),
            ("skel_c1_root_ok", "kinds_of wit_c1_root = drop_last_link src_c1"),
            ("skel_c2_link_ok", "kinds_of wit_c2_link = drop_root src_c2"),
            ("skel_c2_root_ok", "kinds_of wit_c2_root = drop_last_link src_c2"),
            ("skel_c3_ok", "kinds_of wit_c3 = src_c3"),
            ("skel_erase_ok", "kinds_of wit_erase = src_erase"),
            ("skel_erase_no_destroy", "has_destroy src_erase = false"),
            ("skel_foi_no_destroy", "has_destroy (src_c1 ++ src_c2 ++ src_c3) = false"),
            ("skel_find_no_destroy", "has_destroy src_find = false"),
        ]
        for name, stmt in obl:
            f.write("Lemma %s : %s.\nProof. vm_compute. reflexivity. Qed.\n" % (name, stmt))
    print("gen_radixconc: wrote %s (%d obligations)" % (os.path.relpath(OUT, ROOT), len(obl)))


main()
