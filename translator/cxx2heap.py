#!/usr/bin/env python3
"""cxx2heap: translator from a restricted POINTER-MANIPULATING C++ subset to Gallina over an explicit heap, driven by the
clang JSON AST of a concrete instantiation of the class template (sibling of cxx2coq.py, which does integer leaf code).

Library use (translator/gen_ptrmodels.py):  Part(cfg, repo).translate() -> (text of a .v file, [(function, ok, reason)]).

The generated definitions do not bring their own heap: they are written over the state record, the outcome type and the
accessor functions of the hand-written pointer-level model they are compared with.  The binding of C++ names to those
(`h(x).child` -> rd_child / wr_child, `_root` -> rd_root / wr_root, the user's Compare -> call_compare, ...) is the
`cfg` of the part; the bound names are defined in coq/PtrGen/Bind_<part>.v in terms of the model's own accessors.

Normal form of the generated code (one Gallina definition per C++ function, one Fixpoint per loop)
  * state: ONE variable `s` of the model's state type, threaded through every write (shadowed); a function that never
    writes returns only its value.
  * every pointer is nullable (`option id`); EVERY dereference goes through a bound reader/writer that yields the
    null-dereference outcome for None.  Nothing is assumed non-null.
  * expressions are evaluated left to right in monadic style; `&&` / `||` short-circuit; operands whose order the
    standard leaves open are accepted only when no operand writes a location class another one touches.
  * `FRG_ASSERT(e)`: `if e then <rest> else <assert outcome>`.
  * if/else: when both arms fall through they are joined through the tuple (state if written, assigned outer locals);
    when one arm always leaves (return/break/continue) the rest of the block goes into the other arm.
  * while/for: `Fixpoint <fn>_loop<k> [fuel0] fuel <read-only locals> s <carried locals>`; the condition is evaluated
    first, then one unit of fuel is taken per iteration; no fuel left = the out-of-fuel outcome.  Loops and calls
    inside a loop body get the function's entry fuel `fuel0`.
  * a self-recursive function is a Fixpoint on fuel: one unit per call, checked on entry.
  * a loop whose body contains `return` yields PtrCtl.ctl: `Ret r` (the function returned r) | `Norm carried`.
Subset, semantics choices, trusted base: comp/ptrgen/NOTES.md.
Anything outside the subset raises Unsupported (message names the AST node and source line); nothing is guessed."""
import os, re, sys

sys.path.insert(0, os.path.dirname(os.path.abspath(__file__)))
import cxx2coq
from cxx2coq import Unsupported, fail, where

REPO = os.environ.get("VERIF_REPO", "/repo")


# ------------------------------------------------------------------------------------------------ IR
class Var:
    def __init__(self, did, cname, gname, ty):
        self.did, self.cname, self.gname, self.ty = did, cname, gname, ty


class X:
    """IR expression.  op: var | const | prim | not | and | or | call | cond
       tuple: a pair/tuple value (iterator objects)
       prim kinds:  pure   `g args`            : T          (no state)
                    alloc  `g s args`          : state * T  (writes, cannot fail: allocation of a fresh id)
                    mpure  `g args`            : pres T     (no state, can fail: access to an array VALUE)
                    get    `g s args`          : T          (reads the state, cannot fail)
                    read   `g s args`          : pres T     (reads the state, can fail)
                    set    `g s args`          : state      (writes, cannot fail)
                    write  `g s args`          : pres state
                    rw     `g s args`          : pres (state * T)"""
    def __init__(self, op, ty, node=None, **kw):
        self.op, self.ty, self.node = op, ty, node
        self.__dict__.update(kw)


def subexprs(e):
    if e.op in ("prim", "call"):
        return list(e.args)
    if e.op == "not":
        return [e.a]
    if e.op in ("and", "or"):
        return [e.a, e.b]
    if e.op == "cond":
        return [e.c, e.a, e.b]
    if e.op == "tuple":
        return list(e.args)
    return []


def x_monadic(e):
    """does evaluating e need a bind (can fail or writes)?"""
    if e.op == "prim" and e.kind in ("read", "write", "rw", "mpure"):
        return True
    if e.op == "call":
        return True
    return any(x_monadic(c) for c in subexprs(e))


def x_writes(e):
    if e.op == "prim" and e.kind in ("set", "write", "rw", "alloc"):
        return True
    if e.op == "call" and e.fn.writes_state():
        return True
    return any(x_writes(c) for c in subexprs(e))


def x_effects(e):
    """(reads, writes): sets of location classes"""
    r, w = set(), set()
    if e.op == "prim":
        r |= set(e.reads)
        w |= set(e.writes)
    if e.op == "call":
        fr, fw = e.fn.effects()
        r |= fr
        w |= fw
    for c in subexprs(e):
        cr, cw = x_effects(c)
        r |= cr
        w |= cw
    return r, w


def x_vars(e, acc):
    if e.op == "var":
        acc.add(e.var.did)
    for c in subexprs(e):
        x_vars(c, acc)


def x_calls(e, acc):
    if e.op == "call":
        acc.append(e.fn)
    for c in subexprs(e):
        x_calls(c, acc)


class S:
    """IR statement.  op: decl | assign | eval | if | loop | return | break | continue | assert | block | unreachable"""
    def __init__(self, op, node=None, **kw):
        self.op, self.node = op, node
        self.__dict__.update(kw)


def s_children(st):
    if st.op == "block":
        return list(st.body)
    if st.op == "if":
        return [st.a, st.b]
    if st.op == "loop":
        return [st.init, st.body, st.inc]
    return []


def s_exprs(st):
    if st.op in ("decl", "assign", "eval", "return", "assert"):
        return [st.e] if st.e is not None else []
    if st.op in ("if", "loop"):
        return [st.c]
    return []


def walk_stmts(st):
    yield st
    for c in s_children(st):
        for y in walk_stmts(c):
            yield y


def s_assigned(st, acc):
    """decl ids of locals assigned (not declared) anywhere inside st"""
    for x in walk_stmts(st):
        if x.op == "assign":
            acc.add(x.var.did)


def s_declared(st, acc):
    for x in walk_stmts(st):
        if x.op == "decl":
            acc.add(x.var.did)


def s_used(st, acc):
    for x in walk_stmts(st):
        for e in s_exprs(x):
            x_vars(e, acc)
        if x.op == "assign":
            acc.add(x.var.did)


def s_writes(st):
    return any(x_writes(e) for x in walk_stmts(st) for e in s_exprs(x))


def s_calls(st):
    acc = []
    for x in walk_stmts(st):
        for e in s_exprs(x):
            x_calls(e, acc)
    return acc


def s_has(st, op, stop_at_loop=False):
    if st.op == op:
        return True
    if stop_at_loop and st.op == "loop":
        return False
    return any(s_has(c, op, stop_at_loop) for c in s_children(st))


def s_leaves(st):
    """True iff control never falls out of the end of st (it always returns / breaks / continues / is unreachable)"""
    if st.op in ("return", "break", "continue", "unreachable"):
        return True
    if st.op == "block":
        return any(s_leaves(c) for c in st.body)
    if st.op == "if":
        return s_leaves(st.a) and s_leaves(st.b)
    return False


def s_may_leave(st, in_loop=False):
    """contains a return, or a break/continue that belongs to an enclosing loop"""
    if st.op == "return" or st.op == "unreachable":
        return True
    if st.op in ("break", "continue"):
        return not in_loop
    if st.op == "loop":
        return any(s_may_leave(c, True) for c in s_children(st))
    return any(s_may_leave(c, in_loop) for c in s_children(st))


# ------------------------------------------------------------------------------------------------ functions
class Fn:
    def __init__(self, part, decl, cname, gname):
        self.part, self.decl, self.cname, self.gname = part, decl, cname, gname
        self.params, self.ret_ty, self.body = [], None, None
        self.recursive = False
        self.done = False
        self._fx = None

    def callees(self):
        return [f for f in s_calls(self.body) if f is not self]

    def writes_state(self):
        if not self.done:          # only a self call can see an unfinished function
            return self._writes_guess
        return self._writes

    def effects(self):
        if not self.done:
            return (set(), set())  # the direct effects of the body are added where the self call is checked
        return self._fx

    def has_fuel(self):
        if not self.done:
            return True
        return self._fuel

    def finish(self):
        self._writes_guess = False        # least fixpoint: a self call writes only if the rest of the body does
        self._writes = s_writes(self.body)
        r, w = set(), set()
        for x in walk_stmts(self.body):
            for e in s_exprs(x):
                er, ew = x_effects(e)
                r |= er
                w |= ew
        self._fx = (r, w)
        self._fuel = self.recursive or s_has(self.body, "loop") or any(f.has_fuel() for f in self.callees())
        self.done = True


# ------------------------------------------------------------------------------------------------ helpers for text
def tup_val(names):
    if not names:
        return "tt"
    if len(names) == 1:
        return names[0]
    return "(" + ", ".join(names) + ")"


def tup_pat(names):
    if not names:
        return "_"
    if len(names) == 1:
        return names[0]
    return "'(" + ", ".join(names) + ")"


def tup_ty(tys):
    if not tys:
        return "unit"
    if len(tys) == 1:
        return tys[0]
    return "(" + " * ".join(tys) + ")"


def ind(txt, n=2):
    pad = " " * n
    return "\n".join(pad + l if l else l for l in txt.split("\n"))


def paren(t):
    t = t.strip()
    if re.match(r"^[\w.']+$", t) or (t.startswith("(") and matching(t)):
        return t
    return "(" + t + ")"


def matching(t):
    d = 0
    for i, ch in enumerate(t):
        d += ch == "("
        d -= ch == ")"
        if d == 0 and i < len(t) - 1:
            return False
    return d == 0


def decl_line(d):
    loc = d.get("loc", {})
    for l in (loc, loc.get("expansionLoc", {}), loc.get("spellingLoc", {})):
        if "line" in l:
            return l["line"]
    return d.get("_line")


def annotate_begin_lines(o, st):
    """clang's JSON prints a "line" only when it differs from the line of the location printed before it; decode that in
    print order and give every node `_line` = the line where it BEGINS (for code coming out of a macro: the line of the
    macro invocation).  st = [last line printed]"""
    def simple(l):
        if isinstance(l, dict) and "line" in l:
            st[0] = l["line"]
        return st[0]

    def loc(l):
        if not isinstance(l, dict):
            return st[0]
        if "spellingLoc" in l or "expansionLoc" in l:
            res = st[0]
            for key, v in l.items():
                if key in ("spellingLoc", "expansionLoc"):
                    r = simple(v)
                    if key == "expansionLoc":
                        res = r
            return res
        return simple(l)
    if isinstance(o, dict):
        bl = None
        for k, v in o.items():
            if k == "loc":
                r = loc(v)
                if bl is None:
                    bl = r
            elif k == "range" and isinstance(v, dict):
                bl = loc(v.get("begin"))
                loc(v.get("end"))
            else:
                annotate_begin_lines(v, st)
        if "kind" in o:
            o["_line"] = bl if bl is not None else st[0]
    elif isinstance(o, list):
        for v in o:
            annotate_begin_lines(v, st)


def stmt_line(n):
    b = n.get("range", {}).get("begin", {})
    for l in (b, b.get("expansionLoc", {}), b.get("spellingLoc", {})):
        if "line" in l:
            return l["line"]
    return n.get("_line")


def kids(n):
    return [c for c in n.get("inner", []) if isinstance(c, dict) and "kind" in c]


def strip_expr(n):
    """remove wrappers that carry no meaning in the subset"""
    while n.get("kind") in ("ParenExpr", "ExprWithCleanups", "ConstantExpr", "MaterializeTemporaryExpr") or \
            (n.get("kind") == "ImplicitCastExpr" and n.get("castKind") == "NoOp"):
        n = kids(n)[0]
    return n


# ------------------------------------------------------------------------------------------------ the part
class Part:
    """cfg keys (all names on the right are Gallina identifiers defined by cfg['imports']):
      name, tu, filter, class_name            the TU text, the -ast-dump-filter and the instantiated class to read
      imports                                 Require/Import lines of the generated file
      section_vars                            [(name, type)] Section variables (user comparator, hasher, ...)
      state_ty                                type of the state variable
      ok, bind, assert_fail, null_fail, fuel_fail, unreachable_fail
                                              outcome constructors / bind; *_fail may contain `{site}` (site ordinal, for
                                              models whose failure outcomes carry a source line) -- then `sites` is set
      types                                   C++ type string -> (ir type, Gallina type)
      is_null, ptr_eqb                        nullable pointer tests
      hook_fn                                 name of the member function h (hook accessor), its use is `h(x).f` / `h(x)->f`
      fields                                  hook field -> dict(rd=, wr=, ty=ir type)    rd : state -> ptr -> pres T
      members                                 data member of *this -> dict(rd=, wr=, ty=) rd : state -> T (cannot fail)
      functions                               [(C++ member name, Gallina name)] in translation order
      idioms, lvalue_idioms                   [callable(tr, node) -> X / lvalue or None]: library-specific expression shapes
      optional: type_rx [(regex, ir type)], gallina {ir type: Gallina type}, ptr_fields (p->f without a hook accessor),
      arrays / index_types / linear (pointers to freshly allocated arrays, represented by the array VALUE; linear use is
      checked), binops / casts / incdec / lit_fmt / zero / enum_consts (typed operator tables), classes (nested classes:
      their data members are implicit in/out parameters, `outer` = the member pointing to the container), inline
      (accessors `return e;` substituted at the call site), sites (failure outcomes carry a line: the generated code is
      parametric in `ln : site ordinal -> line`, `src_lines` = the lines of the current source)"""

    def __init__(self, cfg, repo=None):
        self.cfg, self.repo = cfg, repo or REPO
        self.unit = cxx2coq.Unit(cfg["tu"], self.repo)
        self.fns = {}            # method decl id -> Fn
        self.in_progress = []
        self.out = []            # emitted Gallina items
        self.sites = []          # (ordinal, kind, function, line)
        self.methods = None

    # ---- clang
    def load(self):
        objs = self.unit.dump(self.cfg["filter"])
        for o in objs:
            annotate_begin_lines(o, [0])
        specs = [o for o in objs if o.get("kind") == "ClassTemplateSpecializationDecl" and o.get("name") == self.cfg["class_name"]
                 and any(c.get("kind") == "CXXMethodDecl" for c in kids(o))]
        if len(specs) != 1:
            raise Unsupported("expected exactly one instantiation of %s in the dump, found %d" % (self.cfg["class_name"], len(specs)))
        self.spec = specs[0]
        self.methods = {}        # (class, name) -> [decl];  class "" = the instantiated class itself, else a nested class
        self.by_id = {}
        self.cls_of = {}

        def collect(rec, cls):
            for c in kids(rec):
                cands = [c]
                if c.get("kind") == "FunctionTemplateDecl":      # member template: its instantiations
                    cands = [x for x in kids(c) if x.get("kind") == "CXXMethodDecl" and
                             any(t.get("kind") == "TemplateArgument" for t in kids(x))]
                for m in cands:
                    if m.get("kind") in ("CXXMethodDecl", "CXXDestructorDecl") and \
                            any(k.get("kind") == "CompoundStmt" for k in kids(m)):
                        self.methods.setdefault((cls, m["name"]), []).append(m)
                        self.by_id[m["id"]] = m
                        self.cls_of[m["id"]] = cls
                if c.get("kind") == "CXXRecordDecl" and c.get("completeDefinition") and cls == "" and \
                        c.get("name") in self.cfg.get("classes", {}):
                    collect(c, c["name"])
        collect(self.spec, "")

    def method(self, cname, sig=None, cls=""):
        if self.methods is None:
            self.load()
        c = [m for m in self.methods.get((cls, cname), []) if sig is None or m["type"]["qualType"] == sig]
        if len(c) != 1:
            raise Unsupported("member function %s%s%s: %d definitions in the instantiated class" % (
                cls + "::" if cls else "", cname, " with type " + sig if sig else "", len(c)))
        return c[0]

    def fn_table(self):
        """cfg['functions'] entries: (cpp name, gallina name[, type string[, nested class]])"""
        out = []
        for item in self.cfg["functions"]:
            item = tuple(item) + (None,) * (4 - len(item))
            out.append(dict(cpp=item[0], g=item[1], sig=item[2], cls=item[3] or ""))
        return out

    def site(self, kind, fn, node, line=None):
        self.sites.append((len(self.sites), kind, fn.cname, line or node.get("_line")))
        return len(self.sites) - 1

    # ---- translation of one function (callees first)
    def get_fn(self, decl, gname=None):
        did = decl["id"]
        if did in self.fns:
            f = self.fns[did]
            if not f.done:
                if self.in_progress[-1] is not f:
                    fail(decl, "mutually recursive member functions (outside the subset)")
                f.recursive = True
            return f
        if gname is None:
            cands = [e for e in self.fn_table() if e["cpp"] == decl["name"] and e["cls"] == self.cls_of.get(did, "") and
                     (e["sig"] is None or e["sig"] == decl["type"]["qualType"])]
            if len(cands) != 1:
                fail(decl, "call to member function '%s' which is not (uniquely) in the translation list of the part" % decl["name"])
            gname = cands[0]["g"]
        f = Fn(self, decl, decl["name"], gname)
        f.cls = self.cls_of.get(did, "")
        self.fns[did] = f
        self.in_progress.append(f)
        try:
            FnReader(self, f).run()
            f.finish()
            self.out.append(Emitter(self, f).run())
        except Exception:
            del self.fns[did]
            raise
        finally:
            self.in_progress.pop()
        return f

    def translate(self):
        res = []
        for e in self.fn_table():
            gname = e["g"]
            try:
                self.get_fn(self.method(e["cpp"], e["sig"], e["cls"]), gname)
                res.append((gname, True, ""))
            except Unsupported as ex:
                res.append((gname, False, "outside the subset: %s" % ex))
            except Exception as ex:      # an AST shape the translator did not foresee is a failure, never a guess
                res.append((gname, False, "translator error %s: %s" % (type(ex).__name__, ex)))
        return self.text(res), res

    def text(self, res):
        cfg = self.cfg
        hdr = ("(* GENERATED by translator/gen_ptrmodels.py (cxx2heap) from the clang AST of $REPO/include/frg -- do not edit.\n"
               "   part %s: %s *)\n%s\n\n" % (cfg["name"], ", ".join(n for n, ok, _ in res if ok), cfg["imports"]))
        body = "Section Gen.\n"
        for n, t in cfg.get("section_vars", []):
            body += "Variable %s : %s.\n" % (n, t)
        if cfg.get("sites"):
            body += "Variable ln : nat -> N.    (* source line reported by failure site k *)\n"
        body += "\n" + "\n\n".join(self.out) + "\n\nEnd Gen.\n"
        if cfg.get("sites"):
            body += "\n(* failure sites of the CURRENT source: ordinal -> line *)\nDefinition src_lines (k : nat) : N :=\n  match k with\n"
            for k, kind, fn, line in self.sites:
                body += "  | %d%%nat => %d%%N    (* %s in %s *)\n" % (k, line or 0, kind, fn)
            body += "  | _ => 0%N\n  end.\n"
            body += "Definition n_sites : nat := %d.\n" % len(self.sites)
        return hdr + body


# ------------------------------------------------------------------------------------------------ AST -> IR
class FnReader:
    def __init__(self, part, fn):
        self.part, self.cfg, self.fn = part, part.cfg, fn
        self.vars = {}           # decl id -> Var
        self.names = set()
        self.cls = getattr(fn, "cls", "")
        self.ccfg = self.cfg.get("classes", {}).get(self.cls, {}) if self.cls else {}
        self.this_locals = {}    # data member of *this of a nested class -> Var (implicit in/out parameter)
        self.subst = {}          # while an accessor is inlined: its parameter decl id -> the argument (IR)

    def ir_type(self, node, tstr=None):
        t = node.get("type", {}) if tstr is None else None
        cands = [tstr] if tstr is not None else [t.get("qualType"), t.get("desugaredQualType")]
        for c in cands:
            if c is None:
                continue
            c2 = re.sub(r"\s*\bconst\b\s*", " ", c).strip()
            c2 = re.sub(r"\s+\*", " *", c2)
            for k in (c, c2):
                if k in self.cfg["types"]:
                    return self.cfg["types"][k][0]
        for c in cands:
            if c is None:
                continue
            for rx, ity in self.cfg.get("type_rx", []):
                if re.match(rx, c):
                    return ity
        fail(node, "type '%s' is outside the subset of part %s" % (cands[0], self.cfg["name"]))

    def gallina_type(self, ty):
        if ty in self.cfg.get("gallina", {}):
            return self.cfg["gallina"][ty]
        for k, (it, gt) in self.cfg["types"].items():
            if it == ty:
                return gt
        raise Unsupported("no Gallina type for IR type %s" % ty)

    def new_var(self, d, name=None, ty=None):
        base = "v_" + re.sub(r"\W", "_", name or d["name"])
        g, k = base, 1
        while g in self.names:
            k += 1
            g = "%s_%d" % (base, k)
        self.names.add(g)
        v = Var(d["id"] if name is None else "this." + name, name or d["name"], g, ty or self.ir_type(d))
        self.vars[v.did] = v
        return v

    def run(self):
        d, fn = self.fn.decl, self.fn
        if d.get("kind") not in ("CXXMethodDecl", "CXXDestructorDecl"):
            fail(d, "not a member function")
        rt = d["type"]["qualType"]
        m = re.match(r"^(.*?)\s*\((.*)\)\s*(const)?\s*(noexcept)?$", rt)
        if not m:
            fail(d, "cannot read the function type")
        fn.ret_ty = self.ir_type(d, m.group(1).strip())
        for p in kids(d):
            if p["kind"] == "ParmVarDecl":
                if "name" not in p:
                    fail(p, "unnamed parameter")
                if any(k.get("kind") not in (None,) and not k["kind"].endswith("Attr") for k in kids(p)):
                    fail(p, "default argument")
                fn.params.append(self.new_var(p))
        fn.this_vars = []
        for name, ty in self.ccfg.get("this_locals", []):
            v = self.new_var(d, name="this_" + name, ty=ty)
            self.this_locals[name] = v
            fn.this_vars.append(v)
        body = [c for c in kids(d) if c["kind"] == "CompoundStmt"]
        if len(body) != 1:
            fail(d, "function without a body")
        fn._writes_guess = False
        self.tab_uses = {}       # linear locals (pointers to freshly allocated arrays): did -> list of (kind, stmt index path)
        fn.body = self.stmt(body[0])
        if s_has(fn.body, "break") and not s_has(fn.body, "loop"):
            fail(d, "break outside a loop")
        self.check_linear(fn.body)

    # ---- statements
    def stmt(self, n):
        k = n["kind"]
        if k == "CompoundStmt":
            out = []
            for c in kids(n):
                st = self.stmt(c)
                if st is not None:
                    out.append(st)
            for i, st in enumerate(out[:-1]):
                if s_leaves(st):
                    fail(n, "statements after a statement that always leaves the block (dead code is outside the subset)")
            return S("block", n, body=out)
        if k == "NullStmt":
            return None
        if k == "DeclStmt":
            out = []
            for d in kids(n):
                if d["kind"] != "VarDecl":
                    fail(d, "declaration kind outside the subset")
                if d.get("storageClass") or d.get("tls"):
                    fail(d, "static/extern local")
                v = self.new_var(d)
                init = kids(d)
                if d.get("init") not in (None, "c"):
                    fail(d, "initialisation style '%s' outside the subset" % d.get("init"))
                e = self.rvalue(init[0], v.ty) if init else None
                out.append(S("decl", d, var=v, e=e))
            return out[0] if len(out) == 1 else S("block", n, body=out)
        if k == "IfStmt":
            if n.get("hasInit") or n.get("hasVar") or n.get("isConstexpr"):
                fail(n, "if with init-statement / condition variable / constexpr")
            c = kids(n)
            folded = self.const_cond(c[0])
            if folded is not None:       # the arm that a constexpr-false/true condition excludes is not translated
                taken = c[1] if folded else (c[2] if len(c) > 2 else None)
                return (self.stmt(taken) if taken is not None else None) or S("block", n, body=[])
            a = self.stmt(c[1]) or S("block", c[1], body=[])
            b = (self.stmt(c[2]) if len(c) > 2 else None) or S("block", n, body=[])
            return S("if", n, c=self.rvalue(c[0], "bool"), a=a, b=b)
        if k == "WhileStmt":
            c = kids(n)
            if len(c) != 2:
                fail(n, "while with a condition variable")
            return S("loop", n, init=S("block", n, body=[]), c=self.rvalue(c[0], "bool"), inc=S("block", n, body=[]),
                     body=self.stmt(c[1]) or S("block", n, body=[]))
        if k == "ForStmt":
            c = n.get("inner", [])
            if len(c) != 5 or (isinstance(c[1], dict) and c[1].get("kind")):
                fail(n, "for statement shape (condition variable?)")
            init = (self.stmt(c[0]) if c[0].get("kind") else None) or S("block", n, body=[])
            if not c[2].get("kind"):
                fail(n, "for without a condition")
            cond = self.rvalue(c[2], "bool")
            inc = (self.stmt(c[3]) if c[3].get("kind") else None) or S("block", n, body=[])
            return S("loop", n, init=init, c=cond, inc=inc, body=self.stmt(c[4]) or S("block", n, body=[]))
        if k == "DoStmt":
            a = self.frg_assert(n)
            if a is not None:
                return a
            fail(n, "do-while (other than FRG_ASSERT) is outside the subset")
        if k == "ReturnStmt":
            c = kids(n)
            if not c:
                if self.fn.ret_ty != "void":
                    fail(n, "return without a value in a non-void function")
                return S("return", n, e=None)
            return S("return", n, e=self.rvalue(c[0], self.fn.ret_ty))
        if k == "BreakStmt":
            return S("break", n)
        if k == "ContinueStmt":
            return S("continue", n)
        # expression statements
        return self.expr_stmt(n)

    def const_cond(self, n):
        """`if(enable_checking)`: a constexpr bool variable initialised with a literal; the arm not taken is not translated"""
        n = strip_expr(n)
        if n.get("kind") == "ImplicitCastExpr" and n.get("castKind") == "LValueToRValue":
            r = strip_expr(kids(n)[0])
            if r.get("kind") == "DeclRefExpr" and r.get("referencedDecl", {}).get("kind") == "VarDecl":
                did = r["referencedDecl"]["id"]
                if did in self.vars:
                    return None
                d = self.part.unit.decl.get(did)
                if d is None or not kids(d):
                    self.part.unit.dump(r["referencedDecl"]["name"])
                    cands = [x for x in self.part.unit.decl.values() if x.get("kind") == "VarDecl" and
                             x.get("name") == r["referencedDecl"]["name"] and x.get("constexpr") and kids(x)]
                    if len(set(json_key(x) for x in cands)) != 1:
                        fail(r, "cannot find the declaration of the global (%d candidates)" % len(cands))
                    d = cands[0]
                if not d.get("constexpr") or d.get("type", {}).get("qualType") != "const bool":
                    fail(r, "condition on a global that is not a constexpr bool")
                init = [strip_expr(c) for c in kids(d)]
                if len(init) != 1 or init[0].get("kind") != "CXXBoolLiteralExpr":
                    fail(d, "constexpr bool without a literal initialiser")
                return bool(init[0]["value"])
        return None

    def frg_assert(self, n):
        """do { if(!(x)) { if(!frg_panic) __builtin_trap(); frg_panic("file:line: Assertion ..."); __builtin_trap(); } } while(0)"""
        c = kids(n)
        if len(c) != 2 or c[0]["kind"] != "CompoundStmt":
            return None
        w = strip_expr(c[1])
        if w.get("kind") == "ImplicitCastExpr":
            w = strip_expr(kids(w)[0])
        if w.get("kind") != "IntegerLiteral" or w.get("value") != "0":
            return None
        b = kids(c[0])
        if len(b) != 1 or b[0]["kind"] != "IfStmt" or b[0].get("hasElse"):
            return None
        cond, then = kids(b[0])
        cond = strip_expr(cond)
        if cond.get("kind") != "UnaryOperator" or cond.get("opcode") != "!":
            return None
        calls = []

        def rec(x):
            if isinstance(x, dict):
                if x.get("kind") == "DeclRefExpr" and x.get("referencedDecl", {}).get("kind") == "FunctionDecl":
                    calls.append(x["referencedDecl"]["name"])
                if x.get("kind") == "StringLiteral":
                    calls.append(("str", x.get("value", "")))
                for v in x.get("inner", []):
                    rec(v)
        rec(then)
        names = [x for x in calls if isinstance(x, str)]
        strs = [x[1] for x in calls if isinstance(x, tuple)]
        if names != ["frg_panic", "__builtin_trap", "frg_panic", "__builtin_trap"] or len(strs) != 1:
            return None
        m = re.search(r":(\d+): Assertion '", strs[0])
        if not m:
            return None
        inner = kids(cond)[0]
        # the site reports the line where the FRG_ASSERT statement begins (the __LINE__ in the message is the line where a
        # multi-line invocation ENDS)
        inner["_line"] = n["_line"]
        return S("assert", inner, e=self.rvalue(inner, "bool"), line=n["_line"])

    def expr_stmt(self, n):
        n0 = strip_expr(n)
        k = n0.get("kind")
        if k == "BinaryOperator" and n0.get("opcode") == "=":
            lhs, rhs = kids(n0)
            lv = self.lvalue(lhs)
            return self.assign_stmt(lv, self.rvalue(rhs, lv_type(lv)), n0)
        if k == "UnaryOperator" and n0.get("opcode") in ("++", "--"):
            lv = self.lvalue(kids(n0)[0])
            key = (n0["opcode"], lv_type(lv))
            if key not in self.cfg.get("incdec", {}):
                fail(n0, "%s on IR type %s is outside the subset" % key)
            one = X("prim", lv_type(lv), n0, g=self.cfg["incdec"][key], args=[self.load(lv, n0)], kind="pure", reads=set(), writes=set())
            return self.assign_stmt(lv, one, n0)       # the value of the ++/-- expression itself is discarded
        if k == "CStyleCastExpr" and n0.get("castKind") == "ToVoid":
            e = strip_expr(kids(n0)[0])
            if e.get("kind") == "DeclRefExpr":
                return None          # (void)node;
            fail(n0, "cast to void of something that is not a variable")
        if k in ("CXXMemberCallExpr", "CallExpr", "CXXOperatorCallExpr"):
            if self.unreachable_call(n0):
                return S("unreachable", n0)
            e = self.rvalue(n0, None)
            return S("eval", n0, e=e)
        fail(n0, "statement outside the subset")

    def unreachable_call(self, n):
        c = kids(n)
        if n.get("kind") == "CallExpr" and c:
            f = strip_expr(c[0])
            if f.get("kind") == "ImplicitCastExpr":
                f = strip_expr(kids(f)[0])
            if f.get("kind") == "DeclRefExpr" and f.get("referencedDecl", {}).get("name") == "__builtin_unreachable":
                return True
        return False

    # ---- lvalues:  ("var", Var) | ("field", name, ptr X, node, ty) | ("member", name, ty) | ("index", base lvalue, index X, node, ty)
    def lvalue(self, n):
        n = strip_expr(n)
        k = n.get("kind")
        for idiom in self.cfg.get("lvalue_idioms", []):
            r = idiom(self, n)
            if r is not None:
                return r
        if k == "DeclRefExpr":
            rd = n.get("referencedDecl", {})
            if rd.get("id") in self.subst:
                return ("subst", rd["id"], self.subst[rd["id"]].ty)
            if rd.get("id") in self.vars:
                return ("var", self.vars[rd["id"]])
            fail(n, "reference to something that is not a local or a parameter")
        if k == "MemberExpr":
            base = strip_expr(kids(n)[0])
            name = n.get("name")
            if base.get("kind") == "CXXThisExpr":
                if name in self.this_locals:
                    return ("var", self.this_locals[name])
                if self.cls == "":
                    if name not in self.cfg["members"]:
                        fail(n, "data member '%s' is not bound in part %s" % (name, self.cfg["name"]))
                    return ("member", name, self.cfg["members"][name]["ty"])
                fail(n, "data member '%s' of nested class %s is not bound" % (name, self.cls))
            if self.is_outer(base) and n.get("isArrow"):
                if name not in self.cfg["members"]:
                    fail(n, "data member '%s' is not bound in part %s" % (name, self.cfg["name"]))
                return ("member", name, self.cfg["members"][name]["ty"])
            p = self.hook_base(base, n)
            if p is not None:
                if name not in self.cfg["fields"]:
                    fail(n, "hook field '%s' is not bound in part %s" % (name, self.cfg["name"]))
                return ("field", name, p, n, self.cfg["fields"][name]["ty"])
            if n.get("isArrow") and name in self.cfg.get("ptr_fields", {}):
                b = self.cfg["ptr_fields"][name]
                return ("field", name, self.rvalue(kids(n)[0], b["of"]), n, b["ty"])
        if k == "ArraySubscriptExpr":
            b, i = kids(n)
            b0 = strip_expr(b)
            if b0.get("kind") != "ImplicitCastExpr" or b0.get("castKind") != "LValueToRValue":
                fail(n, "array subscript on something that is not a pointer variable / member")
            blv = self.lvalue(kids(b0)[0])
            if blv[0] not in ("var", "member") or lv_type(blv) not in self.cfg.get("arrays", {}):
                fail(n, "array subscript on IR type %s" % lv_type(blv))
            ix = self.rvalue(i, None)
            if ix.ty not in self.cfg.get("index_types", []):
                fail(n, "array index of IR type %s" % ix.ty)
            return ("index", blv, ix, n, self.cfg["arrays"][lv_type(blv)]["elem"])
        fail(n, "lvalue outside the subset")

    def is_outer(self, base):
        """this->map (nested class holding a pointer to the container): the container object"""
        outer = self.ccfg.get("outer")
        if not outer or base.get("kind") != "ImplicitCastExpr" or base.get("castKind") != "LValueToRValue":
            return False
        m = strip_expr(kids(base)[0])
        return m.get("kind") == "MemberExpr" and m.get("name") == outer and strip_expr(kids(m)[0]).get("kind") == "CXXThisExpr"

    def hook_base(self, base, member):
        """h(x).f (hook returned by reference) / h(x)->f (hook returned by pointer): the pointer expression x"""
        hk = self.cfg.get("hook_fn")
        if hk is None or base.get("kind") not in ("CXXMemberCallExpr", "CallExpr"):
            return None
        c = kids(base)
        callee = strip_expr(c[0])
        if callee.get("kind") == "ImplicitCastExpr" and callee.get("castKind") == "FunctionToPointerDecay":
            callee = strip_expr(kids(callee)[0])
        nm = callee.get("name") if callee.get("kind") == "MemberExpr" else callee.get("referencedDecl", {}).get("name")
        if nm != hk or len(c) != 2:
            return None
        if callee.get("kind") == "MemberExpr" and strip_expr(kids(callee)[0]).get("kind") != "CXXThisExpr":
            return None
        want_arrow = self.cfg.get("hook_arrow", False)
        if bool(member.get("isArrow")) != want_arrow:
            fail(member, "hook access with %s where the part expects %s" % ("->" if member.get("isArrow") else ".", "->" if want_arrow else "."))
        return self.rvalue(c[1], "ptr")

    def field_cfg(self, name):
        return self.cfg["fields"].get(name) or self.cfg.get("ptr_fields", {})[name]

    def load(self, lv, node):
        if lv[0] == "subst":
            self.subst_uses[lv[1]] = self.subst_uses.get(lv[1], 0) + 1
            return self.subst[lv[1]]
        if lv[0] == "var":
            self.note_use(lv[1], "value", node)
            return X("var", lv[1].ty, node, var=lv[1])
        if lv[0] == "member":
            b = self.cfg["members"][lv[1]]
            return X("prim", b["ty"], node, g=b["rd"], args=[], kind="get", reads={"m:" + lv[1]}, writes=set())
        if lv[0] == "field":
            b = self.field_cfg(lv[1])
            return X("prim", b["ty"], node, g=b["rd"], args=[lv[2]], kind="read", reads={"f:" + lv[1]}, writes=set(),
                     site="null")
        if lv[0] == "index":
            a = self.cfg["arrays"][lv_type(lv[1])]
            base = self.load_base(lv[1], node)
            return X("prim", a["elem"], node, g=a["get"], args=[base, lv[2]], kind="mpure", reads={"a:" + lv_type(lv[1])}, writes=set())
        raise Unsupported("load of lvalue kind %s" % lv[0])

    def load_base(self, blv, node):
        if blv[0] == "var":
            self.note_use(blv[1], "index", node)
            return X("var", blv[1].ty, node, var=blv[1])
        return self.load(blv, node)

    def assign_stmt(self, lv, val, node):
        if lv[0] == "var":
            if lv[1].ty in self.cfg.get("linear", []):
                fail(node, "assignment to a pointer to a freshly allocated array (it must stay the unique pointer to its block)")
            return S("assign", node, var=lv[1], e=val)
        if lv[0] == "member":
            b = self.cfg["members"][lv[1]]
            if "wr" not in b:
                fail(node, "data member '%s' is read-only in the binding" % lv[1])
            if val.op == "var" and val.var.ty in self.cfg.get("linear", []):
                self.tab_uses[val.var.did][-1] = ("move", node)
            return S("eval", node, e=X("prim", "void", node, g=b["wr"], args=[val], kind="set", reads=set(), writes={"m:" + lv[1]}))
        if lv[0] == "field":
            b = self.field_cfg(lv[1])
            if "wr" not in b:
                fail(node, "field '%s' is read-only in the binding" % lv[1])
            # C++17: the right operand of = is sequenced before the left one
            return S("eval", node, e=X("prim", "void", node, g=b["wr"], args=[lv[2], val], kind="write", reads=set(),
                                       writes={"f:" + lv[1]}, site="null", rhs_first=True))
        if lv[0] == "index":
            a = self.cfg["arrays"][lv_type(lv[1])]
            base = self.load_base(lv[1], node)
            upd = X("prim", lv_type(lv[1]), node, g=a["set"], args=[base, lv[2], val], kind="mpure", reads=set(),
                    writes=set(), rhs_first=True)
            if lv[1][0] == "var":
                return S("assign", node, var=lv[1][1], e=upd)
            b = self.cfg["members"][lv[1][1]]
            return S("eval", node, e=X("prim", "void", node, g=b["wr"], args=[upd], kind="set", reads=set(), writes={"m:" + lv[1][1]}))
        raise Unsupported("store to lvalue kind %s" % lv[0])

    # ---- linear locals (a pointer to a freshly allocated array is represented by the array value itself)
    def note_use(self, var, kind, node):
        if var.ty in self.cfg.get("linear", []):
            self.tab_uses.setdefault(var.did, []).append((kind, node))

    def check_linear(self, body):
        """a local of a `linear` type (chain **new_table): initialised by the allocation idiom, then used only as the base of
        subscripts, and finally moved into a data member by a statement of the function's top-level block after which it is
        not used any more -- so the array value is never shared and can stand for the block"""
        lin = self.cfg.get("linear", [])
        if not lin:
            return
        for st in walk_stmts(body):
            if st.op == "decl" and st.var.ty in lin:
                if st.e is None or st.e.op != "prim" or st.e.kind != "alloc":
                    fail(st.node, "pointer to an array that is not initialised by an allocation")
                uses = self.tab_uses.get(st.var.did, [])
                moves = [u for u in uses if u[0] == "move"]
                if len(moves) != 1 or any(u[0] not in ("move", "index") for u in uses):
                    fail(st.node, "pointer to a freshly allocated array used other than by subscripts and one final move into a member")
                top = body.body if body.op == "block" else [body]
                idx = [i for i, t in enumerate(top) if t.node is moves[0][1] or (t.op == "eval" and t.node is moves[0][1])]
                if len(idx) != 1:
                    fail(moves[0][1], "the move of the array pointer into the member is not a statement of the function's top-level block")
                for later in top[idx[0] + 1:]:
                    used = set()
                    s_used(later, used)
                    if st.var.did in used:
                        fail(later.node, "use of the array pointer after it was moved into the member")
        for v in self.fn.params:
            if v.ty in lin:
                fail(self.fn.decl, "parameter of a linear array-pointer type")

    # ---- rvalues
    def rvalue(self, n, want):
        e = self.rvalue0(n)
        if want is not None and e.ty != want:
            conv = self.cfg.get("coerce", {}).get((e.ty, want))
            if conv is not None:
                return X("prim", want, n, g=conv, args=[e], kind="pure", reads=set(), writes=set()) if conv else retype(e, want)
            fail(n, "expression of IR type %s where %s is expected" % (e.ty, want))
        return e

    def type_known(self, n):
        try:
            self.ir_type(n)
            return True
        except Unsupported:
            return False

    def glvalue_or_rvalue(self, n, want):
        """an argument bound to a reference parameter: a glvalue (its load) or a prvalue materialised into a temporary"""
        n0 = strip_expr(n)
        if n0.get("valueCategory") in ("lvalue", "xvalue") and n0.get("kind") in ("DeclRefExpr", "MemberExpr", "CXXMemberCallExpr"):
            e = self.glvalue(n0)
        else:
            e = self.rvalue0(n0)
        if e.ty != want:
            fail(n, "argument of IR type %s where %s is expected" % (e.ty, want))
        return e

    def glvalue(self, n):
        """the value of a glvalue expression (bound to a const reference / moved from): its load"""
        return self.load(self.lvalue(n), n)

    def rvalue0(self, n):
        n = strip_expr(n)
        k = n.get("kind")
        for idiom in self.cfg.get("idioms", []):
            r = idiom(self, n)
            if r is not None:
                return r
        if k == "ImplicitCastExpr":
            ck, sub = n.get("castKind"), kids(n)[0]
            if ck == "LValueToRValue":
                return self.load(self.lvalue(sub), n)
            if ck == "NullToPointer":
                s0 = strip_expr(sub)
                if s0.get("kind") != "CXXNullPtrLiteralExpr":
                    fail(n, "null pointer constant that is not nullptr")
                return X("const", self.ir_type(n), n, g="None")
            if ck == "PointerToBoolean":
                s0 = strip_expr(sub)
                if s0.get("kind") == "ImplicitCastExpr" and s0.get("castKind") == "ArrayToPointerDecay" and \
                        strip_expr(kids(s0)[0]).get("kind") == "StringLiteral":
                    return X("const", "bool", n, g="true")       # the address of a string literal is not null
                e = self.rvalue(sub, None)
                if e.ty not in self.cfg.get("ptr_types", ["ptr"]):
                    fail(n, "pointer-to-bool of a non-pointer")
                return X("not", "bool", n, a=X("prim", "bool", n, g=self.cfg["is_null"][e.ty], args=[e], kind="pure", reads=set(), writes=set()))
            if ck == "BitCast":
                e = self.rvalue(sub, None)       # T* <-> void* of a hook field: the id is unchanged
                if self.ir_type(n) != e.ty:
                    fail(n, "bit cast that changes the IR type")
                return e
            if ck in ("IntegralCast", "IntegralToBoolean"):
                s0 = strip_expr(sub)
                to = self.ir_type(n)
                if s0.get("kind") == "IntegerLiteral":
                    if to not in self.cfg.get("lit_fmt", {}):
                        fail(n, "integer literal of IR type %s" % to)
                    return X("const", to, n, g=self.cfg["lit_fmt"][to] % int(s0["value"]))
                e = self.rvalue(sub, None)
                key = (ck, e.ty, to)
                if key not in self.cfg.get("casts", {}):
                    fail(n, "conversion %s from IR type %s to %s is outside the subset" % key)
                g = self.cfg["casts"][key]
                return X("prim", to, n, g=g, args=[e], kind="pure", reads=set(), writes=set()) if g else retype(e, to)
            fail(n, "implicit cast kind outside the subset")
        if k == "CXXStaticCastExpr":
            if n.get("castKind") not in ("BitCast", "NoOp"):
                fail(n, "static_cast kind outside the subset")
            e = self.rvalue(kids(n)[0], None)
            if self.ir_type(n) != e.ty:
                fail(n, "static_cast that changes the IR type")
            return e
        if k == "CXXNullPtrLiteralExpr":
            fail(n, "bare nullptr (no target type)")
        if k == "CXXBoolLiteralExpr":
            return X("const", "bool", n, g="true" if n["value"] else "false")
        if k == "UnaryOperator":
            op = n.get("opcode")
            if op == "!":
                return X("not", "bool", n, a=self.rvalue(kids(n)[0], "bool"))
            if op == "*" and strip_expr(kids(n)[0]).get("kind") == "CXXThisExpr" and self.fn.this_vars:
                return self.this_tuple(n)       # return *this;
            fail(n, "unary operator outside the subset")
        if k == "BinaryOperator":
            op = n.get("opcode")
            a, b = kids(n)
            if op in ("&&", "||"):
                return X("and" if op == "&&" else "or", "bool", n, a=self.rvalue(a, "bool"), b=self.rvalue(b, "bool"))
            ea, eb = self.rvalue(a, None), self.rvalue(b, None)
            if op in ("==", "!=") and ea.ty == eb.ty and ea.ty in self.cfg["eqb"]:
                self.check_unseq([ea, eb], n)
                e = X("prim", "bool", n, g=self.cfg["eqb"][ea.ty], args=[ea, eb], kind="pure", reads=set(), writes=set())
                return e if op == "==" else X("not", "bool", n, a=e)
            key = (op, ea.ty, eb.ty)
            if key in self.cfg.get("binops", {}):
                g, rty = self.cfg["binops"][key]
                self.check_unseq([ea, eb], n)
                return X("prim", rty, n, g=g, args=[ea, eb], kind="pure", reads=set(), writes=set())
            fail(n, "binary operator '%s' on IR types %s, %s is outside the subset" % key)
        if k in ("CXXMemberCallExpr", "CallExpr"):
            return self.call(n)
        if k == "DeclRefExpr" and n.get("referencedDecl", {}).get("kind") == "EnumConstantDecl":
            nm = n["referencedDecl"]["name"]
            ty = self.ir_type(n)
            key = (ty, nm)
            if key not in self.cfg.get("enum_consts", {}):
                fail(n, "enumerator not bound in the part")
            return X("const", ty, n, g=self.cfg["enum_consts"][key])
        fail(n, "expression outside the subset")

    def this_tuple(self, n):
        tv = self.fn.this_vars
        return X("tuple", self.ccfg["self_ty"], n, args=[X("var", v.ty, n, var=v) for v in tv])

    def check_unseq(self, es, node):
        fx = [x_effects(e) for e in es]
        for i in range(len(es)):
            for j in range(len(es)):
                if i != j and fx[i][1] & (fx[j][0] | fx[j][1]):
                    fail(node, "operands with unspecified evaluation order, one writes %s which the other touches" % sorted(
                        fx[i][1] & (fx[j][0] | fx[j][1])))

    def call(self, n):
        c = kids(n)
        callee = strip_expr(c[0])
        if callee.get("kind") == "ImplicitCastExpr" and callee.get("castKind") == "FunctionToPointerDecay":
            callee = strip_expr(kids(callee)[0])
        did = None
        if callee.get("kind") == "MemberExpr":
            if strip_expr(kids(callee)[0]).get("kind") != "CXXThisExpr":
                fail(n, "member call on an object other than *this")
            did = callee.get("referencedMemberDecl")
        elif callee.get("kind") == "DeclRefExpr" and callee.get("referencedDecl", {}).get("kind") == "CXXMethodDecl":
            did = callee["referencedDecl"]["id"]          # static member function
        if did is None or did not in self.part.by_id:
            fail(n, "call to something that is not a member function of the instantiated class")
        d = self.part.by_id[did]
        if d["name"] == self.cfg.get("hook_fn"):
            fail(n, "hook accessor used other than as h(x).field")
        if d["name"] in self.cfg.get("inline", []):
            return self.inline_call(n, d, c[1:])
        if self.part.cls_of.get(did, "") != self.cls:
            fail(n, "call into another class")
        f = self.part.get_fn(d)
        args = []
        ps = [p for p in kids(d) if p["kind"] == "ParmVarDecl"]
        if len(ps) != len(c) - 1:
            fail(n, "argument count (default arguments are outside the subset)")
        for p, a in zip(ps, c[1:]):
            pt = self.ir_type(p)
            if self.is_ref(p):
                args.append(self.glvalue(a))
            else:
                args.append(self.rvalue(a, pt))
        self.check_unseq(args, n)
        return X("call", f.ret_ty, n, fn=f, args=args)

    def inline_call(self, n, d, argnodes):
        """a call of an accessor `T f(params) { return e; }` (cfg['inline']): e with the arguments in place of the parameters,
        every parameter used exactly once; the failure sites inside e report the line of the CALL"""
        if self.subst:
            fail(n, "nested inlining of accessors")
        body = [c for c in kids(d) if c["kind"] == "CompoundStmt"]
        ps = [p for p in kids(d) if p["kind"] == "ParmVarDecl"]
        st = kids(body[0]) if len(body) == 1 else []
        if len(st) != 1 or st[0]["kind"] != "ReturnStmt" or len(kids(st[0])) != 1 or len(ps) != len(argnodes):
            fail(d, "accessor to be inlined is not of the form `return e;`")
        args = [self.rvalue(a, self.ir_type(p)) for p, a in zip(ps, argnodes)]
        self.check_unseq(args, n)
        self.subst = {p["id"]: a for p, a in zip(ps, args)}
        self.subst_uses = {}
        try:
            m = re.match(r"^(.*?)\s*\((.*)\)", d["type"]["qualType"])
            e = self.rvalue(kids(st[0])[0], self.ir_type(d, m.group(1).strip()))
            if any(self.subst_uses.get(p["id"], 0) != 1 for p in ps):
                fail(d, "accessor to be inlined uses a parameter not exactly once")
        finally:
            self.subst = {}
        line = n.get("_line")

        def mark(x):
            if x.op == "prim" and getattr(x, "site", None) and not hasattr(x, "line_override"):
                x.line_override = line
            for c in subexprs(x):
                if not any(c is a for a in args):
                    mark(c)
        mark(e)
        return e

    @staticmethod
    def is_ref(p):
        return p.get("type", {}).get("qualType", "").rstrip().endswith("&")


def lv_type(lv):
    if lv[0] == "var":
        return lv[1].ty
    return lv[-1]


def retype(e, ty):
    e2 = X(e.op, ty, e.node)
    e2.__dict__.update({k: v for k, v in e.__dict__.items() if k not in ("ty",)})
    e2.ty = ty
    return e2


def json_key(d):
    return (d.get("name"), d.get("type", {}).get("qualType"), d.get("_line"))


# ------------------------------------------------------------------------------------------------ IR -> Gallina
class Ctx:
    """ret(v): text for `return v` (v a pure term or None); ret_packed(r): text that returns the already packed result r;
    brk / cont: texts for break / continue (None outside a loop); fuel: the fuel term handed to loops and calls"""
    def __init__(self, ret, ret_packed, brk=None, cont=None, fuel="fuel0", in_loop=False):
        self.ret, self.ret_packed, self.brk, self.cont, self.fuel, self.in_loop = ret, ret_packed, brk, cont, fuel, in_loop


class Emitter:
    def __init__(self, part, fn):
        self.part, self.cfg, self.fn = part, part.cfg, fn
        self.ntemp = 0
        self.nloop = 0
        self.aux = []            # loop Fixpoints, emitted before the function
        self.gty = FnReader(part, fn).gallina_type

    def temp(self):
        self.ntemp += 1
        return "t%d" % self.ntemp

    def fail_txt(self, key, kind, node):
        t = self.cfg[key]
        if "{site}" in t:
            t = t.replace("{site}", "(ln %d)" % self.part.site(kind, self.fn, node))
        return t

    # ---- expressions.  ev(e, ctx, k): k receives a PURE Gallina term for the value of e (in the scope of the binds made so far)
    def ev(self, e, ctx, k):
        cfg = self.cfg
        if e.op == "var":
            if e.var.did not in self.set_vars:
                fail(e.node, "read of local '%s' that may be uninitialised" % e.var.cname)
            return k(e.var.gname)
        if e.op == "const":
            return k(e.g)
        if e.op == "not":
            return self.ev(e.a, ctx, lambda a: k("negb %s" % paren(a)))
        if e.op in ("and", "or"):
            sym = "&&" if e.op == "and" else "||"
            if not x_monadic(e.b):
                return self.ev(e.a, ctx, lambda a: self.ev(e.b, ctx, lambda b: k("%s %s %s" % (paren(a), sym, paren(b)))))
            w = x_writes(e.b)
            st = ["s"] if w else []

            def after_a(a):
                t = self.temp()
                inner = self.ev(e.b, ctx, lambda b: "%s %s" % (cfg["ok"], tup_val(st + [paren(b)])))
                skip = "%s %s" % (cfg["ok"], tup_val(st + ["false" if e.op == "and" else "true"]))
                th, el = (inner, skip) if e.op == "and" else (skip, inner)
                return "%s (if %s then\n%s\n  else\n%s) (fun %s =>\n%s)" % (
                    cfg["bind"], a, ind(th, 4), ind(el, 4), tup_pat(st + [t]), k(t))
            return self.ev(e.a, ctx, after_a)
        if e.op in ("prim", "call", "tuple"):
            order = list(range(len(e.args)))
            if getattr(e, "rhs_first", False):
                order.reverse()
            vals = {}

            def go(i):
                if i == len(order):
                    a = [vals[j] for j in range(len(e.args))]
                    if e.op == "tuple":
                        return k("(" + ", ".join(a) + ")")
                    return self.prim(e, a, k) if e.op == "prim" else self.call(e, a, ctx, k)
                j = order[i]

                def kk(v):
                    vals[j] = v
                    return go(i + 1)
                return self.ev(e.args[j], ctx, kk)
            return go(0)
        raise Unsupported("IR expression %s" % e.op)

    def prim(self, e, args, k):
        cfg = self.cfg
        a = " ".join(paren(x) for x in args)
        site = ""
        if getattr(e, "site", None) and "{site}" in cfg.get(e.site + "_fail", ""):
            site = " (ln %d)" % self.part.site(e.site + " " + e.g, self.fn, e.node, getattr(e, "line_override", None))
        if e.kind == "pure":
            return k(("%s %s" % (e.g, a)).strip())
        if e.kind == "get":         # bound to a name here: the value is the one of the state at THIS point of the evaluation
            t = self.temp()
            return "let %s := %s in\n%s" % (t, ("%s s %s" % (e.g, a)).strip(), k(t))
        if e.kind == "read":
            t = self.temp()
            return "%s (%s%s s %s) (fun %s =>\n%s)" % (cfg["bind"], e.g, site, a, t, k(t))
        if e.kind == "set":
            return "let s := %s s %s in\n%s" % (e.g, a, k("tt"))
        if e.kind == "write":
            return "%s (%s%s s %s) (fun s =>\n%s)" % (cfg["bind"], e.g, site, a, k("tt"))
        if e.kind == "rw":
            t = self.temp()
            return "%s (%s%s s %s) (fun '(s, %s) =>\n%s)" % (cfg["bind"], e.g, site, a, t, k(t))
        if e.kind == "alloc":
            t = self.temp()
            return "let '(s, %s) := %s s %s in\n%s" % (t, e.g, a, k(t))
        if e.kind == "mpure":
            t = self.temp()
            return "%s (%s %s) (fun %s =>\n%s)" % (cfg["bind"], e.g, a, t, k(t))
        raise Unsupported("prim kind %s" % e.kind)

    def call(self, e, args, ctx, k):
        cfg, f = self.cfg, e.fn
        if f is self.fn:
            if ctx.in_loop:
                fail(e.node, "recursive call inside a loop (outside the subset)")
            fuel = "fuel'"
        else:
            fuel = ctx.fuel
            if self.fn.recursive and f.has_fuel():
                fail(e.node, "recursive function calling a fuelled function (outside the subset)")
        hd = " ".join([f.gname] + ([fuel] if f.has_fuel() else []) + ["s"] + [paren(x) for x in args])
        w = f.writes_state()
        if f.ret_ty == "void":
            return "%s (%s) (fun %s =>\n%s)" % (cfg["bind"], hd, "s" if w else "_", k("tt"))
        t = self.temp()
        return "%s (%s) (fun %s =>\n%s)" % (cfg["bind"], hd, tup_pat((["s"] if w else []) + [t]), k(t))

    # ---- statements.  st(stmt, ctx, k): k() is the text of what follows when control falls out of the end of stmt
    def seq(self, stmts, ctx, k):
        if not stmts:
            return k()
        return self.st(stmts[0], ctx, lambda: self.seq(stmts[1:], ctx, k))

    def st(self, s, ctx, k):
        cfg = self.cfg
        if s.op == "block":
            return self.seq(s.body, ctx, k)
        if s.op in ("decl", "assign"):
            if s.op == "decl":
                self.scope.append(s.var)
                if s.e is None:
                    return k()

            def kk(v):
                self.set_vars.add(s.var.did)
                return "let %s := %s in\n%s" % (s.var.gname, v, k())
            return self.ev(s.e, ctx, kk)
        if s.op == "eval":
            return self.ev(s.e, ctx, lambda v: k())
        if s.op == "assert":
            def kk(v):
                fl = self.fail_txt("assert_fail", "assert", s.node)
                return "if %s then\n%s\nelse %s" % (v, k(), fl)
            return self.ev(s.e, ctx, kk)
        if s.op == "return":
            if s.e is None:
                return ctx.ret(None)
            return self.ev(s.e, ctx, lambda v: ctx.ret(v))
        if s.op == "break":
            if ctx.brk is None:
                fail(s.node, "break outside a loop")
            return ctx.brk()
        if s.op == "continue":
            if ctx.cont is None:
                fail(s.node, "continue outside a loop")
            return ctx.cont()
        if s.op == "unreachable":
            return self.fail_txt("unreachable_fail", "unreachable", s.node)
        if s.op == "if":
            return self.st_if(s, ctx, k)
        if s.op == "loop":
            return self.st_loop(s, ctx, k)
        raise Unsupported("IR statement %s" % s.op)

    def branch(self, body, ctx, k):
        """emit one arm in a copy of the flow-sensitive environment (definitely-assigned set, scope)"""
        sv, sc = set(self.set_vars), list(self.scope)
        try:
            return self.st(body, ctx, k)
        finally:
            self.set_vars, self.scope = sv, sc

    def st_if(self, s, ctx, k):
        cfg = self.cfg
        la, lb = s_leaves(s.a), s_leaves(s.b)

        def dead():
            raise Unsupported("internal: continuation of an arm that always leaves")

        def with_cond(c):
            if la or lb:
                # the arm that does not always leave gets the rest of the block
                ta = self.branch(s.a, ctx, dead if la else k)
                tb = self.branch(s.b, ctx, dead if lb else k)
                return "if %s then\n%s\nelse\n%s" % (c, ind(ta), ind(tb))
            if s_may_leave(s.a) or s_may_leave(s.b):
                fail(s.node, "if-statement with an arm that sometimes leaves (return/break/continue) and sometimes falls "
                     "through (outside the subset)")
            # join: state (if an arm writes it) and the outer locals assigned in an arm
            asg = set()
            s_assigned(s.a, asg)
            s_assigned(s.b, asg)
            wst = s_writes(s.a) or s_writes(s.b)
            outer = [v for v in self.scope if v.did in asg]
            # definitely assigned after the if: assigned before, or in both arms
            joined = [v for v in outer if v.did in self.set_vars or (self.definite(s.a, v) and self.definite(s.b, v))]
            names = (["s"] if wst else []) + [v.gname for v in joined]
            fin = lambda: "%s %s" % (cfg["ok"], tup_val(names))
            ta = self.branch(s.a, ctx, fin)
            tb = self.branch(s.b, ctx, fin)
            for v in joined:
                self.set_vars.add(v.did)
            return "%s (if %s then\n%s\n  else\n%s) (fun %s =>\n%s)" % (cfg["bind"], c, ind(ta, 4), ind(tb, 4), tup_pat(names), k())
        return self.ev(s.c, ctx, with_cond)

    def definite(self, st, v):
        """v is assigned on every path through st that falls out of its end (conservative)"""
        if st.op == "assign":
            return st.var.did == v.did
        if st.op == "block":
            return any(self.definite(c, v) for c in st.body)
        if st.op == "if":
            return self.definite(st.a, v) and self.definite(st.b, v)
        return False

    def st_loop(self, s, ctx, k):
        cfg, fn = self.cfg, self.fn
        if fn.recursive:
            fail(s.node, "loop inside a recursive function (outside the subset)")

        def after_init():
            self.nloop += 1
            lnum = self.nloop
            lname = "%s_loop%d" % (fn.gname, lnum)
            parts = S("block", s.node, body=[s.body, s.inc])
            asg, used, decl = set(), set(), set()
            s_assigned(parts, asg)
            s_used(parts, used)
            x_vars(s.c, used)
            s_declared(parts, decl)
            outer = [v for v in self.scope if v.did not in decl]
            carried = [v for v in outer if v.did in asg]
            ro = [v for v in outer if v.did in used and v.did not in asg]
            for v in carried + ro:
                if v.did not in self.set_vars:
                    fail(s.node, "loop uses local '%s' that may be uninitialised before the loop" % v.cname)
            wst = s_writes(parts) or x_writes(s.c)
            has_ret = s_has(parts, "return")
            ccalls = []
            x_calls(s.c, ccalls)
            need0 = s_has(parts, "loop") or any(f.has_fuel() for f in s_calls(parts) + ccalls)
            # locals declared by the init-statement of a for loop are out of scope after it: not part of the result
            idecl = set()
            s_declared(s.init, idecl)
            live = [v for v in carried if v.did not in idecl]
            names = (["s"] if wst else []) + [v.gname for v in live]
            tys = ([cfg["state_ty"]] if wst else []) + [self.gty(v.ty) for v in live]
            norm_ty = tup_ty(tys)
            if has_ret:
                res_ty = "%s (ctl %s %s)" % (cfg["pres"], paren(self.ret_ty_txt()), paren(norm_ty))
                norm = lambda: "%s (Norm %s)" % (cfg["ok"], tup_val(names))
                ret = lambda v: "%s (Ret %s)" % (cfg["ok"], self.ret_pack(v))
                ret_packed = lambda r: "%s (Ret %s)" % (cfg["ok"], r)
            else:
                res_ty = "%s %s" % (cfg["pres"], paren(norm_ty))
                norm = lambda: "%s %s" % (cfg["ok"], tup_val(names))

                def ret(v):
                    raise Unsupported("internal: return in a loop that was classified as return-free")
                ret_packed = ret
            fuel_args = ["fuel0"] if need0 else []
            rec_call = lambda: " ".join([lname] + fuel_args + ["fuel'"] + [v.gname for v in ro] + ["s"] + [v.gname for v in carried])
            lctx = Ctx(ret, ret_packed, brk=norm, cont=None, fuel="fuel0", in_loop=True)
            ictx = Ctx(ret, ret_packed, None, None, "fuel0", True)
            # the fall-through of the body and `continue` run the increment and iterate
            iterate = lambda: self.branch(s.inc, ictx, rec_call)
            lctx.cont = iterate
            sv, sc = set(self.set_vars), list(self.scope)

            def with_cond(c):
                body = self.st(s.body, lctx, iterate)
                return ("if %s then\n  match fuel with\n  | O => %s\n  | S fuel' =>\n%s\n  end\nelse %s" % (
                    c, self.fail_txt("fuel_fail", "fuel", s.node), ind(body, 4), norm()))
            ltxt = self.ev(s.c, lctx, with_cond)
            self.set_vars, self.scope = sv, sc
            params = "".join(" (%s : nat)" % f for f in fuel_args + ["fuel"]) + \
                "".join(" (%s : %s)" % (v.gname, self.gty(v.ty)) for v in ro) + " (s : %s)" % cfg["state_ty"] + \
                "".join(" (%s : %s)" % (v.gname, self.gty(v.ty)) for v in carried)
            self.aux.append("(* loop %d of %s, line %s *)\nFixpoint %s%s {struct fuel} : %s :=\n%s." % (
                lnum, fn.cname, stmt_line(s.node), lname, params, res_ty, ind(ltxt)))
            first = " ".join([lname] + fuel_args + [ctx.fuel] + [v.gname for v in ro] + ["s"] + [v.gname for v in carried])
            if has_ret:
                t = self.temp()
                return "%s (%s) (fun %s =>\n  match %s with\n  | Ret r => %s\n  | Norm %s =>\n%s\n  end)" % (
                    cfg["bind"], first, t, t, ctx.ret_packed("r"), tup_val(names) if names else "_", ind(k(), 4))
            return "%s (%s) (fun %s =>\n%s)" % (cfg["bind"], first, tup_pat(names), k())
        # the init statement of a for loop declares loop-scoped locals
        return self.st(s.init, ctx, after_init)

    # ---- function
    def ret_ty_txt(self):
        fn = self.fn
        tys = ([self.cfg["state_ty"]] if fn.writes_state() else []) + ([] if fn.ret_ty == "void" else [self.gty(fn.ret_ty)])
        return tup_ty(tys)

    def ret_pack(self, v):
        fn = self.fn
        if (v is None) != (fn.ret_ty == "void"):
            raise Unsupported("return value / return type mismatch in %s" % fn.cname)
        return tup_val((["s"] if fn.writes_state() else []) + ([] if fn.ret_ty == "void" else [paren(v)]))

    def run(self):
        fn, cfg = self.fn, self.cfg
        allp = list(fn.params) + list(getattr(fn, "this_vars", []))
        self.scope = list(allp)
        self.set_vars = set(v.did for v in allp)
        ctx = Ctx(lambda v: "%s %s" % (cfg["ok"], self.ret_pack(v)), lambda r: "%s %s" % (cfg["ok"], r),
                  fuel="fuel" if fn.recursive else "fuel0")

        def fall():
            if fn.ret_ty != "void":
                fail(fn.decl, "control can reach the end of a non-void function")
            return ctx.ret(None)
        body = self.st(fn.body, ctx, fall)
        params = (" (fuel : nat)" if fn.recursive else " (fuel0 : nat)" if fn.has_fuel() else "") + \
            " (s : %s)" % cfg["state_ty"] + "".join(" (%s : %s)" % (v.gname, self.gty(v.ty)) for v in allp)
        rty = "%s %s" % (cfg["pres"], paren(self.ret_ty_txt()))
        cm = "(* %s, line %s *)\n" % ((fn.decl["type"]["qualType"] + " " + fn.cname).replace("(*", "( *").replace("*)", "* )"),
                                      decl_line(fn.decl))
        if fn.recursive:
            txt = "%sFixpoint %s%s {struct fuel} : %s :=\n  match fuel with\n  | O => %s\n  | S fuel' =>\n%s\n  end." % (
                cm, fn.gname, params, rty, self.fail_txt("fuel_fail", "fuel", fn.decl), ind(body, 4))
        else:
            txt = "%sDefinition %s%s : %s :=\n%s." % (cm, fn.gname, params, rty, ind(body))
        return "\n\n".join(self.aux + [txt])


# ------------------------------------------------------------------------------------------------ library idioms
def functor_idiom(tag, functor_class, gname, arg_tys, ret_ty, reads=()):
    """get<tag>(this)(a1, ..., an): call of the user's functor stored in frg::composition<tag, F> -> `gname s a1 .. an : pres ret`
    (bound in Bind_<part>.v to the model's Section variable)"""
    def rec(tr, n):
        if n.get("kind") != "CXXOperatorCallExpr":
            return None
        c = kids(n)
        callee = strip_expr(c[0])
        if callee.get("kind") == "ImplicitCastExpr":
            callee = strip_expr(kids(callee)[0])
        rd = callee.get("referencedDecl", {})
        if rd.get("name") != "operator()":
            return None
        obj = strip_expr(c[1])
        if obj.get("kind") != "CallExpr":
            return None
        oc = kids(obj)
        g = strip_expr(oc[0])
        if g.get("kind") == "ImplicitCastExpr":
            g = strip_expr(kids(g)[0])
        gt = g.get("type", {}).get("qualType", "")
        if g.get("referencedDecl", {}).get("name") != "get" or tag not in gt or functor_class not in gt or len(oc) != 2:
            return None
        th = strip_expr(oc[1])
        if th.get("kind") == "ImplicitCastExpr" and th.get("castKind") == "DerivedToBase":
            th = strip_expr(kids(th)[0])
        if th.get("kind") != "CXXThisExpr":
            return None
        if len(c) - 2 != len(arg_tys):
            fail(n, "functor call with %d arguments where the binding expects %d" % (len(c) - 2, len(arg_tys)))
        args = [tr.rvalue(a, t) for a, t in zip(c[2:], arg_tys)]
        tr.check_unseq(args, n)
        return X("prim", ret_ty, n, g=gname, args=args, kind="read", reads=set(reads), writes=set())
    return rec


def _callee(n):
    """(kind, name, base) of the callee of a call node: ("member", name, object node) | ("fn", name, None)"""
    c = kids(n)
    if not c:
        return (None, None, None)
    f = strip_expr(c[0])
    if f.get("kind") == "ImplicitCastExpr" and f.get("castKind") in ("FunctionToPointerDecay", "BuiltinFnToFnPtr"):
        f = strip_expr(kids(f)[0])
    if f.get("kind") == "MemberExpr":
        return ("member", f.get("name"), strip_expr(kids(f)[0]))
    if f.get("kind") == "DeclRefExpr":
        return ("fn", f.get("referencedDecl", {}).get("name"), None)
    return (None, None, None)


def _this_member(n, name):
    n = strip_expr(n)
    return n.get("kind") == "MemberExpr" and n.get("name") == name and strip_expr(kids(n)[0]).get("kind") == "CXXThisExpr"


def _sizeof_times(tr, n, elem_ty):
    """sizeof(<type of IR type elem_ty>) * E  ->  E"""
    n = strip_expr(n)
    if n.get("kind") != "BinaryOperator" or n.get("opcode") != "*":
        fail(n, "allocation size that is not sizeof(T) * n")
    a, b = kids(n)
    a = strip_expr(a)
    if a.get("kind") != "UnaryExprOrTypeTraitExpr" or a.get("name") != "sizeof" or "argType" not in a:
        fail(n, "allocation size that is not sizeof(T) * n")
    at = a["argType"]
    if tr.ir_type(a, at.get("desugaredQualType") or at.get("qualType")) != elem_ty:
        fail(a, "sizeof of an unexpected type")
    return tr.rvalue(b, "sz")


def tuple_get_lvalue(tr, n):
    """p->entry.get<0>() / get<1>(): the key / value stored in chain node p"""
    if n.get("kind") != "CXXMemberCallExpr" or len(kids(n)) != 1:
        return None
    kind, name, obj = _callee(n)
    if kind != "member" or name != "get" or obj.get("kind") != "MemberExpr" or obj.get("name") != "entry" or not obj.get("isArrow"):
        return None
    qt = n.get("type", {}).get("qualType", "")
    m = re.search(r"nth_type<\s*(\d+)\s*,", qt)
    if not m:
        fail(n, "tuple get<> whose index cannot be read from the node type '%s'" % qt)
    field = {"0": "key", "1": "val"}.get(m.group(1))
    if field is None:
        fail(n, "tuple index %s" % m.group(1))
    b = tr.cfg["ptr_fields"][field]
    if tr.ir_type(n) != b["ty"]:
        fail(n, "get<%s> of IR type %s" % (m.group(1), tr.ir_type(n)))
    return ("field", field, tr.rvalue(kids(obj)[0], b["of"]), n, b["ty"])


def hashmap_idioms(tr, n):
    cfg = tr.cfg
    k = n.get("kind")
    # ((unsigned int)_hasher(K)) % E
    if k == "BinaryOperator" and n.get("opcode") == "%":
        a, b = kids(n)
        a = strip_expr(a)
        if a.get("kind") == "ImplicitCastExpr" and a.get("castKind") == "IntegralCast":
            c = strip_expr(kids(a)[0])
            if c.get("kind") == "CStyleCastExpr" and c.get("type", {}).get("qualType") == "unsigned int":
                h = strip_expr(kids(c)[0])
                if h.get("kind") == "ImplicitCastExpr" and h.get("castKind") == "IntegralCast":
                    h = strip_expr(kids(h)[0])
                if h.get("kind") == "CXXOperatorCallExpr":
                    hc = kids(h)
                    kind, name, _ = _callee(h)
                    if name == "operator()" and len(hc) == 3 and _this_member(hc[1], "_hasher"):
                        key = tr.glvalue(hc[2])
                        if key.ty != "key":
                            fail(h, "hasher applied to IR type %s" % key.ty)
                        if tr.ir_type(n) != "sz":
                            fail(n, "type of the % expression")
                        return X("prim", "sz", n, g="hash_mod hash", args=[key, tr.rvalue(b, "sz")], kind="mpure", reads=set(), writes=set())
        return None
    if k == "CallExpr":
        kind, name, _ = _callee(n)
        c = kids(n)
        if kind == "fn" and name == "construct" and len(c) == 4 and _this_member(c[1], "_allocator"):
            if tr.ir_type(n) != "ptr":
                fail(n, "construct<> of something that is not a chain node")
            check_chain_ctor(tr, n)
            return X("prim", "ptr", n, g="new_node", args=[tr.glvalue_or_rvalue(c[2], "key"), tr.glvalue_or_rvalue(c[3], "val")], kind="alloc",
                     reads=set(), writes={"f:key", "f:val", "f:next", "alloc"})
        if kind == "fn" and name == "destruct" and len(c) == 3 and _this_member(c[1], "_allocator"):
            return X("prim", "void", n, g="free_node", args=[tr.rvalue(c[2], "ptr")], kind="write", reads=set(),
                     writes={"f:key", "f:val", "f:next", "alloc"})
        if kind == "fn" and name == "move" and len(c) == 2:
            return tr.glvalue(c[1])
        return None
    if k == "CStyleCastExpr" and n.get("castKind") == "BitCast":
        sub = strip_expr(kids(n)[0])
        if sub.get("kind") == "CXXMemberCallExpr":
            kind, name, obj = _callee(sub)
            if kind == "member" and name == "allocate" and _this_member(obj, "_allocator") and len(kids(sub)) == 2:
                if tr.ir_type(n) != "tab":
                    fail(n, "allocate() cast to something that is not the table type")
                cnt = _sizeof_times(tr, kids(sub)[1], "ptr")
                return X("prim", "tab", n, g="new_table", args=[cnt], kind="alloc", reads=set(), writes={"alloc"})
        return None
    if k == "CXXMemberCallExpr":
        kind, name, obj = _callee(n)
        c = kids(n)
        if kind == "member" and name == "deallocate" and _this_member(obj, "_allocator") and len(c) == 3:
            p = strip_expr(c[1])
            if p.get("kind") == "ImplicitCastExpr" and p.get("castKind") == "BitCast":
                p = kids(p)[0]
            t = tr.rvalue(p, "tab")
            cnt = _sizeof_times(tr, c[2], "ptr")
            return X("prim", "void", n, g="free_table", args=[t, cnt], kind="set", reads=set(), writes={"alloc"})
        if kind == "member" and name == "get":
            lv = tuple_get_lvalue(tr, n)
            if lv is not None and lv[1] == "val":        # a reference to the value inside node p is represented by p
                return retype(lv[2], "vref")
        return None
    if k == "UnaryOperator" and n.get("opcode") == "&":
        sub = strip_expr(kids(n)[0])
        lv = tuple_get_lvalue(tr, sub) if sub.get("kind") == "CXXMemberCallExpr" else None
        if lv is not None and lv[1] == "val":            # &p->entry.get<1>(): the pointer to the value inside node p
            return retype(lv[2], "vptr")
        return None
    if k in ("CXXTemporaryObjectExpr", "CXXConstructExpr"):
        ty = tr.ir_type(n) if tr.type_known(n) else None
        c = kids(n)
        if ty == "iter":
            order = iterator_ctor_params(tr, n)
            if len(c) != len(order) or strip_expr(c[order.index("map")]).get("kind") != "CXXThisExpr":
                fail(n, "iterator constructed from something else than (this, bucket, item)")
            want = dict(tr.cfg["classes"]["iterator"]["this_locals"])
            return X("tuple", "iter", n, args=[tr.rvalue(c[order.index(m)], want[m]) for m, _ in tr.cfg["classes"]["iterator"]["this_locals"]])
        if ty == "oval":
            sig = n.get("ctorType", {}).get("qualType", "")
            if len(c) == 1 and "null_opt_type" in sig:
                return X("const", "oval", n, g="None")
            if len(c) == 1 and re.match(r"^void \((const )?long long ?(&&|&)\)", sig):
                return X("prim", "oval", n, g="Some", args=[tr.glvalue(c[0])], kind="pure", reads=set(), writes=set())
            fail(n, "optional constructed by '%s'" % sig)
        return None
    if k == "ImplicitCastExpr" and n.get("castKind") == "ConstructorConversion":
        return hashmap_idioms(tr, strip_expr(kids(n)[0]))
    if k == "CXXFunctionalCastExpr" and n.get("castKind") == "NoOp":
        sub = strip_expr(kids(n)[0])
        if sub.get("kind") == "InitListExpr" and not kids(sub) and tr.ir_type(n) in cfg.get("zero", {}):
            return X("const", tr.ir_type(n), n, g=cfg["zero"][tr.ir_type(n)])       # Value{}
        return None
    return None


def iterator_ctor_params(tr, n):
    """parameter names of the iterator constructor, after checking that it only copies each parameter into the member of
    the same name"""
    part = tr.part
    recs = [c for c in kids(part.spec) if c.get("kind") == "CXXRecordDecl" and c.get("name") == "iterator" and c.get("completeDefinition")]
    ctors = [c for r in recs for c in kids(r) if c.get("kind") == "CXXConstructorDecl" and not c.get("isImplicit") and
             any(x.get("kind") == "CXXCtorInitializer" for x in kids(c))]
    if len(ctors) != 1:
        fail(n, "expected exactly one user-written iterator constructor, found %d" % len(ctors))
    ct = ctors[0]
    ps = [p["name"] for p in kids(ct) if p["kind"] == "ParmVarDecl"]
    inits = [x for x in kids(ct) if x.get("kind") == "CXXCtorInitializer"]
    seen = set()
    for i in inits:
        f = i.get("anyInit", {}).get("name")
        v = strip_expr(kids(i)[0])
        if v.get("kind") == "ImplicitCastExpr" and v.get("castKind") == "LValueToRValue":
            v = strip_expr(kids(v)[0])
        if v.get("kind") != "DeclRefExpr" or v.get("referencedDecl", {}).get("name") != f or f not in ps:
            fail(i, "iterator constructor that does not copy parameter '%s' into the member of the same name" % f)
        seen.add(f)
    body = [c for c in kids(ct) if c["kind"] == "CompoundStmt"]
    if seen != set(ps) or len(body) != 1 or kids(body[0]):
        fail(ct, "iterator constructor shape")
    return ps


def check_chain_ctor(tr, n):
    """the chain constructors: entry{new_key, new_value (moved or not)}, next{nullptr}, empty body"""
    part = tr.part
    recs = [c for c in kids(part.spec) if c.get("kind") == "CXXRecordDecl" and c.get("name") == "chain" and c.get("completeDefinition")]
    ctors = [c for r in recs for c in kids(r) if c.get("kind") == "CXXConstructorDecl" and not c.get("isImplicit") and
             any(x.get("kind") == "CXXCtorInitializer" for x in kids(c))]
    if not ctors:
        fail(n, "no chain constructor found")
    for ct in ctors:
        inits = [x for x in kids(ct) if x.get("kind") == "CXXCtorInitializer"]
        names = [i.get("anyInit", {}).get("name") for i in inits]
        if names != ["entry", "next"]:
            fail(ct, "chain constructor initialises %s" % names)
        refs = []

        def rec(x):
            if isinstance(x, dict):
                if x.get("kind") == "DeclRefExpr" and x.get("referencedDecl", {}).get("kind") == "ParmVarDecl":
                    refs.append(x["referencedDecl"]["name"])
                for v in x.get("inner", []):
                    rec(v)
        rec(inits[0])
        ps = [p["name"] for p in kids(ct) if p["kind"] == "ParmVarDecl"]
        if refs != ps or len(ps) != 2:
            fail(ct, "chain constructor: entry is not built from (key, value) in this order")
        nx = strip_expr(kids(inits[1])[0])
        while nx.get("kind") in ("InitListExpr", "ImplicitCastExpr"):
            nx = strip_expr(kids(nx)[0])
        if nx.get("kind") != "CXXNullPtrLiteralExpr":
            fail(ct, "chain constructor: next is not initialised with nullptr")
        body = [c for c in kids(ct) if c["kind"] == "CompoundStmt"]
        if len(body) != 1 or kids(body[0]):
            fail(ct, "chain constructor with a body")


def move_lvalue(tr, n):
    """std::move(x) as a glvalue: x"""
    if n.get("kind") == "CallExpr":
        kind, name, _ = _callee(n)
        if kind == "fn" and name == "move" and len(kids(n)) == 2:
            return tr.lvalue(kids(n)[1])
    return None


def static_functor_idiom(cls, method, gname, arg_tys, ret_ty, kind="rw", reads=(), writes=()):
    """A::aggregate(node): call of a static member function of the user's policy class -> `gname s args`"""
    def rec(tr, n):
        if n.get("kind") != "CallExpr":
            return None
        c = kids(n)
        f = strip_expr(c[0])
        if f.get("kind") == "ImplicitCastExpr":
            f = strip_expr(kids(f)[0])
        rd = f.get("referencedDecl", {})
        if f.get("kind") != "DeclRefExpr" or rd.get("kind") != "CXXMethodDecl" or rd.get("name") != method:
            return None
        if rd.get("id") in tr.part.by_id:
            return None
        # the qualifier names the user's class: the declaration is not a member of the instantiated class
        if cls not in (n.get("_src") or "") and False:
            return None
        if len(c) - 1 != len(arg_tys):
            fail(n, "policy call with %d arguments" % (len(c) - 1))
        args = [tr.rvalue(a, t) for a, t in zip(c[1:], arg_tys)]
        tr.check_unseq(args, n)
        return X("prim", ret_ty, n, g=gname, args=args, kind=kind, reads=set(reads), writes=set(writes), site="null")
    return rec
