#!/usr/bin/env python3
"""Regenerates coq/Gen/SpinOrders.v from $VERIF_REPO/include/frg/spinlock.hpp (default /repo).

For every member function lock / is_locked / unlock of ticket_spinlock and simple_spinlock the clang JSON AST is
walked in source order and every atomic builtin call is listed with: operation, field, memory order, the enclosing
control structure (while-condition / while-body / if-condition / ...), its operand and how its result is used.
The generated file states two obligations closed by vm_compute:
  orders_match_model : the listing has exactly the shape the hand-written model (coq/Locks/SpinModel.v) implements
  orders_sufficient  : the memory orders are at least what C12_acq_rel needs
Exit status != 0 on any AST shape this script does not recognise (treated as a broken obligation by the check)."""
import json, os, subprocess, sys

REPO = os.environ.get("VERIF_REPO", "/repo")
ROOT = os.path.dirname(os.path.dirname(os.path.abspath(__file__)))
HDR = os.path.join(REPO, "include", "frg", "spinlock.hpp")
OUT = os.path.join(ROOT, "coq", "Gen", "SpinOrders.v")

ORDERS = {0: "Relaxed", 1: "Consume", 2: "Acquire", 3: "Release", 4: "AcqRel", 5: "SeqCst"}
BUILTINS = {"__atomic_load_n": ("ALoad", 2), "__atomic_store_n": ("AStore", 3),
            "__atomic_fetch_add": ("AFetchAdd", 3), "__atomic_exchange_n": ("AExchange", 3)}
FIELDS = {"next_ticket_": "LNext", "serving_ticket_": "LServing", "lock_": "LLock"}
# statement/expression kinds the walker looks through; anything else that contains an atomic op (or any call other
# than detail::loophint()) is an unknown shape
TRANSPARENT = {"CompoundStmt", "DeclStmt", "VarDecl", "ReturnStmt", "ImplicitCastExpr", "ParenExpr", "ExprWithCleanups"}
ALLOWED_CALLS = {"loophint"}


class Unknown(Exception):
    pass


def die(msg):
    sys.stderr.write("gen_locks.py: unrecognised AST shape: %s\n" % msg)
    sys.exit(2)


def dump(struct):
    src = "#include <frg/spinlock.hpp>\n"
    cmd = ["clang++", "-std=c++20", "-fsized-deallocation", "-I", os.path.join(REPO, "include"), "-fsyntax-only",
           "-Xclang", "-ast-dump=json", "-Xclang", "-ast-dump-filter=" + struct, "-x", "c++", "-"]
    p = subprocess.run(cmd, input=src, capture_output=True, text=True, timeout=120)
    if p.returncode != 0:
        die("clang failed on spinlock.hpp: " + p.stderr[-500:])
    dec = json.JSONDecoder(); i = 0; docs = []
    txt = p.stdout
    while i < len(txt):
        while i < len(txt) and txt[i].isspace():
            i += 1
        if i >= len(txt):
            break
        d, i = dec.raw_decode(txt, i)
        docs.append(d)
    recs = [d for d in docs if d.get("kind") == "CXXRecordDecl" and d.get("name") == struct and d.get("completeDefinition")]
    if len(recs) != 1:
        die("expected exactly one definition of struct %s, found %d" % (struct, len(recs)))
    return recs[0]


def strip(n):
    while n.get("kind") in ("ImplicitCastExpr", "ParenExpr") and len(n.get("inner", [])) == 1:
        n = n["inner"][0]
    return n


def expr_text(n):
    """canonical text of a small operand expression"""
    n = strip(n)
    k = n.get("kind")
    if k == "IntegerLiteral":
        return str(int(n["value"]))
    if k == "CXXBoolLiteralExpr":
        return "true" if n["value"] else "false"
    if k == "DeclRefExpr":
        return n["referencedDecl"]["name"]
    if k == "BinaryOperator":
        return expr_text(n["inner"][0]) + n["opcode"] + expr_text(n["inner"][1])
    raise Unknown("operand expression of kind %s" % k)


def atomic_of(n, hdr_text, ctx, use, out):
    inner = n.get("inner", [])
    off = n["range"]["begin"]
    if "offset" not in off or "tokLen" not in off:
        raise Unknown("AtomicExpr without a plain source location")
    name = hdr_text[off["offset"]: off["offset"] + off["tokLen"]]
    if name not in BUILTINS:
        raise Unknown("atomic builtin %r" % name)
    kind, nargs = BUILTINS[name]
    if len(inner) != nargs:
        raise Unknown("%s with %d operands" % (name, len(inner)))
    ptr = strip(inner[0])
    if ptr.get("kind") != "UnaryOperator" or ptr.get("opcode") != "&":
        raise Unknown("atomic pointer operand is not &field")
    mem = strip(ptr["inner"][0])
    if mem.get("kind") != "MemberExpr" or mem.get("name") not in FIELDS or strip(mem["inner"][0]).get("kind") != "CXXThisExpr":
        raise Unknown("atomic pointer operand is not &this->field: %s" % mem.get("name"))
    order = strip(inner[1])
    if order.get("kind") != "IntegerLiteral" or int(order["value"]) not in ORDERS:
        raise Unknown("memory order is not one of the __ATOMIC_* constants")
    arg = expr_text(inner[2]) if nargs == 3 else ""
    out.append(dict(kind=kind, loc=FIELDS[mem["name"]], order=ORDERS[int(order["value"])], ctx=list(ctx),
                    arg=arg + ";" + use, line=n["range"]["begin"].get("line")))


def contains_atomic(n):
    if n.get("kind") == "AtomicExpr":
        return True
    return any(contains_atomic(c) for c in n.get("inner", []))


def walk(n, hdr_text, ctx, use, out):
    k = n.get("kind")
    inner = n.get("inner", [])
    if k == "AtomicExpr":
        atomic_of(n, hdr_text, ctx, use, out)
        for c in inner:
            if contains_atomic(c):
                raise Unknown("nested atomic operation")
        return
    if k == "WhileStmt":
        if len(inner) != 2:
            raise Unknown("while with a condition variable")
        walk(inner[0], hdr_text, ctx + ["InWhileCond"], "", out)
        walk(inner[1], hdr_text, ctx + ["InWhileBody"], "", out)
        return
    if k == "IfStmt":
        if n.get("hasInit") or n.get("hasVar") or len(inner) not in (2, 3):
            raise Unknown("if with init/variable")
        walk(inner[0], hdr_text, ctx + ["InIfCond"], "", out)
        walk(inner[1], hdr_text, ctx + ["InIfThen"], "", out)
        if len(inner) == 3:
            walk(inner[2], hdr_text, ctx + ["InIfElse"], "", out)
        return
    if k == "VarDecl":
        for c in inner:
            walk(c, hdr_text, ctx, "=" + n.get("name", "?"), out)
        return
    if k == "UnaryOperator" and n.get("opcode") == "!":
        walk(inner[0], hdr_text, ctx, "!" + use, out)
        return
    if k == "BinaryOperator" and n.get("opcode") in ("!=", "==", "<", ">", "<=", ">="):
        l, r = inner
        la, ra = contains_atomic(l), contains_atomic(r)
        if la and ra:
            walk(l, hdr_text, ctx, n["opcode"] + "rhs-atomic", out)
            walk(r, hdr_text, ctx, "lhs-atomic" + n["opcode"], out)
        elif la:
            walk(l, hdr_text, ctx, n["opcode"] + expr_text(r), out)
        elif ra:
            walk(r, hdr_text, ctx, expr_text(l) + n["opcode"], out)
        return
    if k in ("CallExpr", "CXXMemberCallExpr", "CXXOperatorCallExpr"):
        callee = strip(inner[0]) if inner else {}
        name = callee.get("referencedDecl", {}).get("name") if callee.get("kind") == "DeclRefExpr" else None
        if name not in ALLOWED_CALLS:
            raise Unknown("call of %s inside a lock function" % (name or callee.get("kind")))
        return
    if k in TRANSPARENT:
        for c in inner:
            walk(c, hdr_text, ctx, use if k in ("ImplicitCastExpr", "ParenExpr", "ExprWithCleanups") else ("ret" if k == "ReturnStmt" else use), out)
        return
    if contains_atomic(n):
        raise Unknown("atomic operation under a %s node" % k)
    if k in ("CXXBoolLiteralExpr", "IntegerLiteral", "DeclRefExpr", "NullStmt", "BinaryOperator", "UnaryOperator"):
        return
    raise Unknown("statement/expression of kind %s" % k)


MUTEX_HDR = os.path.join(REPO, "include", "frg", "mutex.hpp")


def dump_all(filter_name, header):
    src = "#include <frg/%s>\n" % header
    cmd = ["clang++", "-std=c++20", "-fsized-deallocation", "-I", os.path.join(REPO, "include"), "-fsyntax-only",
           "-Xclang", "-ast-dump=json", "-Xclang", "-ast-dump-filter=" + filter_name, "-x", "c++", "-"]
    p = subprocess.run(cmd, input=src, capture_output=True, text=True, timeout=120)
    if p.returncode != 0:
        die("clang failed on %s: %s" % (header, p.stderr[-500:]))
    dec = json.JSONDecoder(); i = 0; docs = []
    txt = p.stdout
    while i < len(txt):
        while i < len(txt) and txt[i].isspace():
            i += 1
        if i >= len(txt):
            break
        d, i = dec.raw_decode(txt, i)
        docs.append(d)
    return docs


def guard_helpers():
    """the free functions frg::guard(...) of mutex.hpp: (tag parameter type, guard class built, constructor tag)"""
    out = []
    for d in dump_all("guard", "mutex.hpp"):
        if d.get("kind") != "FunctionTemplateDecl" or d.get("name") != "guard":
            continue     # e.g. lock_guard pulled in by the substring filter
        fds = [c for c in d.get("inner", []) if c.get("kind") == "FunctionDecl"]
        if len(fds) != 1:
            die("guard(): expected one function pattern")
        fd = fds[0]
        parms = [c for c in fd.get("inner", []) if c.get("kind") == "ParmVarDecl"]
        tags = [p["type"]["qualType"].replace("frg::", "") for p in parms if not p["type"]["qualType"].endswith("*")]
        ptrs = [p for p in parms if p["type"]["qualType"].endswith("*")]
        if len(ptrs) != 1 or len(tags) > 1:
            die("guard(): unexpected parameter list")
        body = [c for c in fd.get("inner", []) if c.get("kind") == "CompoundStmt"]
        if len(body) != 1 or len(body[0].get("inner", [])) != 1 or body[0]["inner"][0].get("kind") != "ReturnStmt":
            die("guard(): body is not a single return statement")
        e = strip(body[0]["inner"][0]["inner"][0])
        if e.get("kind") not in ("CXXUnresolvedConstructExpr", "CXXTemporaryObjectExpr", "CXXFunctionalCastExpr"):
            die("guard(): return expression of kind %s" % e.get("kind"))
        cls = e["type"]["qualType"].split("<")[0].replace("frg::", "")
        args = [strip(a) for a in e.get("inner", [])]
        ctor_tag = ""
        rest = args
        if args and args[0].get("kind") == "DeclRefExpr":
            ctor_tag = args[0]["referencedDecl"]["name"]; rest = args[1:]
        if len(rest) != 1 or rest[0].get("kind") != "UnaryOperator" or strip(rest[0]["inner"][0]).get("referencedDecl", {}).get("name") != ptrs[0].get("name"):
            die("guard(): the mutex argument is not *<pointer parameter>")
        out.append((tags[0] if tags else "", cls, ctor_tag))
    if not out:
        die("no frg::guard() helper found in mutex.hpp")
    return out


def coq_str(s):
    return '"' + s.replace('"', '""') + '"'


def main():
    try:
        hdr_text = open(HDR, encoding="utf-8", errors="replace").read()
    except OSError as e:
        die(str(e))
    listing = []
    for struct in ("ticket_spinlock", "simple_spinlock"):
        rec = dump(struct)
        methods = {}
        for m in rec.get("inner", []):
            if m.get("kind") == "CXXMethodDecl" and m.get("name") in ("lock", "is_locked", "unlock", "try_lock", "lock_shared", "unlock_shared"):
                if m["name"] in methods:
                    die("overloaded %s::%s" % (struct, m["name"]))
                methods[m["name"]] = m
        for fn in sorted(methods, key=lambda x: ["lock", "is_locked", "unlock"].index(x) if x in ("lock", "is_locked", "unlock") else 9):
            m = methods[fn]
            body = [c for c in m.get("inner", []) if c.get("kind") == "CompoundStmt"]
            if len(body) != 1:
                die("%s::%s has no body" % (struct, fn))
            out = []
            try:
                walk(body[0], hdr_text, [], "", out)
            except Unknown as e:
                die("%s::%s: %s" % (struct, fn, e))
            except (KeyError, IndexError, ValueError) as e:
                die("%s::%s: %r" % (struct, fn, e))
            listing.append(("%s::%s" % (struct, fn), out))
    helpers = guard_helpers()
    lines = ["(* GENERATED by translator/gen_locks.py from %s -- do not edit, not under version control. *)" % HDR,
             "From Coq Require Import String List.", "From FV Require Import Locks.SpinModel.", "Import ListNotations.",
             "Local Open Scope string_scope.", "", "Definition src_listing : list fn_listing := ["]
    fl = []
    for name, ops in listing:
        ol = ["     mk_aop %s %s %s [%s] %s   (* spinlock.hpp:%s *)" % (o["kind"], o["loc"], o["order"], "; ".join(o["ctx"]), coq_str(o["arg"]), o["line"] or "?")
              for o in ops]
        # a Coq comment may not sit before the separator of the last element in a way that breaks parsing; put ';' first
        body = ";\n".join(x.split("   (*")[0] for x in ol)
        fl.append("  (%s,\n    [\n%s\n    ])" % (coq_str(name), body))
    lines.append(";\n".join(fl))
    lines += ["].", "",
              "Definition src_orders : orders := Eval vm_compute in orders_of src_listing.", "",
              "(* the free helper functions frg::guard(...) of mutex.hpp: (tag parameter, class built, constructor tag) *)",
              "Definition src_guard_helpers : list (string * (string * string)) := [",
              ";\n".join("  (%s, (%s, %s))" % (coq_str(a), coq_str(b), coq_str(c)) for a, b, c in helpers),
              "].", "",
              "(* guard(&m) builds unique_lock(m) (locking), guard(dont_lock, &m) builds unique_lock(dont_lock, m) (deferred); no others *)",
              "Lemma guard_helpers_match_model : guard_helpers_match src_guard_helpers = true.", "Proof. vm_compute. reflexivity. Qed.", "",
              "(* the source has exactly the atomic operations, in the order, on the locations, at the places and with the",
              "   operands that the model Locks/SpinModel.v implements *)",
              "Lemma orders_match_model : ops_match src_listing = true.", "Proof. vm_compute. reflexivity. Qed.", "",
              "(* exactly what the SC and the stale-read happens-before proofs use: acquire on the serving load and on the exchange,",
              "   release on both unlock stores (each one is necessary: Example C12_acq_rel_weak_needs_orders) *)",
              "Lemma orders_sufficient : sufficient src_orders = true.", "Proof. vm_compute. reflexivity. Qed.", ""]
    os.makedirs(os.path.dirname(OUT), exist_ok=True)
    txt = "\n".join(lines)
    old = open(OUT).read() if os.path.exists(OUT) else None
    if old != txt:
        with open(OUT, "w") as f:
            f.write(txt)
    return 0


if __name__ == "__main__":
    sys.exit(main())
