#!/usr/bin/env python3
"""Regenerates coq/Gen/SlabSkeleton.v from the clang JSON AST of $VERIF_REPO/include/frg/slab.hpp.

Per slab_pool member function the TREE of events in source order (see coq/SlabConc/Skeleton.v):
  Lock g m / Unlock g / ScopeEnd g     unique_lock construction or .lock() / .unlock() / RAII scope exit (also before
                                       every `return` inside the scope)
  PolicyCall f                         _plcy.f(...)
  Access field R|W obj                 read/write of a pool / bucket / frame / freelist field through root variable obj
  Fresh v / Alias v src / Store v obj  provenance of pointer variables (placement new, copies, publication)
  If a (Else b) / Loop b / Return / Call f
Any AST shape that is not recognised makes the script exit non-zero (treated as a broken obligation).

Stand-alone: honours VERIF_REPO; `gen_slabconc.py [--out FILE [--define MACRO]...] [--dump]`; without --out it writes
coq/Gen/SlabSkeleton.v (plain) and coq/Gen/SlabSkeletonTR.v (-DFRG_SLAB_TRACK_REGIONS: the pool-wide _frame_tree).
"""
import hashlib, json, os, subprocess, sys, tempfile

HERE = os.path.dirname(os.path.abspath(__file__))
ROOT = os.path.dirname(HERE)
REPO = os.environ.get("VERIF_REPO", "/repo")
HDR = os.path.join(REPO, "include", "frg", "slab.hpp")
OUT = os.path.join(ROOT, "coq", "Gen", "SlabSkeleton.v")
# second instantiation of the same extraction: the source preprocessed with -DFRG_SLAB_TRACK_REGIONS (the pool-wide
# _frame_tree exists only there); same events, same field -> lock table, same checker (Properties_C05_slab.v)
OUT_TR = os.path.join(ROOT, "coq", "Gen", "SlabSkeletonTR.v")
DEFINES = []          # -D macros for the clang run (set by main)
# with FRG_SLAB_TRACK_REGIONS the debugging walkers get bodies; they are reachable only through `if(enable_checking)`
# and enable_checking is the constant false in slab.hpp (checked below), so they are stubbed in that variant
STUB_WHEN_CHECKING_OFF = ("_verify_integrity", "_verify_frame_integrity")


class Unrecognised(Exception):
    pass


POISON_CALLS = ("poison", "unpoison", "unpoison_expand")


def declref_names(n):
    """names of the variables referenced anywhere inside an expression"""
    out = set()
    def scan(x):
        if isinstance(x, dict):
            if x.get("kind") == "DeclRefExpr" and x.get("referencedDecl", {}).get("kind") in ("VarDecl", "ParmVarDecl"):
                out.add(x["referencedDecl"].get("name"))
            for c in x.get("inner", []):
                scan(c)
    scan(n)
    return out


def mutable_static(d):
    """VarDecl with static storage duration that is neither constexpr nor const-qualified (thread_local is per thread: fine)"""
    if d.get("storageClass") != "static" or d.get("tls"):
        return False
    ty = d.get("type", {}).get("qualType", "")
    return not (d.get("constexpr") or ty.startswith("const ") or " const" in ty.split("[")[0] and not ty.rstrip().endswith("*"))


def die(n, msg):
    loc = ""
    if isinstance(n, dict):
        b = n.get("range", {}).get("begin", {})
        ln = b.get("line") or b.get("expansionLoc", {}).get("line") or b.get("spellingLoc", {}).get("line")
        loc = " [%s%s]" % (n.get("kind"), (" near line %s" % ln) if ln else "")
    raise Unrecognised(msg + loc)


# --------------------------------------------------------------------------------------------------
# AST loading
# --------------------------------------------------------------------------------------------------

def load_ast():
    with tempfile.TemporaryDirectory(prefix="gen_slabconc_") as td:
        tu = os.path.join(td, "tu.cpp")
        open(tu, "w").write("#include <frg/slab.hpp>\n")
        cmd = ["clang++", "-std=c++20", "-fsized-deallocation", "-I" + os.path.join(REPO, "include"), "-fsyntax-only"] \
              + ["-D" + d for d in DEFINES] + ["-Xclang", "-ast-dump=json", "-Xclang", "-ast-dump-filter=slab_pool", tu]
        p = subprocess.run(cmd, capture_output=True, text=True, timeout=300)
        if p.returncode != 0:
            raise Unrecognised("clang failed: " + p.stderr[-2000:])
        s = p.stdout
    dec = json.JSONDecoder()
    i, objs = 0, []
    while i < len(s):
        while i < len(s) and s[i].isspace():
            i += 1
        if i >= len(s):
            break
        o, i = dec.raw_decode(s, i)
        objs.append(o)
    return objs


def kids(n):
    return n.get("inner", []) if isinstance(n, dict) else []


def body_of(m):
    for c in kids(m):
        if c.get("kind") == "CompoundStmt":
            return c
    return None


class Source:
    """functions: name -> (decl, body); fields: record -> set of field names; rec_methods: name -> [(field, mode)]"""

    def __init__(self, objs):
        self.functions = {}
        self.order = []
        self.fields = {}
        self.rec_methods = {}
        self.static = set()
        cls = [o for o in objs if o.get("kind") == "ClassTemplateDecl" and o.get("name") == "slab_pool"]
        if len(cls) != 1:
            raise Unrecognised("expected exactly one ClassTemplateDecl slab_pool, found %d" % len(cls))
        rec = [c for c in kids(cls[0]) if c.get("kind") == "CXXRecordDecl" and c.get("name") == "slab_pool"]
        if len(rec) != 1:
            raise Unrecognised("slab_pool: templated CXXRecordDecl not found")
        self._record("slab_pool", rec[0], top=True)
        for o in objs:
            if o.get("kind") == "CXXMethodDecl":
                b = body_of(o)
                if b is None:
                    continue
                if o["name"] not in self.functions:
                    raise Unrecognised("out-of-line definition of undeclared member " + o["name"])
                self._add_fn(o["name"], o, b)
            elif o.get("kind") in ("ClassTemplateDecl", "CXXConstructorDecl", "CXXDestructorDecl"):
                continue
            else:
                raise Unrecognised("unexpected top-level %s %s in the slab_pool dump" % (o.get("kind"), o.get("name")))
        missing = [f for f, (d, b) in self.functions.items() if b is None]
        if missing:
            raise Unrecognised("member functions without a body: %s" % missing)

    def _add_fn(self, name, decl, b):
        if name in self.functions and self.functions[name][1] is not None:
            raise Unrecognised("overloaded / doubly defined member function " + name)
        if name not in self.functions:
            self.order.append(name)
        self.functions[name] = (decl, b)

    def _record(self, rname, rec, top=False):
        self.fields[rname] = set()
        for c in kids(rec):
            k = c.get("kind")
            if k == "FieldDecl":
                self.fields[rname].add(c["name"])
            elif k == "CXXRecordDecl":
                if c.get("isImplicit") or not kids(c):
                    continue
                if c.get("name"):
                    self._record(c["name"], c)
            elif k == "CXXMethodDecl":
                if c.get("isImplicit") or c.get("explicitlyDeleted"):
                    continue
                if c["name"].startswith("operator"):
                    if body_of(c) is None:
                        continue
                if top:
                    if c.get("storageClass") == "static":
                        self.static.add(c["name"])
                    b = body_of(c)
                    if c["name"] in self.functions and b is not None:
                        raise Unrecognised("overloaded member function " + c["name"])
                    if c["name"] not in self.functions:
                        self.order.append(c["name"])
                        self.functions[c["name"]] = (c, b)
                    elif b is not None:
                        self.functions[c["name"]] = (c, b)
                else:
                    b = body_of(c)
                    if b is None:
                        continue
                    acc = []
                    self._implicit_this_fields(b, acc)
                    self.rec_methods[c["name"]] = acc
            elif k == "VarDecl":
                if mutable_static(c):       # a mutable static data member would be shared by all pools, outside every pool mutex
                    raise Unrecognised("mutable static data member %s of %s (no pool mutex can protect it)" % (c.get("name"), rname))
                continue
            elif k in ("CXXConstructorDecl", "CXXDestructorDecl", "AccessSpecDecl", "StaticAssertDecl",
                       "TypeAliasDecl", "EnumDecl", "FriendDecl", "UsingDecl", "TypedefDecl"):
                continue
            else:
                raise Unrecognised("unexpected member %s %s of %s" % (k, c.get("name"), rname))

    def _implicit_this_fields(self, n, acc):
        if not isinstance(n, dict):
            return
        if n.get("kind") == "MemberExpr" and kids(n) and kids(n)[0].get("kind") == "CXXThisExpr":
            acc.append((n["name"], "R"))
            return
        if n.get("kind") in ("BinaryOperator", "CompoundAssignOperator", "UnaryOperator") and \
                n.get("opcode") in ("=", "+=", "-=", "++", "--"):
            raise Unrecognised("nested-record method writes a field")
        for c in kids(n):
            self._implicit_this_fields(c, acc)

    def all_fields(self):
        s = set()
        for v in self.fields.values():
            s |= v
        return s


# --------------------------------------------------------------------------------------------------
# translation of one function
# --------------------------------------------------------------------------------------------------

TRANSPARENT = {"ImplicitCastExpr", "ParenExpr", "CXXStaticCastExpr", "CXXReinterpretCastExpr", "CStyleCastExpr",
               "CXXFunctionalCastExpr", "ExprWithCleanups", "MaterializeTemporaryExpr", "CXXBindTemporaryExpr",
               "ConstantExpr", "SubstNonTypeTemplateParmExpr", "CXXConstCastExpr"}
LEAVES = {"UnresolvedLookupExpr", "DeclRefExpr", "IntegerLiteral", "CXXNullPtrLiteralExpr", "StringLiteral", "CXXBoolLiteralExpr",
          "CharacterLiteral", "CXXThisExpr", "UnaryExprOrTypeTraitExpr", "DependentScopeDeclRefExpr", "RequiresExpr",
          "FloatingLiteral", "SizeOfPackExpr", "CXXScalarValueInitExpr", "ImplicitValueInitExpr", "TypeTraitExpr"}
CHILDREN = {"CXXUnresolvedConstructExpr", "InitListExpr", "ParenListExpr", "CXXConstructExpr", "CXXTemporaryObjectExpr"}
PURE_FUNCTIONS = {"array_size", "clz", "memcpy", "memset", "memmove", "__builtin_trap", "frg_panic", "frg_log", "__builtin_clzl", "__builtin_clz",
                  "__builtin_unreachable", "__builtin_expect"}
GUARD_TYPES = ("unique_lock<",)
OTHER_LOCK_TYPES = ("lock_guard<", "shared_lock<", "std::lock_guard", "std::unique_lock", "std::scoped_lock")
MUTEX_FIELDS = {"bucket_mutex": "MB", "_tree_mutex": "MT"}
TREE_FIELDS = {"partial_tree": "partial_hook", "_frame_tree": "frame_hook"}
TREE_READ = {"first", "last", "get_root", "get_left", "get_right", "successor", "predecessor", "get_parent"}
SLAB_FIELDS = {"available", "num_reserved", "partial_hook"}
BUCKET_FIELDS = {"head_slb", "partial_tree"}


def strip(n):
    while isinstance(n, dict) and n.get("kind") in TRANSPARENT and kids(n):
        n = kids(n)[-1]
    return n


def member_name(n):
    if n.get("kind") == "MemberExpr":
        return n.get("name")
    if n.get("kind") == "CXXDependentScopeMemberExpr":
        return n.get("member")
    return None


def is_member(n):
    return isinstance(n, dict) and n.get("kind") in ("MemberExpr", "CXXDependentScopeMemberExpr")


def root_of(n):
    """root variable of an access path, or None"""
    n = strip(n)
    while True:
        if not isinstance(n, dict):
            return None
        k = n.get("kind")
        if is_member(n):
            if not kids(n):
                return None
            n = strip(kids(n)[0])
        elif k == "UnaryOperator" and n.get("opcode") in ("&", "*"):
            n = strip(kids(n)[0])
        elif k == "ArraySubscriptExpr":
            n = strip(kids(n)[0])
        elif k == "DeclRefExpr":
            rd = n.get("referencedDecl", {})
            if rd.get("kind") in ("VarDecl", "ParmVarDecl"):
                return rd.get("name")
            return None
        elif k == "CXXThisExpr":
            return "this"
        else:
            return None


def srctext(n):
    n = strip(n)
    k = n.get("kind")
    if k == "DeclRefExpr":
        return n.get("referencedDecl", {}).get("name", "?")
    if is_member(n):
        base = strip(kids(n)[0])
        if base.get("kind") == "CXXThisExpr":
            return member_name(n)
        return srctext(base) + ("->" if n.get("isArrow") else ".") + member_name(n)
    if k == "IntegerLiteral":
        return n.get("value")
    return "<%s>" % k


class Fn:
    def __init__(self, src, name, fresh_ret):
        self.src = src
        self.name = name
        self.fresh_ret = fresh_ret
        self.decl, self.body = src.functions[name]
        self.guards = {}        # (unique) guard name -> MB/MT
        self.guard_ids = {}     # decl id -> unique guard name
        self.lambdas = set()
        self.bktvars = {}       # var -> index expression text
        self.origin = {}        # pointer var -> list of origins
        self.placed = {}        # pointer var created by placement new -> variables naming the block
        self.published = set()  # variables whose block has been linked into a shared structure
        self.slabvars = set()   # vars through which slab fields are accessed / tree args
        self.bucket_roots = set()
        self.scopes = []
        self.known_fields = src.all_fields()
        self.objvars = set()
        self._collect_objvars(self.body)

    # ---- naming
    def q(self, v):
        return v if v == "this" else "%s.%s" % (self.name, v)

    def _collect_objvars(self, n):
        if not isinstance(n, dict):
            return
        if is_member(n):
            r = root_of(n)
            if r and r != "this":
                self.objvars.add(r)
        if n.get("kind") == "CallExpr":
            cal = strip(kids(n)[0]) if kids(n) else None
            if is_member(cal) and member_name(cal) in ("insert", "remove"):
                for a in kids(n)[1:]:
                    r = root_of(a)
                    if r and r != "this":
                        self.objvars.add(r)
        for c in kids(n):
            self._collect_objvars(c)

    # ---- events
    def ev(self, s):
        return ("ev", s)

    def access(self, fld, md, obj):
        if fld not in self.known_fields:
            raise Unrecognised("%s: access to unknown member '%s'" % (self.name, fld))
        if fld in SLAB_FIELDS and obj != "this":
            self.slabvars.add(obj)
        if fld in BUCKET_FIELDS:
            self.bucket_roots.add(obj)
        return self.ev('Access "%s" %s "%s"' % (fld, md, self.q(obj)))

    # ---- expressions: returns list of items in evaluation order
    def expr(self, n, mode="R"):
        if not isinstance(n, dict) or "kind" not in n:
            return []
        k = n["kind"]
        if k in TRANSPARENT:
            out = []
            for c in kids(n):
                out += self.expr(c, mode)
            return out
        if k in LEAVES:
            return []
        if k in CHILDREN:
            out = []
            for c in kids(n):
                out += self.expr(c)
            return out
        if is_member(n):
            return self.member(n, mode)
        if k in ("CallExpr", "CXXMemberCallExpr"):
            return self.call(n)
        if k == "CXXOperatorCallExpr":
            cs = kids(n)
            cal = strip(cs[0])
            tgt = [strip(c) for c in cs[1:2]]
            ok = tgt and tgt[0].get("kind") == "DeclRefExpr" and tgt[0].get("referencedDecl", {}).get("name") in self.lambdas
            if not ok:
                die(n, "%s: operator call that is not a local lambda call" % self.name)
            out = []
            for c in cs[2:]:
                out += self.expr(c)
            return out
        if k == "CXXPseudoDestructorExpr":
            return []
        if k == "CXXNewExpr":
            die(n, "%s: new-expression outside a variable initialiser" % self.name)
        if k == "LambdaExpr":
            self.check_harmless(n)
            return []
        if k == "ArraySubscriptExpr":
            cs = kids(n)
            return self.expr(cs[0], "addr") + self.expr(cs[1])
        if k == "UnaryOperator":
            op = n.get("opcode")
            c = kids(n)[0]
            if op in ("++", "--"):
                return self.expr(c, "RW")
            if op == "&":
                return self.expr(c, "addr")
            if op in ("!", "-", "~", "+", "*"):
                return self.expr(c)
            die(n, "%s: unary operator %s" % (self.name, op))
        if k == "CompoundAssignOperator":
            l, r = kids(n)
            return self.expr(r) + self.expr(l, "RW")
        if k == "BinaryOperator":
            op = n.get("opcode")
            l, r = kids(n)
            if op == "=":
                out = self.expr(r) + self.expr(l, "W")
                ls, rs = strip(l), strip(r)
                if ls.get("kind") == "DeclRefExpr":
                    v = ls.get("referencedDecl", {}).get("name")
                    if v in self.objvars:
                        out += self.bind_var(v, r)
                elif is_member(ls) and rs.get("kind") == "DeclRefExpr":
                    v = rs.get("referencedDecl", {}).get("name")
                    if v in self.objvars:
                        ro = root_of(ls)
                        if ro is None:
                            die(n, "%s: store through an unrecognised path" % self.name)
                        out.append(self.ev('Store "%s" "%s"' % (self.q(v), self.q(ro))))
                        self.origin.setdefault(v, []).append(("stored", ro, member_name(ls)))
                        self.publish(v)
                return out
            if op in ("&&", "||"):
                le, re_ = self.expr(l), self.expr(r)
                self.only_accesses(re_, n, "right operand of " + op)
                return le + re_
            if op in ("+", "-", "*", "/", "%", "<", ">", "<=", ">=", "==", "!=", "&", "|", "^", "<<", ">>", ","):
                return self.expr(l) + self.expr(r)
            die(n, "%s: binary operator %s" % (self.name, op))
        if k == "ConditionalOperator":
            c, a, b = kids(n)
            ae, be = self.expr(a), self.expr(b)
            self.only_accesses(ae + be, n, "arm of ?:")
            return self.expr(c) + ae + be
        die(n, "%s: unrecognised expression kind %s" % (self.name, k))

    def only_accesses(self, items, n, what):
        for it in items:
            if it[0] != "ev" or not it[1].startswith("Access "):
                die(n, "%s: conditionally evaluated %s contains a call / lock / policy event" % (self.name, what))

    def member(self, n, mode):
        name = member_name(n)
        base = kids(n)[0] if kids(n) else None
        if name in MUTEX_FIELDS:
            die(n, "%s: mutex member %s used outside a unique_lock construction" % (self.name, name))
        if name == "_plcy":
            die(n, "%s: _plcy used other than as the object of a callback" % self.name)
        if name in self.src.functions:
            die(n, "%s: member function %s referenced without being called" % (self.name, name))
        pre = self.expr(base, "R" if (n.get("isArrow")) else ("addr" if mode == "addr" else "R")) if base else []
        if name == "_bkts":
            return pre
        ro = root_of(n)
        if ro is None:
            die(n, "%s: member access %s through an unrecognised base" % (self.name, name))
        if mode == "addr":
            return pre
        out = list(pre)
        if mode in ("R", "RW"):
            out.append(self.access(name, "R", ro))
        if mode in ("W", "RW"):
            out.append(self.access(name, "W", ro))
        return out

    def call(self, n):
        cs = kids(n)
        cal = strip(cs[0])
        args = cs[1:]
        argev = []
        for a in args:
            argev += self.expr(a)
        k = cal.get("kind")
        if k == "CXXPseudoDestructorExpr":
            return argev
        if is_member(cal):
            m = member_name(cal)
            base = strip(kids(cal)[0]) if kids(cal) else None
            if base is None:
                die(n, "%s: member call without object" % self.name)
            if is_member(base) and member_name(base) == "_plcy":
                if strip(kids(base)[0]).get("kind") != "CXXThisExpr":
                    die(n, "%s: _plcy of another object" % self.name)
                late = sorted(declref_names(args[0]) & self.published) if (m in POISON_CALLS and args) else []
                if late:
                    # the block was already linked into a shared structure (free list / tree): another thread can own it by
                    # now, so changing its poison state is an unprotected write to its shadow.  Reported as an access to a
                    # field the lock table does not know (rejected by the checker on every path).
                    return argev + [self.ev('PolicyCall "%s"' % m),
                                    self.ev('Access "policy_%s_after_publication" W "%s"' % (m, self.q(late[0])))]
                return argev + [self.ev('PolicyCall "%s"' % m)]
            if base.get("kind") == "DeclRefExpr" and base.get("referencedDecl", {}).get("id") in self.guard_ids:
                g = self.guard_ids[base["referencedDecl"]["id"]]
                if args:
                    die(n, "%s: guard method with arguments" % self.name)
                if m == "lock":
                    return [self.ev('Lock "%s" %s' % (self.q(g), self.guards[g]))]
                if m == "unlock":
                    return [self.ev('Unlock "%s"' % self.q(g))]
                die(n, "%s: unsupported unique_lock method %s" % (self.name, m))
            if base.get("kind") == "CXXThisExpr":
                if m in self.src.functions:
                    return argev + [("call", m)]
                die(n, "%s: call of unknown member function %s" % (self.name, m))
            if is_member(base) and member_name(base) in TREE_FIELDS:
                tf = member_name(base)
                ro = root_of(base)
                if ro is None:
                    die(n, "%s: tree operation through an unrecognised base" % self.name)
                pre = self.expr(kids(base)[0]) if kids(base) else []
                if m in ("insert", "remove"):
                    if len(args) != 1 or strip(args[0]).get("kind") != "DeclRefExpr":
                        die(n, "%s: %s.%s with an argument that is not a variable" % (self.name, tf, m))
                    v = strip(args[0])["referencedDecl"]["name"]
                    out = pre + [self.access(tf, "R", ro), self.access(tf, "W", ro),
                                 self.access(TREE_FIELDS[tf], "W", v)]
                    if tf == "partial_tree":
                        self.slabvars.add(v)
                    if m == "insert":
                        out.append(self.ev('Store "%s" "%s"' % (self.q(v), self.q(ro))))
                        self.origin.setdefault(v, []).append(("stored", ro, tf))
                        self.publish(v)
                    return out
                if m in TREE_READ:
                    return pre + argev + [self.access(tf, "R", ro)]
                die(n, "%s: unknown tree operation %s.%s" % (self.name, tf, m))
            if m in self.src.rec_methods:
                ro = root_of(base)
                if ro is None:
                    die(n, "%s: %s() on an unrecognised object" % (self.name, m))
                pre = self.expr(base) if not cal.get("isArrow") else self.expr(base)
                return pre + argev + [self.access(f, md, ro) for f, md in self.src.rec_methods[m]]
            die(n, "%s: call of unrecognised member %s" % (self.name, m))
        if k == "DeclRefExpr":
            rd = cal.get("referencedDecl", {})
            nm = rd.get("name")
            if rd.get("kind") == "CXXMethodDecl":
                if nm in self.src.functions:
                    return argev + [("call", nm)]
                if nm in PURE_FUNCTIONS:     # static helper of another class (bitop_impl<>::clz)
                    return argev
                die(n, "%s: call of unknown method %s" % (self.name, nm))
            if rd.get("kind") == "FunctionDecl":
                if nm in PURE_FUNCTIONS:
                    return argev
                die(n, "%s: call of unknown free function %s" % (self.name, nm))
            if rd.get("kind") == "VarDecl" and nm in self.lambdas:
                return argev
            die(n, "%s: call through %s %s" % (self.name, rd.get("kind"), nm))
        if k == "UnresolvedLookupExpr" and cal.get("name") in PURE_FUNCTIONS:
            return argev
        die(n, "%s: unrecognised callee kind %s" % (self.name, k))

    def check_harmless(self, n):
        """lambda bodies must not touch the pool at all"""
        def scan(x):
            if not isinstance(x, dict):
                return
            if is_member(x) or x.get("kind") == "CXXThisExpr":
                die(x, "%s: lambda touches a member" % self.name)
            for c in kids(x):
                scan(c)
        bodies = [c for c in kids(n) if c.get("kind") == "CompoundStmt"]
        if len(bodies) != 1:
            die(n, "%s: lambda without a unique body" % self.name)
        scan(bodies[0])

    # ---- pointer provenance
    def publish(self, v):
        self.published.add(v)
        self.published |= self.placed.get(v, set())

    def bind_var(self, v, init):
        """events for `v = init` where v is a variable used as an access root"""
        i = strip(init)
        k = i.get("kind")
        if k == "CXXNewExpr":
            self.origin.setdefault(v, []).append(("new",))
            self.placed.setdefault(v, set()).update(declref_names(i))      # `new (p) T`: v is the block p
            return [self.ev('Fresh "%s"' % self.q(v))]
        if k in ("CallExpr", "CXXMemberCallExpr"):
            cal = strip(kids(i)[0])
            nm = member_name(cal) if is_member(cal) else cal.get("referencedDecl", {}).get("name")
            if nm in self.fresh_ret:
                a = [srctext(x) for x in kids(i)[1:]]
                self.origin.setdefault(v, []).append(("construct", nm, a))
                return [self.ev('Fresh "%s"' % self.q(v))]
            if is_member(cal) and member_name(cal) in TREE_READ:
                ro = root_of(cal)
                self.origin.setdefault(v, []).append(("alias", ro, member_name(strip(kids(cal)[0]))))
                return [self.ev('Alias "%s" "%s"' % (self.q(v), self.q(ro)))]
            self.origin.setdefault(v, []).append(("unknown-call", nm))
            return [self.ev('Alias "%s" "%s"' % (self.q(v), "<unknown>"))]
        ro = root_of(i)
        if ro is not None:
            fld = member_name(i) if is_member(i) else None
            self.origin.setdefault(v, []).append(("alias", ro, fld))
            return [self.ev('Alias "%s" "%s"' % (self.q(v), self.q(ro)))]
        self.origin.setdefault(v, []).append(("other", k))
        return [self.ev('Alias "%s" "%s"' % (self.q(v), "<none>"))]

    # ---- statements
    def scope_end_items(self, names):
        return [self.ev('ScopeEnd "%s"' % self.q(g)) for g in reversed(names)]

    def is_assert(self, n):
        cs = kids(n)
        if len(cs) != 2:
            return None
        body, cond = cs
        c = strip(cond)
        if not (c.get("kind") == "IntegerLiteral" and c.get("value") == "0"):
            return None
        st = kids(body) if body.get("kind") == "CompoundStmt" else [body]
        if len(st) != 1 or st[0].get("kind") != "IfStmt":
            return None
        ifs = st[0]
        txt = json.dumps(kids(ifs)[1])
        if '"frg_panic"' not in txt or '"__builtin_trap"' not in txt:
            return None
        if ifs.get("hasElse"):
            return None
        return kids(ifs)[0]

    def stmt(self, n):
        if not isinstance(n, dict) or "kind" not in n:
            return []
        k = n["kind"]
        if k == "CompoundStmt":
            self.scopes.append([])
            out = []
            for c in kids(n):
                out += self.stmt(c)
            out += self.scope_end_items(self.scopes.pop())
            return out
        if k == "DeclStmt":
            out = []
            for d in kids(n):
                if d.get("kind") == "VarDecl":
                    out += self.vardecl(d)
                elif d.get("kind") in ("TypeAliasDecl", "StaticAssertDecl", "TypedefDecl", "UsingDecl"):
                    continue
                else:
                    die(d, "%s: unrecognised declaration" % self.name)
            return out
        if k == "IfStmt":
            if n.get("hasInit") or n.get("hasVar"):
                die(n, "%s: if with init-statement / condition variable" % self.name)
            cs = kids(n)
            if len(cs) not in (2, 3):
                die(n, "%s: if-statement shape" % self.name)
            cond = self.expr(cs[0])
            self.scopes.append([])
            a = self.stmt(cs[1]) + self.scope_end_items(self.scopes.pop())
            self.scopes.append([])
            b = (self.stmt(cs[2]) if len(cs) == 3 else []) + self.scope_end_items(self.scopes.pop())
            return cond + [("if", a, b)]
        if k == "ForStmt":
            cs = kids(n)
            if len(cs) != 5:
                die(n, "%s: for-statement shape" % self.name)
            init, cvar, cond, inc, body = cs
            if isinstance(cvar, dict) and cvar.get("kind"):
                die(n, "%s: for with condition variable" % self.name)
            self.scopes.append([])
            out = self.stmt(init)
            ce = self.expr(cond)
            self.scopes.append([])
            be = self.stmt(body) + self.scope_end_items(self.scopes.pop())
            ie = self.expr(inc)
            out += [("loop", ce + be + ie)] + ce
            out += self.scope_end_items(self.scopes.pop())
            return out
        if k == "WhileStmt":
            cs = kids(n)
            if len(cs) != 2:
                die(n, "%s: while-statement shape" % self.name)
            ce = self.expr(cs[0])
            self.scopes.append([])
            be = self.stmt(cs[1]) + self.scope_end_items(self.scopes.pop())
            return [("loop", ce + be)] + ce
        if k == "DoStmt":
            a = self.is_assert(n)
            if a is not None:
                return self.expr(a)      # FRG_ASSERT(x): the accesses of x; the failure branch traps (documented stop)
            cs = kids(n)
            self.scopes.append([])
            be = self.stmt(cs[0]) + self.scope_end_items(self.scopes.pop())
            ce = self.expr(cs[1])
            return be + ce + [("loop", be + ce)]
        if k == "ReturnStmt":
            out = []
            for c in kids(n):
                out += self.expr(c)
            for sc in reversed(self.scopes):
                out += self.scope_end_items(sc)
            return out + [("ret",)]
        if k == "NullStmt":
            return []
        if k in ("BreakStmt", "ContinueStmt", "SwitchStmt", "GotoStmt", "CXXTryStmt", "CXXForRangeStmt", "LabelStmt",
                 "CaseStmt", "DefaultStmt", "CoreturnStmt", "CXXCatchStmt"):
            die(n, "%s: unsupported statement" % self.name)
        return self.expr(n)

    def vardecl(self, d):
        name = d["name"]
        ty = d.get("type", {}).get("qualType", "")
        if mutable_static(d):
            # a function-local static (or thread-unsafe static storage of any kind) is state shared by ALL threads and all
            # pools that no pool mutex protects: reported as a write access to a field the lock table does not know
            # (field_class = None => the checker rejects every path through it, locked or not)
            return [self.ev('Access "static_storage:%s" W "%s"' % (name, self.q(name)))]
        if any(ty.startswith(t) or ("frg::" + t) in ty for t in OTHER_LOCK_TYPES):
            die(d, "%s: lock type %s is not modelled" % (self.name, ty))
        init = kids(d)[0] if kids(d) else None
        if any(t in ty for t in GUARD_TYPES):
            if init is None:
                die(d, "%s: default-constructed unique_lock" % self.name)
            i = strip(init)
            args = kids(i) if i.get("kind") in CHILDREN else [i]
            if len(args) != 1 or not is_member(strip(args[0])):
                die(d, "%s: unique_lock %s is not constructed from exactly one mutex member (dont_lock/adopt_lock unsupported)" % (self.name, name))
            m = strip(args[0])
            mn = member_name(m)
            if mn not in MUTEX_FIELDS:
                die(d, "%s: unique_lock over unknown mutex %s" % (self.name, mn))
            base = strip(kids(m)[0])
            if mn == "_tree_mutex":
                if base.get("kind") != "CXXThisExpr":
                    die(d, "%s: _tree_mutex of another object" % self.name)
            else:
                bv = base.get("referencedDecl", {}).get("name") if base.get("kind") == "DeclRefExpr" else None
                if bv not in self.bktvars:
                    die(d, "%s: bucket_mutex of something that is not `&_bkts[...]`" % self.name)
                self.guards_bucket = bv
            k = 1
            while name in self.guards:      # same identifier re-declared in a disjoint scope
                k += 1
                name = "%s#%d" % (d["name"], k)
            self.guards[name] = MUTEX_FIELDS[mn]
            self.guard_ids[d["id"]] = name
            self.scopes[-1].append(name)
            return [self.ev('Lock "%s" %s' % (self.q(name), MUTEX_FIELDS[mn]))]
        out = []
        if init is not None:
            i = strip(init)
            if i.get("kind") == "LambdaExpr":
                self.check_harmless(i)
                self.lambdas.add(name)
                return []
            if i.get("kind") == "CXXNewExpr":
                for c in kids(i):
                    out += self.expr(c)
            else:
                out += self.expr(init)
            if i.get("kind") == "UnaryOperator" and i.get("opcode") == "&":
                a = strip(kids(i)[0])
                if a.get("kind") == "ArraySubscriptExpr" and member_name(strip(kids(a)[0])) == "_bkts":
                    self.bktvars[name] = srctext(kids(a)[1])
        if name in self.objvars:
            self.scopes[-1].append(name)
            if init is not None and name not in self.bktvars:
                out += self.bind_var(name, init)
        return out

    def translate(self):
        self.scopes = []
        items = self.stmt(self.body)
        self.verify_ties()
        return items

    # ---- the bucket a slab variable belongs to is the bucket whose mutex the function takes
    def verify_ties(self):
        has_mb = "MB" in self.guards.values()
        if len(self.bktvars) > 1:
            raise Unrecognised("%s: more than one bucket variable %s" % (self.name, sorted(self.bktvars)))
        for r in self.bucket_roots:
            if r not in self.bktvars:
                raise Unrecognised("%s: bucket field accessed through %s which is not `&_bkts[...]`" % (self.name, r))
        if not has_mb:
            return
        bkt = getattr(self, "guards_bucket")
        idx = self.bktvars[bkt]
        for v in sorted(self.slabvars):
            ok = False
            if idx == "%s->index" % v:
                ok = True
            for o in self.origin.get(v, []):
                if o[0] == "alias" and o[1] == bkt:
                    ok = True
                if o[0] == "construct" and o[2] == [idx]:
                    ok = True
            if not ok:
                raise Unrecognised("%s: cannot tie slab variable %s (origins %s) to bucket %s = &_bkts[%s]"
                                   % (self.name, v, self.origin.get(v), bkt, idx))


def fresh_returning(src):
    """member functions all of whose non-null return values are variables initialised by placement new in the
    function and never stored into a shared structure there"""
    res = set()
    for f, (d, b) in src.functions.items():
        rets, news, stored = [], set(), set()

        def scan(n):
            if not isinstance(n, dict):
                return
            k = n.get("kind")
            if k == "LambdaExpr":
                return
            if k == "ReturnStmt":
                rets.append(strip(kids(n)[0]) if kids(n) else None)
            if k == "VarDecl" and kids(n) and strip(kids(n)[0]).get("kind") == "CXXNewExpr":
                news.add(n["name"])
            if k == "CallExpr" and kids(n):
                cal = strip(kids(n)[0])
                if is_member(cal) and member_name(cal) == "insert":
                    for a in kids(n)[1:]:
                        r = root_of(a)
                        if r:
                            stored.add(r)
            if k == "BinaryOperator" and n.get("opcode") == "=":
                l, r = kids(n)
                if is_member(strip(l)) and strip(r).get("kind") == "DeclRefExpr":
                    ro = root_of(l)
                    if ro not in news:
                        stored.add(strip(r)["referencedDecl"]["name"])
            for c in kids(n):
                scan(c)
        scan(b)
        vals = [r for r in rets if r is not None and r.get("kind") != "CXXNullPtrLiteralExpr"]
        if vals and all(r.get("kind") == "DeclRefExpr" and r["referencedDecl"]["name"] in news
                        and r["referencedDecl"]["name"] not in stored for r in vals):
            res.add(f)
    return res


# --------------------------------------------------------------------------------------------------
# printing
# --------------------------------------------------------------------------------------------------

def coq_of(items, ind):
    pad = "  " * ind
    if not items:
        return pad + "Skip"
    parts = []
    for it in items:
        if it[0] == "ev":
            parts.append(pad + it[1])
        elif it[0] == "call":
            parts.append(pad + 'Call "%s"' % it[1])
        elif it[0] == "ret":
            parts.append(pad + "Return")
        elif it[0] == "if":
            parts.append(pad + "If (\n" + coq_of(it[1], ind + 1) + "\n" + pad + ") (Else (\n" + coq_of(it[2], ind + 1) + "\n" + pad + "))")
        elif it[0] == "loop":
            parts.append(pad + "Loop (\n" + coq_of(it[1], ind + 1) + "\n" + pad + ")")
        else:
            raise Unrecognised("internal: item " + repr(it))
    return " ;;\n".join(parts)


def check_checking_off():
    """the stubbed walkers must be unreachable: enable_checking is the constant false and every call of
    _verify_integrity() is the body of an `if(enable_checking)`; _verify_frame_integrity is called by the walkers only"""
    import re
    text = open(HDR).read()
    if not re.search(r"constexpr\s+bool\s+enable_checking\s*=\s*false\s*;", text):
        raise Unrecognised("enable_checking is not the constant false: the _verify_* walkers cannot be stubbed")
    lines = text.split("\n")
    infn = None
    for i, l in enumerate(lines):
        m = re.search(r"slab_pool<Policy, Mutex>::(\w+)\s*\(", l)
        if m:
            infn = m.group(1)
        if re.search(r"\b_verify_integrity\s*\(\s*\)\s*;", l) and "void" not in l:
            prev = [x for x in lines[:i] if x.strip()][-1].strip()
            if prev != "if(enable_checking)":
                raise Unrecognised("_verify_integrity() called outside `if(enable_checking)` near line %d" % (i + 1))
        if re.search(r"\b_verify_frame_integrity\s*\(", l) and "void" not in l and infn not in STUB_WHEN_CHECKING_OFF:
            raise Unrecognised("_verify_frame_integrity called from %s near line %d" % (infn, i + 1))


def generate():
    objs = load_ast()
    src = Source(objs)
    fr = fresh_returning(src)
    defs, names = [], []
    stub = set()
    if "FRG_SLAB_TRACK_REGIONS" in DEFINES:
        stub = set(STUB_WHEN_CHECKING_OFF)
        check_checking_off()
    for f in src.order:
        if f in stub:
            defs.append("Definition sk_%s : sk :=\n  Skip.\n" % f)
            names.append(f)
            continue
        fn = Fn(src, f, fr)
        items = fn.translate()
        defs.append("Definition sk_%s : sk :=\n%s.\n" % (f, coq_of(items, 1)))
        names.append(f)
    for need in ("allocate", "realloc", "free", "deallocate", "get_size", "_construct_slab", "_construct_large",
                 "free_in_slab_", "free_huge_"):
        if need not in names:
            raise Unrecognised("expected member function %s not found" % need)
    sha = hashlib.sha256(open(HDR, "rb").read()).hexdigest()[:16]
    txt = "(* GENERATED by translator/gen_slabconc.py from include/frg/slab.hpp (sha256 %s...). Do not edit. *)\n" % sha
    txt += "From Coq Require Import List String.\nFrom FV Require Import SlabConc.Skeleton.\nImport ListNotations.\n"
    txt += "Open Scope string_scope.\n\n"
    txt += "\n".join(defs)
    txt += "\nDefinition fresh_returning : list string := [%s].\n" % "; ".join('"%s"' % f for f in sorted(fr))
    txt += "\nDefinition actual : skeleton :=\n  [ " + ";\n    ".join('("%s", sk_%s)' % (f, f) for f in names) + " ].\n"
    return txt


def emit(out, defines):
    """generate one skeleton file; returns 0, or 3 after leaving a stub that fails every obligation"""
    global DEFINES
    DEFINES = list(defines)
    try:
        txt = generate()
        if defines:
            txt = txt.replace("(* GENERATED by translator/gen_slabconc.py from include/frg/slab.hpp",
                              "(* GENERATED by translator/gen_slabconc.py (clang -D%s) from include/frg/slab.hpp" % " -D".join(defines), 1)
    except Unrecognised as ex:
        sys.stderr.write("gen_slabconc%s: UNRECOGNISED AST SHAPE: %s\n" % ((" -D" + " -D".join(defines)) if defines else "", ex))
        # leave a file behind that cannot be mistaken for a valid skeleton
        try:
            os.makedirs(os.path.dirname(out), exist_ok=True)
            open(out, "w").write("(* gen_slabconc.py FAILED: %s *)\nFrom FV Require Import SlabConc.Skeleton.\n"
                                 "Definition actual : skeleton := nil.\n" % str(ex).replace("*)", "* )"))
        except OSError:
            pass
        return 3, None
    os.makedirs(os.path.dirname(out), exist_ok=True)
    old = open(out).read() if os.path.exists(out) else None
    if old != txt:
        open(out, "w").write(txt)
    return 0, txt


def main():
    defines = [sys.argv[i + 1] for i, a in enumerate(sys.argv) if a == "--define" and i + 1 < len(sys.argv)]
    if "--out" in sys.argv:
        jobs = [(sys.argv[sys.argv.index("--out") + 1], defines)]
    else:                   # default: both instantiations (plain, and with the region tree compiled in)
        jobs = [(OUT, []), (OUT_TR, ["FRG_SLAB_TRACK_REGIONS"])]
    rc = 0
    for out, d in jobs:
        r, txt = emit(out, d)
        rc = rc or r
        if "--dump" in sys.argv and txt is not None:
            sys.stdout.write(txt)
    sys.exit(rc)


if __name__ == "__main__":
    main()
