#!/usr/bin/env python3
"""translator/gen_qs.py -- source-derived facts for the qs component (property C11).

Dumps the clang JSON AST of include/frg/qs.hpp (template patterns of qs_agent<M> and of qs.hpp's own
lock_guard<M>) and writes coq/Gen/QsOrders.v:
  * per member function of qs_agent the sequence of events in source order: atomic operations with location
    and memory order(s), lock_guard constructions and the end of their scope, accesses to the mutex-protected
    plain field _num_agents, accesses to the qs_node, FRG_ASSERTs, calls on the pending list, the callback call,
    the nested quiescent_state() call, and the control structure (if/else/while/break);
  * the bodies of lock_guard's constructor, destructor, lock() and unlock() (which mutex call each makes).
Stand-alone; honours VERIF_REPO; exits non-zero on any AST shape it does not recognise.
"""
import json, os, subprocess, sys, tempfile

ROOT = os.path.dirname(os.path.dirname(os.path.abspath(__file__)))
REPO = os.environ.get("VERIF_REPO", "/repo")
OUT = os.path.join(ROOT, "coq", "Gen", "QsOrders.v")


class Unrecognised(Exception):
    pass


def bad(node, why):
    rng = node.get("range", {}).get("begin", {})
    line = node.get("loc", {}).get("line") or rng.get("line") or rng.get("expansionLoc", {}).get("line")
    raise Unrecognised("%s: kind=%s line=%s" % (why, node.get("kind"), line))


def dump(flt):
    with tempfile.TemporaryDirectory() as d:
        tu = os.path.join(d, "tu.cpp")
        open(tu, "w").write("#include <frg/qs.hpp>\n")
        cmd = ["clang++", "-std=c++20", "-fsized-deallocation", "-I" + os.path.join(REPO, "include"),
               "-fsyntax-only", "-Xclang", "-ast-dump=json", "-Xclang", "-ast-dump-filter=" + flt, tu]
        p = subprocess.run(cmd, capture_output=True, text=True, timeout=120)
        if p.returncode != 0:
            raise Unrecognised("clang failed: " + p.stderr[-800:])
        return load_multi(p.stdout)


def load_multi(s):
    dec = json.JSONDecoder()
    i, out = 0, []
    while i < len(s):
        while i < len(s) and s[i] in " \n\r\t":
            i += 1
        if i >= len(s):
            break
        if s[i] != "{":
            j = s.find("\n", i)
            i = j + 1 if j >= 0 else len(s)
            continue
        o, j = dec.raw_decode(s, i)
        out.append(o)
        i = j
    return out


def inner(n):
    return [c for c in n.get("inner", []) if c.get("kind")]


ATOMICS = {"_qs_counter": "LCtr", "_desired_qs_counter": "LDesired", "_agents_to_ack": "LToAck"}
ORDERS = {"memory_order_relaxed": "Relaxed", "memory_order_consume": "Consume", "memory_order_acquire": "Acquire",
          "memory_order_release": "Release", "memory_order_acq_rel": "AcqRel", "memory_order_seq_cst": "SeqCst"}
# member function of std::atomic -> (kind, number of value arguments, number of order arguments allowed)
ATOMIC_FNS = {"load": ("KLoad", 0), "store": ("KStore", 1), "fetch_sub": ("KFetchSub", 1),
              "compare_exchange_weak": ("KCas", 2), "compare_exchange_strong": ("KCas", 2)}
LIST_FNS = {"empty": "CEmpty", "front": "CFront", "pop_front": "CPopFront", "push_back": "CPushBack"}
TRANSPARENT = {"ImplicitCastExpr", "ParenExpr", "BinaryOperator", "UnaryOperator", "CompoundAssignOperator",
               "ExprWithCleanups", "MaterializeTemporaryExpr", "CXXFunctionalCastExpr", "CStyleCastExpr",
               "CXXStaticCastExpr"}
LEAVES = {"IntegerLiteral", "CXXBoolLiteralExpr", "CXXThisExpr", "CXXNullPtrLiteralExpr", "NullStmt"}


def strip(n):
    while n.get("kind") in ("ImplicitCastExpr", "ParenExpr") and len(inner(n)) == 1:
        n = inner(n)[0]
    return n


def is_dom(n):
    n = strip(n)
    return n.get("kind") == "MemberExpr" and n.get("name") == "_dom" and strip(inner(n)[0]).get("kind") == "CXXThisExpr"


def order_of(n):
    n = strip(n)
    if n.get("kind") == "DeclRefExpr" and n.get("referencedDecl", {}).get("name") in ORDERS:
        return ORDERS[n["referencedDecl"]["name"]]
    return None


def is_assert(n):
    """FRG_ASSERT(x) expands to do { if(!(x)) { if(!frg_panic) trap; frg_panic(..); trap; } } while(0).
    Returns the expression x or None."""
    if n.get("kind") != "DoStmt":
        return None
    ch = inner(n)
    if len(ch) != 2 or ch[0].get("kind") != "CompoundStmt":
        return None
    body = inner(ch[0])
    if len(body) != 1 or body[0].get("kind") != "IfStmt":
        return None
    cond, then = inner(body[0])[0], inner(body[0])[1]
    if "frg_panic" not in json.dumps(then):
        return None
    if cond.get("kind") != "UnaryOperator" or cond.get("opcode") != "!":
        return None
    return inner(cond)[0]


class Walker:
    def __init__(self):
        self.ev = []
        self.guards = 0      # live lock_guard objects

    def stmt_list(self, n):
        """compound statement: guards declared in it die at its end"""
        before = self.guards
        for c in inner(n):
            self.walk(c)
        while self.guards > before:
            self.ev.append("GScopeEnd")
            self.guards -= 1

    def walk(self, n):
        k = n.get("kind")
        if k == "CompoundStmt":
            return self.stmt_list(n)
        if k == "DeclStmt":
            for c in inner(n):
                self.walk(c)
            return
        if k == "VarDecl":
            ty = n.get("type", {}).get("qualType", "")
            if "lock_guard" in ty:
                init = json.dumps(n.get("inner", []))
                if '"_mutex"' not in init or not ty.startswith("lock_guard<M>"):
                    bad(n, "lock_guard over something else than _dom->_mutex (%s)" % ty)
                self.ev.append("GGuard")
                self.guards += 1
                return
            if "unique_lock" in ty or "mutex" in ty.lower():
                bad(n, "unknown lock object " + ty)
            for c in inner(n):
                self.walk(c)
            return
        if k == "IfStmt":
            ch = inner(n)
            if n.get("hasInit") or n.get("hasVar") or len(ch) not in (2, 3):
                bad(n, "if with init/var")
            self.walk(ch[0]); self.ev.append("GIf")
            self.branch(ch[1])
            if len(ch) == 3:
                self.ev.append("GElse"); self.branch(ch[2])
            self.ev.append("GEndIf")
            return
        if k == "WhileStmt":
            ch = inner(n)
            if len(ch) != 2:
                bad(n, "while with a condition variable")
            self.ev.append("GWhile"); self.walk(ch[0]); self.ev.append("GDo")
            self.branch(ch[1]); self.ev.append("GEndWhile")
            return
        if k == "DoStmt":
            x = is_assert(n)
            if x is None:
                bad(n, "do-statement that is not FRG_ASSERT")
            self.walk(x); self.ev.append("GAssert")
            return
        if k == "BreakStmt":
            self.ev.append("GBreak"); return
        if k == "ReturnStmt":
            bad(n, "return statement (early return would need guard handling)")
        if k == "CallExpr":
            return self.call(n)
        if k == "CXXMemberCallExpr":
            return self.member_call(n)
        if k == "CXXDependentScopeMemberExpr":
            m = n.get("member")
            if m == "_num_agents" and is_dom(inner(n)[0]):
                self.ev.append("GNumAgents"); return
            bad(n, "dependent member access '%s' outside a recognised pattern" % m)
        if k == "MemberExpr":
            m = n.get("name")
            if m == "_target_qs_counter":
                self.ev.append("GNode")
                for c in inner(n):
                    self.walk(c)
                return
            if m in ("_acked_qs_counter", "_qs_deferred", "_dom"):
                for c in inner(n):
                    self.walk(c)
                return
            bad(n, "member access '%s' outside a recognised pattern" % m)
        if k == "DeclRefExpr":
            rd = n.get("referencedDecl", {})
            if rd.get("kind") in ("VarDecl", "ParmVarDecl"):
                return
            bad(n, "reference to " + str(rd.get("kind")))
        if k in TRANSPARENT:
            for c in inner(n):
                self.walk(c)
            return
        if k in LEAVES:
            return
        bad(n, "unrecognised node")

    def branch(self, n):
        if n.get("kind") == "CompoundStmt":
            self.stmt_list(n)
        else:
            before = self.guards
            self.walk(n)
            if self.guards != before:
                bad(n, "guard declared as a sole branch statement")

    def call(self, n):
        ch = inner(n)
        callee = strip(ch[0])
        if callee.get("kind") == "CXXDependentScopeMemberExpr":
            f = callee.get("member")
            base = strip(inner(callee)[0])
            if base.get("kind") == "CXXDependentScopeMemberExpr" and base.get("member") in ATOMICS and is_dom(inner(base)[0]):
                if f not in ATOMIC_FNS:
                    bad(n, "atomic member function '%s' not recognised" % f)
                kind, nval = ATOMIC_FNS[f]
                args = ch[1:]
                vals, ords = args[:nval], args[nval:]
                if len(vals) != nval:
                    bad(n, "atomic %s: too few arguments" % f)
                for v in vals:
                    self.walk(v)
                os_ = [order_of(o) for o in ords]
                if None in os_ or len(os_) > 2 or (len(os_) == 2 and kind != "KCas"):
                    bad(n, "atomic %s: unrecognised memory-order argument(s)" % f)
                if not os_:
                    os_ = ["SeqCst"]
                o = os_[0]
                if len(os_) == 2:
                    of = os_[1]
                elif kind == "KCas":   # single-order CAS: failure order derived as the standard prescribes
                    of = {"AcqRel": "Acquire", "Release": "Relaxed"}.get(o, o)
                else:
                    of = o
                self.ev.append("GAtomic %s %s %s %s" % (kind, ATOMICS[base["member"]], o, of))
                return
            bad(n, "call of dependent member '%s'" % f)
        if callee.get("kind") == "MemberExpr" and callee.get("name") == "on_grace_period":
            for c in inner(callee):
                self.walk(c)
            self.ev.append("GNode")    # the function pointer is read from the node
            self.ev.append("GCall CCallback")
            for a in ch[1:]:
                self.walk(a)
            return
        if callee.get("kind") == "MemberExpr" and strip(inner(callee)[0]).get("kind") == "CXXThisExpr":
            return self.this_call(n, callee.get("name"))
        bad(n, "unrecognised call")

    def member_call(self, n):
        ch = inner(n)
        callee = strip(ch[0])
        if callee.get("kind") != "MemberExpr":
            bad(n, "unrecognised member call")
        base = strip(inner(callee)[0])
        if base.get("kind") == "MemberExpr" and base.get("name") == "_pending":
            f = callee.get("name")
            if f not in LIST_FNS:
                bad(n, "pending-list function '%s' not recognised" % f)
            for a in ch[1:]:
                self.walk(a)
            self.ev.append("GCall " + LIST_FNS[f])
            return
        if base.get("kind") == "CXXThisExpr":
            return self.this_call(n, callee.get("name"))
        bad(n, "unrecognised member call")

    def this_call(self, n, name):
        if name == "quiescent_state":
            self.ev.append("GCall CQs"); return
        bad(n, "call of this->%s" % name)


def find_method(rec, kind, name=None):
    out = []
    for c in inner(rec):
        if c.get("kind") == kind and (name is None or c.get("name") == name):
            if any(x.get("kind") == "CompoundStmt" for x in inner(c)):
                out.append(c)
    return out


def body_of(m):
    return [x for x in inner(m) if x.get("kind") == "CompoundStmt"][0]


def qs_record(objs, name, in_qs_hpp=True):
    recs = []
    for o in objs:
        if o.get("kind") != "ClassTemplateDecl" or o.get("name") != name:
            continue
        for c in inner(o):
            if c.get("kind") == "CXXRecordDecl" and c.get("completeDefinition"):
                if name == "lock_guard":
                    # qs.hpp's own guard: has members _mutex and _locked (std::lock_guard has _M_device)
                    fields = [x.get("name") for x in inner(c) if x.get("kind") == "FieldDecl"]
                    if fields != ["_mutex", "_locked"]:
                        continue
                recs.append(c)
    if len(recs) != 1:
        raise Unrecognised("expected exactly one definition of %s in the dump, found %d" % (name, len(recs)))
    return recs[0]


def lg_walk(n, out):
    """lock_guard member function bodies"""
    k = n.get("kind")
    if k == "CompoundStmt":
        for c in inner(n):
            lg_walk(c, out)
        return
    x = is_assert(n)
    if x is not None:
        x = strip(x)
        neg = False
        if x.get("kind") == "UnaryOperator" and x.get("opcode") == "!":
            neg = True
            x = strip(inner(x)[0])
        if x.get("kind") == "MemberExpr" and x.get("name") == "_locked":
            out.append("LgAssertLocked %s" % ("false" if neg else "true")); return
        bad(n, "lock_guard: assertion about something else than _locked")
    if k == "CallExpr":
        callee = strip(inner(n)[0])
        if callee.get("kind") == "CXXDependentScopeMemberExpr":
            base = strip(inner(callee)[0])
            if base.get("kind") == "MemberExpr" and base.get("name") == "_mutex" and len(inner(n)) == 1:
                m = callee.get("member")
                if m == "lock":
                    out.append("LgMutex MLock"); return
                if m == "unlock":
                    out.append("LgMutex MUnlock"); return
                bad(n, "lock_guard: mutex call '%s'" % m)
        if callee.get("kind") == "MemberExpr" and strip(inner(callee)[0]).get("kind") == "CXXThisExpr":
            if callee.get("name") == "lock":
                out.append("LgCallLock"); return
            if callee.get("name") == "unlock":
                out.append("LgCallUnlock"); return
        bad(n, "lock_guard: unrecognised call")
    if k == "BinaryOperator" and n.get("opcode") == "=":
        l, r = [strip(c) for c in inner(n)]
        if l.get("kind") == "MemberExpr" and l.get("name") == "_locked" and r.get("kind") == "CXXBoolLiteralExpr":
            out.append("LgSetLocked %s" % ("true" if r.get("value") else "false")); return
        bad(n, "lock_guard: unrecognised assignment")
    if k == "IfStmt":
        ch = inner(n)
        c = strip(ch[0])
        if len(ch) == 2 and c.get("kind") == "MemberExpr" and c.get("name") == "_locked":
            out.append("LgIfLocked"); lg_walk(ch[1], out); out.append("LgEndIf"); return
        bad(n, "lock_guard: unrecognised if")
    bad(n, "lock_guard: unrecognised node")


FNS = [("FOnline", "online"), ("FOffline", "offline"), ("FQs", "quiescent_state"),
       ("FQBarrier", "quiescent_barrier"), ("FAwait", "await_barrier"), ("FRun", "run")]


def coq_list(items, indent="  "):
    if not items:
        return "[]"
    return "[ " + (";\n" + indent + "  ").join(items) + " ]"


def generate():
    agent = qs_record(dump("qs_agent"), "qs_agent")
    methods = [c.get("name") for c in inner(agent) if c.get("kind") == "CXXMethodDecl"]
    expected = [n for _, n in FNS]
    if sorted(methods) != sorted(expected):
        raise Unrecognised("qs_agent member functions are %s, expected %s" % (sorted(methods), sorted(expected)))
    fn_ops = {}
    for cname, name in FNS:
        ms = find_method(agent, "CXXMethodDecl", name)
        if len(ms) != 1:
            raise Unrecognised("qs_agent::%s: %d definitions" % (name, len(ms)))
        w = Walker()
        w.walk(body_of(ms[0]))
        if w.guards != 0:
            raise Unrecognised("qs_agent::%s: unbalanced guard scopes" % name)
        fn_ops[cname] = w.ev
    # constructor: must do nothing but call online()
    ctors = find_method(agent, "CXXConstructorDecl")
    if len(ctors) != 1:
        raise Unrecognised("qs_agent: %d constructors with a body" % len(ctors))
    cb = inner(body_of(ctors[0]))
    ok = (len(cb) == 1 and cb[0].get("kind") in ("CallExpr", "CXXMemberCallExpr")
          and strip(inner(cb[0])[0]).get("name") == "online")
    if not ok:
        raise Unrecognised("qs_agent constructor body is not a single call of online()")
    inits = [strip(inner(c)[0]) if inner(c) else None for c in inner(ctors[0]) if c.get("kind") == "CXXCtorInitializer"]
    if len(inits) != 3:
        raise Unrecognised("qs_agent constructor: expected initialisers for _dom, _acked_qs_counter, _qs_deferred")

    lg = qs_record(dump("lock_guard"), "lock_guard")
    lgf = {}
    for key, kind, name in [("lg_ctor", "CXXConstructorDecl", None), ("lg_dtor", "CXXDestructorDecl", None),
                            ("lg_lock", "CXXMethodDecl", "lock"), ("lg_unlock", "CXXMethodDecl", "unlock")]:
        ms = find_method(lg, kind, name)
        if len(ms) != 1:
            raise Unrecognised("lock_guard: %s: %d definitions with a body" % (key, len(ms)))
        out = []
        lg_walk(body_of(ms[0]), out)
        lgf[key] = out
    # the constructor initialises _locked{false}
    ctor = find_method(lg, "CXXConstructorDecl")[0]
    ini = [c for c in inner(ctor) if c.get("kind") == "CXXCtorInitializer"]
    if len(ini) != 2 or '"value": false' not in json.dumps(ini[1]):
        raise Unrecognised("lock_guard constructor does not initialise _locked{false}")

    lines = ["(* GENERATED by translator/gen_qs.py from include/frg/qs.hpp (clang JSON AST) -- do not edit. *)",
             "From Coq Require Import List.", "Import ListNotations.", "From FV Require Import Qs.QsTypes.", ""]
    for cname, name in FNS:
        lines.append("(* qs_agent<M>::%s *)" % name)
        lines.append("Definition ops_%s : list gop :=\n  %s.\n" % (cname, coq_list(fn_ops[cname])))
    lines.append("Definition fn_ops (f : fn) : list gop :=\n  match f with\n" +
                 "\n".join("  | %s => ops_%s" % (c, c) for c, _ in FNS) + "\n  end.\n")
    lines.append("(* qs.hpp's lock_guard<M>: constructor (after _locked{false}), destructor, lock(), unlock() *)")
    for key in ("lg_ctor", "lg_dtor", "lg_lock", "lg_unlock"):
        lines.append("Definition %s : list lgop := %s." % (key, coq_list(lgf[key])))
    return "\n".join(lines) + "\n"


def main():
    try:
        txt = generate()
    except Unrecognised as ex:
        sys.stderr.write("gen_qs.py: %s\n" % ex)
        return 1
    os.makedirs(os.path.dirname(OUT), exist_ok=True)
    old = open(OUT).read() if os.path.exists(OUT) else None
    if old != txt:          # keep the timestamp when nothing changed (no needless recompilation)
        tmp = OUT + ".tmp%d" % os.getpid()
        open(tmp, "w").write(txt)
        os.replace(tmp, OUT)
    return 0


if __name__ == "__main__":
    sys.exit(main())
