#!/usr/bin/env python3
"""Regenerates coq/Gen/RadixOrders.v from the CURRENT source of $VERIF_REPO/include/frg/rcu_radixtree.hpp:
the sequence (source order) of atomic loads/stores of find, find_or_insert and erase -- which cell (_root, links[], mask)
and which std::memory_order -- taken from the clang JSON AST, plus obligations (closed by vm_compute) that the
micro-step programs of coq/Radix/RadixModel.v carry exactly these orders at exactly these positions
(coq/Radix/RadixAccess.v).  Exits non-zero on any AST shape it does not recognise or when the sequence of
accesses (kind, cell) differs from the one the model was written against."""
import json, os, subprocess, sys, tempfile

ROOT = os.path.dirname(os.path.dirname(os.path.abspath(__file__)))
REPO = os.environ.get("VERIF_REPO", "/repo")
OUT = os.path.join(ROOT, "coq", "Gen", "RadixOrders.v")
ORDERS = {"memory_order_relaxed": "Relaxed", "memory_order_acquire": "Acquire", "memory_order_release": "Release"}

def die(code, msg):
    sys.stderr.write("gen_radix: " + msg + "\n")
    sys.exit(code)

def dump(fn):
    with tempfile.TemporaryDirectory() as d:
        tu = os.path.join(d, "tu.cpp")
        open(tu, "w").write("#include <frg/rcu_radixtree.hpp>\n")
        p = subprocess.run(["clang++", "-std=c++20", "-fsized-deallocation", "-I" + os.path.join(REPO, "include"),
                            "-fsyntax-only", "-Xclang", "-ast-dump=json", "-Xclang", "-ast-dump-filter=" + fn, tu],
                           capture_output=True, text=True, timeout=300)
    if p.returncode != 0:
        die(2, "clang failed on rcu_radixtree.hpp: " + p.stderr[-400:])
    txt, dec, i, objs = p.stdout, json.JSONDecoder(), 0, []
    while i < len(txt):
        j = txt.find("{", i)
        if j < 0:
            break
        if j > 0 and txt[j - 1] not in "\n":      # "Dumping ...:" header lines
            k = txt.rfind("\n", 0, j)
            if txt[k + 1:j].strip():
                i = txt.find("\n", j) + 1
                if i == 0:
                    break
                continue
        o, i = dec.raw_decode(txt, j)
        objs.append(o)
    return objs

def walk(n, f):
    f(n)
    for c in n.get("inner", []) or []:
        if isinstance(c, dict):
            walk(c, f)

def cell_of(base):
    k = base.get("kind")
    if k == "MemberExpr" and base.get("name") == "_root":
        return "CRoot"
    if k == "CXXDependentScopeMemberExpr" and base.get("member") == "mask":
        return "CMask"
    if k == "ArraySubscriptExpr":
        b = (base.get("inner") or [{}])[0]
        if b.get("kind") == "ImplicitCastExpr":
            b = (b.get("inner") or [{}])[0]
        if b.get("kind") == "CXXDependentScopeMemberExpr" and b.get("member") == "links":
            return "CLink"
    return None

def accesses(fn):
    cands = [o for o in dump(fn) if o.get("name") == fn and '"_root"' in json.dumps(o)]
    if len(cands) != 1:
        die(3, "expected exactly one definition of rcu_radixtree::%s using _root, found %d" % (fn, len(cands)))
    acc, mentions = [], [0]
    def f(n):
        k = n.get("kind")
        if (k == "MemberExpr" and n.get("name") == "_root") or \
           (k == "CXXDependentScopeMemberExpr" and n.get("member") in ("mask", "links")):
            mentions[0] += 1
        if k != "CallExpr":
            return
        inner = n.get("inner") or []
        if not inner or inner[0].get("kind") != "CXXDependentScopeMemberExpr" or inner[0].get("member") not in ("load", "store"):
            return
        base = (inner[0].get("inner") or [{}])[0]
        cell = cell_of(base)
        if cell is None:
            return                         # load/store on something that is not one of the tree's atomics
        orders = []
        for a in inner[1:]:
            walk(a, lambda m: orders.append(m["referencedDecl"]["name"]) if m.get("kind") == "DeclRefExpr"
                 and (m.get("referencedDecl") or {}).get("name", "").startswith("memory_order_") else None)
        if len(orders) != 1:
            die(4, "%s: an atomic %s on %s without exactly one explicit memory order" % (fn, inner[0]["member"], cell))
        if orders[0] not in ORDERS:
            die(4, "%s: memory order %s is not modelled (RadixModel.morder)" % (fn, orders[0]))
        acc.append(("AStore" if inner[0]["member"] == "store" else "ALoad", cell, ORDERS[orders[0]]))
    walk(cands[0], f)
    if mentions[0] != len(acc):
        die(5, "%s: %d mentions of _root/mask/links but %d recognised load/store calls (an access not through "
               "load()/store()?)" % (fn, mentions[0], len(acc)))
    return acc

SHAPE = {   # (kind, cell) sequences the model was written against, in source order
    "find": [("ALoad", "CRoot"), ("ALoad", "CMask"), ("ALoad", "CLink")],
    "erase": [("ALoad", "CRoot"), ("ALoad", "CMask"), ("AStore", "CMask"), ("ALoad", "CLink")],
    "find_or_insert": [("ALoad", "CRoot"),
                       ("AStore", "CMask"), ("AStore", "CLink"), ("AStore", "CRoot"),                       # case 1
                       ("AStore", "CMask"), ("AStore", "CLink"), ("AStore", "CLink"), ("AStore", "CLink"),  # case 2
                       ("AStore", "CLink"), ("AStore", "CRoot"),
                       ("ALoad", "CMask"), ("AStore", "CMask"), ("ALoad", "CLink")],                       # case 3
}

def coq_list(l):
    return "[" + "; ".join("(%s, %s, %s)" % a for a in l) + "]"

def main():
    src = {}
    for fn in ("find", "find_or_insert", "erase"):
        a = accesses(fn)
        if [(k, c) for k, c, _ in a] != SHAPE[fn]:
            die(6, "%s: sequence of atomic accesses changed: %s" % (fn, a))
        src[fn] = a
    foi = src["find_or_insert"]
    nth = lambda i: "nth %d src_foi (ALoad, CRoot, Relaxed)" % i
    os.makedirs(os.path.dirname(OUT), exist_ok=True)
    with open(OUT, "w") as f:
        f.write("(* GENERATED by translator/gen_radix.py from the clang AST of $REPO/include/frg/rcu_radixtree.hpp -- do not edit.\n"
                "   Atomic accesses of find / find_or_insert / erase in source order, and the obligations that the model's\n"
                "   micro-step programs (Radix/RadixModel.v, through Radix/RadixAccess.v) carry the same memory orders. *)\n"
                "From Coq Require Import List NArith.\nFrom FV Require Import Radix.RadixModel Radix.RadixAccess.\nImport ListNotations.\n\n")
        f.write("Definition src_find : list access := %s.\n" % coq_list(src["find"]))
        f.write("Definition src_foi : list access := %s.\n" % coq_list(foi))
        f.write("Definition src_erase : list access := %s.\n\n" % coq_list(src["erase"]))
        obl = [
            ("find_loads_ok", "find_loads = src_find"),
            ("foi_walk_loads_ok", "foi_walk_loads = [%s; %s; %s]" % (nth(0), nth(10), nth(12))),
            ("erase_walk_loads_ok", "erase_walk_loads = [nth 0 src_erase (ALoad, CRoot, Relaxed); nth 1 src_erase (ALoad, CRoot, Relaxed); nth 3 src_erase (ALoad, CRoot, Relaxed)]"),
            ("stores_case1_root_ok", "stores_case1_root = [%s; %s]" % (nth(1), nth(3))),
            ("stores_case1_link_ok", "stores_case1_link = [%s; %s]" % (nth(1), nth(2))),
            ("stores_case2_root_ok", "stores_case2_root = %s :: repeat (%s) 16 ++ [%s; %s; %s]" % (nth(4), nth(5), nth(6), nth(7), nth(9))),
            ("stores_case2_link_ok", "stores_case2_link = %s :: repeat (%s) 16 ++ [%s; %s; %s]" % (nth(4), nth(5), nth(6), nth(7), nth(8))),
            ("stores_case3_ok", "stores_case3 = [%s]" % nth(11)),
            ("stores_erase_ok", "stores_erase = [nth 2 src_erase (ALoad, CRoot, Relaxed)]"),
        ]
        for name, stmt in obl:
            f.write("Lemma %s : %s.\nProof. vm_compute. reflexivity. Qed.\n" % (name, stmt))
    print("gen_radix: wrote %s (%d obligations)" % (os.path.relpath(OUT, ROOT), len(obl)))

main()
