#!/usr/bin/env python3
"""Runs every translator/gen_*.py (each regenerates its coq/Gen/*.v from /repo's current source via the clang AST).
Exit status: number of generators that failed (0 = all fine)."""
import glob, os, subprocess, sys
here = os.path.dirname(os.path.abspath(__file__))
os.makedirs(os.path.join(os.path.dirname(here), "coq", "Gen"), exist_ok=True)
bad = 0
for g in sorted(glob.glob(os.path.join(here, "gen_*.py"))):
    rc = subprocess.call([sys.executable, g])
    print("%s: %s" % (os.path.basename(g), "ok" if rc == 0 else "FAILED rc=%d" % rc))
    bad += rc != 0
sys.exit(bad)
