#!/usr/bin/env python3
"""cxx2coq: translator from a restricted imperative C++ subset to Gallina, driven by the clang JSON AST.

Library use (translator/gen_cxxleaf.py):  Unit(tu_text, repo).translate(specs) -> text of a .v file.
CLI use:  cxx2coq.py --tu '<C++ text>' --out coq/Gen/Cxx_x.v  QUALNAME[@SIG][#TARGS] ...

The generated definitions use FV.CxxLeaf.CxxSem (outcome monad, wrap-around, shifts with UB, casts, arrays).
Anything outside the subset raises Unsupported -> message naming the AST node on stderr, exit status 2.
Nothing is guessed: every AST node kind / cast kind / operator that is not explicitly handled is an error.

Representation
  unsigned integer of width w -> N          signed -> Z           bool -> bool
  T[n] (local, member, global const) -> list N / list Z
  T* p  -> two variables: p_mem : list T (the object pointed into) and p : Z (offset)
  data member m of *this -> variable m_<m>; a member function takes every member it (or a callee) mentions as an
      argument and returns the ones it (or a callee) may write, after the return value:  Ok (ret, m_a, m_b)
  loop -> Fixpoint <fn>_loop<k> (fuel : nat) <read-only vars> <loop-carried vars> : outcome (carried tuple), or
      outcome (loopres carried-tuple function-result) when the body contains `return`
"""
import json, os, re, subprocess, sys, tempfile

REPO = os.environ.get("VERIF_REPO", "/repo")


class Unsupported(Exception):
    pass


def where(node):
    if not isinstance(node, dict):
        return "<%r>" % (node,)
    bits = [node.get("kind", "?"), node.get("id", "?")]
    for k in ("name", "opcode", "castKind"):
        if k in node:
            bits.append("%s=%s" % (k, node[k]))
    if "_line" in node:
        bits.append("near line %s" % node["_line"])
    t = node.get("type", {})
    if isinstance(t, dict) and "qualType" in t:
        bits.append("type '%s'" % t["qualType"])
    return " ".join(str(b) for b in bits)


def fail(node, why):
    raise Unsupported("%s: %s" % (why, where(node)))


# ------------------------------------------------------------------------------------------------ types
INT_TYPES = {
    "bool": ("bool", 1), "char": ("s", 8), "signed char": ("s", 8), "unsigned char": ("u", 8),
    "short": ("s", 16), "unsigned short": ("u", 16), "int": ("s", 32), "unsigned int": ("u", 32),
    "long": ("s", 64), "unsigned long": ("u", 64), "long long": ("s", 64), "unsigned long long": ("u", 64),
    "char8_t": ("u", 8), "char16_t": ("u", 16), "char32_t": ("u", 32),
}


# typedef names that clang sometimes leaves sugared inside array / pointer types; every Unit appends static_asserts
# (__is_same) for this table to the translation unit, so a platform where it is wrong makes clang (and the run) fail
TYPEDEFS = {"size_t": "unsigned long", "std::size_t": "unsigned long", "uintptr_t": "unsigned long", "uint64_t": "unsigned long",
            "uint32_t": "unsigned int", "uint16_t": "unsigned short", "uint8_t": "unsigned char", "int64_t": "long",
            "int32_t": "int", "int16_t": "short", "int8_t": "signed char", "ptrdiff_t": "long", "intptr_t": "long",
            "uintmax_t": "unsigned long", "intmax_t": "long"}
TYPEDEF_CHECK = "\n#include <stdint.h>\n#include <stddef.h>\n#include <cstddef>\n" + "".join(
    "static_assert(__is_same(%s, %s), \"cxx2coq typedef table\");\n" % kv for kv in sorted(TYPEDEFS.items())) + \
    "static_assert(sizeof(int) == 4 && sizeof(long) == 8 && sizeof(short) == 2 && sizeof(long long) == 8 && (char)-1 < 0, \"cxx2coq widths\");\n"


class Ty:
    def __init__(self, kind, w=0, elem=None, n=None, const=False):
        self.kind, self.w, self.elem, self.n, self.const = kind, w, elem, n, const

    def is_int(self):
        return self.kind in ("u", "s")

    def coq(self):
        if self.kind == "u":
            return "N"
        if self.kind == "s":
            return "Z"
        if self.kind == "bool":
            return "bool"
        if self.kind in ("arr", "ptr"):
            return "list " + self.elem.coq()
        if self.kind == "void":
            return "unit"
        if self.kind == "opt":
            return "option " + self.elem.coq()
        raise Unsupported("no Gallina type for C++ type kind %s" % self.kind)

    def same(self, o):
        return self.kind == o.kind and self.w == o.w and (self.elem is None) == (o.elem is None) and \
            (self.elem is None or self.elem.same(o.elem)) and self.n == o.n

    def __repr__(self):
        return "Ty(%s%s%s%s)" % (self.kind, self.w or "", " of %r" % self.elem if self.elem else "", "[%s]" % self.n if self.n else "")


def parse_type_str(s, node):
    s = s.strip()
    m = re.match(r"^(.*\S)\s*\(&\)\s*\[(\d+)\]$", s)       # reference to array:  const T (&)[N]
    if m:
        return Ty("arr", elem=parse_type_str(m.group(1), node), n=int(m.group(2)))
    m = re.match(r"^(.*\S)\s*\[(\d+)\]$", s)
    if m:
        el = parse_type_str(m.group(1), node)
        return Ty("arr", elem=el, n=int(m.group(2)), const=el.const)
    if s.endswith("&"):                                     # reference to scalar: treated as the scalar where allowed
        t = parse_type_str(s[:-1], node)
        t.ref = True
        return t
    m = re.match(r"^(.*\S)\s*\*\s*(const)?$", s)
    if m:
        return Ty("ptr", elem=parse_type_str(m.group(1), node))
    words = s.split()
    const = "const" in words
    words = [w for w in words if w not in ("const", "volatile")]
    if "volatile" in s.split():
        fail(node, "volatile type '%s'" % s)
    base = " ".join(words)
    base = TYPEDEFS.get(base, base)
    if base == "void":
        return Ty("void")
    if base not in INT_TYPES:
        fail(node, "type '%s' is outside the subset (fixed-width integers, bool, arrays of / pointers to them)" % s)
    k, w = INT_TYPES[base]
    return Ty(k, w, const=const)


def node_type(node):
    t = node.get("type")
    if not t:
        fail(node, "node without a type")
    return parse_type_str(t.get("desugaredQualType") or t["qualType"], node)


# ------------------------------------------------------------------------------------------------ clang
def annotate_lines(o, cur):
    if isinstance(o, dict):
        for k in ("loc", "range"):
            v = o.get(k)
            if isinstance(v, dict):
                for sub in (v, v.get("begin", {}), v.get("end", {}), v.get("expansionLoc", {}), v.get("spellingLoc", {})):
                    if isinstance(sub, dict) and "line" in sub:
                        cur[0] = sub["line"]
        if "kind" in o:
            o["_line"] = cur[0]
        for k, v in o.items():
            if k not in ("loc", "range"):
                annotate_lines(v, cur)
    elif isinstance(o, list):
        for v in o:
            annotate_lines(v, cur)


def inspec_here(targs, o):
    """the template arguments of this specialisation were already appended by the enclosing ClassTemplateDecl"""
    mine = [Unit.targ_str(x) for x in o.get("inner", []) if x.get("kind") == "TemplateArgument"]
    return bool(mine) and targs[-len(mine):] == mine


HEXID = re.compile(r"^0x[0-9a-f]+$")


def retag(o, tag):
    if isinstance(o, dict):
        for k, v in o.items():
            if isinstance(v, str):
                if HEXID.match(v):
                    o[k] = tag + v
            else:
                retag(v, tag)
    elif isinstance(o, list):
        for v in o:
            retag(v, tag)


OPNAMES = {"()": "call", "[]": "index", "<<=": "shl_assign", ">>=": "shr_assign", "&=": "and_assign", "|=": "or_assign",
           "^=": "xor_assign", "==": "eq", "!=": "ne", "<": "lt", "<=": "le", ">": "gt", ">=": "ge", "~": "compl", "<<": "shl",
           ">>": "shr", "=": "assign", "+=": "add_assign", "-=": "sub_assign", "++": "inc", "--": "dec", "&": "and", "|": "or",
           "^": "xor", "!": "not", "+": "plus", "-": "minus", "*": "star", "->": "arrow"}


def mangle(q):
    parts = q.split("::")
    if parts and parts[0] == "frg":
        parts = parts[1:]
    out = []
    for p in parts:
        if p.startswith("operator"):
            op = p[len("operator"):].strip()
            out.append(OPNAMES.get(op) or "conv_" + re.sub(r"\W+", "_", op))
        else:
            out.append(re.sub(r"\W+", "_", p))
    return "_".join(x for x in out if x)


class Unit:
    """One translation unit text; clang dumps (one per filter) are cached and indexed by decl id."""

    def __init__(self, tu_text, repo=None):
        self.tu, self.repo = tu_text, repo or REPO
        self.dumps = {}
        self.decl = {}        # id -> node
        self.qual = {}        # id -> qualified name
        self.targs = {}       # id -> template arguments of the enclosing specialisation(s)
        self.inspec = {}      # id -> True if inside a template specialisation
        self.fns = {}         # decl id -> FnInfo (translated)
        self.in_progress = set()
        self.globals = {}     # decl id -> (gname, Ty)
        self.out = []         # emitted Gallina items in dependency order
        self.used_names = set()
        self.clang_calls = 0

    def dump(self, flt):
        if flt in self.dumps:
            return self.dumps[flt]
        with tempfile.TemporaryDirectory() as td:
            src = os.path.join(td, "tu.cpp")
            with open(src, "w") as f:
                f.write(self.tu + TYPEDEF_CHECK)
            base = ["clang++", "-std=c++20", "-fsized-deallocation", "-I" + os.path.join(self.repo, "include"),
                    "-fsyntax-only", "-Xclang"]
            p = subprocess.run(base + ["-ast-dump=json", "-Xclang", "-ast-dump-filter=" + flt, src],
                               capture_output=True, text=True, timeout=600)
            # the JSON dump has no "Dumping <qualified name>:" headers; the textual dump (same order) has
            p2 = subprocess.run(base + ["-ast-dump", "-Xclang", "-ast-dump-filter=" + flt, src],
                                capture_output=True, text=True, timeout=600)
        self.clang_calls += 2
        if p.returncode != 0 or p2.returncode != 0:
            raise Unsupported("clang failed (filter %s): %s" % (flt, (p.stderr + p2.stderr)[-1500:]))
        headers = [l[len("Dumping "):].rstrip().rstrip(":") for l in p2.stdout.split("\n") if l.startswith("Dumping ")]
        txt, dec, i, objs = p.stdout, json.JSONDecoder(), 0, []
        while i < len(txt):
            while i < len(txt) and txt[i] in " \n\r\t":
                i += 1
            if i >= len(txt):
                break
            o, i = dec.raw_decode(txt, i)
            objs.append(o)
        if len(objs) != len(headers):
            raise Unsupported("clang dumps disagree (filter %s): %d JSON objects, %d headers" % (flt, len(objs), len(headers)))
        tag = "D%d:" % (len(self.dumps) + 1)      # node ids are addresses: only meaningful within one clang process
        for header, o in zip(headers, objs):
            retag(o, tag)
            annotate_lines(o, [0])
            self.index(o, header, [], False, True)
        self.dumps[flt] = objs
        return objs

    def index(self, o, q, targs, inspec, top=False):
        """record every declaration with its qualified name; q is the qualified name of o itself"""
        k = o.get("kind", "")
        if "id" in o and k.endswith("Decl"):
            if o["id"] not in self.decl or ("inner" in o and "inner" not in self.decl[o["id"]]):
                self.decl[o["id"]], self.qual[o["id"]], self.targs[o["id"]], self.inspec[o["id"]] = o, q, targs, inspec
        if k in ("ClassTemplateDecl", "FunctionTemplateDecl"):
            for c in o.get("inner", []):
                ck = c.get("kind", "")
                if ck in ("CXXRecordDecl", "FunctionDecl", "CXXMethodDecl", "ClassTemplateSpecializationDecl"):
                    spec = ck == "ClassTemplateSpecializationDecl" or (ck != "CXXRecordDecl" and any(
                        x.get("kind") == "TemplateArgument" for x in c.get("inner", [])))
                    ta = targs
                    if spec:
                        ta = targs + [self.targ_str(x) for x in c.get("inner", []) if x.get("kind") == "TemplateArgument"]
                    self.index(c, q, ta, inspec or spec)
            return
        if k in ("CXXRecordDecl", "ClassTemplateSpecializationDecl", "NamespaceDecl"):
            if k == "ClassTemplateSpecializationDecl" and not inspec_here(targs, o):
                targs = targs + [self.targ_str(x) for x in o.get("inner", []) if x.get("kind") == "TemplateArgument"]
                inspec = True
            for c in o.get("inner", []):
                if c.get("kind", "").endswith("Decl") and "name" in c:
                    self.index(c, q + "::" + c["name"], targs, inspec)
                elif c.get("kind", "").endswith("Decl"):
                    self.index(c, q, targs, inspec)
            return
        # function-like or variable: index nested decls (params, locals) without qualified names
        def rec(x):
            if isinstance(x, dict):
                if "id" in x and x.get("kind", "").endswith("Decl") and x["id"] not in self.decl:
                    self.decl[x["id"]], self.qual[x["id"]], self.targs[x["id"]], self.inspec[x["id"]] = x, None, targs, inspec
                for v in x.get("inner", []):
                    rec(v)
        for c in o.get("inner", []):
            rec(c)

    @staticmethod
    def targ_str(ta):
        if "value" in ta:
            return str(ta["value"])
        t = ta.get("type", {})
        return t.get("qualType", "?")

    def find_decl(self, ref, scope_qual):
        """the full declaration for a referencedDecl {id, kind, name, type}.  Same dump: by id.  Otherwise the enclosing
        scopes are dumped (filter = qualified-name guess) and the declaration is matched by kind, name and exact type."""
        did, name = ref["id"], ref.get("name", "")

        def has_def(d):
            if d.get("kind") in ("FunctionDecl", "CXXMethodDecl"):
                return any(c.get("kind") == "CompoundStmt" for c in d.get("inner", []))
            return True

        def by_id():
            d = self.decl.get(did)
            if d is None:
                return None
            if has_def(d):
                return d
            for o in self.decl.values():          # definition after a forward declaration
                if o.get("previousDecl") == did and has_def(o):
                    return o
            return None

        def by_sig():
            if "kind" not in ref or "type" not in ref:
                return None
            found = {}
            for i, d in self.decl.items():
                if d.get("kind") == ref["kind"] and d.get("name") == name and self.qual.get(i) and has_def(d) and \
                        d.get("type", {}).get("qualType") == ref["type"].get("qualType"):
                    found.setdefault((self.qual[i], tuple(self.targs[i])), d)
            if len(found) > 1:
                fail(ref, "ambiguous cross-dump reference (%s)" % sorted(found))
            return list(found.values())[0] if found else None
        if by_id():
            return by_id()
        scopes = (scope_qual or "").split("::")
        tries = []
        for i in range(len(scopes), 0, -1):
            tries.append("::".join(scopes[:i] + [name]))
        tries.append("::" + name)        # e.g. a static member of another class template specialisation
        tries.append("std::" + name)
        for t in tries:
            self.dump(t)
            if by_sig():
                return by_sig()
        fail(ref, "cannot find the declaration (with a body) in the AST dumps (tried filters %s)" % tries)

    def select(self, spec):
        """spec: dict(qual=..., sig=None, targs=None, filter=None) -> the FunctionDecl/CXXMethodDecl node"""
        qual = spec["qual"]
        parts = qual.split("::")
        # methods: dump the whole class, so that sibling members resolve by id within the same dump
        self.dump(spec.get("filter") or ("::".join(parts[:-1]) if len(parts) >= 3 else qual))
        cands = []
        for did, d in self.decl.items():
            if d.get("kind") not in ("FunctionDecl", "CXXMethodDecl", "CXXConversionDecl") or self.qual.get(did) != qual:
                continue
            if not any(c.get("kind") == "CompoundStmt" for c in d.get("inner", [])):
                continue
            if spec.get("sig") is not None and d["type"]["qualType"] != spec["sig"]:
                continue
            if spec.get("targs") is not None:
                if not self.inspec[did] or self.targs[did] != list(spec["targs"]):
                    continue
            elif self.inspec[did]:
                continue
            cands.append(d)
        if len(cands) > 1 and len(set((c["type"]["qualType"], tuple(self.targs[c["id"]]), c.get("_line"),
                                       c["id"].split(":")[0]) for c in cands)) == len(cands) and \
                len(set((c["type"]["qualType"], tuple(self.targs[c["id"]]), c.get("_line")) for c in cands)) == 1:
            cands = cands[:1]        # the same declaration seen in several clang dumps (overlapping filters)
        if len(cands) != 1:
            raise Unsupported("function spec %r selects %d declarations (%s); refine sig/targs" % (
                spec, len(cands), [(c["type"]["qualType"], self.targs[c["id"]]) for c in cands]))
        return cands[0]

    def empty_class(self, tname, node):
        """True iff tname names a class without data members, bases or virtual functions (a stateless functor)"""
        tname = re.sub(r"^(const|struct|class)\s+", "", tname.strip())
        if not re.match(r"^[\w:]+$", tname):
            return False
        self.dump(tname)
        recs = [d for i, d in self.decl.items() if d.get("kind") == "CXXRecordDecl" and d.get("name") == tname.split("::")[-1]
                and d.get("completeDefinition") and (self.qual.get(i) or "").endswith(tname)]
        if not recs:
            return False
        for r in recs:
            if r.get("bases"):
                return False
            for c in r.get("inner", []):
                if c.get("kind") == "FieldDecl" or c.get("virtual"):
                    return False
        return True

    def fresh_name(self, base):
        n, k = base, 1
        while n in self.used_names:
            k += 1
            n = "%s_%d" % (base, k)
        self.used_names.add(n)
        return n

    def get_fn(self, decl, gname=None, alias=None):
        did = decl["id"]
        if did in self.fns:
            return self.fns[did]
        if did in self.in_progress:
            fail(decl, "recursive function (outside the subset)")
        self.in_progress.add(did)
        q = self.qual.get(did) or decl.get("name", "fn")
        if gname is None:
            gname = mangle(q)
            sibs = [o for i, o in self.decl.items() if self.qual.get(i) == q and i != did and
                    o.get("kind") == decl.get("kind") and self.inspec[i] == self.inspec[did] and
                    self.targs[i] == self.targs[did]]
            if sibs:
                gname += "_%d" % len([c for c in decl.get("inner", []) if c.get("kind") == "ParmVarDecl"])
        gname = self.fresh_name(gname)
        ft = FnTrans(self, decl, gname, q, alias)
        try:
            info = ft.run()
        finally:
            self.in_progress.discard(did)
        self.fns[did] = info
        return info

    def get_global(self, ref, scope_qual, user):
        did = ref["id"]
        if did in self.globals:
            return self.globals[did]
        d = self.find_decl(ref, scope_qual)
        ty = node_type(d)
        t = d.get("type", {})
        qt = (t.get("desugaredQualType") or t.get("qualType", ""))
        if not (d.get("constexpr") or "const" in qt.split() or re.match(r"^const\b", qt)):
            fail(d, "reference to a non-const variable outside the function")
        init = [c for c in d.get("inner", []) if "kind" in c and not c["kind"].endswith("Attr")]
        if len(init) != 1:
            fail(d, "global constant without a single initialiser")
        gname = self.fresh_name("c_" + mangle(self.qual.get(d["id"]) or d["name"]))
        ft = FnTrans(self, None, gname, self.qual.get(d["id"]) or "")
        b = Builder()
        if ty.kind == "arr":
            txt = ft.init_list(init[0], ty, b)
        else:
            txt = ft.expr(init[0], b)
            txt = cast_text(txt, node_type(init[0]), ty, d)
        if b.lines:
            fail(d, "initialiser of a global constant is not a pure expression (it can be undefined)")
        self.out.append("(* %s, line %s *)\nDefinition %s : %s := %s." % (cmt(self.qual.get(d["id"])), d.get("_line"), gname, ty.coq(), txt))
        self.globals[did] = (gname, ty)
        return self.globals[did]

    def translate(self, specs, header_comment=""):
        names = []
        for sp in specs:
            d = self.select(sp)
            info = self.get_fn(d, sp.get("gname"), sp.get("alias"))
            names.append(info.gname)
        body = "\n\n".join(self.out)
        return ("(* GENERATED by translator/cxx2coq.py from the clang AST of $REPO/include -- do not edit.\n   %s *)\n"
                "From Coq Require Import List NArith ZArith Bool.\nFrom FV Require Import CxxLeaf.CxxSem.\n"
                "Import ListNotations.\nLocal Open Scope N_scope.\n\n%s\n" % (header_comment, body)), names


# ------------------------------------------------------------------------------------------------ builder
class Builder:
    def __init__(self):
        self.lines = []

    def bind(self, pat, m):
        self.lines.append("%s <- %s ;;" % (pat, m))

    def let(self, name, v):
        self.lines.append("let %s := %s in" % (name, v))

    def wrap(self, tail):
        return "\n".join(self.lines + [tail])


def indent(s, n=2):
    return "\n".join(" " * n + l for l in s.split("\n"))


def tuple_pat(names):
    if not names:
        return "_"
    if len(names) == 1:
        return names[0]
    return "'(" + ", ".join(names) + ")"


def tuple_val(names):
    if not names:
        return "tt"
    if len(names) == 1:
        return names[0]
    return "(" + ", ".join(names) + ")"


def tuple_ty(tys):
    if not tys:
        return "unit"
    if len(tys) == 1:
        return tys[0]
    return "(" + " * ".join(("(%s)" % t if " " in t else t) for t in tys) + ")"


def lit(v, ty):
    if ty.kind == "u":
        if v < 0:
            raise Unsupported("negative literal of unsigned type")
        return "%d%%N" % v if False else "%d" % v
    if ty.kind == "s":
        return "%d%%Z" % v if v >= 0 else "(%d)%%Z" % v
    if ty.kind == "bool":
        return "true" if v else "false"
    raise Unsupported("literal of type %r" % ty)


def cast_text(x, src, dst, node):
    m = re.match(r"^(\d+)(%Z)?$", x)
    if m and src.is_int() and dst.is_int():
        # conversion of a non-negative literal that fits: the value itself (the only constant folding done)
        v = int(m.group(1))
        if (src.kind == "s") == bool(m.group(2)) and v < 2 ** (dst.w - (1 if dst.kind == "s" else 0)):
            return lit(v, dst)
    if dst.kind == "bool":
        if src.kind == "bool":
            return x
        if src.kind == "u":
            return "(negb (%s =? 0)%%N)" % x
        if src.kind == "s":
            return "(negb (%s =? 0)%%Z)" % x
        fail(node, "conversion %r -> bool" % src)
    if src.kind == "bool":
        if dst.kind == "u":
            return "(b2n %s)" % x
        if dst.kind == "s":
            return "(b2z %s)" % x
        fail(node, "conversion bool -> %r" % dst)
    if src.kind == "u" and dst.kind == "u":
        return x if dst.w >= src.w else "(wrap %d %s)" % (dst.w, x)
    if src.kind == "u" and dst.kind == "s":
        return "(Z.of_N %s)" % x if dst.w > src.w else "(cast_s %d (Z.of_N %s))" % (dst.w, x)
    if src.kind == "s" and dst.kind == "u":
        return "(cast_u %d %s)" % (dst.w, x)
    if src.kind == "s" and dst.kind == "s":
        return x if dst.w >= src.w else "(cast_s %d %s)" % (dst.w, x)
    fail(node, "conversion %r -> %r" % (src, dst))


def to_Z(x, ty, node):
    if ty.kind == "u":
        return "(Z.of_N %s)" % x
    if ty.kind == "s":
        return x
    if ty.kind == "bool":
        return "(b2z %s)" % x
    fail(node, "integer expected, got %r" % ty)


class Var:
    def __init__(self, key, gname, ty, kind, mem=None, const=False):
        self.key, self.gname, self.ty, self.kind, self.mem, self.const = key, gname, ty, kind, mem, const


class FnInfo:
    pass


class Ctx:
    """how control leaves the current block: texts are constant because Gallina names are stable (shadowing)"""

    def __init__(self, ret, ret_raw, brk=None, cont=None):
        self.ret, self.ret_raw, self.brk, self.cont = ret, ret_raw, brk, cont


LOOPS = ("ForStmt", "WhileStmt", "DoStmt")


def children(n):
    return [c for c in n.get("inner", []) if isinstance(c, dict)]


def walk(n):
    yield n
    for c in children(n):
        if c:
            yield from walk(c)


class FnTrans:
    def __init__(self, unit, decl, gname, qual, alias=None):
        self.u, self.decl, self.gname, self.qual = unit, decl, gname, qual
        self.alias = alias or {}
        self.params = []
        self.scope = "::".join(qual.split("::")[:-1])
        self.vars = {}          # key -> Var (everything ever declared in this function, members included)
        self.names = set(["fuel"])
        self.tmp = 0
        self.nloops = 0
        self.needs_fuel = False
        self.eff_cache = {}
        self.ret_ty = None
        self.mem_written = set()

    # ---------------------------------------------------------------- names
    def fresh(self, base):
        base = re.sub(r"\W", "_", base)
        n, k = base, 1
        while n in self.names:
            k += 1
            n = "%s_%d" % (base, k)
        self.names.add(n)
        return n

    def temp(self):
        self.tmp += 1
        return self.fresh("t%d" % self.tmp)

    def declare(self, d, kind):
        tstr = node_type_str(d)
        if kind == "param" and re.match(r"^(const\s+)?[A-Za-z_][\w:]*$", tstr.strip()) and \
                re.sub(r"^const\s+", "", tstr.strip()) not in INT_TYPES and \
                re.sub(r"^const\s+", "", tstr.strip()) not in TYPEDEFS and self.u.empty_class(tstr, d):
            v = Var(d["id"], "tt", Ty("empty"), kind)      # stateless functor object: carries no data
            self.vars[d["id"]] = v
            return v
        ty = node_type(d)
        if getattr(ty, "ref", False):
            fail(d, "reference-typed variable")
        name = d.get("name") or "arg%d" % len(self.vars)
        if ty.kind == "ptr":
            if not ty.elem.is_int():
                fail(d, "pointer to non-integer")
            memkey = d["id"] + "#mem"
            v = Var(d["id"], self.fresh("v_" + name), ty, kind, mem=memkey)
            v.cname = name
            if kind == "param" and name in self.alias:
                other = [p for p in self.params if p.ty.kind == "ptr" and p.cname == self.alias[name]]
                if len(other) != 1 or not other[0].ty.elem.same(ty.elem):
                    fail(d, "alias spec: no earlier pointer parameter '%s' of the same type" % self.alias[name])
                v.mem = other[0].mem      # stated by the spec: both point into the same array
            elif kind == "param":
                self.vars[memkey] = Var(memkey, self.fresh("v_" + name + "_mem"), Ty("arr", elem=ty.elem), "parammem",
                                        const=ty.elem.const)
            else:
                v.mem = None      # set from the initialiser
        elif ty.kind == "arr":
            if not ty.elem.is_int():
                fail(d, "array of non-integers")
            v = Var(d["id"], self.fresh("v_" + name), ty, kind, const=ty.elem.const)
        elif ty.kind in ("u", "s", "bool"):
            v = Var(d["id"], self.fresh("v_" + name), ty, kind)
        else:
            fail(d, "variable of unsupported type")
        self.vars[d["id"]] = v
        return v

    def member(self, node):
        """MemberExpr on (implicit) this"""
        base = children(node)
        if len(base) != 1 or strip_parens(base[0]).get("kind") != "CXXThisExpr":
            fail(node, "member access on an object other than *this")
        if node.get("referencedMemberDecl") is None or "name" not in node:
            fail(node, "member expression without referencedMemberDecl")
        key = "member:" + node["name"]      # by name: ids differ between clang runs, and only *this is accessed
        if key not in self.vars:
            ty = node_type(node)
            if ty.kind == "ptr":
                if not ty.elem.is_int():
                    fail(node, "pointer member to non-integer")
                memkey = key + "#mem"
                self.vars[memkey] = Var(memkey, self.fresh("m_" + node["name"] + "_mem"), Ty("arr", elem=ty.elem), "member",
                                        const=ty.elem.const)
                self.vars[key] = Var(key, self.fresh("m_" + node["name"]), ty, "member", mem=memkey)
            elif ty.kind in ("u", "s", "bool", "arr"):
                if ty.kind == "arr" and not ty.elem.is_int():
                    fail(node, "array member of non-integers")
                self.vars[key] = Var(key, self.fresh("m_" + node["name"]), ty, "member")
            else:
                fail(node, "member of unsupported type")
        return self.vars[key]

    # ---------------------------------------------------------------- effects (uses / writes), for loops, joins, sequencing
    def lv_root(self, e):
        """key of the variable that a write to lvalue e modifies"""
        e = strip_parens(e)
        k = e["kind"]
        if k == "DeclRefExpr":
            return e["referencedDecl"]["id"]
        if k == "MemberExpr":
            return self.member(e).key
        if k == "ArraySubscriptExpr":
            return self.ptr_root(children(e)[0])
        if k == "UnaryOperator" and e["opcode"] == "*":
            return self.ptr_root(children(e)[0])
        fail(e, "unsupported lvalue")

    def ptr_root(self, e):
        """key of the memory variable a pointer-valued expression points into"""
        e = strip_parens(e)
        k = e["kind"]
        if k == "ImplicitCastExpr" and e["castKind"] == "ArrayToPointerDecay":
            return self.lv_root(children(e)[0])
        if k == "ImplicitCastExpr" and e["castKind"] in ("LValueToRValue", "NoOp"):
            return self.ptr_root(children(e)[0])
        if k in ("DeclRefExpr", "MemberExpr"):
            key = e["referencedDecl"]["id"] if k == "DeclRefExpr" else self.member(e).key
            v = self.vars.get(key)
            if v is None:
                fail(e, "pointer variable used before its declaration was seen")
            if v.ty.kind == "arr":
                return key
            if v.mem is None:
                fail(e, "pointer variable whose target object is unknown")
            return v.mem
        if k == "BinaryOperator" and e["opcode"] in ("+", "-"):
            a, b = children(e)
            return self.ptr_root(a if node_type_kind(a) == "ptr" else b)
        if k == "UnaryOperator" and e["opcode"] in ("++", "--"):
            return self.ptr_root(children(e)[0])
        fail(e, "unsupported pointer expression")

    def effects(self, n):
        """(uses, writes): keys of variables mentioned / possibly written in the subtree"""
        if not n or "kind" not in n:
            return set(), set()
        if n["id"] in self.eff_cache:
            return self.eff_cache[n["id"]]
        uses, writes = set(), set()
        k = n["kind"]
        if k == "DeclRefExpr":
            r = n["referencedDecl"]
            if r["kind"] in ("VarDecl", "ParmVarDecl"):
                v = self.vars.get(r["id"])
                if v is None or v.ty.kind != "empty":
                    uses.add(r["id"])
                if v is not None and v.mem:
                    uses.add(v.mem)
        elif k == "MemberExpr":
            c0 = strip_parens(children(n)[0]) if children(n) else {}
            if c0.get("kind") == "CXXThisExpr" and "referencedMemberDecl" in n and not node_type_str(n).startswith("<bound"):
                v = self.member(n)
                uses.add(v.key)
                if v.mem:
                    uses.add(v.mem)
        if k in ("BinaryOperator", "CompoundAssignOperator") and (n["opcode"] == "=" or k == "CompoundAssignOperator"):
            writes.add(self.lv_root(children(n)[0]))
        if k == "UnaryOperator" and n["opcode"] in ("++", "--"):
            writes.add(self.lv_root(children(n)[0]))
        if k == "VarDecl":
            self.predeclare(n)
        if k == "AtomicExpr":
            kind, tgt, _ = self.atomic_shape(n)
            if kind == "store":
                writes.add(self.lv_root(tgt))
        if k in ("CallExpr", "CXXMemberCallExpr", "CXXOperatorCallExpr"):
            cu, cw = self.call_effects(n)
            uses |= cu
            writes |= cw
        for c in children(n):
            u2, w2 = self.effects(c)
            uses |= u2
            writes |= w2
        uses |= writes
        self.eff_cache[n["id"]] = (uses, writes)
        return uses, writes

    def predeclare(self, d):
        if d["id"] not in self.vars:
            v = self.declare(d, "local")
            if v.ty.kind == "ptr":
                init = [c for c in children(d) if "kind" in c]
                if len(init) != 1:
                    fail(d, "pointer variable without initialiser")
                v.mem = self.ptr_root(init[0])

    def call_effects(self, n):
        kind, info, args, obj = self.resolve_call(n)
        uses, writes = set(), set()
        if kind == "fn":
            if obj == "this":
                for mk, mv in info.members:
                    self.adopt_member(mk, mv)
                    uses.add(mk)
                for mk in info.mem_out:
                    writes.add(mk)
            # pointer arguments: the callee may write through non-const ones
            for p, a in zip(info.params, args):
                if p.ty.kind == "ptr":
                    r = self.ptr_root(a)
                    uses.add(r)
                    if p.mem in info.state_out_keys:
                        writes.add(r)
        elif kind == "builtin":
            if info in ("add_overflow", "sub_overflow", "mul_overflow"):
                tgt = strip_parens(args[2])
                if tgt["kind"] != "UnaryOperator" or tgt["opcode"] != "&":
                    fail(n, "third argument of __builtin_*_overflow must be &variable")
                writes.add(self.lv_root(children(tgt)[0]))
            if info == "swap":
                writes.add(self.lv_root(args[0]))
                writes.add(self.lv_root(args[1]))
        return uses, writes

    def adopt_member(self, key, mv):
        if key not in self.vars:
            self.vars[key] = Var(key, self.fresh(mv.gname), mv.ty, "member", mem=mv.mem, const=mv.const)

    # ---------------------------------------------------------------- calls
    BUILTINS = {"__builtin_clz": ("clz", 32), "__builtin_clzl": ("clz", 64), "__builtin_clzll": ("clz", 64),
                "__builtin_ctz": ("ctz", 32), "__builtin_ctzl": ("ctz", 64), "__builtin_ctzll": ("ctz", 64),
                "__builtin_popcount": ("popcount", 32), "__builtin_popcountl": ("popcount", 64),
                "__builtin_popcountll": ("popcount", 64),
                "__builtin_add_overflow": ("add_overflow", 0), "__builtin_sub_overflow": ("sub_overflow", 0),
                "__builtin_mul_overflow": ("mul_overflow", 0)}

    def resolve_call(self, n):
        """-> (kind, info, arg nodes, obj) with kind 'fn' (info = FnInfo) or 'builtin' (info = name)"""
        k = n["kind"]
        cs = children(n)
        if k == "CXXMemberCallExpr":
            me = strip_parens(cs[0])
            if me["kind"] != "MemberExpr":
                fail(n, "member call through something other than a MemberExpr")
            base = strip_parens(children(me)[0])
            ref = {"id": me["referencedMemberDecl"], "name": me["name"]}
            d = self.u.find_decl(ref, self.qual_of_class())
            info = self.u.get_fn(d)
            if base["kind"] == "CXXThisExpr":
                return "fn", info, cs[1:], "this"
            if info.members:
                fail(n, "member call on an object other than *this whose callee touches data members")
            return "fn", info, cs[1:], "other"
        callee = strip_parens(cs[0])
        while callee["kind"] == "ImplicitCastExpr" and callee["castKind"] in ("FunctionToPointerDecay", "BuiltinFnToFnPtr"):
            callee = strip_parens(children(callee)[0])
        if callee["kind"] != "DeclRefExpr":
            fail(n, "indirect call")
        ref = callee["referencedDecl"]
        name = ref.get("name", "")
        if name in self.BUILTINS:
            return "builtin", self.BUILTINS[name][0], cs[1:], None
        if name.startswith("__builtin"):
            fail(n, "builtin %s is not in the builtin library" % name)
        d = self.u.find_decl(ref, self.qual)
        q = self.u.qual.get(d["id"]) or ""
        if q in ("std::swap",) :
            return "builtin", "swap", cs[1:], None
        info = self.u.get_fn(d)
        if k == "CXXOperatorCallExpr":
            if info.members:
                fail(n, "operator call on an object whose operator touches data members")
            return "fn", info, cs[2:], "other"
        if info.members and d.get("kind") == "CXXMethodDecl" and d.get("storageClass") != "static":
            fail(n, "non-static member function called without an object")
        return "fn", info, cs[1:], None

    def qual_of_class(self):
        return self.scope

    def atomic_shape(self, n):
        """clang's JSON does not name the atomic builtin; only two unambiguous shapes are accepted:
        (&obj, order) of the pointee's (non-bool integer) type = __atomic_load_n;  (&obj, order, value) of type void with an
        integer value of the pointee's type = __atomic_store_n.  Single-threaded reading: a load is a read, a store a write
        (the memory order is not interpreted here; translator/gen_locks.py extracts the orders)."""
        cs = children(n)
        if len(cs) not in (2, 3):
            fail(n, "atomic builtin of unsupported shape")
        a = strip_parens(cs[0])
        if a.get("kind") != "UnaryOperator" or a.get("opcode") != "&":
            fail(n, "atomic builtin whose first argument is not &object")
        tgt = children(a)[0]
        pt = node_type(tgt)
        if pt.kind not in ("u", "s"):
            fail(n, "atomic builtin on a non-integer (or bool) object")
        if strip_parens(cs[1]).get("kind") != "IntegerLiteral":
            fail(n, "atomic builtin with a non-constant memory order")
        if len(cs) == 2 and node_type_str(n) != "void" and node_type(n).same(pt):
            return "load", tgt, None
        if len(cs) == 3 and node_type_str(n) == "void" and node_type_kind(cs[2]) == "other" and node_type(cs[2]).same(pt):
            return "store", tgt, cs[2]
        fail(n, "atomic builtin other than __atomic_load_n / __atomic_store_n (by shape)")

    # ---------------------------------------------------------------- expressions
    def read_var(self, key, node):
        v = self.vars.get(key)
        if v is None:
            fail(node, "use of an undeclared variable")
        return v

    def lvalue(self, e, b):
        """-> ('var', Var) | ('elem', memVar, idxZtext, elemTy)"""
        e = strip_parens(e)
        k = e["kind"]
        if k == "DeclRefExpr":
            r = e["referencedDecl"]
            if r["kind"] not in ("VarDecl", "ParmVarDecl"):
                fail(e, "reference to a %s" % r["kind"])
            if r["id"] in self.vars:
                return ("var", self.vars[r["id"]])
            gname, ty = self.u.get_global(r, self.qual, self)
            return ("var", Var(r["id"], gname, ty, "global", const=True))
        if k == "MemberExpr":
            return ("var", self.member(e))
        if k == "ArraySubscriptExpr":
            a, i = children(e)
            if node_type_kind(a) != "ptr":
                a, i = i, a
            self.check_unseq([a, i], e)
            mem, off = self.ptr(a, b)
            it = self.expr(i, b)
            iz = to_Z(it, node_type(i), i)
            idx = iz if off == "0%Z" else "(%s + %s)%%Z" % (off, iz)
            return ("elem", mem, idx, mem.ty.elem)
        if k == "UnaryOperator" and e["opcode"] == "*":
            mem, off = self.ptr(children(e)[0], b)
            return ("elem", mem, off, mem.ty.elem)
        if k == "UnaryOperator" and e["opcode"] in ("++", "--") and not e.get("isPostfix") and \
                node_type_kind(children(e)[0]) != "ptr":
            self.expr(e, b)                       # prefix ++/-- is an lvalue: do the update, then denote the operand
            return self.lvalue(children(e)[0], b)
        fail(e, "unsupported lvalue expression")

    def load(self, lv, b):
        if lv[0] == "var":
            return lv[1].gname
        t = self.temp()
        b.bind(t, "aread %s %s" % (lv[1].gname, lv[2]))
        return t

    def store(self, lv, val, b, node):
        if lv[0] == "var":
            v = lv[1]
            if v.kind == "global" or (v.const and v.kind != "local"):
                fail(node, "write to a constant")
            if v.ty.kind == "arr":
                fail(node, "assignment of a whole array")
            b.let(v.gname, val)
            if v.kind == "member":
                self.mem_written.add(v.key)
            return
        mem = lv[1]
        if mem.const or mem.kind == "global":
            fail(node, "write through a pointer/array to const")
        b.bind(mem.gname, "awrite %s %s %s" % (mem.gname, lv[2], val))
        if mem.kind in ("member", "parammem"):
            self.mem_written.add(mem.key)

    def ptr(self, e, b):
        """pointer-valued expression -> (memory Var, offset text : Z)"""
        e = strip_parens(e)
        k = e["kind"]
        if k == "ImplicitCastExpr" and e["castKind"] == "ArrayToPointerDecay":
            lv = self.lvalue(children(e)[0], b)
            if lv[0] != "var" or lv[1].ty.kind != "arr":
                fail(e, "decay of something that is not an array variable")
            return lv[1], "0%Z"
        if k == "ImplicitCastExpr" and e["castKind"] == "NoOp":
            return self.ptr(children(e)[0], b)
        if k == "ImplicitCastExpr" and e["castKind"] == "LValueToRValue":
            lv = self.lvalue(children(e)[0], b)
            if lv[0] != "var" or lv[1].ty.kind != "ptr":
                fail(e, "pointer loaded from something that is not a pointer variable")
            return self.vars[lv[1].mem], lv[1].gname
        if k == "BinaryOperator" and e["opcode"] in ("+", "-"):
            a, c = children(e)
            if node_type_kind(a) != "ptr":
                if e["opcode"] == "-":
                    fail(e, "integer - pointer")
                a, c = c, a
            self.check_unseq([a, c], e)
            mem, off = self.ptr(a, b)
            d = to_Z(self.expr(c, b), node_type(c), c)
            if e["opcode"] == "-":
                d = "(- %s)%%Z" % d
            t = self.temp()
            b.bind(t, "ptr_add (length %s) %s %s" % (mem.gname, off, d))
            return mem, t
        if k == "UnaryOperator" and e["opcode"] in ("++", "--"):
            lv = self.lvalue(children(e)[0], b)
            if lv[0] != "var" or lv[1].ty.kind != "ptr":
                fail(e, "++/-- on a pointer that is not a variable")
            v = lv[1]
            mem = self.vars[v.mem]
            old = None
            if e.get("isPostfix"):
                old = self.temp()
                b.let(old, v.gname)
            b.bind(v.gname, "ptr_add (length %s) %s %s" % (mem.gname, v.gname, "1%Z" if e["opcode"] == "++" else "(-1)%Z"))
            if v.kind == "member":
                self.mem_written.add(v.key)
            return mem, (old if old else v.gname)
        fail(e, "unsupported pointer expression")

    def check_unseq(self, operands, node):
        effs = [self.effects(o) for o in operands]
        for i in range(len(operands)):
            for j in range(len(operands)):
                if i != j and effs[i][1] & effs[j][0]:
                    fail(node, "operands with side effects on variables the other operand uses (evaluation order matters)")

    def init_list(self, e, ty, b):
        e = strip_parens(e)
        if e["kind"] != "InitListExpr":
            fail(e, "array initialiser that is not a brace list")
        if "array_filler" in e:
            fail(e, "array initialiser with implicit filler")
        els = children(e)
        if ty.n is not None and len(els) != ty.n:
            fail(e, "array initialiser with %d elements for %d slots" % (len(els), ty.n))
        out = []
        for x in els:
            out.append(cast_text(self.expr(x, b), node_type(x), ty.elem, x))
        return "[" + "; ".join(out) + "]"

    def binop(self, op, ty, a, c, cty, b, node):
        """a op c computed at type ty (c has type cty for shifts) -> pure text (may emit binds)"""
        def m(txt):
            t = self.temp()
            b.bind(t, txt)
            return t
        if ty.kind == "u":
            w = ty.w
            if op == "+":
                return "(add_u %d %s %s)" % (w, a, c)
            if op == "-":
                return "(sub_u %d %s %s)" % (w, a, c)
            if op == "*":
                return "(mul_u %d %s %s)" % (w, a, c)
            if op == "/":
                return m("div_u %s %s" % (a, c))
            if op == "%":
                return m("rem_u %s %s" % (a, c))
            if op == "&":
                return "(N.land %s %s)" % (a, c)
            if op == "|":
                return "(N.lor %s %s)" % (a, c)
            if op == "^":
                return "(N.lxor %s %s)" % (a, c)
            if op == "<<":
                return m("shl_u %d %s %s" % (w, a, to_Z(c, cty, node)))
            if op == ">>":
                return m("shr_u %d %s %s" % (w, a, to_Z(c, cty, node)))
        if ty.kind == "s":
            w = ty.w
            names = {"+": "add_s", "-": "sub_s", "*": "mul_s", "/": "div_s", "%": "rem_s"}
            if op in names:
                return m("%s %d %s %s" % (names[op], w, a, c))
            if op == "&":
                return "(Z.land %s %s)" % (a, c)
            if op == "|":
                return "(Z.lor %s %s)" % (a, c)
            if op == "^":
                return "(Z.lxor %s %s)" % (a, c)
            if op == "<<":
                return m("shl_s %d %s %s" % (w, a, to_Z(c, cty, node)))
            if op == ">>":
                return m("shr_s %d %s %s" % (w, a, to_Z(c, cty, node)))
        fail(node, "binary operator %s at type %r" % (op, ty))

    def compare(self, op, ty, a, c, node):
        if ty.kind == "bool":
            if op == "==":
                return "(Bool.eqb %s %s)" % (a, c)
            if op == "!=":
                return "(negb (Bool.eqb %s %s))" % (a, c)
            fail(node, "ordering comparison of bools")
        sc = "%N" if ty.kind == "u" else "%Z"
        if ty.kind not in ("u", "s", "ptr"):
            fail(node, "comparison at type %r" % ty)
        return {"==": "(%s =? %s)%s" % (a, c, sc), "!=": "(negb (%s =? %s)%s)" % (a, c, sc),
                "<": "(%s <? %s)%s" % (a, c, sc), "<=": "(%s <=? %s)%s" % (a, c, sc),
                ">": "(%s <? %s)%s" % (c, a, sc), ">=": "(%s <=? %s)%s" % (c, a, sc)}[op]

    def branchy(self, cond_text, then_node, else_node, else_const, b, node, rty):
        """value of `cond ? then : else` (or && / ||) when a branch needs binds or writes: both branches return
        (value, written variables)"""
        bt, be = Builder(), Builder()
        vt = self.expr(then_node, bt)
        ve = self.expr(else_node, be) if else_node is not None else else_const
        if not bt.lines and not be.lines:
            return None, vt, ve
        w = set(self.effects(then_node)[1])
        if else_node is not None:
            w |= self.effects(else_node)[1]
        ws = self.order(w)
        t = self.temp()
        names = [t] + [self.vars[x].gname for x in ws]
        b.bind(tuple_pat(names), "(if %s then\n%s\nelse\n%s)" % (
            cond_text, indent(bt.wrap("Ok " + tuple_val([vt] + names[1:]))), indent(be.wrap("Ok " + tuple_val([ve] + names[1:])))))
        for x in ws:
            if self.vars[x].kind in ("member", "parammem"):
                self.mem_written.add(x)
        return t, None, None

    def order(self, keys):
        return sorted(keys, key=lambda k: (self.vars[k].gname))

    def expr(self, e, b):
        """rvalue expression of integer/bool type -> pure Gallina text; binds/lets go to b"""
        k = e.get("kind")
        cs = children(e)
        if k in ("ParenExpr", "ConstantExpr", "ExprWithCleanups", "SubstNonTypeTemplateParmExpr"):
            return self.expr(cs[-1] if k == "SubstNonTypeTemplateParmExpr" else cs[0], b)
        if k == "IntegerLiteral":
            return lit(int(e["value"]), node_type(e))
        if k == "CharacterLiteral":
            return lit(int(e["value"]), node_type(e))
        if k == "CXXBoolLiteralExpr":
            return "true" if e["value"] else "false"
        if k in ("ImplicitCastExpr", "CStyleCastExpr", "CXXStaticCastExpr", "CXXFunctionalCastExpr"):
            ck = e.get("castKind")
            if ck == "LValueToRValue":
                if node_type(e).kind not in ("u", "s", "bool"):
                    fail(e, "load of a non-integer value")
                return self.load(self.lvalue(cs[0], b), b)
            if ck == "NoOp":
                return self.expr(cs[0], b)
            if ck in ("IntegralCast", "IntegralToBoolean"):
                return cast_text(self.expr(cs[0], b), node_type(cs[0]), node_type(e), e)
            fail(e, "cast kind outside the subset")
        if k == "DeclRefExpr":
            r = e["referencedDecl"]
            if r["kind"] == "NonTypeTemplateParmDecl":
                fail(e, "reference to a template parameter (translate an instantiation instead)")
            if e.get("valueCategory") == "lvalue":
                # constant used without lvalue-to-rvalue conversion (non_odr_use)
                return self.load(self.lvalue(e, b), b)
            fail(e, "unsupported reference")
        if k == "UnaryExprOrTypeTraitExpr":
            if e.get("name") != "sizeof" or "argType" not in e:
                fail(e, "only sizeof(type)")
            at = parse_type_str(e["argType"].get("desugaredQualType") or e["argType"]["qualType"], e)
            if not at.is_int():
                fail(e, "sizeof of a non-integer type")
            return lit(at.w // 8, node_type(e))
        if k == "UnaryOperator":
            op = e["opcode"]
            ty = node_type(e)
            if op in ("++", "--"):
                if node_type_kind(cs[0]) == "ptr":
                    fail(e, "pointer ++/-- used as an integer")
                lv = self.lvalue(cs[0], b)
                vt = node_type(cs[0])
                old = self.load(lv, b)
                keep = None
                if e.get("isPostfix"):
                    keep = self.temp()
                    b.let(keep, old)
                if vt.kind == "u":
                    new = "(%s %d %s 1)" % ("add_u" if op == "++" else "sub_u", vt.w, old)
                elif vt.kind == "s" and vt.w >= 32:
                    new = self.temp()
                    b.bind(new, "%s %d %s 1%%Z" % ("add_s" if op == "++" else "sub_s", vt.w, old))
                elif vt.kind == "s":
                    new = "(cast_s %d (%s %s 1)%%Z)" % (vt.w, old, "+" if op == "++" else "-")
                else:
                    fail(e, "++/-- on %r" % vt)
                self.store(lv, new, b, e)
                return keep if keep else (lv[1].gname if lv[0] == "var" else new)
            if op == "!":
                return "(negb %s)" % self.expr(cs[0], b)
            x = self.expr(cs[0], b)
            if op == "+":
                return x
            if op == "-":
                if ty.kind == "u":
                    return "(neg_u %d %s)" % (ty.w, x)
                if ty.kind == "s":
                    t = self.temp()
                    b.bind(t, "neg_s %d %s" % (ty.w, x))
                    return t
            if op == "~":
                if ty.kind == "u":
                    return "(not_u %d %s)" % (ty.w, x)
                if ty.kind == "s":
                    return "(Z.lnot %s)" % x
            fail(e, "unary operator outside the subset")
        if k == "BinaryOperator":
            op = e["opcode"]
            a, c = cs
            if op == ",":
                self.expr_discard(a, b)
                return self.expr(c, b)
            if op in ("&&", "||"):
                ta = self.expr(a, b)
                if op == "&&":
                    t, vt, _ = self.branchy(ta, c, None, "false", b, e, None)
                    return t if t else "(%s && %s)" % (ta, vt)
                t, vt, _ = self.branchy("negb %s" % ta, c, None, "true", b, e, None)
                return t if t else "(%s || %s)" % (ta, vt)
            if op == "=":
                self.check_unseq([a, c], e)
                if node_type_kind(a) == "ptr":
                    fail(e, "assignment to a pointer variable")
                val = self.expr(c, b)
                lv = self.lvalue(a, b)
                self.store(lv, val, b, e)
                return lv[1].gname if lv[0] == "var" else val
            self.check_unseq([a, c], e)
            if op in ("==", "!=", "<", "<=", ">", ">="):
                ta_, tc_ = node_type(a), node_type(c)
                if ta_.kind == "ptr" or tc_.kind == "ptr":
                    if ta_.kind != "ptr" or tc_.kind != "ptr":
                        fail(e, "comparison of a pointer with a non-pointer")
                    ma, oa = self.ptr(a, b)
                    mc, oc = self.ptr(c, b)
                    if ma.key != mc.key:
                        fail(e, "comparison of pointers into different objects")
                    return self.compare(op, ta_, oa, oc, e)
                if not ta_.same(tc_):
                    fail(e, "comparison operands of different types")
                return self.compare(op, ta_, self.expr(a, b), self.expr(c, b), e)
            ty = node_type(e)
            if ty.kind == "ptr":
                fail(e, "pointer arithmetic used as an integer value")
            xa = self.expr(a, b)
            xc = self.expr(c, b)
            if op not in ("<<", ">>") and not (node_type(a).same(ty) and node_type(c).same(ty)):
                fail(e, "operand types differ from the result type")
            if op in ("<<", ">>") and not node_type(a).same(ty):
                fail(e, "shift operand type differs from the result type")
            return self.binop(op, ty, xa, xc, node_type(c), b, e)
        if k == "CompoundAssignOperator":
            op = e["opcode"][:-1]
            a, c = cs
            self.check_unseq([a, c], e)
            lt = node_type(a)
            ct = parse_type_str(e["computeResultType"].get("desugaredQualType") or e["computeResultType"]["qualType"], e)
            clt = parse_type_str(e["computeLHSType"].get("desugaredQualType") or e["computeLHSType"]["qualType"], e)
            if lt.kind == "ptr":
                fail(e, "compound assignment on a pointer")
            xc = self.expr(c, b)
            lv = self.lvalue(a, b)
            old = self.load(lv, b)
            oldc = cast_text(old, lt, clt, e)
            if op not in ("<<", ">>") and not node_type(c).same(ct):
                fail(e, "compound assignment: right operand type differs from the computation type")
            if not clt.same(ct):
                fail(e, "compound assignment: computeLHSType differs from computeResultType")
            r = self.binop(op, ct, oldc, xc, node_type(c), b, e)
            new = cast_text(r, ct, lt, e)
            self.store(lv, new, b, e)
            return lv[1].gname if lv[0] == "var" else new
        if k == "ConditionalOperator":
            c0, a, c = cs
            tc = self.expr(c0, b)
            if not node_type(a).same(node_type(c)):
                fail(e, "conditional operator with branches of different types")
            t, vt, ve = self.branchy(tc, a, c, None, b, e, None)
            return t if t else "(if %s then %s else %s)" % (tc, vt, ve)
        if k == "ArraySubscriptExpr" or k == "MemberExpr":
            return self.load(self.lvalue(e, b), b)
        if k in ("CallExpr", "CXXMemberCallExpr", "CXXOperatorCallExpr"):
            r = self.call(e, b)
            if r is None:
                fail(e, "value of a void call")
            return r
        if k == "AtomicExpr":
            kind, tgt, val = self.atomic_shape(e)
            if kind != "load":
                fail(e, "value of an atomic store")
            return self.load(self.lvalue(tgt, b), b)
        fail(e, "expression kind outside the subset")

    def opt_expr(self, e, ty, b):
        """value of type frg::optional<integer>: only the two constructions `null_opt` and `an integer value` (through the
        implicit conversions / elidable copies clang inserts).  Meaning of these constructors of frg::optional: empty / holding
        the value (include/frg/optional.hpp, trusted)."""
        k = e.get("kind")
        cs = children(e)
        if k in ("ExprWithCleanups", "MaterializeTemporaryExpr", "CXXBindTemporaryExpr", "ParenExpr") or \
                (k == "ImplicitCastExpr" and e.get("castKind") in ("ConstructorConversion", "NoOp")):
            return self.opt_expr(cs[0], ty, b)
        if k != "CXXConstructExpr" or not OPTIONAL_RE.match(node_type_str(e).strip()):
            fail(e, "frg::optional value that is not a direct construction")
        ct = e.get("ctorType", {}).get("qualType", "")
        if len(cs) != 1:
            fail(e, "frg::optional constructor with %d arguments" % len(cs))
        if ct == "void (frg::null_opt_type)":
            return "None"
        at = node_type_str(cs[0]).strip()
        if OPTIONAL_RE.match(at):
            if not e.get("elidable"):
                fail(e, "copy of an frg::optional that is not an elidable temporary")
            return self.opt_expr(cs[0], ty, b)
        a = cs[0]
        while a.get("kind") in ("MaterializeTemporaryExpr", "ExprWithCleanups"):
            a = children(a)[0]
        if a.get("kind") == "ImplicitCastExpr" and a.get("castKind") == "NoOp":
            a = children(a)[0]
        if a.get("valueCategory") in ("lvalue", "xvalue"):
            aty = node_type(a)
            x = self.load(self.lvalue(a, b), b)
        else:
            aty = node_type(a)
            x = self.expr(a, b)
        if not aty.same(ty.elem):
            fail(e, "frg::optional<T> constructed from a value of another type")
        return "(Some %s)" % x

    def expr_discard(self, e, b):
        k = e.get("kind")
        if k in ("CallExpr", "CXXMemberCallExpr", "CXXOperatorCallExpr"):
            self.call(e, b)
            return
        if k in ("ParenExpr", "ExprWithCleanups"):
            return self.expr_discard(children(e)[0], b)
        if k == "AtomicExpr":
            kind, tgt, val = self.atomic_shape(e)
            if kind == "store":
                self.check_unseq([tgt, val], e)
                x = self.expr(val, b)
                self.store(self.lvalue(tgt, b), x, b, e)
                return
            self.expr(e, b)
            return
        if k == "UnaryOperator" and e["opcode"] in ("++", "--") and node_type_kind(children(e)[0]) == "ptr":
            self.ptr(e, b)
            return
        self.expr(e, b)

    def call(self, e, b):
        kind, info, args, obj = self.resolve_call(e)
        self.check_unseq(args, e)
        if kind == "builtin":
            return self.builtin(info, e, args, b)
        if len(args) != len(info.params):
            fail(e, "call with %d arguments to a function with %d parameters (default arguments?)" % (len(args), len(info.params)))
        argv = []
        argmem = {}
        for p, a in zip(info.params, args):
            if a.get("kind") == "CXXDefaultArgExpr":
                fail(a, "default argument")
            if p.ty.kind == "empty":
                continue
            if p.ty.kind == "ptr":
                mem, off = self.ptr(a, b)
                if p.mem in argmem:
                    if argmem[p.mem].key != mem.key:
                        fail(a, "callee expects this pointer to point into the same object as an earlier argument")
                    argv += [off]
                else:
                    if any(m.key == mem.key for m in argmem.values()):
                        fail(a, "two pointer arguments into the same object where the callee assumes distinct objects")
                    argv += [mem.gname, off]
                    argmem[p.mem] = mem
            elif p.ty.kind == "arr":
                lv = self.lvalue(a, b)
                if lv[0] != "var" or lv[1].ty.kind != "arr":
                    fail(a, "array argument that is not an array variable")
                argv.append(lv[1].gname)
            else:
                x = self.expr(a, b)
                if not node_type(a).same(p.ty):
                    fail(a, "argument type differs from the parameter type")
                argv.append(x)
        ins = []
        outs = []
        if obj == "this":
            for mk, mv in info.members:
                self.adopt_member(mk, mv)
            ins = [self.vars[mk].gname for mk, _ in info.members]
        elif info.members:
            fail(e, "callee touches members but is not called on *this")
        for sk in info.state_out_keys:
            if sk in dict(info.members):
                outs.append(self.vars[sk])
                self.mem_written.add(sk)
            else:
                am = argmem[sk]
                if am.const:
                    fail(e, "callee writes through a pointer to a const object")
                outs.append(am)
                if am.kind in ("member", "parammem"):
                    self.mem_written.add(am.key)
        if info.needs_fuel:
            self.needs_fuel = True
        callee = "%s%s%s%s" % (info.gname, " fuel" if info.needs_fuel else "", "".join(" " + x for x in ins),
                               "".join(" " + x for x in argv))
        names = []
        res = None
        if info.ret_ty.kind != "void":
            res = self.temp()
            names.append(res)
        names += [v.gname for v in outs]
        b.bind(tuple_pat(names), callee)
        return res

    def builtin(self, name, e, args, b):
        if name in ("clz", "ctz", "popcount"):
            at = node_type(args[0])
            x = self.expr(args[0], b)
            if at.kind != "u":
                fail(e, "builtin on a non-unsigned argument")
            if name == "popcount":
                return "(popcount %s)" % x
            t = self.temp()
            b.bind(t, "%s %d %s" % (name, at.w, x))
            return t
        if name in ("add_overflow", "sub_overflow", "mul_overflow"):
            x = to_Z(self.expr(args[0], b), node_type(args[0]), args[0])
            y = to_Z(self.expr(args[1], b), node_type(args[1]), args[1])
            tgt = children(strip_parens(args[2]))[0]
            rt = node_type(tgt)
            op = {"add_overflow": "+", "sub_overflow": "-", "mul_overflow": "*"}[name]
            t, r = self.temp(), self.temp()
            if rt.kind not in ("u", "s"):
                fail(e, "__builtin_*_overflow into a non-integer")
            b.lines.append("let '(%s, %s) := ovf_%s %d (%s %s %s)%%Z in" % (t, r, rt.kind, rt.w, x, op, y))
            self.store(self.lvalue(tgt, b), r, b, e)
            return t
        if name == "swap":
            l0 = self.lvalue(args[0], b)
            l1 = self.lvalue(args[1], b)
            if not node_type(args[0]).same(node_type(args[1])) or not node_type(args[0]).is_int():
                fail(e, "std::swap of non-integers")
            x0 = self.load(l0, b)
            x1 = self.load(l1, b)
            k0, k1 = self.temp(), self.temp()
            b.let(k0, x0)
            b.let(k1, x1)
            self.store(l0, k1, b, e)
            self.store(l1, k0, b, e)
            return None
        fail(e, "builtin not implemented")

    # ---------------------------------------------------------------- statements
    def seq(self, stmts, ctx, kend):
        """Gallina term for the statement list; kend = text for falling off its end"""
        if not stmts:
            return kend
        s, rest = stmts[0], stmts[1:]
        k = s.get("kind")
        if k is None:
            return self.seq(rest, ctx, kend)
        if k in ("CompoundStmt",):
            return self.seq(children(s) + rest, ctx, kend)
        if k == "NullStmt":
            return self.seq(rest, ctx, kend)
        if k == "DeclStmt":
            b = Builder()
            for d in children(s):
                if d.get("kind") in ("StaticAssertDecl", "TypedefDecl", "TypeAliasDecl", "UsingDecl"):
                    continue
                if d.get("kind") != "VarDecl":
                    fail(d, "declaration kind outside the subset")
                self.local_decl(d, b)
            return b.wrap(self.seq(rest, ctx, kend))
        if k == "ReturnStmt":
            b = Builder()
            cs = children(s)
            mo = OPTIONAL_RE.match(node_type_str(cs[0]).strip()) if cs else None
            if mo:
                ty = Ty("opt", elem=parse_type_str(mo.group(1), s))
                if not ty.elem.is_int():
                    fail(s, "return of frg::optional of a non-integer")
                if self.ret_ty is None:
                    self.ret_ty = ty
                elif not self.ret_ty.same(ty):
                    fail(s, "return statements of different types")
                v = self.opt_expr(cs[0], ty, b)
                return b.wrap(ctx.ret(v))
            if cs:
                ty = node_type(cs[0])
                if self.ret_ty is None:
                    self.ret_ty = ty
                elif not self.ret_ty.same(ty):
                    fail(s, "return statements of different types")
                if not ty.kind in ("u", "s", "bool"):
                    fail(s, "return of a non-integer value")
                v = self.expr(cs[0], b)
                return b.wrap(ctx.ret(v))
            return ctx.ret(None)
        if k == "BreakStmt":
            if ctx.brk is None:
                fail(s, "break outside a loop")
            return ctx.brk
        if k == "ContinueStmt":
            if ctx.cont is None:
                fail(s, "continue outside a loop")
            return ctx.cont
        if k == "IfStmt":
            return self.if_stmt(s, rest, ctx, kend)
        if k in LOOPS:
            return self.loop(s, rest, ctx, kend)
        if k.endswith("Expr") or k.endswith("Operator") or k.endswith("Literal"):
            b = Builder()
            self.expr_discard(s, b)
            return b.wrap(self.seq(rest, ctx, kend))
        fail(s, "statement kind outside the subset")

    def local_decl(self, d, b):
        self.predeclare(d)
        self.live_keys.add(d["id"])
        v = self.vars[d["id"]]
        init = [c for c in children(d) if "kind" in c and not c["kind"].endswith("Attr")]
        if d.get("storageClass") == "static" and not d.get("constexpr"):
            fail(d, "static local variable")
        if v.ty.kind == "arr":
            if len(init) != 1:
                fail(d, "local array without initialiser (indeterminate contents)")
            b.let(v.gname, self.init_list(init[0], v.ty, b))
            return
        if len(init) != 1:
            fail(d, "local variable without initialiser (indeterminate value)")
        if v.ty.kind == "ptr":
            mem, off = self.ptr(init[0], b)
            if mem.key != v.mem:
                fail(d, "pointer initialiser points into a different object than predicted")
            b.let(v.gname, off)
            return
        x = self.expr(init[0], b)
        if not node_type(init[0]).same(v.ty):
            fail(d, "initialiser type differs from the variable type")
        b.let(v.gname, x)

    def escapes(self, n, in_loop=False):
        """(may, must): the statement may / must leave the enclosing block by return (or break/continue of the current loop)"""
        k = n.get("kind")
        if k == "ReturnStmt":
            return True, True
        if k in ("BreakStmt", "ContinueStmt"):
            return (not in_loop), (not in_loop)
        if k == "CompoundStmt":
            may = False
            for c in children(n):
                m1, m2 = self.escapes(c, in_loop)
                may = may or m1
                if m2:
                    return True, True
            return may, False
        if k == "IfStmt":
            cs = [c for c in n.get("inner", [])]
            th = cs[1]
            el = cs[2] if len(cs) > 2 else None
            m1, a1 = self.escapes(th, in_loop)
            if el is None:
                return m1, False
            m2, a2 = self.escapes(el, in_loop)
            return m1 or m2, a1 and a2
        if k in LOOPS:
            may = any(x.get("kind") == "ReturnStmt" for x in walk(n))
            return may, False
        return False, False

    def declared_before(self, stmts_scope_keys):
        return stmts_scope_keys

    def if_stmt(self, s, rest, ctx, kend):
        cs = s.get("inner", [])
        if s.get("hasInit") or s.get("hasVar"):
            fail(s, "if with init-statement / condition variable")
        cond, th = cs[0], cs[1]
        el = cs[2] if len(cs) > 2 else None
        if s.get("isConstexpr"):
            fail(s, "if constexpr")
        b = Builder()
        live = set(self.live_keys)
        c = self.expr(cond, b)
        may_t, must_t = self.escapes(th)
        may_e, must_e = self.escapes(el) if el else (False, False)
        els = [el] if el else []
        if must_t and must_e:
            body = "if %s then\n%s\nelse\n%s" % (c, indent(self.seq([th], ctx, kend)), indent(self.seq(els, ctx, kend)))
            return b.wrap(body)
        if must_t and not may_e:
            # then-branch leaves; else-branch (if any) falls through into the rest
            saved = set(self.live_keys)
            tt = self.seq([th], ctx, kend)
            self.live_keys = saved
            ee = self.seq(els + rest, ctx, kend)
            return b.wrap("if %s then\n%s\nelse\n%s" % (c, indent(tt), indent(ee)))
        if must_e and not may_t:
            saved = set(self.live_keys)
            ee = self.seq(els, ctx, kend)
            self.live_keys = saved
            tt = self.seq([th] + rest, ctx, kend)
            return b.wrap("if %s then\n%s\nelse\n%s" % (c, indent(tt), indent(ee)))
        if not may_t and not may_e:
            w = set(self.effects(th)[1])
            if el:
                w |= self.effects(el)[1]
            ws = self.order(w & live)
            names = [self.vars[x].gname for x in ws]
            join = "Ok " + tuple_val(names)
            saved = set(self.live_keys)
            tt = self.seq([th], ctx, join)
            self.live_keys = set(saved)
            ee = self.seq(els, ctx, join)
            self.live_keys = saved
            b.bind(tuple_pat(names), "(if %s then\n%s\nelse\n%s)" % (c, indent(tt), indent(ee)))
            for x in ws:
                if self.vars[x].kind in ("member", "parammem"):
                    self.mem_written.add(x)
            return b.wrap(self.seq(rest, ctx, kend))
        # a branch may or may not leave: the continuation is duplicated into both branches
        saved = set(self.live_keys)
        tt = self.seq([th] + rest, ctx, kend)
        self.live_keys = set(saved)
        ee = self.seq(els + rest, ctx, kend)
        self.live_keys = saved
        return b.wrap("if %s then\n%s\nelse\n%s" % (c, indent(tt), indent(ee)))

    def loop(self, s, rest, ctx, kend):
        k = s["kind"]
        cs = s.get("inner", [])
        pre = Builder()
        if k == "ForStmt":
            init, condvar, cond, inc, body = cs
            if condvar:
                fail(s, "for with a condition variable")
            if init:
                if init.get("kind") == "DeclStmt":
                    for d in children(init):
                        if d.get("kind") != "VarDecl":
                            fail(d, "declaration kind outside the subset")
                        self.local_decl(d, pre)
                else:
                    self.expr_discard(init, pre)
        elif k == "WhileStmt":
            if len(cs) != 2:
                fail(s, "while with a condition variable")
            cond, body = cs
            inc = None
        else:
            body, cond = cs
            inc = None
        self.nloops += 1
        self.needs_fuel = True
        lname = "%s_loop%d" % (self.gname, self.nloops)
        parts = [x for x in (cond, inc, body) if x]
        uses, writes = set(), set()
        for p in parts:
            u2, w2 = self.effects(p)
            uses |= u2
            writes |= w2
        has_ret = any(x.get("kind") == "ReturnStmt" for p in parts for x in walk(p))
        live = set(self.live_keys)
        carried = self.order(writes & live)
        if has_ret:
            # `return` inside the loop mentions the written members of the function: they are read-only inputs at least
            uses |= set(self.ret_members())
        ro = self.order((uses & live) - set(carried))
        cnames = [self.vars[x].gname for x in carried]
        for x in carried:
            if self.vars[x].kind in ("member", "parammem"):
                self.mem_written.add(x)
        norm = (lambda: "Ok (LNormal %s)" % tuple_val(cnames)) if has_ret else (lambda: "Ok %s" % tuple_val(cnames))
        again = "%s fuel%s" % (lname, "".join(" " + self.vars[x].gname for x in ro + carried))
        saved_live = set(self.live_keys)
        ret_in_loop = lambda v: "Ok (LReturn @RET(%s)@)" % (v if v is not None else "")
        raw_in_loop = lambda rv: "Ok (LReturn %s)" % rv
        if k == "DoStmt":
            # body first, then the test; `continue` jumps to the test
            bc = Builder()
            c = self.expr(cond, bc)
            test = bc.wrap("if %s then\n%s\nelse\n%s" % (c, indent(again), indent(norm())))
            core = self.seq([body], Ctx(ret_in_loop, raw_in_loop, norm(), test), test)
        else:
            # `continue` = increment, then iterate
            if inc:
                bi = Builder()
                self.expr_discard(inc, bi)
                cont = bi.wrap(again)
            else:
                cont = again
            btxt = self.seq([body] if body else [], Ctx(ret_in_loop, raw_in_loop, norm(), cont), cont)
            bc = Builder()
            c = self.expr(cond, bc) if cond else "true"
            core = bc.wrap("if %s then\n%s\nelse\n%s" % (c, indent(btxt), indent(norm())))
        self.live_keys = set(saved_live)
        sty = tuple_ty([self.vty(x) for x in carried])
        self.pending_loops.append(dict(name=lname, ro=ro, carried=carried, sty=sty, has_ret=has_ret, core=core,
                                       line=s.get("_line")))
        call = "%s fuel%s" % (lname, "".join(" " + self.vars[x].gname for x in ro + carried))
        if has_ret:
            r = self.temp()
            pre.bind(r, call)
            after = self.seq(rest, ctx, kend)
            pat = tuple_val(cnames) if cnames else "_"
            rv = self.temp()
            return pre.wrap("match %s with\n| LReturn %s => %s\n| LNormal %s =>\n%s\nend" % (
                r, rv, ctx.ret_raw(rv), pat, indent(after)))
        pre.bind(tuple_pat(cnames), call)
        return pre.wrap(self.seq(rest, ctx, kend))

    def param_mems(self):
        out = []
        for p in self.params:
            if p.mem and p.mem not in out:
                out.append(p.mem)
        return out

    def vty(self, key):
        v = self.vars[key]
        return "Z" if v.ty.kind == "ptr" else v.ty.coq()

    # ---------------------------------------------------------------- function
    def ret_members(self):
        return self._ret_members

    def run(self):
        d = self.decl
        body = None
        self.params = []
        for c in children(d):
            if c.get("kind") == "ParmVarDecl":
                self.params.append(self.declare(c, "param"))
            elif c.get("kind") == "CompoundStmt":
                body = c
            elif c.get("kind") in ("TemplateArgument",) or c.get("kind", "").endswith("Attr"):
                continue
            elif c.get("kind") == "CXXCtorInitializer":
                fail(c, "constructor initialiser")
            else:
                fail(c, "unexpected child of a function declaration")
        if body is None:
            fail(d, "function without a body")
        # pre-pass: declares every local, finds members (incl. callees' members), decides what the function may write
        self._ret_members = []
        uses, writes = self.effects(body)
        self._ret_members = [x for x in writes if x in self.vars and self.vars[x].kind in ("member", "parammem")]
        members = self.order([k for k in self.vars if self.vars[k].kind == "member"])
        state_in = members + self.param_mems()
        self.pending_loops = []
        self.live_keys = set(state_in) | set(p.key for p in self.params if p.ty.kind != "empty")

        ctx = Ctx(lambda v: "Ok @RET(%s)@" % (v if v is not None else ""), lambda rv: "Ok %s" % rv)
        # loops inside loops propagate LReturn
        term = self.seq_top(body, ctx)
        members = self.order([k for k in self.vars if self.vars[k].kind == "member"])
        state_in = members + self.param_mems()
        out_keys = [k for k in state_in if k in self.mem_written]
        for k in writes:
            v = self.vars.get(k)
            if v is not None and v.kind in ("member", "parammem") and k not in out_keys:
                fail(d, "internal: write set of the pre-pass and of the translation differ (%s)" % v.gname)
        ret_ty = self.ret_ty or Ty("void")

        def render(txt):
            def rep(m):
                v = m.group(1)
                names = ([v] if v != "" else []) + [self.vars[k].gname for k in out_keys]
                return tuple_val(names)
            return re.sub(r"@RET\(([^@]*)\)@", rep, txt)
        rty = tuple_ty(([ret_ty.coq()] if ret_ty.kind != "void" else []) + [self.vty(k) for k in out_keys])
        items = []
        for lp in self.pending_loops:
            args = "".join(" (%s : %s)" % (self.vars[x].gname, self.vty(x)) for x in lp["ro"] + lp["carried"])
            lty = "loopres %s %s" % (paren(lp["sty"]), paren(rty)) if lp["has_ret"] else lp["sty"]
            items.append("(* loop at line %s of %s *)\nFixpoint %s (fuel : nat)%s {struct fuel} : outcome (%s) :=\n"
                         "  match fuel with\n  | O => OutOfFuel\n  | S fuel =>\n%s\n  end." % (
                             lp["line"], cmt(self.qual), lp["name"], args, lty, indent(render(lp["core"]), 4)))
        pargs = ""
        for k in members:
            v = self.vars[k]
            pargs += " (%s : %s)" % (v.gname, "Z" if v.ty.kind == "ptr" else v.ty.coq())
        seen_mem = set()
        for p in self.params:
            if p.ty.kind == "empty":
                continue
            if p.mem and p.mem not in seen_mem:
                seen_mem.add(p.mem)
                pargs += " (%s : %s)" % (self.vars[p.mem].gname, self.vars[p.mem].ty.coq())
            pargs += " (%s : %s)" % (p.gname, "Z" if p.ty.kind == "ptr" else p.ty.coq())
        sig = d.get("type", {}).get("qualType", "")
        items.append("(* %s : %s, line %s%s *)\nDefinition %s%s%s : outcome (%s) :=\n%s." % (
            cmt(self.qual), cmt(sig), d.get("_line"), cmt(" <%s>" % ", ".join(self.u.targs.get(d["id"], [])) if self.u.targs.get(d["id"]) else ""),
            self.gname, " (fuel : nat)" if self.needs_fuel else "", pargs, rty, indent(render(term))))
        self.u.out += items
        info = FnInfo()
        info.gname, info.needs_fuel, info.params, info.ret_ty = self.gname, self.needs_fuel, self.params, ret_ty
        info.members = [(k, self.vars[k]) for k in members]
        info.mem_out = [k for k in out_keys if k in members]
        info.state_out_keys = out_keys
        return info

    def seq_top(self, body, ctx):
        end = "Ok @RET()@"
        # falling off the end of a non-void function is undefined; decided after translation (ret_ty known then)
        term = self.seq([body], ctx, "@END@")
        if "@END@" in term:
            if self.ret_ty is not None:
                term = term.replace("@END@", "UB UNoReturn")
            else:
                term = term.replace("@END@", end)
        return term


def cmt(s):
    """text that is safe inside a Coq comment"""
    return str(s).replace("(*", "( *").replace("*)", "* )")


OPTIONAL_RE = re.compile(r"^(?:const\s+)?frg::optional<(.+)>$")


def paren(s):
    return "(%s)" % s if " " in s and not s.startswith("(") else s


def strip_parens(e):
    while e.get("kind") in ("ParenExpr", "ConstantExpr", "ExprWithCleanups"):
        e = children(e)[0]
    return e


def node_type_str(n):
    t = n.get("type", {})
    return t.get("desugaredQualType") or t.get("qualType", "")


def node_type_kind(n):
    s = node_type_str(n).strip()
    if s.endswith("*") or s.endswith("* const"):
        return "ptr"
    if s.endswith("]"):
        return "arr"
    return "other"


def parse_spec(s):
    sp = {}
    if "#" in s:
        s, ta = s.split("#", 1)
        sp["targs"] = [x for x in ta.split(",")]
    if "@" in s:
        s, sig = s.split("@", 1)
        sp["sig"] = sig
    sp["qual"] = s
    return sp


def main(argv):
    tu, out, specs = None, None, []
    i = 0
    while i < len(argv):
        if argv[i] == "--tu":
            tu = argv[i + 1]; i += 2
        elif argv[i] == "--out":
            out = argv[i + 1]; i += 2
        else:
            specs.append(parse_spec(argv[i])); i += 1
    if tu is None or not specs:
        sys.stderr.write(__doc__)
        return 2
    try:
        text, names = Unit(tu.replace("\\n", "\n")).translate(specs)
    except Unsupported as ex:
        sys.stderr.write("cxx2coq: OUTSIDE THE SUBSET: %s\n" % ex)
        return 2
    if out:
        with open(out, "w") as f:
            f.write(text)
    else:
        sys.stdout.write(text)
    return 0


if __name__ == "__main__":
    sys.exit(main(sys.argv[1:]))
