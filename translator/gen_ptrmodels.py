#!/usr/bin/env python3
"""Regenerates coq/Gen/Ptr_<part>.v: pointer-level Gallina definitions translated from the CURRENT source of
$VERIF_REPO/include/frg by translator/cxx2heap.py (clang JSON AST of a concrete instantiation -> heap-manipulating subset ->
Gallina over the state record / accessors / outcome type of the hand-written pointer-level model, through the binding
coq/PtrGen/Bind_<part>.v).  coq/PtrGen/Tie_<part>.v proves them equal to the hand-written pointer-level models.

usage: gen_ptrmodels.py [part ...]      (default: all parts)
Prints one line per function `ptrgen <part> <function> ok|FAILED <reason>`; exit status = number of failures.
A part with a failing function still gets a file containing the functions that did translate (the tie lemmas of
the missing ones then fail to compile, which is the intended loud failure)."""
import os, re, sys
sys.path.insert(0, os.path.dirname(os.path.abspath(__file__)))
import cxx2heap
from cxx2heap import functor_idiom

ROOT = os.environ.get("PTRGEN_ROOT") or os.path.dirname(os.path.dirname(os.path.abspath(__file__)))
REPO = os.environ.get("VERIF_REPO", "/repo")

PAIRING = dict(
    name="pairing",
    tu=("#include <frg/pairing_heap.hpp>\n#include <frg/intrusive.hpp>\n"
        "struct pg_node { unsigned long prio; frg::pairing_heap_hook<pg_node> hook; };\n"
        "struct pg_cmp { bool operator()(const pg_node *a, const pg_node *b) const; };\n"
        "template struct frg::pairing_heap<pg_node, frg::locate_member<pg_node, frg::pairing_heap_hook<pg_node>, &pg_node::hook>, pg_cmp>;\n"),
    filter="frg::_pairing::pairing_heap", class_name="pairing_heap",
    imports=("From Coq Require Import List NArith Bool.\n"
             "From FV Require Import Pairing.PairingModel Pairing.PairingPtr PtrGen.PtrCtl PtrGen.Bind_pairing.\n"
             "Local Open Scope N_scope."),
    section_vars=[("cmp", "elt -> elt -> bool")],
    state_ty="pstate", pres="pres", ok="POk", bind="bind",
    assert_fail="PAssertStop", null_fail="PNullDeref", fuel_fail="POutOfFuel", unreachable_fail="PNullDeref",
    types={"pg_node *": ("ptr", "option N"), "bool": ("bool", "bool"), "void": ("void", "unit")},
    ptr_types=["ptr"], is_null={"ptr": "is_null"}, eqb={"ptr": "ptr_eqb"},
    hook_fn="h", hook_arrow=False,
    fields={f: dict(rd="rd_" + f, wr="wr_" + f, ty="ptr") for f in ("child", "backlink", "sibling")},
    members={"_root": dict(rd="rd_root", wr="wr_root", ty="ptr")},
    idioms=[functor_idiom("frg::_pairing::compare", "pg_cmp", "call_compare cmp", ["ptr", "ptr"], "bool", reads=["prio"])],
    functions=[("_merge", "g_merge"), ("_collapse", "g_collapse"), ("push", "g_push"), ("pop", "g_pop"), ("remove", "g_remove")],
)

HM = r"frg::hash_map<unsigned long long, long long, hg_hash, hg_alloc>"
HASHMAP = dict(
    name="hashmap",
    # Key / Value are two builtin integer types different from every type the header itself uses (size_t, unsigned int), so
    # that keys, values and sizes are told apart by their C++ type; get<KeyCompatible> is instantiated explicitly
    tu=("#include <frg/hash_map.hpp>\n"
        "struct hg_hash { unsigned long operator()(const unsigned long long &k) const; };\n"
        "struct hg_alloc { void *allocate(size_t); void free(void *); void deallocate(void *, size_t); };\n"
        "template class " + HM + ";\n"
        "template long long *" + HM + "::get<unsigned long long>(const unsigned long long &);\n"),
    filter="frg::hash_map", class_name="hash_map",
    imports=("From Coq Require Import List NArith Arith Bool.\n"
             "From FV Require Import HashMap.HashMapModel HashMap.HashMapPtr PtrGen.PtrCtl PtrGen.Bind_hashmap.\n"
             "Import ListNotations."),
    section_vars=[("hash", "N -> N")],
    state_ty="pstate", pres="pres", ok="POk", bind="bind",
    assert_fail="PAssertStop", null_fail="PNullDeref", fuel_fail="POutOfFuel", unreachable_fail="PUB",
    types={"bool": ("bool", "bool"), "void": ("void", "unit"), "size_t": ("sz", "nat"), "unsigned long": ("sz", "nat"),
           "unsigned int": ("u32", "nat"), "unsigned long long": ("key", "N"), "unsigned long long &": ("key", "N"),
           "long long": ("val", "N"), "long long &&": ("val", "N"), "long long *": ("vptr", "option nat"),
           "optional<long long>": ("oval", "option N")},
    type_rx=[(r"^(const )?" + re.escape(HM) + r"::chain \*( const)?$", "ptr"), (r"^(const )?chain \*$", "ptr"),
             (r"^" + re.escape(HM) + r"::chain \*\*$", "tab"),
             (r"^" + re.escape(HM) + r"::iterator( &)?$", "iter"),
             (r"^const long long &$", "val"), (r"^long long &$", "vref")],
    gallina={"ptr": "option nat", "tab": "tabv", "iter": "iter", "vref": "option nat"},
    ptr_types=["ptr"], is_null={"ptr": "is_null"}, eqb={"ptr": "ptr_eqb", "sz": "Nat.eqb", "key": "N.eqb"},
    fields={}, members={"_size": dict(rd="rd_size", wr="wr_size", ty="sz"), "_capacity": dict(rd="rd_cap", wr="wr_cap", ty="sz"),
                        "_table": dict(rd="rd_table", wr="wr_table", ty="tab")},
    ptr_fields={"next": dict(rd="rd_next", wr="wr_next_s", ty="ptr", of="ptr"), "key": dict(rd="rd_key", ty="key", of="ptr"),
                "val": dict(rd="rd_val", ty="val", of="ptr")},
    arrays={"tab": dict(elem="ptr", get="tab_get", set="tab_set")}, index_types=["sz", "u32"], linear=["tab"],
    binops={("<", "sz", "sz"): ("Nat.ltb", "bool"), (">=", "sz", "sz"): ("sz_ge", "bool"), (">", "sz", "sz"): ("sz_gt", "bool"),
            ("*", "sz", "sz"): ("Nat.mul", "sz")},
    casts={("IntegralCast", "sz", "u32"): "u32n", ("IntegralCast", "u32", "sz"): "", ("IntegralToBoolean", "sz", "bool"): "sz_nonzero"},
    incdec={("++", "sz"): "S", ("--", "sz"): "pred"}, lit_fmt={"sz": "%d%%nat"}, zero={"val": "0%N"},
    classes={"iterator": dict(this_locals=[("bucket", "sz"), ("item", "ptr")], outer="map", self_ty="iter")},
    idioms=[cxx2heap.hashmap_idioms], lvalue_idioms=[cxx2heap.tuple_get_lvalue, cxx2heap.move_lvalue],
    functions=[("rehash", "g_rehash"), ("insert", "g_insert", "void (const unsigned long long &, const long long &)"),
               ("insert", "g_insert_move", "void (const unsigned long long &, long long &&)"),
               ("operator[]", "g_index"), ("get", "g_get"), ("end", "g_end", HM + "::iterator ()"),
               ("find", "g_find", HM + "::iterator (const unsigned long long &)"), ("begin", "g_begin"),
               ("remove", "g_remove"), ("~hash_map", "g_destroy"), ("operator++", "g_incr", None, "iterator")],
)

RBT = "frg::_redblack::tree_struct<rg_node, &rg_node::hook, rg_less, rg_agg>"
RB = dict(
    name="rb",
    tu=("#include <frg/rbtree.hpp>\n"
        "struct rg_node { unsigned long key; frg::rbtree_hook hook; };\n"
        "struct rg_less { bool operator()(const rg_node &a, const rg_node &b) const; };\n"
        "struct rg_agg { static bool aggregate(rg_node *node); template<typename S> static bool check_invariant(S &, rg_node *); };\n"
        "template struct frg::_redblack::tree_crtp_struct<" + RBT + ", rg_node, &rg_node::hook, rg_agg>;\n"),
    filter="frg::_redblack::tree_crtp_struct", class_name="tree_crtp_struct",
    imports=("From Coq Require Import List NArith Bool.\n"
             "From FV Require Import Rb.RbModel Rb.RbPtr PtrGen.PtrCtl PtrGen.Bind_rb.\n"
             "Local Open Scope N_scope."),
    section_vars=[("elt", "Type"), ("annot", "Type"), ("agg", "elt -> option annot -> option annot -> annot"),
                  ("aeqb", "annot -> annot -> bool"), ("ek", "N -> elt")],
    sites=True,
    state_ty="(pstate annot)", pres="pres", ok="POk", bind="pbind",
    assert_fail="PAssert {site}", null_fail="PUB {site}", fuel_fail="POutOfFuel", unreachable_fail="PUB {site}",
    types={"rg_node *": ("ptr", "option N"), "void *": ("ptr", "option N"), "bool": ("bool", "bool"), "void": ("void", "unit"),
           "frg::_redblack::color_type": ("color", "option color")},
    ptr_types=["ptr"], is_null={"ptr": "is_null"}, eqb={"ptr": "oeqb", "color": "ceqb"},
    enum_consts={("color", "red"): "(Some Red)", ("color", "black"): "(Some Black)", ("color", "null"): "None"},
    hook_fn="h", hook_arrow=True,
    fields={"parent": dict(rd="rd_parent", wr="wr_parent", ty="ptr"), "left": dict(rd="rd_left", wr="wr_left", ty="ptr"),
            "right": dict(rd="rd_right", wr="wr_right", ty="ptr"), "predecessor": dict(rd="rd_pred", wr="wr_pred", ty="ptr"),
            "successor": dict(rd="rd_succ", wr="wr_succ", ty="ptr"), "color": dict(rd="rd_color", wr="wr_color", ty="color")},
    members={"_root": dict(rd="rd_root", wr="wr_root", ty="ptr")},
    inline=["get_parent", "get_left", "get_right", "predecessor", "successor", "get_root"],
    idioms=[cxx2heap.static_functor_idiom("rg_agg", "aggregate", "call_aggregate agg aeqb ek", ["ptr"], "bool", kind="rw",
                                          reads=["annot", "f:left", "f:right"], writes=["annot"])],
    functions=[("get_parent", "g_get_parent"), ("get_left", "g_get_left"), ("get_right", "g_get_right"),
               ("predecessor", "g_predecessor"), ("successor", "g_successor"), ("get_root", "g_get_root"),
               ("isRed", "g_isRed"), ("isBlack", "g_isBlack"), ("aggregate_node", "g_aggregate_node"),
               ("aggregate_path", "g_aggregate_path"), ("rotateLeft", "g_rotateLeft"), ("rotateRight", "g_rotateRight"),
               ("fix_insert", "g_fix_insert"), ("insert_root", "g_insert_root"), ("insert_left", "g_insert_left"),
               ("insert_right", "g_insert_right"), ("fix_remove", "g_fix_remove"), ("remove_half_leaf", "g_remove_half_leaf"),
               ("replace_node", "g_replace_node"), ("remove", "g_remove")],
)

PARTS = {"pairing": PAIRING, "hashmap": HASHMAP, "rb": RB}


def gen_part(part):
    p = cxx2heap.Part(PARTS[part], REPO)
    text, res = p.translate()
    out = os.path.join(ROOT, "coq", "Gen", "Ptr_%s.v" % part)
    os.makedirs(os.path.dirname(out), exist_ok=True)
    old = open(out).read() if os.path.exists(out) else None
    if old != text:
        with open(out, "w") as f:
            f.write(text)
    return res


def main(argv):
    parts = argv or list(PARTS)
    bad = 0
    for p in parts:
        if p not in PARTS:
            print("ptrgen %s - FAILED unknown part" % p)
            bad += 1
            continue
        try:
            res = gen_part(p)
        except Exception as ex:
            print("ptrgen %s - FAILED %s: %s" % (p, type(ex).__name__, str(ex).replace("\n", " ")[:800]))
            bad += 1
            continue
        for name, ok, why in res:
            print("ptrgen %s %s %s" % (p, name, "ok" if ok else "FAILED " + why.replace("\n", " ")))
            bad += not ok
    return bad


if __name__ == "__main__":
    sys.exit(main(sys.argv[1:]))
