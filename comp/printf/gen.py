"""Case generator for the printf component (C19 printf part, C20 printf part).

A case is a list of groups separated by the line "next"; each group is one call of printf_format:
    fmt <hex> / arg <kind> <value> ... / (lit|spec ...)* / tag <name>
`spec`/`lit` lines are present only for formats made of directives of the property's grammar with
arguments of the right type: for those the driver also prints the IsoPrintf output and the harness
glibc's, and the harness compares frigg with glibc.

scan_args() is an independent third reading of "which arguments do the directives of this format
name" (neither the model nor frigg): it is what the harness is given as argument list, so a
disagreement shows up as a canary read / type clash, never silently.
"""
import itertools, random

FLAGS = "-+ #0'"
FLAG_TOK = {"-": "-", "+": "+", " ": "s", "#": "#", "0": "0", "'": "q"}
MODS = ["", "hh", "h", "l", "ll", "z", "t", "j"]
INT_CONVS = "diuoxX"
INT_MIN, INT_MAX = -2**31, 2**31 - 1


def hx(b):
    return bytes(b).hex() if len(b) else "-"


# ------------------------------------------------------------------------------------------------
# independent pre-scan: va_arg classes a format names, in fetch order ('i' int, 'l' long,
# 'q' long long, 's' char string, 'w' wide string, 'p' pointer for %p)
# ------------------------------------------------------------------------------------------------
def scan_args(fmt, conflict=None):
    conflict = conflict if conflict is not None else [False]
    s = bytes(fmt) + b"\0"
    out = []            # classes of the variadic arguments in the order of the va_list
    cached = [0]        # how many arguments the positional directives have cached so far
    cache_cls = []

    def fetch(cls, pos, size=None):
        """pos None: the next argument.  pos (0-based): the arguments up to that position, counted from
        where the positional directives started; those not yet cached are taken from the va_list with the
        type of this directive.  For formats that are purely sequential or purely positional this is the
        ISO / POSIX reading; mixing the two is undefined there and is given this meaning here."""
        size = size or {"i": 4, "l": 8, "q": 8, "s": 9, "w": 10, "p": 8}[cls]
        if pos is None:
            out.append(cls)
            return
        while cached[0] <= pos:
            out.append(cls)
            cache_cls.append((size, cls))
            cached[0] += 1
        # the same argument named with two different types by two directives (or fetched on the way to a
        # higher position with another type): no argument list has "the types the directives name"
        # (D33 territory: a wild pointer, or bytes of the cache that were never written)
        if cache_cls[pos] != (size, cls):
            conflict[0] = True

    i = 0
    while s[i] != 0:
        if s[i] != 0x25:
            i += 1
            continue
        i += 1
        if s[i] == 0:
            break
        if s[i] == 0x25:
            i += 1
            continue
        pos = None
        while True:
            c = s[i]
            if 0x30 <= c <= 0x39 and s[i + 1] == 0x24:
                pos = c - 0x30 - 1
                if pos < 0:
                    pos = None
                i += 2
            elif chr(c) in FLAGS:
                i += 1
            else:
                break
            if s[i] == 0:
                return out
        if s[i] == 0x2A:
            i += 1
            if s[i] == 0:
                return out
            fetch("i", pos)
        else:
            while 0x30 <= s[i] <= 0x39:
                i += 1
            if s[i] == 0:
                return out
        if s[i] == 0x2E:
            i += 1
            if s[i] == 0:
                return out
            if s[i] == 0x2A:
                i += 1
                if s[i] == 0:
                    return out
                fetch("i", pos)
            else:
                while 0x30 <= s[i] <= 0x39:
                    i += 1
                if s[i] == 0:
                    return out
        mod = ""
        for m in ("ll", "hh", "l", "h", "z", "t", "j", "L"):
            if s[i:i + len(m)] == m.encode():
                mod = m
                i += len(m)
                break
        if s[i] == 0:
            return out
        c = chr(s[i])
        i += 1
        if c in "diuoxXbB":
            if mod == "L":
                continue
            fetch({"": "i", "hh": "i", "h": "i", "l": "l", "ll": "q", "z": "l", "t": "l", "j": "l"}[mod], pos,
                  {"hh": 1, "h": 2}.get(mod))
        elif c == "c":
            fetch("i", pos, 1)
        elif c == "s":
            fetch("w" if mod == "l" else "s", pos)
        elif c == "p":
            fetch("p", pos)
    return out


def needs_no_arg_asserts(fmt):
    return True


# ------------------------------------------------------------------------------------------------
# directives of the grammar
# ------------------------------------------------------------------------------------------------
def render(pos, flags, width, prec, mod, conv):
    s = "%"
    if pos:
        s += "%d$" % pos
    s += flags
    s += "" if width is None else str(width)
    s += "" if prec is None else ("." if prec == "." else ".*" if prec == "*" else "." + str(prec))
    return (s + mod + conv).encode()


def int_values(conv, mod):
    """(arg kind, arg literal, promoted value for the spec) at the boundaries of the modifier's type"""
    signed = conv in "di"
    if mod in ("", "hh", "h"):
        kind = "i"
        if signed:
            vs = {"": [0, 1, -1, INT_MIN, INT_MAX, 12345, -4242],
                  "hh": [0, 1, -1, -128, 127, 200, -200, 0x1234],
                  "h": [0, 1, -1, -32768, 32767, 40000, -70000]}[mod]
            return [(kind, v, v) for v in vs]
        if mod == "":
            vs = [0, 1, 2**32 - 1, 2**31, 12345, 0xABCDEF]
            return [(kind, v, v) for v in vs]
        vs = {"hh": [0, 1, 255, 256 + 5, -1, 0xAB], "h": [0, 1, 65535, 65536 + 7, -1, 0xABCD]}[mod]
        return [(kind, v, v) for v in vs]
    kind = "q" if mod == "ll" else "l"
    if signed:
        vs = [0, 1, -1, -2**63, 2**63 - 1, 1234567890123, -987654321098]
    else:
        vs = [0, 1, 2**64 - 1, 2**63, 0xDEADBEEFCAFE, 12]
    return [(kind, v, v) for v in vs]


WIDTHS = [None, "0", 1, 5, 20, 70, ("*", 7), ("*", -7)]        # "0" is the flag; kept for the product of the design
PRECS = [None, ".", 0, 1, 5, 70, ("*", 3), ("*", -3)]


def int_group(flags, width, prec, mod, conv, val, pos=None, tag="int"):
    """one group for an integer directive; width/prec may be ("*", n)"""
    args = []
    aw = ap = 0
    wtok, ptok = "_", "_"
    w = width
    if width == "0":
        flags = flags + "0"
        w = None
    if isinstance(w, tuple):
        aw = w[1]; args.append("arg i %d" % aw); w = "*"; wtok = "*"
    elif w is not None:
        wtok = str(w)
    p = prec
    if isinstance(p, tuple):
        ap = p[1]; args.append("arg i %d" % ap); p = "*"; ptok = "*"
    elif p is not None:
        ptok = str(p)
    kind, lit, promoted = val
    args.append("arg %s %d" % (kind, lit))
    fmt = render(pos, flags, w, p, mod, conv)
    ftok = "".join(FLAG_TOK[f] for f in flags) or "_"
    lines = ["fmt " + hx(fmt)] + args
    lines.append("spec %s %s %s %s %s %s %d %d %d -" % (pos or "_", ftok, wtok, ptok, mod or "_", conv, aw, ap, promoted))
    lines.append("tag %s" % tag)
    return lines


def in_grammar_int(flags, conv):
    return not ("#" in flags and conv in "diu")


def random_int_group(rng):
    conv = rng.choice(INT_CONVS)
    while True:
        k = rng.choice([0, 1, 1, 2, 2, 3, 4, 6])
        flags = "".join(rng.sample(FLAGS, k))
        if rng.random() < 0.1 and flags:
            flags += rng.choice(flags)          # a repeated flag
        if in_grammar_int(flags, conv):
            break
    width = rng.choice(WIDTHS + [rng.randrange(1, 40), ("*", rng.randrange(-30, 30)), rng.choice([100, 123, 255, 1001])])
    prec = rng.choice(PRECS + [rng.randrange(0, 40), ("*", rng.randrange(-5, 30)), rng.choice([100, 109, 300, 1010])])
    mod = rng.choice(MODS)
    vals = int_values(conv, mod)
    if rng.random() < 0.3:
        kind = vals[0][0]
        signed = conv in "di"
        if mod in ("", "hh", "h"):
            v = rng.randrange(INT_MIN, INT_MAX + 1) if (signed or mod) else rng.randrange(0, 2**32)
        else:
            v = rng.randrange(-2**63, 2**63) if signed else rng.randrange(0, 2**64)
        val = (kind, v, v)
    else:
        val = rng.choice(vals)
    return int_group(flags, width, prec, mod, conv, val)


def flag_subsets():
    for k in range(len(FLAGS) + 1):
        for c in itertools.combinations(FLAGS, k):
            yield "".join(c)


def product_cases(shard=None):
    """the full product of the design: one case per (flags, width, prec, mod, conv), one group per value"""
    n = 0
    for flags in flag_subsets():
        for conv in INT_CONVS:
            if not in_grammar_int(flags, conv):
                continue
            for width in WIDTHS:
                for prec in PRECS:
                    for mod in MODS:
                        groups = [int_group(flags, width, prec, mod, conv, v, tag="product") for v in int_values(conv, mod)[:6]]
                        yield ("prod-%d" % n, join_groups(groups))
                        n += 1


def join_groups(groups):
    out = []
    for i, g in enumerate(groups):
        if i:
            out.append("next")
        out += g
    return out


# ---- %c %s %p %%
STRINGS = [b"", b"a", b"abc", b"hello world", b"x" * 70]


def chars_groups(rng=None):
    """c / s / p / %% with and without '-', widths, precisions, NUL inside / outside the precision"""
    gs = []
    for flags in ("", "-"):
        for width in (None, 1, 3, 5, 20, ("*", 6), ("*", -6), ("*", 1), ("*", 0)):
            wt, aw, wargs, w = "_", 0, [], width
            if isinstance(width, tuple):
                aw = width[1]; wargs = ["arg i %d" % aw]; w = "*"; wt = "*"
            elif width is not None:
                wt = str(width)
            ft = FLAG_TOK[flags] if flags else "_"
            for ch in (0, 1, 65, 0x7E, 127, 128, 200, 255, 256, 0x141, -1):      # %c: int argument, converted to unsigned char; 0 = the NUL character: one byte
                fmt = render(None, flags, w, None, "", "c")
                gs.append(["fmt " + hx(fmt)] + wargs + ["arg i %d" % ch,
                           "spec _ %s %s _ _ c %d 0 %d -" % (ft, wt, aw, ch), "tag char"])
            for prec in (None, ".", 0, 1, 5, 70, ("*", 4), ("*", -1)):
                pt, ap, pargs, p = "_", 0, [], prec
                if isinstance(prec, tuple):
                    ap = prec[1]; pargs = ["arg i %d" % ap]; p = "*"; pt = "*"
                elif prec is not None:
                    pt = str(prec)
                eff = None if prec is None or (isinstance(prec, tuple) and prec[1] < 0) else (0 if prec == "." else prec[1] if isinstance(prec, tuple) else prec)
                bufs = [s + b"\0" for s in STRINGS] + [b"ab\0cd\0", b"hello\0!!!!\0"]
                if eff is not None:
                    bufs += [b"q" * eff, b"q" * eff + b"rest"[: 2]]       # no NUL inside the precision: exact-size array
                    bufs = [b for b in bufs if b"\0" in b[:eff] or len(b) >= eff]
                for b in bufs:
                    fmt = render(None, flags, w, p, "", "s")
                    gs.append(["fmt " + hx(fmt)] + wargs + pargs + ["arg s " + hx(b),
                               "spec _ %s %s %s _ s %d %d 0 %s" % (ft, wt, pt, aw, ap, hx(b)), "tag string"])
    # positional %n$c, incl. the NUL character
    for ch in (0, 1, 127, 128, 255):
        gs.append(["fmt " + hx(b"%1$c|"), "arg i %d" % ch, "spec 1 _ _ _ _ c 0 0 %d -" % ch, "lit 7c", "tag char-positional"])
        gs.append(["fmt " + hx(b"<%2$-3c%1$3c>"), "arg i 66", "arg i %d" % ch, "lit 3c", "spec 2 - 3 _ _ c 0 0 %d -" % ch,
                   "spec 1 _ 3 _ _ c 0 0 66 -", "lit 3e", "tag char-positional"])
    # %s output with bytes >= 0x80, and arrays with an embedded NUL beyond the precision
    for b, prec in ((b"\x80\xff\xc3\xa9\0", None), (b"\xfe\x80x\0", 2), (b"ab\0cd", 2), (b"abc\0\0z", 3), (b"\x90\0\x91", 1)):
        pt = "_" if prec is None else str(prec)
        gs.append(["fmt " + hx(render(None, "", 6, prec, "", "s")), "arg s " + hx(b), "spec _ _ 6 %s _ s 0 0 0 %s" % (pt, hx(b)), "tag string-bytes"])
        gs.append(["fmt " + hx(render(None, "-", 6, prec, "", "s")), "arg s " + hx(b), "spec _ - 6 %s _ s 0 0 0 %s" % (pt, hx(b)), "tag string-bytes"])
    for v in (1, 0xdeadbeef, 2**64 - 1, 0x7ffc12345678):
        gs.append(["fmt " + hx(b"%p"), "arg p %d" % v, "spec _ _ _ _ _ p 0 0 %d -" % v, "tag pointer"])
    gs.append(["fmt " + hx(b"100%% sure"), "lit " + hx(b"100"), "spec _ _ _ _ _ % 0 0 0 -", "lit " + hx(b" sure"), "tag percent"])
    return gs


# ---- %s / %ls with a precision and an argument that is NOT NUL-terminated: an exact-size block of exactly
# `precision` units (ISO: with a precision the array need not contain a NUL); any read of index `precision`
# (or of index 0 for precision 0: a zero-length / one-past block) is a heap-buffer-overflow under ASan
def strprec_groups(rng=None):
    gs = []
    for n in (0, 1, 2, 3, 7, 8, 16, 33):
        bufs = [bytes((0x41 + i % 26) for i in range(n)),                     # exactly n bytes, no NUL
                bytes((0x61 + i % 26) for i in range(n)) + b"Z",              # n + 1 bytes, no NUL at all
                (b"xy\0" + b"w" * n)[:max(n, 3)] if n >= 3 else None]         # NUL inside the precision
        for b in [x for x in bufs if x is not None]:
            for flags, width in (("", None), ("", n + 4), ("-", n + 4), ("", 1), ("", ("*", n + 2)), ("-", ("*", -(n + 3)))):
                wt, aw, wargs, w = "_", 0, [], width
                if isinstance(width, tuple):
                    aw = width[1]; wargs = ["arg i %d" % aw]; w = "*"; wt = "*"
                elif width is not None:
                    wt = str(width)
                ft = FLAG_TOK[flags] if flags else "_"
                # %.Ns and %.*s, with the ISO reference
                for prec in (n, ("*", n)):
                    pt, ap, pargs, pr = str(n), 0, [], prec
                    if isinstance(prec, tuple):
                        ap = n; pargs = ["arg i %d" % n]; pr = "*"; pt = "*"
                    fmt = render(None, flags, w, pr, "", "s")
                    gs.append(["fmt " + hx(fmt)] + wargs + pargs + ["arg s " + hx(b),
                               "spec _ %s %s %s _ s %d %d 0 %s" % (ft, wt, pt, aw, ap, hx(b)), "tag strprec"])
                if n == 0:
                    fmt = render(None, flags, w, ".", "", "s")
                    gs.append(["fmt " + hx(fmt)] + wargs + ["arg s " + hx(b),
                               "spec _ %s %s . _ s %d 0 0 %s" % (ft, wt, aw, hx(b)), "tag strprec"])
                # %.Nls : wchar_t array of exactly n units (frigg == model only)
                if not isinstance(width, tuple):
                    fmt = render(None, flags, w, n, "l", "s")
                    gs.append(["fmt " + hx(fmt), "arg w " + hx(b), "tag strprec-wide"])
            # positional: the unterminated array is argument 1 resp. 2
            if True:
                gs.append(["fmt " + hx(b"%%1$.%ds|" % n), "arg s " + hx(b), "spec 1 _ _ %d _ s 0 0 0 %s" % (n, hx(b)), "lit 7c", "tag strprec-positional"])
                gs.append(["fmt " + hx(b"%%2$-%d.%ds|%%1$.1s" % (n + 2, n)), "arg s " + hx(b"k"), "arg s " + hx(b),
                           "spec 2 - %d %d _ s 0 0 0 %s" % (n + 2, n, hx(b)), "lit 7c", "spec 1 _ _ 1 _ s 0 0 0 " + hx(b"k"), "tag strprec-positional"])
    return gs


# ---- the ' flag with a caller-supplied locale_options that really groups (print_digits' grouping counters):
# grouping strings and separators in exact-size heap blocks, values with 1..19 digits, precisions that add digits
GROUPINGS = [b"\x03", b"\x03\x02", b"\x01", b"\x02\x03", b"\x03\x03", b"\x01\x02\x03", b"\x04", b"\x03\x7f", b"\x7f", b"\xff"]
SEPARATORS = [b",", b".", b" ", b"", b"\xe2\x80\xaf", b"''"]


def grouping_groups(rng, n_random=300):
    gs = []
    vals = [0, 1, 12, 123, 1234, 12345, 123456, 1234567, 12345678, 123456789, 1234567890, 10**12 + 7, 10**15, 2**63 - 1,
            -1, -1234, -123456, -2**63]
    for g in GROUPINGS:
        for v in vals:
            gs.append(["grp %d 0 1 0 0 %s %s" % (v, hx(g), hx(b",")), "tag grouping"])
    for _ in range(n_random):
        nd = rng.randrange(1, 20)
        v = rng.randrange(10 ** (nd - 1), min(10 ** nd, 2**63)) * rng.choice([1, 1, -1])
        width = rng.choice([0, 0, 5, 12, 30])
        prec = rng.choice([1, 1, 1, 0, 4, 7, 12, 25])
        lj = rng.choice([0, 0, 1])
        zero = rng.choice([0, 0, 1]) if not lj else 0
        gs.append(["grp %d %d %d %d %d %s %s" % (v, width, prec, lj, zero, hx(rng.choice(GROUPINGS)), hx(rng.choice(SEPARATORS))), "tag grouping"])
    return gs


# ---- model-only cases (outside ISO's defined behaviour or frigg extensions): no spec line
def extension_groups():
    gs = []
    for f in (b"%b", b"%#b", b"%#B", b"%08b", b"%.12b", b"%hhb", b"%llb"):
        gs.append(["fmt " + hx(f), "arg %s 172" % scan_args(f)[0], "tag binary"])
    gs.append(["fmt " + hx(b"%s|%5s|%.2s"), "arg n", "arg n", "arg n", "tag nullstr"])
    gs.append(["fmt " + hx(b"%p"), "arg p 0", "tag nullptr"])
    gs.append(["fmt " + hx(b"%ls|%-6ls|%.2ls"), "arg w " + hx(b"wide\0"), "arg w " + hx(b"ab\0"), "arg w " + hx(b"xyz"), "tag wide"])
    for f in (b"%#d", b"%#u", b"%05c", b"%.3c", b"%lc", b"%#s", b"%0s", b"%hs", b"%5p", b"%-p", b"%0p", b"%#p", b"%Ld", b"%Lx", b"%Lu", b"%y", b"%f", b"%e", b"%"):
        a = scan_args(f)
        vals = {"i": "arg i 65", "l": "arg l 65", "q": "arg q 65", "s": "arg s " + hx(b"str\0"), "w": "arg w " + hx(b"w\0"), "p": "arg p 4096"}
        gs.append(["fmt " + hx(f)] + [vals[k] for k in a] + ["tag asserts"])
    return gs


# ---- positional
def positional_groups():
    gs = []
    def spec(pos, conv, val, mod="_", flags="_", width="_", prec="_", s="-"):
        return "spec %d %s %s %s %s %s 0 0 %d %s" % (pos, flags, width, prec, mod, conv, val, s)
    gs.append(["fmt " + hx(b"%2$d %1$d"), "arg i 33", "arg i 55", spec(2, "d", 55), "lit 20", spec(1, "d", 33), "tag positional"])
    gs.append(["fmt " + hx(b"%1$d %2$d %3$d|%3$x %2$o %1$u"), "arg i 7", "arg i 8", "arg i 9",
               spec(1, "d", 7), "lit 20", spec(2, "d", 8), "lit 20", spec(3, "d", 9), "lit 7c", spec(3, "x", 9), "lit 20", spec(2, "o", 8), "lit 20", spec(1, "u", 7), "tag positional"])
    gs.append(["fmt " + hx(b"%1$ld %2$lx"), "arg l -5000000000", "arg l 1311768467463790320",
               spec(1, "d", -5000000000, "l"), "lit 20", spec(2, "x", 1311768467463790320, "l"), "tag positional"])
    gs.append(["fmt " + hx(b"%2$s-%1$s"), "arg s " + hx(b"one\0"), "arg s " + hx(b"two\0"),
               spec(2, "s", 0, s=hx(b"two\0")), "lit 2d", spec(1, "s", 0, s=hx(b"one\0")), "tag positional"])
    gs.append(["fmt " + hx(b"%1$5d|%1$-5d|%1$05d"), "arg i 42", spec(1, "d", 42, width="5"), "lit 7c", spec(1, "d", 42, flags="-", width="5"), "lit 7c",
               spec(1, "d", 42, flags="0", width="5"), "tag positional"])
    gs.append(["fmt " + hx(b"%9$d"), ] + ["arg i %d" % i for i in range(1, 10)] + [spec(9, "d", 9), "tag positional"])
    # D41: a lower position after a higher one, then a higher one again
    gs.append(["fmt " + hx(b"%3$d %1$d %2$d"), "arg i 1", "arg i 2", "arg i 3", spec(3, "d", 3), "lit 20", spec(1, "d", 1), "lit 20", spec(2, "d", 2), "tag positional-reorder"])
    gs.append(["fmt " + hx(b"%2$d %1$d %2$d %1$d"), "arg i 10", "arg i 20", spec(2, "d", 20), "lit 20", spec(1, "d", 10), "lit 20", spec(2, "d", 20), "lit 20", spec(1, "d", 10), "tag positional-reorder"])
    # D33: a skipped argument of another type is fetched with the current directive's type
    gs.append(["fmt " + hx(b"%2$d %1$ld"), "arg l 6000000000", "arg i 7", spec(2, "d", 7), "lit 20", spec(1, "d", 6000000000, "l"), "tag positional-mixed"])
    gs.append(["fmt " + hx(b"%2$hhd %1$lld"), "arg q -6000000001", "arg i 7", spec(2, "d", 7, "hh"), "lit 20", spec(1, "d", -6000000001, "ll"), "tag positional-mixed"])
    return gs


def multi_group(rng):
    """several directives with literal text between them, non-positional"""
    n = rng.randrange(2, 5)
    fmt, args, items = b"", [], []
    for _ in range(n):
        lit = bytes(rng.choice(b"abc xyz:,|\t\n\x80\xff") for _ in range(rng.randrange(0, 4)))
        if lit:
            fmt += lit; items.append("lit " + hx(lit))
        g = random_int_group(rng) if rng.random() < 0.8 else rng.choice(CHARS_SIMPLE)
        fmt += bytes.fromhex(g[0].split()[1])
        args += [l for l in g if l.startswith("arg ")]
        items += [l for l in g if l.startswith("spec ") or l.startswith("lit ")]
    if len(args) > 10:
        return random_int_group(rng)
    return ["fmt " + hx(fmt)] + args + items + ["tag multi"]


CHARS = chars_groups()
CHARS_SIMPLE = [g for g in CHARS if g[-1] in ("tag char", "tag string", "tag string-bytes", "tag pointer")]     # one non-positional directive each

# ------------------------------------------------------------------------------------------------
# malformed stream (C20)
# ------------------------------------------------------------------------------------------------
ALPHABET = b"%$*.-+#0'9lhzjdscx"


def values_for(classes, rng=None):
    out = []
    for i, k in enumerate(classes):
        if k == "i":
            out.append("arg i %d" % ((rng.randrange(-9, 12)) if rng else (3 + i)))
        elif k in "lq":
            out.append("arg %s %d" % (k, (rng.choice([5, -5, 2**40 + 3])) if rng else (2**40 + i)))
        elif k == "s":
            out.append("arg s " + hx(b"str\0" if not rng else rng.choice([b"str\0", b"\0", b"longer one\0"])))
        elif k == "w":
            out.append("arg w " + hx(b"wd\0"))
        else:
            out.append("arg p %d" % (0x1000 + i))
    return out


def raw_group(fmt, rng=None, tag="malformed"):
    conflict = [False]
    classes = scan_args(fmt, conflict)
    if conflict[0]:
        fmt, classes, tag = b"", [], "skipped-type-conflict"
    return ["fmt " + hx(fmt)] + values_for(classes, rng) + ["tag " + tag]


def exhaustive_strings(maxlen, percent_first_from=None):
    """every string over ALPHABET up to maxlen; from length percent_first_from on only those starting with '%'"""
    for n in range(0, maxlen + 1):
        if percent_first_from is not None and n >= percent_first_from:
            for t in itertools.product(ALPHABET, repeat=n - 1):
                yield bytes((0x25,) + t)
        else:
            for t in itertools.product(ALPHABET, repeat=n):
                yield bytes(t)


def mutated(rng):
    base = bytes.fromhex(rng.choice([random_int_group(rng), rng.choice(CHARS), rng.choice(POSITIONAL)])[0].split()[1].replace("-", ""))
    base = base * rng.choice([1, 1, 2]) + rng.choice([b"", b"%d", b" %s", b"%5.3lx"])
    b = bytearray(base)
    for _ in range(rng.randrange(1, 4)):
        r = rng.random()
        pos = rng.randrange(len(b) + 1)
        if r < 0.35 and b:
            del b[min(pos, len(b) - 1)]
        elif r < 0.7:
            b.insert(pos, rng.choice(ALPHABET) if rng.random() < 0.8 else rng.randrange(1, 256))
        elif b:
            b[min(pos, len(b) - 1)] = rng.choice(ALPHABET) if rng.random() < 0.8 else rng.randrange(1, 256)
    if rng.random() < 0.4:
        b = b[:rng.randrange(len(b) + 1)]       # cut off: directive ended by the NUL
    if rng.random() < 0.1 and b:
        b.insert(rng.randrange(len(b)), 0)      # embedded NUL: the C string ends there
    return bytes(b)


def avoid_huge(fmt):
    """formats whose output would be enormous are not run (digit runs of 6+ that do not overflow int)"""
    run = best = 0
    for c in fmt:
        run = run + 1 if 0x30 <= c <= 0x39 else 0
        best = max(best, run)
    return 6 <= best <= 10 and True


POSITIONAL = positional_groups()


def corpus():
    """Minimised past failures; run first (each was a VIOLATION on the unrepaired tree)."""
    cs = []
    def one(name, g):
        cs.append(("corpus-" + name, g))
    v = lambda x: ("i", x, x)
    one("d24-sign-not-counted", int_group("", 5, None, "", "d", v(-12)))
    one("d24-plus-not-counted", int_group("+", 5, None, "", "d", v(12)))
    one("d25-zeros-before-sign", int_group("0", 5, None, "", "d", v(-12)))
    one("d25-zero-flag-with-precision", int_group("0", 5, 3, "", "d", v(7)))
    one("d26-minus-overrides-zero", int_group("-0", 5, None, "", "d", v(12)))
    one("d27-prefix-before-padding", int_group("#", 6, None, "", "x", v(12)))
    one("d27-octal-alt-precision", int_group("#", None, 3, "", "o", v(12)))
    one("d28-prec0-val0-width", int_group("", 5, 0, "", "d", v(0)))
    one("d28-prec0-val0-plus", int_group("+", None, 0, "", "d", v(0)))
    one("d28-prec0-val0-alt-octal", int_group("#", None, 0, "", "o", v(0)))
    one("d29-plus-unsigned", int_group("+", None, None, "", "u", v(12)))
    one("d29-space-hex", int_group(" ", None, None, "", "x", v(12)))
    one("d30-negative-star-width", int_group("", ("*", -5), None, "", "d", v(12)))
    one("d30-negative-star-width-string", ["fmt " + hx(b"%*s|"), "arg i -6", "arg s " + hx(b"ab\0"), "spec _ _ * _ _ s -6 0 0 " + hx(b"ab\0"), "lit 7c", "tag string"])
    one("d31-width-overflow", raw_group(b"%99999999999d"))
    one("d31-precision-overflow", raw_group(b"%.99999999999d"))
    one("d31-width-overflow-by-one", raw_group(b"%2147483648d"))
    one("d40-grouping-flag-default-locale", int_group("'", None, None, "", "d", v(1234567)))
    one("d41-positional-reorder", POSITIONAL[6])
    one("d33-positional-mixed-types", POSITIONAL[8])
    one("intmin-star-width-char", ["fmt " + hx(b"%*c"), "arg i %d" % INT_MIN, "arg i 65", "tag malformed"])
    one("three-digit-width-precision", join_groups([int_group("", 123, None, "", "d", v(-7)), int_group("-", 1005, 120, "l", "x", ("l", 48879, 48879))]))
    one("tests-cpp", join_groups([int_group("-", 3, 2, "", "d", v(1)), int_group("", 3, 2, "", "u", v(12)), int_group("#", None, None, "", "o", v(0)),
                                  int_group("#", None, None, "", "X", v(12))]))
    return cs


def quick_cases(rng, n_dir=6000, n_mal=6000):
    cases = []
    # structured directives, 8 groups per case
    for i in range(n_dir // 8):
        cases.append(("dir-%d" % i, join_groups([random_int_group(rng) for _ in range(8)])))
    prod = list(itertools.islice(product_cases(), 0, None, 97))     # every 97th point of the product
    cases += prod
    for i in range(0, len(CHARS), 8):
        cases.append(("chars-%d" % i, join_groups(CHARS[i:i + 8])))
    cases.append(("ext", join_groups(extension_groups())))
    for i, g in enumerate(POSITIONAL):
        cases.append(("pos-%d" % i, g))
    for i in range(150):
        cases.append(("multi-%d" % i, join_groups([multi_group(rng) for _ in range(4)])))
    # malformed: exhaustive to length 3, sampled beyond, mutations, cut-off prefixes
    ex = [s for s in exhaustive_strings(3)]
    for i in range(0, len(ex), 32):
        cases.append(("mal-ex3-%d" % i, join_groups([raw_group(s) for s in ex[i:i + 32]])))
    smp = []
    for _ in range(n_mal):
        n = rng.choice([4, 5, 5, 6, 6, 7, 9])
        s = bytes([0x25] + [rng.choice(ALPHABET) for _ in range(n - 1)]) if rng.random() < 0.7 else bytes(rng.choice(ALPHABET) for _ in range(n))
        smp.append(s)
    for _ in range(n_mal // 2):
        smp.append(mutated(rng))
    smp = [s for s in smp if not avoid_huge(s)]
    for i in range(0, len(smp), 32):
        cases.append(("mal-smp-%d" % i, join_groups([raw_group(s, rng) for s in smp[i:i + 32]])))
    gg = grouping_groups(rng)
    for i in range(0, len(gg), 16):
        cases.append(("mal-grouping-%d" % i, join_groups(gg[i:i + 16])))
    sp = strprec_groups(rng)
    for i in range(0, len(sp), 16):
        cases.append(("mal-strprec-%d" % i, join_groups(sp[i:i + 16])))
    # every prefix of a few well-formed formats
    for j, f in enumerate([b"%-+ #0'12.34lld|%5$*.*hhx", b"ab%%c%3$-5.2s%.*s%p%ls", b"%1$d%2$*d%%%0$d"]):
        cases.append(("mal-prefix-%d" % j, join_groups([raw_group(f[:k], None, "prefix") for k in range(len(f) + 1)])))
    return cases


def thorough_batches(rng, focus=None):
    """generators of case lists, consumed batch by batch (keeps memory bounded)"""
    def batched(it, size):
        buf = []
        for x in it:
            buf.append(x)
            if len(buf) >= size:
                yield buf; buf = []
        if buf:
            yield buf
    if focus in (None, "C19"):
        yield from batched(product_cases(), 20000)
    def mal():
        grp, n = [], 0
        for s in exhaustive_strings(6, percent_first_from=5):
            if avoid_huge(s):
                continue
            grp.append(raw_group(s))
            if len(grp) == 64:
                yield ("mal-ex-%d" % n, join_groups(grp)); grp = []; n += 1
        if grp:
            yield ("mal-ex-%d" % n, join_groups(grp))
    if focus in (None, "C20"):
        yield from batched(mal(), 4000)
