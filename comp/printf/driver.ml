(* driver for the extracted printf model (coq/Printf/PrintfModel.v) and the ISO spec
   (coq/Printf/IsoPrintf.v): same cases as comp/printf/harness.cpp.
   Case lines:
     fmt <hex>                 format string bytes (no NUL)
     arg i|l|q <decimal>       int / long / long long argument (64-bit two's complement)
     arg p <decimal>           fake pointer value (for %p)
     arg s <hex> | arg w <hex> char / wchar_t buffer with exactly these units
     arg n                     null pointer
     lit <hex>                 ISO item: literal text
     spec <pos> <flags> <width> <prec> <len> <conv> <awidth> <aprec> <aint> <astr>   ISO item: directive
     digits <value> <radix> <caps>      print_digits only
   Output: end <how>, out <hex>, pops <n>, iso <hex> (when lit/spec items are present) *)

let hex_of (l : n list) : Stdlib.String.t =
  Stdlib.String.concat "" (List.map (fun b -> Printf.sprintf "%02x" (Int64.to_int (i64_of_n b) land 255)) l)
let bytes_of_hex (h : Stdlib.String.t) : n list =
  if h = "-" then [] else
  List.init (Stdlib.String.length h / 2) (fun i -> n_of_i64 (Int64.of_string ("0x" ^ Stdlib.String.sub h (2 * i) 2)))

let rec ocaml_of_coq_string (s : Printf_core.string) : Stdlib.String.t = match s with
  | EmptyString -> ""
  | String (Ascii (b0, b1, b2, b3, b4, b5, b6, b7), r) ->
    let v = List.fold_right (fun b a -> 2 * a + (if b then 1 else 0)) [b0; b1; b2; b3; b4; b5; b6; b7] 0 in
    Stdlib.String.make 1 (Char.chr v) ^ ocaml_of_coq_string r

(* 64-bit two's complement of a signed decimal *)
let raw_of_dec (s : Stdlib.String.t) : n =
  if Stdlib.String.length s > 0 && s.[0] = '-' then n_of_i64 (Int64.of_string s) else n_of_string s
let low32 (x : n) : n = n_of_i64 (Int64.logand (i64_of_n x) 0xFFFFFFFFL)

let str_base = 0x700000000000L
let cache0 = List.init 9 (fun _ -> n_of_i64 0xA5A5A5A5A5A5A5A5L)

let flags_of (s : Stdlib.String.t) : flag list =
  if s = "_" then [] else
  List.map (fun c -> match c with
    | '-' -> FMinus | '+' -> FPlus | 's' -> FSpace | '#' -> FHash | '0' -> FZero | 'q' -> FQuote
    | _ -> failwith "flag") (List.init (Stdlib.String.length s) (Stdlib.String.get s))
let len_of = function
  | "_" -> LNone | "hh" -> Lhh | "h" -> Lh | "l" -> Ll | "ll" -> Lll | "z" -> Lz | "t" -> Ltd | "j" -> Lj
  | _ -> failwith "len"
let conv_of = function
  | "d" -> Cd | "i" -> Ci | "u" -> Cu | "o" -> Co | "x" -> Cx | "X" -> CX | "c" -> Cc | "s" -> Cs
  | "p" -> Cp | "%" -> Cpct | _ -> failwith "conv"

let run_group lines =
  let fmt = ref [] and args = ref [] and mem = ref [] and items = ref [] and nstr = ref 0 in
  let kinds = Buffer.create 8 in
  let digits = ref None in
  let grp = ref None in
  List.iter (fun l ->
    match words l with
    | ["fmt"; h] -> fmt := bytes_of_hex h
    | ["arg"; "i"; v] -> args := low32 (raw_of_dec v) :: !args; Buffer.add_char kinds 'i'
    | ["arg"; "l"; v] -> args := raw_of_dec v :: !args; Buffer.add_char kinds 'l'
    | ["arg"; "q"; v] -> args := raw_of_dec v :: !args; Buffer.add_char kinds 'q'
    | ["arg"; "p"; v] -> args := raw_of_dec v :: !args; Buffer.add_char kinds 'p'
    | ["arg"; ("s" | "w"); h] ->
      let a = n_of_i64 (Int64.add str_base (Int64.of_int (256 * !nstr))) in
      incr nstr; mem := (a, bytes_of_hex h) :: !mem; args := a :: !args; Buffer.add_char kinds 'p'
    | ["arg"; "n"] -> args := N0 :: !args; Buffer.add_char kinds 'p'
    | ["lit"; h] -> items := `Lit (bytes_of_hex h) :: !items
    | ["spec"; pos; fl; w; p; ln; cv; aw; ap; ai; astr] ->
      let d = { d_pos = (if pos = "_" then None else Some (n_of_string pos));
                d_flags = flags_of fl;
                d_width = (if w = "_" then WNone else if w = "*" then WStar else WLit (n_of_string w));
                d_prec = (if p = "_" then PNone else if p = "." then PDot else if p = "*" then PStar else PLit (n_of_string p));
                d_len = len_of ln; d_conv = conv_of cv } in
      let v = { a_width = z_of_string aw; a_prec = z_of_string ap; a_int = z_of_string ai; a_str = bytes_of_hex astr } in
      items := `Dir (d, v) :: !items
    | ["digits"; v; r; c] -> digits := Some (n_of_string v, n_of_string r, c = "1")
    | ["grp"; v; w; p; lj; zero; gh; sh] ->
      let sc b = let x = Int64.to_int (i64_of_n b) in z_of_i64 (Int64.of_int (if x >= 128 then x - 256 else x)) in
      let sep = bytes_of_hex sh in
      let loc = { loc_grouping = List.map sc (bytes_of_hex gh); loc_sep = sep;
                  loc_sep_size = Some (n_of_i64 (Int64.of_int (List.length sep))) } in
      grp := Some (z_of_string v, z_of_string w, z_of_string p, lj = "1", zero = "1", loc)
    | _ -> ()) lines;
  match !grp with
  | Some (v, w, p, lj, zero, loc) ->
    (match print_int (n_of_i64 64L) v (n_of_i64 10L) w p (n_of_i64 (if zero then 48L else 32L)) lj true false false false loc [] with
     | Ok o -> print_string ("out " ^ hex_of o ^ "\n")
     | AssertStop _ -> print_string "end assert\n"
     | UB w -> print_string ("end ub " ^ ocaml_of_coq_string w ^ "\n")
     | OutOfFuel -> print_string "end fuel\n")
  | None ->
  match !digits with
  | Some (v, r, c) ->
    (match print_digits v false r Z0 (Zpos XH) (n_of_i64 32L) false false false false c default_locale [] with
     | Ok o -> print_string ("out " ^ hex_of o ^ "\n")
     | AssertStop _ -> print_string "end assert\n"
     | UB w -> print_string ("end ub " ^ ocaml_of_coq_string w ^ "\n")
     | OutOfFuel -> print_string "end fuel\n")
  | None ->
  let (st, o) = run_printf (List.rev !mem) !fmt (List.rev !args) cache0 in
  (match o with
   | Ok _ -> print_string "end ok\n"
   | AssertStop w -> print_string ("end assert " ^ ocaml_of_coq_string w ^ "\n")
   | UB w -> print_string ("end ub " ^ ocaml_of_coq_string w ^ "\n")
   | OutOfFuel -> print_string "end fuel\n");
  print_string ("out " ^ hex_of st.ps_out ^ "\n");
  print_string (Printf.sprintf "pops %d\n" (List.length st.ps_vs.va_pops));
  (* popped va_arg classes, for the generator's typing pre-scan (not part of the comparison) *)
  print_string ("!ORACLE poptypes p=" ^ Stdlib.String.concat "" (List.map (function
    | ATInt -> "i" | ATLong -> "l" | ATLLong -> "q" | ATPtr -> "p") st.ps_vs.va_pops) ^ " s=" ^ Buffer.contents kinds ^ "\n");
  (* what the format names according to coq/Printf/NamedArgs.v (compared with gen.scan_args by the check) *)
  print_string ("!ORACLE named k=" ^ (match named_args !fmt with
    | None -> "none"
    | Some ks -> "[" ^ Stdlib.String.concat "" (List.map (function
        | KInt -> "i" | KLong -> "l" | KLLong -> "q" | KPtr -> "p" | KStr _ -> "s") ks) ^ "]") ^ "\n");
  if !items <> [] then begin
    let its = List.rev !items in
    let rendered = List.concat (List.map (function `Lit b -> b | `Dir (d, _) -> render d) its) in
    if rendered <> !fmt then print_string ("!MODEL-EXN render mismatch: " ^ hex_of rendered ^ "\n");
    List.iter (function `Dir (d, v) ->
        if not (in_grammar d) then print_string "!ORACLE notingrammar\n"
        else if not (fits d v) then print_string "!ORACLE notfits\n"
      | _ -> ()) its;
    let iso = List.concat (List.map (function `Lit b -> b | `Dir (d, v) -> iso_printf d v) its) in
    print_string ("iso " ^ hex_of iso ^ "\n")
  end

let body lines =
  let groups = ref [] and cur = ref [] in
  List.iter (fun l -> if l = "next" then begin groups := List.rev !cur :: !groups; cur := [] end else cur := l :: !cur) lines;
  groups := List.rev !cur :: !groups;
  List.iteri (fun i g -> print_string (Printf.sprintf "grp %d\n" i); run_group g) (List.rev !groups)

let () = run_cases body
