"""printf component (C19 printf part, C20 printf part): builds the extracted model driver and the
harness against /repo's current headers, generates cases, runs legs C and O into the given Check.

run(c, focus): focus "C19" = directives of the property's grammar (frigg == PrintfModel byte for byte,
IsoPrintf == glibc vsnprintf, oracle frigg == glibc); focus "C20" = the malformed stream (every short
string over the syntactically relevant alphabet, mutations, cut-off prefixes; ASan/UBSan, assertion
stops must agree with the model, va_arg fetch count read off the real va_list); None = both."""
import os, re
import vlib
from comp.printf import gen

RULE = ("C19: integer directives = product flags(2^6 subsets) x width{none,0,1,5,20,70,*+,*-} x precision{none,'.',0,1,5,70,.*+,.*-} "
        "x modifier(none,hh,h,l,ll,z,t,j) x conversion(d i u o x X) x boundary values of the modifier's type (sampled in quick, "
        "exhaustive in thorough) + random directives; %c %s (NUL inside / outside the precision, exact-size arrays) %p %%; positional; "
        "multi-directive formats.  C20: every byte string over `% $ * . - + # 0 ' 9 l h z j d s c x` up to length 3 (quick) / "
        "4, and 5-6 starting with % (thorough), sampled longer ones, mutations of valid formats incl. bytes >= 128 and embedded NUL, "
        "every prefix of long formats; format strings in exact-size heap blocks.  non-trivial = distinct "
        "(conversion, flag set, width kind, precision kind, modifier) of a grammar directive, or distinct malformed string that "
        "reaches a directive (contains %)")
TRUSTED = ["extraction: ExtrOcamlBasic only; OCaml 4.13.1; comp/printf/driver.ml (hex/decimal parsing, string addresses)",
           "correspondence harness comp/printf/harness.cpp (g++ -fsanitize=address,undefined): byte-collecting sink, typed "
           "variadic trampolines (<= 4 arguments; one 64-bit slot per argument beyond that), x86-64 SysV va_list layout for the "
           "fetch count, positional cache pre-filled with 0xA5",
           "oracle: glibc vsnprintf on the same format and va_list; comp/printf/gen.py scan_args (which arguments a format names)",
           "modelled, not verified: generic_strlen/strnlen (as a bounded scan), wchar_t -> char narrowing (mod 256), "
           "floating-point conversions are outside the model (agent routes them to the assertion)"]
ASSUMPTIONS = ["LP64: int 32 bits, long = long long = intmax_t = size_t = ptrdiff_t 64 bits, char signed",
               "locale_options is the default-constructed one (thousands_sep \"\", grouping \"\\255\") as in do_printf_ints' default argument",
               "the agent is the one of tests/tests.cpp (c p s -> do_printf_chars, everything else -> do_printf_ints) and never fails",
               "string arguments shorter than 2^31 bytes; arguments have the types the directives name (va_arg type match)"]

# ASan's vsnprintf interceptor checks one byte of a %.0s argument; the glibc leg must not trip over that
SAN = {"ASAN_OPTIONS": vlib.SAN_ENV["ASAN_OPTIONS"] + ":check_printf=0"}
_built = {}


def build(c):
    if "ok" in _built:
        return _built["ok"]
    okm, mlog = vlib.coq_make(["Printf/PrintfExtract.vo"])
    # Coq's [string] is extracted as a type named string; re-bind the name for lib/coqnum.ml.inc
    shim = os.path.join(vlib.BUILD, "extract", "printf_shim.ml")
    os.makedirs(os.path.dirname(shim), exist_ok=True)
    open(shim, "w").write("type nonrec string = string\n")
    okd, drv, dlog = vlib.ocaml_build("printf_m", ["printf_core", "printf_shim"], os.path.join(vlib.ROOT, "comp/printf/driver.ml"))
    okh, har, hlog = vlib.cxx_build("printf_h", os.path.join(vlib.ROOT, "comp/printf/harness.cpp"))
    if not (okm and okd):
        c.broken.append("printf model extraction/driver build failed: " + (mlog[-800:] if not okm else dlog[-800:]))
    if not okh:
        c.broken.append("printf harness does not compile against /repo: " + hlog[-1500:])
    _built["ok"] = (okh, okd, har, drv)
    return _built["ok"]


def _key(cid, lines, ri):
    ks = set()
    for l in lines:
        if l.startswith("spec "):
            t = l.split()
            wk = "lit" if t[3] not in "_*" else t[3]
            pk = "lit" if t[4] not in "_.*" else t[4]
            ks.add((t[6], "".join(sorted(set(t[2]))), wk, pk, t[5], t[1] != "_"))
        elif l.startswith("fmt ") and "25" in l and not any(x.startswith("spec") for x in lines):
            ks.add(l)
    return frozenset(ks) if ks else None


def _count(c, cases):
    for _, ls in cases:
        for l in ls:
            if l.startswith("tag "):
                c.count("printf_" + l[4:])
            elif l.startswith("spec "):
                t = l.split()
                c.count("printf_conv_" + t[6]); c.count("printf_mod_" + t[5])
                if t[3] == "*":
                    c.count("printf_star_width")
                if t[4] == "*":
                    c.count("printf_star_precision")


def _named(c, cases, model):
    """coq/Printf/NamedArgs.v named_args (extracted, printed by the driver) against the generator's independent
    scan_args: a kind conflict in Coq implies one in Python; otherwise Coq's list is a prefix of Python's (Coq stops at
    literal widths that do not fit an int, Python does not) and equal when the run ended ok"""
    kmap = {"i": "i", "l": "l", "q": "q", "s": "s", "w": "s", "p": "p"}
    for cid, lines in cases:
        rm = model.get(cid)
        if not rm:
            continue
        fmts = [bytes.fromhex(l.split()[1].replace("-", "")) for l in lines if l.startswith("fmt ")]
        named = [o.split()[1][2:] for o in rm["oracle"] if o.startswith("named ")]
        ends = [l for l in rm["lines"] if l.startswith("end ")]
        if len(named) != len(fmts):
            continue
        for i, (f, nm) in enumerate(zip(fmts, named)):
            conflict = [False]
            py = "".join(kmap[k] for k in gen.scan_args(f, conflict))
            c.count("printf_named_compared")
            if nm == "none":
                if not conflict[0]:
                    c.mismatch(cid, lines, "named_args(%r) = None but scan_args sees no kind conflict" % f)
                continue
            if conflict[0]:
                continue
            coq = nm[1:-1]
            ok = i < len(ends) and ends[i] == "end ok"
            if not py.startswith(coq) or (ok and py != coq):
                c.mismatch(cid, lines, "named_args(%r) = [%s], scan_args = [%s]" % (f, coq, py))


def _poptypes(c, cases, model):
    """the model's va_arg classes must be the ones the generator supplied (else the harness would have been
    called with arguments of the wrong type); positional-mixed cases are D33 itself"""
    for cid, lines in cases:
        rm = model.get(cid)
        if not rm or "tag positional-mixed" in lines:
            continue
        for o in rm["oracle"]:
            t = o.split()
            if t and t[0] == "poptypes":
                popped, supplied = t[1][2:], t[2][2:]
                popped = popped.replace("q", "l"); supplied = supplied.replace("q", "l")
                n = min(len(popped), len(supplied))
                if popped[:n] != supplied[:n]:
                    c.mismatch(cid, lines, "va_arg classes fetched by the model (%s) differ from the supplied arguments (%s)" % (popped, supplied))
            elif t and t[0] in ("notingrammar", "notfits"):
                c.mismatch(cid, lines, "generator produced a spec line outside in_grammar/fits: " + o)


def _run_batch(c, cases, har, drv, okd):
    _count(c, cases)
    impl = vlib.run_cases(har, cases, timeout=900, env=SAN)
    model = vlib.run_cases(drv, cases, timeout=900) if okd else {}
    c.compare(cases, impl, model, _key)
    _poptypes(c, cases, model)
    _named(c, cases, model)


def _is_c20(cid):
    return cid.startswith("mal-") or cid.startswith("corpus-d31") or cid.startswith("corpus-d41") or cid.startswith("corpus-intmin") or cid.startswith("ext")


def run(c, focus=None):
    okh, okd, har, drv = build(c)
    if not okh:
        return False
    sel = (lambda cid: True) if focus is None else (lambda cid: _is_c20(cid) == (focus == "C20"))
    if c.replay:
        _run_batch(c, vlib.read_replay(c.replay), har, drv, okd)
        return True
    cases = [x for x in gen.corpus() if sel(x[0])]
    if c.tier == "quick":
        cases += [x for x in gen.quick_cases(c.rng, 20000, 20000) if sel(x[0])]
        _run_batch(c, cases, har, drv, okd)
    else:
        cases += [x for x in gen.quick_cases(c.rng, 40000, 60000) if sel(x[0])]
        _run_batch(c, cases, har, drv, okd)
        for batch in gen.thorough_batches(c.rng, focus):
            _run_batch(c, batch, har, drv, okd)
    return True
