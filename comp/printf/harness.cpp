// Harness for frg::printf_format / do_printf_chars / do_printf_ints / print_digits (C19, C20).
// Runs each case on the REAL code with a byte-collecting sink and a real va_list built by typed
// trampolines, prints canonical lines (compared with the extracted Gallina model) and evaluates
// the property without the model: glibc vsnprintf on the same format and the same va_list
// (kind "iso*"), number of va_arg fetches read off the va_list itself against the number of
// arguments the generator supplied (kind "va-overrun"), and the sanitizers.
// Case lines: see comp/printf/driver.ml.
#include <cwchar>
#include <climits>
#include "vharness.hpp"
#include <frg/printf.hpp>

namespace {

struct ByteSink {
	std::string s;
	void append(char c) { s.push_back(c); }
	void append(const char *p) { s += p; }
	void append(const char *p, size_t n) { s.append(p, n); }
};

// caller-supplied locale_options for the grouping cases (nullptr: do_printf_ints' default argument)
frg::locale_options *g_locale = nullptr;

struct Agent {
	ByteSink *sink;
	frg::va_struct *vsp;
	frg::expected<frg::format_error> operator()(char c) { sink->append(c); return frg::success; }
	frg::expected<frg::format_error> operator()(const char *c, size_t n) { sink->append(c, n); return frg::success; }
	frg::expected<frg::format_error> operator()(char t, frg::format_options opts, frg::printf_size_mod szmod) {
		switch(t) {
		case 'c': case 'p': case 's':
			frg::do_printf_chars(*sink, t, opts, szmod, vsp);
			break;
		default:   // integer conversions; anything else ends in do_printf_ints' default case
			if(g_locale) frg::do_printf_ints(*sink, t, opts, szmod, vsp, *g_locale);
			else frg::do_printf_ints(*sink, t, opts, szmod, vsp);
		}
		return frg::success;
	}
};

struct Arg { char kind; int64_t v; void *p; };   // kind: i l p  (q is passed as l)

struct Spec {
	std::string pos, flags, width, prec, len, conv;
	long long aw, ap; std::string ai;
};

struct Ctx {
	const char *fmt = nullptr;     // exact-size heap buffer
	frg::arg *cache = nullptr;     // exact-size heap array, 9 cells
	bool want_glibc = false;
	// results
	bool asserted = false; std::string assert_expr;
	std::string out;
	long pops = 0;
	std::string glibc; bool glibc_ok = false;
};

std::string hex(const std::string &s) {
	static const char *d = "0123456789abcdef";
	std::string r;
	for(unsigned char c : s) { r.push_back(d[c >> 4]); r.push_back(d[c & 15]); }
	return r;
}
std::string esc(const std::string &s) {
	std::string r; char b[8];
	for(unsigned char c : s) { if(c >= 32 && c < 127 && c != '\\') r.push_back(c); else { snprintf(b, sizeof b, "\\x%02x", c); r += b; } }
	return r;
}
std::string unhex(const std::string &h) {
	std::string r;
	if(h == "-") return r;
	for(size_t i = 0; i + 1 < h.size(); i += 2) r.push_back((char)strtoul(h.substr(i, 2).c_str(), nullptr, 16));
	return r;
}

// The one variadic entry point.  All arguments are INTEGER class on x86-64 SysV, so every
// va_arg fetch advances gp_offset or overflow_arg_area by 8: the number of fetches can be read
// off the va_list.
struct VaTag { unsigned gp_offset, fp_offset; char *overflow_arg_area; char *reg_save_area; };   // x86-64 SysV __va_list_tag
static_assert(sizeof(VaTag) == sizeof(va_list), "x86-64 SysV va_list expected");
void tramp(Ctx *ctx, ...) {
	va_list ap;
	va_start(ap, ctx);
	{
		frg::va_struct vs;
		vs.arg_list = ctx->cache;
		va_copy(vs.args, ap);
		VaTag t0; memcpy(&t0, &vs.args[0], sizeof t0);
		ByteSink sink;
		try {
			auto res = frg::printf_format(Agent{&sink, &vs}, ctx->fmt, &vs);
			(void)res;
		} catch(vh::AssertStop &a) {
			ctx->asserted = true;
			auto b = a.where.find("Assertion '"), e = a.where.rfind("' failed!");
			ctx->assert_expr = (b != std::string::npos && e != std::string::npos) ? a.where.substr(b + 11, e - b - 11) : a.where;
		}
		ctx->out = sink.s;
		VaTag t1; memcpy(&t1, &vs.args[0], sizeof t1);
		ctx->pops = (long)(t1.gp_offset - t0.gp_offset) / 8 + (t1.overflow_arg_area - t0.overflow_arg_area) / 8;
		va_end(vs.args);
	}
	if(ctx->want_glibc) {
		va_list ap2;
		va_copy(ap2, ap);
		std::vector<char> buf(1 << 18);
		int n = vsnprintf(buf.data(), buf.size(), ctx->fmt, ap2);
		va_end(ap2);
		if(n >= 0 && (size_t)n < buf.size()) { ctx->glibc.assign(buf.data(), n); ctx->glibc_ok = true; }
	}
	va_end(ap);
}

constexpr long CANARY = 0x5AFEC0DE5AFEC0DEl;

// typed call: builds the pack (int / long / void*) from the runtime kinds
template<typename... Ts>
void call_typed(Ctx *ctx, const std::vector<Arg> &a, size_t i, Ts... vals) {
	if(i == a.size()) { tramp(ctx, vals..., CANARY, CANARY); return; }
	if constexpr (sizeof...(Ts) < 4) {
		switch(a[i].kind) {
		case 'i': call_typed(ctx, a, i + 1, vals..., (int)a[i].v); break;
		case 'l': call_typed(ctx, a, i + 1, vals..., (long)a[i].v); break;
		default: call_typed(ctx, a, i + 1, vals..., a[i].p); break;
		}
	}
}
// more than 4 arguments: one 64-bit slot each (ABI-equivalent on x86-64; ints zero-extended)
void call_slots(Ctx *ctx, const std::vector<Arg> &a) {
	unsigned long s[12];
	for(size_t i = 0; i < 12; i++) {
		if(i >= a.size()) s[i] = (unsigned long)CANARY;
		else if(a[i].kind == 'i') s[i] = (uint32_t)a[i].v;
		else if(a[i].kind == 'l') s[i] = (unsigned long)a[i].v;
		else s[i] = (unsigned long)a[i].p;
	}
	tramp(ctx, s[0], s[1], s[2], s[3], s[4], s[5], s[6], s[7], s[8], s[9], s[10], s[11]);
}

// ---- labels for ISO deviations (syntactic triggers of the defect classes of DESIGN section 5;
// used only to name the kind of an "iso" failure, never to suppress one)
bool hasf(const Spec &s, char f) { return s.flags.find(f) != std::string::npos; }
std::string classify(const std::vector<Spec> &specs, const std::vector<Arg> &args, long pops) {
	// D33: positional directives whose arguments do not all have the same va_arg class
	bool positional = false, mixed = false;
	for(auto &s : specs) if(s.pos != "_") positional = true;
	if(positional) {
		for(auto &a : args) if(a.kind != args[0].kind) mixed = true;
		if(mixed) return "iso-D33";
		if(pops > (long)args.size()) return "iso-D41";   // more fetches than arguments (lower position, then a higher one again)
	}
	for(auto &s : specs) {
		bool isint = std::string("diuoxX").find(s.conv) != std::string::npos;
		bool sgn = s.conv == "d" || s.conv == "i";
		if(s.width == "*" && s.aw < 0) return "iso-D30";
		if(!isint) continue;
		bool zero_val = s.ai == "0";
		bool has_prec = s.prec != "_" && !(s.prec == "*" && s.ap < 0);
		long long p = s.prec == "." ? 0 : s.prec == "*" ? s.ap : s.prec == "_" ? -1 : atoll(s.prec.c_str());
		if(has_prec && p == 0 && zero_val) return "iso-D28";
		if(!sgn && (hasf(s, '+') || hasf(s, 's'))) return "iso-D29";
		if(hasf(s, '#') && !zero_val) return "iso-D27";
		if(hasf(s, '-') && hasf(s, '0')) return "iso-D26";
		if(hasf(s, '0')) return "iso-D25";
		if(sgn) return "iso-D24";
	}
	return "iso";
}

void run_group(const vh::Lines &ls) {
	std::string fmt; bool have_fmt = false;
	std::vector<Arg> args;
	std::vector<void *> owned;
	std::vector<Spec> specs; bool iso_items = false;
	for(auto &l : ls) {
		auto t = vh::split(l);
		if(t.empty()) continue;
		if(t[0] == "fmt" && t.size() == 2) { fmt = unhex(t[1]); have_fmt = true; }
		else if(t[0] == "arg" && t.size() >= 2) {
			char k = t[1][0];
			if(k == 'i') args.push_back({'i', vh::i64(t[2]), nullptr});
			else if(k == 'l' || k == 'q') args.push_back({'l', (int64_t)(t[2][0] == '-' ? vh::i64(t[2]) : (int64_t)vh::u64(t[2])), nullptr});
			else if(k == 'p') args.push_back({'p', 0, (void *)(uintptr_t)vh::u64(t[2])});
			else if(k == 's') {
				std::string b = unhex(t[2]);
				char *blk = (char *)malloc(b.size() ? b.size() : 1);   // exact size: ASan sees any over-read
				memcpy(blk, b.data(), b.size());
				owned.push_back(blk); args.push_back({'p', 0, b.size() ? blk : blk + 1});
			} else if(k == 'w') {
				std::string b = unhex(t[2]);
				wchar_t *p = (wchar_t *)malloc(b.size() ? b.size() * sizeof(wchar_t) : 1);
				for(size_t i = 0; i < b.size(); i++) p[i] = (unsigned char)b[i];
				owned.push_back(p); args.push_back({'p', 0, b.size() ? (void *)p : (void *)((char *)p + 1)});
			} else if(k == 'n') args.push_back({'p', 0, nullptr});
		}
		else if(t[0] == "lit") iso_items = true;
		else if(t[0] == "spec" && t.size() == 11) {
			iso_items = true;
			specs.push_back({t[1], t[2], t[3], t[4], t[5], t[6], atoll(t[7].c_str()), atoll(t[8].c_str()), t[9]});
		}
		else if(t[0] == "grp" && t.size() == 8) {
			// grp <value> <width> <precision> <left_justify> <zero_fill> <grouping hex> <separator hex>:
			// print_int with group_thousands and a caller-supplied locale whose strings live in exact-size heap
			// blocks (an index -1 or past the NUL is a heap-buffer-overflow), directly and through "%'...ld"
			long val = (long)vh::i64(t[1]); int width = atoi(t[2].c_str()), prec = atoi(t[3].c_str());
			bool lj = t[4] == "1", zero = t[5] == "1";
			std::string g = unhex(t[6]), sp = unhex(t[7]);
			char *gb = (char *)malloc(g.size() + 1); memcpy(gb, g.data(), g.size()); gb[g.size()] = 0;
			char *sb = (char *)malloc(sp.size() + 1); memcpy(sb, sp.data(), sp.size()); sb[sp.size()] = 0;
			frg::locale_options loc(".", sb, gb);
			ByteSink direct;
			frg::_fmt_basics::print_int(direct, val, 10, width, prec, zero ? '0' : ' ', lj, true, false, false, false, loc);
			printf("out %s\n", hex(direct.s).c_str());
			// the same conversion through printf_format / do_printf_ints with the locale passed by the agent
			// (the 0 flag is ignored when a precision is given: with zero fill only the default precision is run this way)
			std::string f = "%'";
			if(lj) f += "-";
			if(zero) f += "0";
			if(width > 0) f += std::to_string(width);
			if(prec != 1) f += "." + std::to_string(prec);
			f += "ld";
			if(!(zero && prec != 1)) {
				Ctx ctx; char *fb = (char *)malloc(f.size() + 1); memcpy(fb, f.c_str(), f.size() + 1);
				ctx.fmt = fb; ctx.cache = (frg::arg *)malloc(9 * sizeof(frg::arg)); memset((void *)ctx.cache, 0xA5, 9 * sizeof(frg::arg));
				g_locale = &loc;
				tramp(&ctx, val, CANARY, CANARY);
				g_locale = nullptr;
				if(ctx.asserted || ctx.out != direct.s || ctx.pops != 1)
					vh::oracle("grouping-path", "fmt=\"%s\" value %ld with grouping %s sep \"%s\": directive prints \"%s\" (%ld fetches%s), print_int \"%s\"",
					           f.c_str(), val, t[6].c_str(), esc(sp).c_str(), esc(ctx.out).c_str(), ctx.pops, ctx.asserted ? ", assertion" : "", esc(direct.s).c_str());
				free(fb); free((void *)ctx.cache);
			}
			free(gb); free(sb);
			return;
		}
		else if(t[0] == "digits" && t.size() == 4) {
			uint64_t v = vh::u64(t[1]); int radix = atoi(t[2].c_str()); bool caps = t[3] == "1";
			ByteSink sink;
			frg::_fmt_basics::print_digits(sink, v, false, radix, 0, 1, ' ', false, false, false, false, caps, frg::locale_options{});
			printf("out %s\n", hex(sink.s).c_str());
			// independent positional representation
			std::string want; uint64_t x = v;
			do { int d = (int)(x % radix); want.insert(want.begin(), (char)(d < 10 ? '0' + d : (caps ? 'A' : 'a') + d - 10)); x /= radix; } while(x);
			if(want != sink.s) vh::oracle("digits", "print_digits(%llu, radix %d) = \"%s\", expected \"%s\"", (unsigned long long)v, radix, sink.s.c_str(), want.c_str());
			return;
		}
	}
	if(!have_fmt) return;
	Ctx ctx;
	char *f = (char *)malloc(fmt.size() + 1);
	memcpy(f, fmt.data(), fmt.size()); f[fmt.size()] = 0;
	ctx.fmt = f;
	ctx.cache = (frg::arg *)malloc(9 * sizeof(frg::arg));
	memset((void *)ctx.cache, 0xA5, 9 * sizeof(frg::arg));
	ctx.want_glibc = iso_items;
	if(args.size() <= 4) call_typed(&ctx, args, 0);
	else call_slots(&ctx, args);

	if(ctx.asserted) printf("end assert %s\n", ctx.assert_expr.c_str()); else printf("end ok\n");
	printf("out %s\n", hex(ctx.out).c_str());
	printf("pops %ld\n", ctx.pops);
	if(iso_items) {
		printf("iso %s\n", ctx.glibc_ok ? hex(ctx.glibc).c_str() : "?");
		std::string cls = classify(specs, args, ctx.pops);
		if(ctx.asserted)
			vh::oracle(cls.c_str(), "fmt=\"%s\": stopped in FRG_ASSERT(%s) on a directive of the grammar; glibc prints \"%s\"", esc(fmt).c_str(), ctx.assert_expr.c_str(), esc(ctx.glibc).c_str());
		else if(ctx.glibc_ok && ctx.glibc != ctx.out)
			vh::oracle(cls.c_str(), "fmt=\"%s\": frigg \"%s\" (%zu bytes), ISO C / glibc \"%s\" (%zu bytes)", esc(fmt).c_str(), esc(ctx.out).c_str(), ctx.out.size(), esc(ctx.glibc).c_str(), ctx.glibc.size());
	}
	if(ctx.pops > (long)args.size())
		vh::oracle("va-overrun", "fmt=\"%s\": %ld va_arg fetches, but the directives name only %zu arguments (canary read)", esc(fmt).c_str(), ctx.pops, args.size());
	free(f); free((void *)ctx.cache);
	for(void *p : owned) free(p);
}

void body(const vh::Lines &ls) {
	vh::Lines cur; int k = 0;
	for(size_t i = 0; i <= ls.size(); i++) {
		if(i == ls.size() || ls[i] == "next") { printf("grp %d\n", k++); run_group(cur); cur.clear(); }
		else cur.push_back(ls[i]);
	}
}

} // namespace

int main() { return vh::run(body); }
