// Harness for frg::pairing_heap: runs op scripts on the real code over a pool of nodes, prints after
// every operation top()/empty(), all three hook fields of EVERY pool node (compared with the
// extracted Gallina model's layout function) and the log of calls to the user's Compare made during
// the operation (compared with the calls the model makes to its cmp), and evaluates the property with an oracle that does
// not use the model: a std::multiset reference and a walker over the real pointers.
//   line 1: "pool <n> cmp <kind>"; ops: "p <id> <prio>" push, "o" pop, "r <id>" remove.
// RAW mode (line 1: "pool <n> cmp <kind> raw"; compared with the POINTER-LEVEL model only, no oracle): the script
// works on the bare hook memory, so that the private _merge/_collapse can be run on detached sub-heaps and their
// result compared in isolation (intermediate states of pop/remove):
//   "P <id> <prio>" store a priority, "w <id> <c|b|s> <id|->" raw write of one hook field, "R <id|->" set _root,
//   "m <a> <b>" call _merge(a, b) -> "m<ret>", "k <id|->" call _collapse(head) -> "k<ret>", p/o/r as above.
#include <memory>
#include <set>
#include <vector>
#include "vharness.hpp"
#include <frg/intrusive.hpp>
#include <frg/pairing_heap.hpp>

struct PNode {
	uint64_t prio = 0;
	int id = 0;
	frg::pairing_heap_hook<PNode> hook;
};

static int g_kind = 0;
static bool lower(uint64_t pa, int ia, uint64_t pb, int ib) {
	switch(g_kind) {
	case 0: return pa < pb;                         // std::less on the priority: max-heap
	case 1: return pa > pb;                         // min-heap
	case 2: return pa / 4 < pb / 4;                 // coarse classes: distinct priorities that tie
	case 3: return pa < pb || (pa == pb && ia < ib);// strict total order
	default: return false;                          // everything ties
	}
}
// every call the library makes to the user's Compare, in order: (id of first argument, id of second)
static std::vector<std::pair<int, int>> g_cmplog;
struct Cmp {
	bool operator()(const PNode *a, const PNode *b) const {
		g_cmplog.push_back({a->id, b->id});
		return lower(a->prio, a->id, b->prio, b->id);
	}
};
using Heap = frg::pairing_heap<PNode, frg::locate_member<PNode, frg::pairing_heap_hook<PNode>, &PNode::hook>, Cmp>;
using Ref = std::multiset<std::pair<uint64_t, int>>;

struct World {
	int n;
	std::unique_ptr<PNode[]> pool;
	Heap hp;
	Ref ref;                  // reference content
	std::vector<char> in;     // in[id]: id is contained according to the reference
	explicit World(int n_) : n(n_), pool(new PNode[n_ > 0 ? n_ : 1]), in(n_, 0) {
		for(int i = 0; i < n; i++) pool[i].id = i;
	}
	bool inside(const PNode *p) const { return p >= pool.get() && p < pool.get() + n; }
	// make the destructors' FRG_ASSERTs pass whatever state an aborted case left behind
	void wipe() {
		for(int i = 0; i < n; i++) pool[i].hook.child = pool[i].hook.backlink = pool[i].hook.sibling = nullptr;
		hp._root = nullptr;
	}
};

static std::string nm(const World &w, const PNode *p) {
	if(!p) return "-";
	if(!w.inside(p)) return "WILD";
	return std::to_string(p->id);
}

static void print_state(World &w, const char *res) {
	printf("%s t=%s e=%d ", res, nm(w, w.hp.top()).c_str(), w.hp.empty() ? 1 : 0);
	for(int i = 0; i < w.n; i++) {
		auto &k = w.pool[i].hook;
		printf("|%s,%s,%s", nm(w, k.child).c_str(), nm(w, k.backlink).c_str(), nm(w, k.sibling).c_str());
	}
	printf(" c=");
	for(auto &c : g_cmplog) printf("%d<%d,", c.first, c.second);
	printf("\n");
}

// ---- the oracle: property evaluated on the real object, independent of the model
static void check_top(World &w, const char *when) {
	PNode *t = w.hp.top();
	if(w.hp.empty() != w.ref.empty())
		vh::oracle("empty", "%s: empty() = %d but the reference holds %zu element(s)", when, (int)w.hp.empty(), w.ref.size());
	if(w.ref.empty()) {
		if(t) vh::oracle("top-max", "%s: top() is non-null on an empty heap", when);
		return;
	}
	if(!t) { vh::oracle("top-max", "%s: top() is null but the reference holds %zu element(s)", when, w.ref.size()); return; }
	if(!w.inside(t) || !w.in[t->id]) { vh::oracle("top-max", "%s: top() is not a contained element", when); return; }
	for(auto &e : w.ref)
		if(lower(t->prio, t->id, e.first, e.second)) {
			vh::oracle("top-max", "%s: top() = node %d (prio %llu) is ordered below contained node %d (prio %llu)", when,
				t->id, (unsigned long long)t->prio, e.second, (unsigned long long)e.first);
			return;
		}
}

static void walk(World &w, const char *when) {
	std::vector<char> seen(w.n, 0);
	PNode *root = w.hp._root;
	std::vector<PNode *> st;
	if(root) {
		if(!w.inside(root)) { vh::oracle("links", "%s: _root points outside the node pool", when); return; }
		if(root->hook.backlink || root->hook.sibling)
			vh::oracle("links", "%s: root node %d has backlink %s / sibling %s", when, root->id,
				nm(w, root->hook.backlink).c_str(), nm(w, root->hook.sibling).c_str());
		st.push_back(root);
	}
	while(!st.empty()) {
		PNode *p = st.back(); st.pop_back();
		if(seen[p->id]) { vh::oracle("links", "%s: node %d is reachable twice (cycle or shared child)", when, p->id); return; }
		seen[p->id] = 1;
		PNode *prev = p; int steps = 0;
		for(PNode *c = p->hook.child; c; c = c->hook.sibling) {
			if(!w.inside(c)) { vh::oracle("links", "%s: a child/sibling link under node %d points outside the pool", when, p->id); return; }
			if(++steps > w.n) { vh::oracle("links", "%s: sibling chain under node %d does not end", when, p->id); return; }
			if(c->hook.backlink != prev)
				vh::oracle("links", "%s: node %d has backlink %s, expected %d (%s)", when, c->id, nm(w, c->hook.backlink).c_str(),
					prev->id, prev == p ? "its parent" : "its previous sibling");
			if(lower(p->prio, p->id, c->prio, c->id))
				vh::oracle("heap-order", "%s: parent %d (prio %llu) is ordered below its child %d (prio %llu)", when,
					p->id, (unsigned long long)p->prio, c->id, (unsigned long long)c->prio);
			st.push_back(c); prev = c;
		}
	}
	for(int i = 0; i < w.n; i++) {
		if(seen[i] && !w.in[i]) vh::oracle("multiset", "%s: node %d is still linked in the heap but was taken out (or never pushed)", when, i);
		if(!seen[i] && w.in[i]) vh::oracle("multiset", "%s: contained node %d is no longer reachable from the root", when, i);
		auto &k = w.pool[i].hook;
		if(!w.in[i] && (k.child || k.backlink || k.sibling))
			vh::oracle("hook-reset", "%s: node %d is not contained but its hook is (%s,%s,%s)", when, i,
				nm(w, k.child).c_str(), nm(w, k.backlink).c_str(), nm(w, k.sibling).c_str());
	}
}

// ---- raw mode: no reference, no oracle; every FRG_ASSERT is a legitimate outcome (the pointer-level model must stop too)
static bool raw_ptr(World &w, const std::string &s, PNode *&out) {
	if(s == "-") { out = nullptr; return true; }
	int i = atoi(s.c_str());
	if(i < 0 || i >= w.n) return false;
	out = &w.pool[i]; return true;
}

static void body_raw(World &w, const vh::Lines &ls) {
	try {
		for(size_t i = 1; i < ls.size(); i++) {
			auto t = vh::split(ls[i]);
			if(t.empty()) continue;
			g_cmplog.clear();
			std::string res = "u";
			PNode *a = nullptr, *b = nullptr;
			if(t[0] == "p" && t.size() == 3) {
				if(!raw_ptr(w, t[1], a) || !a) continue;
				// push of the sole contained element: nothing asserts, _merge(x, x) -- not executed (as in the normal mode)
				if(w.hp._root == a && !a->hook.child && !a->hook.backlink && !a->hook.sibling) { printf("ub\n"); w.wipe(); return; }
				a->prio = vh::u64(t[2]);
				w.hp.push(a);
			} else if(t[0] == "o" && t.size() == 1) {
				w.hp.pop();
			} else if(t[0] == "r" && t.size() == 2) {
				if(!raw_ptr(w, t[1], a) || !a) continue;
				w.hp.remove(a);
			} else if(t[0] == "P" && t.size() == 3) {
				if(!raw_ptr(w, t[1], a) || !a) continue;
				a->prio = vh::u64(t[2]);
			} else if(t[0] == "w" && t.size() == 4) {
				if(!raw_ptr(w, t[1], a) || !a || !raw_ptr(w, t[3], b)) continue;
				if(t[2] == "c") a->hook.child = b;
				else if(t[2] == "b") a->hook.backlink = b;
				else if(t[2] == "s") a->hook.sibling = b;
				else continue;
			} else if(t[0] == "R" && t.size() == 2) {
				if(!raw_ptr(w, t[1], a)) continue;
				w.hp._root = a;
			} else if(t[0] == "m" && t.size() == 3) {
				if(!raw_ptr(w, t[1], a) || !a || !raw_ptr(w, t[2], b) || !b || a == b) continue;
				res = "m" + nm(w, w.hp._merge(a, b));
			} else if(t[0] == "k" && t.size() == 2) {
				if(!raw_ptr(w, t[1], a)) continue;
				res = "k" + nm(w, w.hp._collapse(a));
			} else continue;
			print_state(w, res.c_str());
		}
	} catch(vh::AssertStop &) {
		printf("assert\n");
	}
	w.wipe();
}

static void body(const vh::Lines &ls) {
	if(ls.empty()) return;
	auto t0 = vh::split(ls[0]);
	int n = 0;
	bool raw = false;
	if((t0.size() == 4 || t0.size() == 5) && t0[0] == "pool") { n = atoi(t0[1].c_str()); g_kind = atoi(t0[3].c_str()); raw = t0.size() == 5 && t0[4] == "raw"; }
	World w(n);
	if(raw) { body_raw(w, ls); return; }
	bool expect_assert = false;
	char when[64] = "start";
	try {
		for(size_t i = 1; i < ls.size(); i++) {
			auto t = vh::split(ls[i]);
			snprintf(when, sizeof when, "op %zu (%s)", i, ls[i].c_str());
			expect_assert = false;
			g_cmplog.clear();
			if(t[0] == "p") {
				int id = atoi(t[1].c_str());
				if(id < 0 || id >= n) continue;
				PNode *e = &w.pool[id];
				if(w.in[id]) {
					// caller error. Sole element: all hook fields are null, nothing asserts, _merge(x, x) would make
					// the node its own child -- not executed (the model says UB here).
					if(w.ref.size() == 1) { printf("ub\n"); w.wipe(); return; }
					expect_assert = true;
				} else e->prio = vh::u64(t[2]);
				w.hp.push(e);
				if(!w.in[id]) { w.ref.insert({e->prio, id}); w.in[id] = 1; }
			} else if(t[0] == "o") {
				if(w.ref.empty()) expect_assert = true;
				PNode *tp = w.hp.top();
				w.hp.pop();
				// pop must take out exactly the element top() returned
				if(tp && w.inside(tp) && w.in[tp->id]) { w.ref.erase(w.ref.find({tp->prio, tp->id})); w.in[tp->id] = 0; }
			} else if(t[0] == "r") {
				int id = atoi(t[1].c_str());
				if(id < 0 || id >= n) continue;
				if(!w.in[id]) expect_assert = true;
				w.hp.remove(&w.pool[id]);
				if(w.in[id]) { w.ref.erase(w.ref.find({w.pool[id].prio, id})); w.in[id] = 0; }
			} else continue;
			if(expect_assert) { /* the model stops with "assert" here; falling through shows up in the comparison */ }
			print_state(w, "u");
			check_top(w, when);
			walk(w, when);
		}
		// drain (oracle only): every pop must deliver a maximum of what is left, and leave consistent links
		int guard = 0;
		while(!w.hp.empty() && guard++ <= n) {
			snprintf(when, sizeof when, "final drain pop %d", guard);
			PNode *tp = w.hp.top();
			check_top(w, when);
			w.hp.pop();
			if(tp && w.inside(tp) && w.in[tp->id]) { w.ref.erase(w.ref.find({tp->prio, tp->id})); w.in[tp->id] = 0; }
			walk(w, when);
		}
		check_top(w, "after final drain");
		if(!w.ref.empty()) vh::oracle("multiset", "after final drain: %zu element(s) were never delivered by pop", w.ref.size());
	} catch(vh::AssertStop &a) {
		printf("assert\n");
		if(!expect_assert) vh::oracle("assert", "%s: FRG_ASSERT fired on an operation whose precondition holds: %s", when, a.where.c_str());
	}
	w.wipe();
}

int main() { return vh::run(body); }
