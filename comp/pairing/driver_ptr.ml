(* driver for the extracted POINTER-LEVEL pairing-heap model (coq/Pairing/PairingPtr.v): same scripts and
   same canonical lines as comp/pairing/harness.cpp / comp/pairing/driver.ml.
   line 1: "pool <n> cmp <kind>" or "pool <n> cmp <kind> raw".
   ops: "p <id> <prio>" push, "o" pop, "r <id>" remove; raw mode only: "P <id> <prio>" store a priority,
   "w <id> <c|b|s> <id|->" raw write of one hook field, "R <id|->" set _root, "m <a> <b>" p_merge,
   "k <id|->" p_collapse.
   After every op: "<u|m<ret>|k<ret>> t=<root|-> e=<0|1> |child,backlink,sibling| ... c=<a<b,...>"; "assert" /
   "ub" end the case; "fuel" / "nullderef" would be printed for the two outcomes the refinement theorem excludes.
   Fuel for every loop: pool + 1.
   The model's memory is a total function N -> hook built from point updates; after every op the driver
   re-tabulates it over the pool ids (an extensionally equal function for ids < pool, which are the only ids a
   script can name) so that look-ups stay O(1). *)
let cmplog = Buffer.create 256
let cmp_of kind : elt -> elt -> bool = fun (pa, ia) (pb, ib) ->
  Buffer.add_string cmplog (string_of_n ia ^ "<" ^ string_of_n ib ^ ",");
  let pa = i64_of_n pa and pb = i64_of_n pb and ia = i64_of_n ia and ib = i64_of_n ib in
  match kind with
  | 0 -> Int64.compare pa pb < 0
  | 1 -> Int64.compare pa pb > 0
  | 2 -> Int64.compare (Int64.div pa 4L) (Int64.div pb 4L) < 0
  | 3 -> Int64.compare pa pb < 0 || (Int64.equal pa pb && Int64.compare ia ib < 0)
  | _ -> false

let show_o = function None -> "-" | Some i -> string_of_n i
let ids pool = Array.init pool (fun i -> n_of_i64 (Int64.of_int i))

let tabulate pool (idv : n array) (s : pstate) : pstate =
  let hk = Array.map s.p_hooks idv and pv = Array.map s.p_prio idv in
  let ix i = let k = Int64.to_int (i64_of_n i) in if k >= 0 && k < pool then Some k else None in
  { p_hooks = (fun i -> match ix i with Some k -> hk.(k) | None -> s.p_hooks i);
    p_prio = (fun i -> match ix i with Some k -> pv.(k) | None -> s.p_prio i);
    p_root = s.p_root }

let state_line idv (s : pstate) =
  let b = Buffer.create 256 in
  Buffer.add_string b (" t=" ^ show_o s.p_root);
  Buffer.add_string b (match s.p_root with None -> " e=1 " | Some _ -> " e=0 ");
  Array.iter (fun i ->
    let k = s.p_hooks i in
    Buffer.add_string b ("|" ^ show_o k.h_child ^ "," ^ show_o k.h_backlink ^ "," ^ show_o k.h_sibling)) idv;
  Buffer.add_string b (" c=" ^ Buffer.contents cmplog);
  Buffer.contents b

let body lines =
  match lines with
  | [] -> ()
  | l0 :: ops ->
    let pool, kind, raw = match words l0 with
      | ["pool"; n; "cmp"; k] -> (int_of_string n, int_of_string k, false)
      | ["pool"; n; "cmp"; k; "raw"] -> (int_of_string n, int_of_string k, true)
      | _ -> (0, 0, false) in
    let cmp = cmp_of kind in
    let idv = ids pool in
    let fuel = nat_of_int (pool + 1) in
    let s = ref (tabulate pool idv p_init) in
    let inpool i = let k = Int64.to_int (i64_of_n i) in k >= 0 && k < pool in
    let ptr w = if w = "-" then Some None else
        let i = n_of_string w in if inpool i then Some (Some i) else None in
    let node w = match ptr w with Some (Some i) -> Some i | _ -> None in
    let hooks_null i = let k = !s.p_hooks i in k.h_child = None && k.h_backlink = None && k.h_sibling = None in
    (* result of one op: Some (tag, outcome) or None = line skipped (as the harness skips it) *)
    let finish tag (r : pstate pres) = match r with
      | POk s' -> s := tabulate pool idv s'; print_string (tag ^ state_line idv !s ^ "\n")
      | PAssertStop -> print_string "assert\n"; raise Exit
      | PNullDeref -> print_string "nullderef\n"; raise Exit
      | POutOfFuel -> print_string "fuel\n"; raise Exit in
    let with_hooks f = { p_hooks = f; p_prio = !s.p_prio; p_root = !s.p_root } in
    (try List.iter (fun l ->
      Buffer.clear cmplog;
      match words l with
      | ["p"; i; p] ->
        (match node i with None -> () | Some id ->
          (* push of the sole contained element: not executed by the harness *)
          if !s.p_root = Some id && hooks_null id then (print_string "ub\n"; raise Exit);
          finish "u" (p_step cmp fuel !s (Push (n_of_string p, id))))
      | ["o"] -> finish "u" (p_step cmp fuel !s Pop)
      | ["r"; i] -> (match node i with None -> () | Some id -> finish "u" (p_step cmp fuel !s (Remove id)))
      | ["P"; i; p] when raw ->
        (match node i with None -> () | Some id ->
          finish "u" (POk { !s with p_prio = upd !s.p_prio id (n_of_string p) }))
      | ["w"; i; fld; v] when raw ->
        (match node i, ptr v with
         | Some id, Some v ->
           (match fld with
            | "c" -> finish "u" (POk (with_hooks (set_child !s.p_hooks id v)))
            | "b" -> finish "u" (POk (with_hooks (set_backlink !s.p_hooks id v)))
            | "s" -> finish "u" (POk (with_hooks (set_sibling !s.p_hooks id v)))
            | _ -> ())
         | _ -> ())
      | ["R"; v] when raw ->
        (match ptr v with Some v -> finish "u" (POk { !s with p_root = v }) | None -> ())
      | ["m"; a; b] when raw ->
        (match node a, node b with
         | Some a, Some b when a <> b ->
           (match p_merge cmp !s.p_prio !s.p_hooks a b with
            | POk (f, r) -> finish ("m" ^ string_of_n r) (POk (with_hooks f))
            | PAssertStop -> finish "" PAssertStop | PNullDeref -> finish "" PNullDeref | POutOfFuel -> finish "" POutOfFuel)
         | _ -> ())
      | ["k"; a] when raw ->
        (match ptr a with
         | Some hd ->
           (match p_collapse cmp !s.p_prio fuel !s.p_hooks hd with
            | POk (f, r) -> finish ("k" ^ string_of_n r) (POk (with_hooks f))
            | PAssertStop -> finish "" PAssertStop | PNullDeref -> finish "" PNullDeref | POutOfFuel -> finish "" POutOfFuel)
         | None -> ())
      | _ -> ()) ops
    with Exit -> ())

let () = run_cases body
