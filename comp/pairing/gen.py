"""Script generator for frg::pairing_heap (C08).

Script: line 1 "pool <n> cmp <kind>", then "p <id> <prio>" (push), "o" (pop), "r <id>" (remove).
Aimed at the case splits of _collapse/remove: odd/even number of children under the popped/removed
node, removal target chosen by its ROLE in the current structure (root, first child with/without
siblings, middle sibling, last sibling; leaf or inner), priorities with many ties / ascending /
descending, five comparators.  To aim by role the generator keeps its own small simulation of the
pointer structure (Sim below); it is used for aiming only -- nothing is checked against it, and
the role histogram in the evidence is computed by check.py from the REAL harness output.
"""
import itertools
import random

CMP_KINDS = 5

def lower(kind, a, b):
    (pa, ia), (pb, ib) = a, b
    if kind == 0: return pa < pb
    if kind == 1: return pa > pb
    if kind == 2: return pa // 4 < pb // 4
    if kind == 3: return pa < pb or (pa == pb and ia < ib)
    return False

class Sim:
    """aiming aid: child/backlink/sibling per id, transliterated from pairing_heap.hpp"""
    def __init__(self, kind):
        self.kind = kind
        self.root = None
        self.c, self.b, self.s, self.prio = {}, {}, {}, {}
    def members(self):
        return list(self.prio.keys())
    def _cmp(self, a, b):
        return lower(self.kind, (self.prio[a], a), (self.prio[b], b))
    def _merge(self, a, b):
        if self._cmp(a, b):
            a, b = b, a      # the loser (now b) becomes the first child of the winner (now a)
        sib = self.c[a]
        if sib is not None: self.b[sib] = b
        self.s[b] = sib; self.b[b] = a; self.c[a] = b
        return a
    def _collapse(self, head):
        paired = []
        e = head
        while e is not None and self.s[e] is not None:
            p = self.s[e]; nxt = self.s[p]
            self.b[e] = self.s[e] = self.b[p] = self.s[p] = None
            paired.append(self._merge(e, p))
            e = nxt
        if e is not None:
            self.b[e] = None; joined = e
        else:
            joined = paired.pop()
        while paired:
            joined = self._merge(joined, paired.pop())
        return joined
    def push(self, i, prio):
        self.c[i] = self.b[i] = self.s[i] = None; self.prio[i] = prio
        self.root = i if self.root is None else self._merge(self.root, i)
    def _drop(self, i):
        del self.c[i], self.b[i], self.s[i], self.prio[i]
    def pop(self):
        r = self.root; ch = self.c[r]
        if ch is not None:
            self.b[ch] = None; self.root = self._collapse(ch)
        else:
            self.root = None
        self._drop(r)
    def remove(self, i):
        if self.root == i:
            return self.pop()
        pred, sib, ch = self.b[i], self.s[i], self.c[i]
        if self.c[pred] == i: self.c[pred] = sib
        else: self.s[pred] = sib
        if sib is not None: self.b[sib] = pred
        if ch is not None:
            self.b[ch] = None
            self.root = self._merge(self.root, self._collapse(ch))
        self._drop(i)
    def nchildren(self, i):
        n, c = 0, self.c[i]
        while c is not None:
            n += 1; c = self.s[c]
        return n
    def role(self, i):
        if self.root == i: return "root"
        first = self.c[self.b[i]] == i
        has_next = self.s[i] is not None
        return {(True, True): "first-child", (True, False): "only-child",
                (False, True): "middle-sibling", (False, False): "last-sibling"}[(first, has_next)]

ROLES = ["root", "first-child", "only-child", "middle-sibling", "last-sibling"]

def gen_case(rng, n_ops, kind=None, pool=None, prio_mode=None):
    kind = rng.choice([0, 0, 0, 1, 2, 3, 4]) if kind is None else kind
    pool = pool or rng.choice([4, 8, 16, 32, 48])
    prio_mode = prio_mode or rng.choice(["ties", "ties", "few", "asc", "desc", "random", "zigzag"])
    lines = ["pool %d cmp %d" % (pool, kind)]
    sim = Sim(kind)
    ctr = [0]
    def prio():
        ctr[0] += 1
        if prio_mode == "ties": return rng.randrange(3)
        if prio_mode == "few": return rng.randrange(8)
        if prio_mode == "asc": return ctr[0] if rng.random() < 0.9 else ctr[0] - 1
        if prio_mode == "desc": return 100000 - ctr[0] + (1 if rng.random() < 0.1 else 0)
        if prio_mode == "zigzag": return (ctr[0] % 2) * 1000 + ctr[0]
        return rng.randrange(1000)
    phase = rng.choice(["grow", "mixed", "churn"])
    for _ in range(n_ops):
        mem = sim.members()
        free = [i for i in range(pool) if i not in sim.prio]
        w = {"grow": [0.8, 0.07, 0.13], "mixed": [0.56, 0.14, 0.3], "churn": [0.48, 0.2, 0.32], "drain": [0.1, 0.4, 0.5]}[phase]
        o = rng.choices(["p", "o", "r"], w)[0]
        if o == "p" and not free: o = rng.choice(["o", "r"])
        if o != "p" and not mem: o = "p"
        if o == "p":
            # re-push a recently removed node now and then: lowest ids are reused first
            i = free[0] if rng.random() < 0.5 else rng.choice(free)
            p = prio(); sim.push(i, p); lines.append("p %d %d" % (i, p))
        elif o == "o":
            sim.pop(); lines.append("o")
        else:
            # choose the role first, then the parity / leafness, then a node that has them
            by_role = {}
            for i in mem:
                by_role.setdefault(sim.role(i), []).append(i)
            rs = sorted(by_role)
            role = rng.choices(rs, [1 if r == "root" else 4 for r in rs])[0]
            cands = by_role[role]
            want = rng.choice(["leaf", "odd", "even", "any"])
            def ok(i):
                n = sim.nchildren(i)
                return {"leaf": n == 0, "odd": n % 2 == 1, "even": n > 0 and n % 2 == 0, "any": True}[want]
            good = [i for i in cands if ok(i)] or cands
            i = rng.choice(good)
            sim.remove(i); lines.append("r %d" % i)
        if rng.random() < 0.04:
            phase = rng.choice(["grow", "mixed", "churn", "drain"])
    # caller errors stop the case (FRG_ASSERT), so at most one and only as the last op
    if rng.random() < 0.06:
        mem = sim.members()
        free = [i for i in range(pool) if i not in sim.prio]
        e = rng.choice(["pop-empty", "remove-absent", "push-present"])
        if e == "pop-empty" and not mem: lines.append("o")
        elif e == "remove-absent" and free: lines.append("r %d" % rng.choice(free))
        elif e == "push-present" and len(mem) >= 2: lines.append("p %d 5" % rng.choice(mem))
    return lines

def corpus():
    """Hand-made scripts hitting each path once (no past failures: no defect known in pairing_heap.hpp)."""
    cs = []
    def mk(name, pool, kind, ops):
        cs.append((name, ["pool %d cmp %d" % (pool, kind)] + ops))
    mk("corpus-empty", 2, 0, [])
    mk("corpus-single", 2, 0, ["p 0 5", "o", "p 0 7", "r 0", "p 0 1", "p 1 1", "o", "o"])
    mk("corpus-pop-empty", 2, 0, ["o"])
    mk("corpus-remove-absent", 3, 0, ["p 0 5", "p 1 4", "r 2"])
    mk("corpus-remove-from-empty", 3, 0, ["r 2"])
    mk("corpus-push-present-root", 3, 0, ["p 0 5", "p 1 4", "p 0 9"])
    mk("corpus-push-present-leaf", 3, 0, ["p 0 5", "p 1 4", "p 1 9"])
    mk("corpus-push-sole-element", 3, 0, ["p 0 5", "p 0 5"])
    # descending pushes under a max-heap: the root collects k children; pop collapses k (odd/even) of them
    for k in range(1, 9):
        mk("corpus-desc-%d" % k, 10, 0, ["p 0 100"] + ["p %d %d" % (i, 100 - i) for i in range(1, k + 1)] + ["o", "o"])
        mk("corpus-ties-%d" % k, 10, 0, ["p %d 7" % i for i in range(k + 1)] + ["o", "o", "o"])
        mk("corpus-allties-%d" % k, 10, 4, ["p %d %d" % (i, i) for i in range(k + 1)] + ["o", "o"])
    # ascending: a left spine
    mk("corpus-asc", 8, 0, ["p %d %d" % (i, i) for i in range(8)] + ["r 3", "r 0", "o", "p 3 9", "o"])
    # remove by role under root 0 with children 5,4,3,2,1 (each pushed child goes to the front)
    base = ["p 0 100"] + ["p %d %d" % (i, 50 + i) for i in range(1, 6)]
    mk("corpus-rm-first-child", 8, 0, base + ["r 5", "p 5 1", "o"])
    mk("corpus-rm-middle", 8, 0, base + ["r 3", "p 3 200", "o"])
    mk("corpus-rm-last", 8, 0, base + ["r 1", "p 1 60", "o", "o"])
    mk("corpus-rm-root", 8, 0, base + ["r 0", "p 0 1", "o"])
    # remove an inner node with odd / even number of children (min-heap comparator as well)
    for kind in (0, 1, 3):
        sgn = (lambda p: p) if kind != 1 else (lambda p: 1000 - p)
        pre = ["p %d %d" % (i, sgn(50 - i)) for i in range(1, 6)]           # 1 is top with children 5..2
        mk("corpus-rm-inner-even-k%d" % kind, 8, kind, ["p 0 %d" % sgn(100)] + pre + ["r 1", "o", "o"])
        mk("corpus-rm-inner-odd-k%d" % kind, 8, kind, ["p 0 %d" % sgn(100)] + pre[:-1] + ["r 1", "o", "o"])
        mk("corpus-rm-only-child-k%d" % kind, 8, kind, ["p 0 %d" % sgn(100), "p 1 %d" % sgn(5), "r 1", "p 1 %d" % sgn(500), "o"])
    return cs

def exhaustive_small(max_len, max_elems=6, prios=(1, 2), kind=0, tag="ex"):
    """All valid op sequences of exactly max_len ops (shorter ones are prefixes: the state is compared
    after every op) with at most max_elems live elements: push of the lowest free id with each
    priority, pop, remove of every contained id.  Thorough tier."""
    out = []
    pool = max_elems
    def rec2(seq, ops):
        sim = Sim(kind)
        for o in ops:
            if o[0] == "p": sim.push(o[1], o[2])
            elif o[0] == "o": sim.pop()
            else: sim.remove(o[1])
        if len(seq) == max_len:
            out.append(("%s-k%d-%d" % (tag, kind, len(out)), ["pool %d cmp %d" % (pool, kind)] + seq))
            return
        live = sim.members()
        if len(live) < max_elems:
            i = min(set(range(pool)) - set(live))
            for p in prios:
                rec2(seq + ["p %d %d" % (i, p)], ops + [("p", i, p)])
        if live:
            rec2(seq + ["o"], ops + [("o",)])
            for i in sorted(live):
                if i != sim.root:          # remove(root) is pop()
                    rec2(seq + ["r %d" % i], ops + [("r", i)])
    rec2([], [])
    return out


# ---------------------------------------------------------------------------------------------
# RAW scripts (pointer-level model only): the private _merge/_collapse run on detached sub-heaps,
# pop/remove taken apart into their single assignments ("w" raw writes) so that the state BETWEEN
# the unlink, the collapse and the final merge is dumped and compared.
# ---------------------------------------------------------------------------------------------
class RawSim:
    """aiming aid for raw scripts: the bare hook memory of the whole pool + _root; nothing is checked against it"""
    def __init__(self, kind, pool):
        self.kind, self.n, self.root = kind, pool, None
        self.c, self.b, self.s, self.prio = [None] * pool, [None] * pool, [None] * pool, [0] * pool
        self.heap = set()      # nodes reachable from _root
        self.det = {}          # root of a detached tree -> set of its nodes
    def free(self):
        used = set(self.heap)
        for v in self.det.values(): used |= v
        return [i for i in range(self.n) if i not in used]
    def _cmp(self, a, b):
        return lower(self.kind, (self.prio[a], a), (self.prio[b], b))
    _merge = Sim._merge
    _collapse = Sim._collapse
    def subtree(self, i):
        out, st = set(), [i]
        while st:
            x = st.pop(); out.add(x)
            ch = self.c[x]
            while ch is not None:
                st.append(ch); ch = self.s[ch]
        return out
    def nchildren(self, i):
        n, ch = 0, self.c[i]
        while ch is not None:
            n += 1; ch = self.s[ch]
        return n

def gen_raw_case(rng, n_ops, kind=None, pool=None):
    kind = rng.choice([0, 0, 1, 2, 3, 4]) if kind is None else kind
    pool = pool or rng.choice([6, 10, 16, 24, 32])
    lines = ["pool %d cmp %d raw" % (pool, kind)]
    sim = RawSim(kind, pool)
    mode = rng.choice(["ties", "few", "asc", "desc", "random"])
    ctr = [0]
    def prio():
        ctr[0] += 1
        return {"ties": rng.randrange(3), "few": rng.randrange(8), "asc": ctr[0], "desc": 100000 - ctr[0],
                "random": rng.randrange(1000)}[mode]
    def P(i):
        p = prio(); sim.prio[i] = p; lines.append("P %d %d" % (i, p))
    def w(i, fld, v):
        getattr(sim, fld)[i] = v
        lines.append("w %d %s %s" % (i, fld, "-" if v is None else v))
    def R(v):
        sim.root = v; lines.append("R %s" % ("-" if v is None else v))
    def m(a, b):
        lines.append("m %d %d" % (a, b)); return sim._merge(a, b)
    def k(a):
        lines.append("k %d" % a); return sim._collapse(a)
    def absorb(t):
        """merge the detached tree t into the heap"""
        nodes = sim.det.pop(t)
        R(m(sim.root, t) if sim.root is not None else t)
        sim.heap |= nodes
    for _ in range(n_ops):
        free = sim.free()
        acts = []
        if free: acts += ["push", "push", "single"]
        if len(free) >= 2: acts += ["merge-fresh"]
        if len(sim.det) >= 2: acts += ["merge-det", "chain", "chain"]
        if sim.det: acts += ["absorb", "chain1"]
        if sim.root is not None: acts += ["pop", "manual-pop", "manual-pop"]
        inner = [i for i in sim.heap if i != sim.root]
        if inner: acts += ["remove", "manual-remove", "manual-remove", "detach"]
        a = rng.choice(acts)
        if a == "push":
            i = rng.choice(free); p = prio(); sim.prio[i] = p
            lines.append("p %d %d" % (i, p))
            sim.root = i if sim.root is None else sim._merge(sim.root, i)
            sim.heap.add(i)
        elif a == "single":
            # now and then a whole forest of singletons, so that long chains can be linked
            for i in rng.sample(free, min(len(free), rng.choice([1, 1, 1, 3, 5, 7]))):
                P(i); sim.det[i] = {i}
        elif a == "merge-fresh":
            x, y = rng.sample(free, 2); P(x); P(y)
            sim.det[m(x, y)] = {x, y}
        elif a == "merge-det":
            x, y = rng.sample(sorted(sim.det), 2)
            nodes = sim.det.pop(x) | sim.det.pop(y)
            sim.det[m(x, y)] = nodes
        elif a in ("chain", "chain1"):
            # link some detached trees into a sibling chain by raw writes and collapse it
            ts = sorted(sim.det)
            rng.shuffle(ts)
            ts = ts[:1] if a == "chain1" else ts[:rng.randrange(2, len(ts) + 1)]
            for x, y in zip(ts, ts[1:]):
                w(x, "s", y); w(y, "b", x)
            if rng.random() < 0.4:      # a stale backlink in the head is overwritten by _collapse
                w(ts[0], "b", rng.randrange(pool))
            nodes = set()
            for x in ts: nodes |= sim.det.pop(x)
            sim.det[k(ts[0])] = nodes
        elif a == "absorb":
            absorb(rng.choice(sorted(sim.det)))
        elif a == "pop":
            r = sim.root; lines.append("o")
            ch = sim.c[r]; sim.c[r] = None
            if ch is not None:
                sim.b[ch] = None; sim.root = sim._collapse(ch)
            else:
                sim.root = None
            sim.heap.discard(r)
        elif a == "manual-pop":
            # pop() taken apart: the state after the detach and after _collapse is dumped
            r = sim.root; ch = sim.c[r]
            if ch is not None:
                w(r, "c", None); w(ch, "b", None); R(k(ch))
            else:
                R(None)
            sim.heap.discard(r)
        elif a == "remove":
            e = rng.choice(sorted(inner)); lines.append("r %d" % e)
            pd, sb, ch = sim.b[e], sim.s[e], sim.c[e]
            if sim.c[pd] == e: sim.c[pd] = sb
            else: sim.s[pd] = sb
            if sb is not None: sim.b[sb] = pd
            if ch is not None:
                sim.b[ch] = None; sim.root = sim._merge(sim.root, sim._collapse(ch))
            sim.b[e] = sim.s[e] = sim.c[e] = None
            sim.heap.discard(e)
        elif a in ("manual-remove", "detach"):
            # remove() taken apart: unlink through the backlink by raw writes ...
            want = rng.choice(["odd", "even", "any"])
            good = [i for i in inner if (want == "any" or (sim.nchildren(i) > 0 and sim.nchildren(i) % 2 == (want == "odd")))] or inner
            e = rng.choice(sorted(good))
            pd, sb, ch = sim.b[e], sim.s[e], sim.c[e]
            w(pd, "c" if sim.c[pd] == e else "s", sb)
            if sb is not None: w(sb, "b", pd)
            if a == "detach":
                # ... and keep the node with its whole subtree as a detached tree
                w(e, "b", None); w(e, "s", None)
                nodes = sim.subtree(e); sim.heap -= nodes; sim.det[e] = nodes
            else:
                # ... then _collapse of the children and _merge into the root as two separate, dumped calls
                if ch is not None:
                    w(ch, "b", None); t = k(ch); R(m(sim.root, t))
                w(e, "b", None); w(e, "s", None); w(e, "c", None)
                sim.heap.discard(e)
    # an FRG_ASSERT as the last op now and then: both sides must stop
    if rng.random() < 0.15:
        inner = [i for i in sim.heap if i != sim.root]
        e = rng.choice(["merge-nonroot", "collapse-null", "collapse-broken-backlink", "merge-linked", "merge-bad-child",
                        "pop-root-linked", "pop-bad-child", "remove-bad-pred", "remove-bad-child"])
        withch = [i for i in inner if sim.c[i] is not None]
        if e == "merge-nonroot" and inner and sim.root is not None: lines.append("m %d %d" % (sim.root, rng.choice(sorted(inner))))
        elif e == "collapse-null": lines.append("k -")
        elif e == "collapse-broken-backlink" and len(sim.det) >= 2:
            x, y = rng.sample(sorted(sim.det), 2); lines += ["w %d s %d" % (x, y), "k %d" % x]
        elif e == "merge-linked" and len(sim.det) >= 2:
            x, y = rng.sample(sorted(sim.det), 2); lines += ["w %d s %d" % (x, y), "m %d %d" % (x, y)]
        elif e == "merge-bad-child" and len(sim.free()) >= 4:
            # two fresh two-node trees; both roots get a child whose backlink does not point to its parent:
            # whichever wins the final _merge, its FRG_ASSERT(h(sibling).backlink == ...) must stop
            a1, b1, a2, b2 = rng.sample(sim.free(), 4)
            for i in (a1, b1, a2, b2): P(i)
            x = m(a1, b1); y = m(a2, b2)
            lines += ["w %d b %d" % (sim.c[x], y), "w %d b %d" % (sim.c[y], x), "m %d %d" % (x, y)]
        elif e == "pop-root-linked" and inner:
            lines += ["w %d s %d" % (sim.root, rng.choice(sorted(inner))), "o"]
        elif e == "pop-bad-child" and len(inner) >= 2:
            ch = sim.c[sim.root]
            lines += ["w %d b %d" % (ch, rng.choice(sorted(i for i in inner if i != ch))), "o"]
        elif e == "remove-bad-pred" and len(sim.heap) >= 3:
            x = rng.choice(sorted(inner))
            others = [i for i in sim.heap if i != x and i != sim.b[x]]
            if others: lines += ["w %d b %d" % (x, rng.choice(sorted(others))), "r %d" % x]
        elif e == "remove-bad-child" and withch:
            x = rng.choice(sorted(withch))
            others = [i for i in sim.heap if i != x]
            lines += ["w %d b %d" % (sim.c[x], rng.choice(sorted(others))), "r %d" % x]
    return lines

def raw_corpus():
    """hand-made raw scripts: _collapse on chains of 1..9 detached singletons / two-node trees, stale head backlink"""
    cs = []
    for kind in (0, 4):
        for n in range(1, 10):
            ops = ["P %d %d" % (i, (i * 7) % 5) for i in range(n)]
            for i in range(n - 1):
                ops += ["w %d s %d" % (i, i + 1), "w %d b %d" % (i + 1, i)]
            cs.append(("raw-collapse-%d-k%d" % (n, kind), ["pool 12 cmp %d raw" % kind] + ops + ["k 0", "R 0", "o"]))
            cs.append(("raw-collapse-stale-%d-k%d" % (n, kind), ["pool 12 cmp %d raw" % kind] + ops + ["w 0 b 11", "k 0"]))
    cs.append(("raw-merge-chain", ["pool 8 cmp 0 raw", "P 0 5", "P 1 3", "P 2 5", "P 3 9", "m 0 1", "m 2 3", "m 0 3", "R 3", "o", "o"]))
    cs.append(("raw-merge-assert", ["pool 8 cmp 0 raw", "P 0 5", "P 1 3", "m 0 1", "m 0 1"]))
    cs.append(("raw-collapse-null", ["pool 4 cmp 0 raw", "k -"]))
    # every reachable FRG_ASSERT of _merge/_collapse/pop/remove pinned by a script that must stop exactly there
    two = ["P 0 5", "P 1 3", "m 0 1", "P 2 9", "P 3 1", "m 2 3"]          # trees 0(child 1) and 2(child 3)
    cs.append(("raw-assert-merge-child-1st", ["pool 6 cmp 0 raw"] + two + ["w 1 b 2", "w 3 b 0", "m 0 2"]))
    cs.append(("raw-assert-merge-child-2nd", ["pool 6 cmp 0 raw"] + two + ["w 1 b 2", "w 3 b 0", "m 2 0"]))
    cs.append(("raw-assert-merge-a-sibling", ["pool 6 cmp 0 raw"] + two + ["w 0 s 2", "m 0 2"]))
    cs.append(("raw-assert-merge-b-backlink", ["pool 6 cmp 0 raw"] + two + ["w 2 b 0", "m 0 2"]))
    cs.append(("raw-assert-collapse-partner", ["pool 6 cmp 0 raw"] + two + ["w 0 s 2", "k 0"]))
    cs.append(("raw-assert-pop-root-linked", ["pool 6 cmp 0 raw", "p 0 5", "p 1 3", "p 2 4", "w 0 s 1", "o"]))
    cs.append(("raw-assert-pop-child", ["pool 6 cmp 0 raw", "p 0 5", "p 1 3", "p 2 4", "w 2 b 1", "o"]))
    cs.append(("raw-assert-remove-pred", ["pool 6 cmp 0 raw", "p 0 5", "p 1 3", "p 2 4", "p 3 1", "w 2 b 1", "r 2"]))
    cs.append(("raw-assert-remove-child", ["pool 6 cmp 0 raw", "p 0 9", "p 1 3", "p 2 5", "o", "p 3 8", "w 1 b 3", "r 2"]))
    cs.append(("raw-assert-push-child", ["pool 6 cmp 0 raw", "p 0 5", "p 1 3", "R -", "p 0 7"]))
    cs.append(("raw-assert-push-backlink", ["pool 6 cmp 0 raw", "p 0 5", "p 1 3", "p 1 7"]))
    return cs

def raw_exhaustive_collapse(max_k, prios=(1, 2), kind=0, two_level=False):
    """_collapse on every chain of 1..max_k detached trees with every assignment of the given priorities;
    two_level: every second tree is a two-node tree built with _merge first."""
    out = []
    for k in range(1, max_k + 1):
        for ps in itertools.product(prios, repeat=k):
            ops, roots, nxt = [], [], k
            for i, p in enumerate(ps):
                ops.append("P %d %d" % (i, p))
            sim = RawSim(kind, 2 * k + 1)
            for i, p in enumerate(ps): sim.prio[i] = p
            for i in range(k):
                if two_level and i % 2 == 1:
                    ops += ["P %d %d" % (nxt, prios[0]), "m %d %d" % (i, nxt)]
                    sim.prio[nxt] = prios[0]
                    roots.append(sim._merge(i, nxt)); nxt += 1
                else:
                    roots.append(i)
            for a, b in zip(roots, roots[1:]):
                ops += ["w %d s %d" % (a, b), "w %d b %d" % (b, a)]
            out.append(("rawex%s-k%d-%d" % ("2" if two_level else "", kind, len(out)),
                        ["pool %d cmp %d raw" % (2 * k + 1, kind)] + ops + ["k %d" % roots[0]]))
    return out
