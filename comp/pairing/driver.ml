(* driver for the extracted pairing-heap model: same scripts as comp/pairing/harness.cpp.
   line 1: "pool <n> cmp <kind>"; ops: "p <id> <prio>" push, "o" pop, "r <id>" remove.
   After every op: "<u|assert|ub> t=<top id|-> e=<0|1> |child,backlink,sibling| ... (one group per pool id)
   c=<a<b,...>" where c lists the calls cmp a b the model made during the op, in order. *)
let cmplog = Buffer.create 256   (* calls the model makes to cmp during the current op *)
let cmp_of kind : elt -> elt -> bool = fun (pa, ia) (pb, ib) ->
  Buffer.add_string cmplog (string_of_n ia ^ "<" ^ string_of_n ib ^ ",");
  let pa = i64_of_n pa and pb = i64_of_n pb and ia = i64_of_n ia and ib = i64_of_n ib in
  match kind with
  | 0 -> Int64.compare pa pb < 0
  | 1 -> Int64.compare pa pb > 0
  | 2 -> Int64.compare (Int64.div pa 4L) (Int64.div pb 4L) < 0
  | 3 -> Int64.compare pa pb < 0 || (Int64.equal pa pb && Int64.compare ia ib < 0)
  | _ -> false

let show_o = function None -> "-" | Some i -> string_of_n i

let state_line pool h =
  let b = Buffer.create 256 in
  Buffer.add_string b (" t=" ^ (match top h with None -> "-" | Some (_, i) -> string_of_n i));
  Buffer.add_string b (if empty h then " e=1 " else " e=0 ");
  for i = 0 to pool - 1 do
    let k = layout h (n_of_i64 (Int64.of_int i)) in
    Buffer.add_string b ("|" ^ show_o k.h_child ^ "," ^ show_o k.h_backlink ^ "," ^ show_o k.h_sibling)
  done;
  Buffer.add_string b (" c=" ^ Buffer.contents cmplog);
  Buffer.contents b

let body lines =
  match lines with
  | [] -> ()
  | l0 :: ops ->
    let pool, kind = match words l0 with
      | ["pool"; n; "cmp"; k] -> (int_of_string n, int_of_string k)
      | _ -> (0, 0) in
    let cmp = cmp_of kind in
    let h = ref None in
    (* the harness keeps the priority of a contained node when a script pushes it again *)
    let prio_of id dflt = match List.find_opt (fun (_, i) -> i = id) (helems !h) with Some (p, _) -> p | None -> dflt in
    (try List.iter (fun l ->
      let o = match words l with
        | ["p"; i; p] -> let id = n_of_string i in Some (Push (prio_of id (n_of_string p), id))
        | ["o"] -> Some Pop
        | ["r"; i] -> Some (Remove (n_of_string i))
        | _ -> None in
      match o with
      | None -> ()
      | Some o ->
        Buffer.clear cmplog;
        (match step cmp !h o with
         | Ok h' -> h := h'; print_string ("u" ^ state_line pool h' ^ "\n")
         | AssertStop -> print_string "assert\n"; raise Exit
         | UB -> print_string "ub\n"; raise Exit)) ops
    with Exit -> ())

let () = run_cases body
