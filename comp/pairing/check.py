"""pairing_heap component: builds model driver + harness, generates cases, runs legs C and O into the given Check.
Used by checks/c08.py."""
import os
import random
import vlib
from comp.pairing import gen

RULE = ("seeded push/pop/remove scripts over node pools of 4..48 nodes, 5 comparators (less, greater, coarse classes, "
        "strict total, all-tie) and 7 priority patterns (many ties, few values, ascending, descending, zigzag, random); "
        "removal targets chosen by role (root, first child, only child, middle sibling, last sibling) and by number of "
        "children (0/odd/even); compared after EVERY op: top(), empty(), child/backlink/sibling of EVERY pool node and the sequence of "
        "Compare(a,b) calls made during the op; "
        "non-trivial = distinct script in which the real heap performed a remove of a non-root node that had children "
        "and a pop/remove that collapsed >= 3 children (role/child-count histogram taken from the real hook dumps). "
        "POINTER-LEVEL model (coq/Pairing/PairingPtr.v, proved to refine the functional model): the same scripts, the same lines "
        "(top, empty, every hook field, Compare call log) compared with the real code after every op, plus RAW scripts that "
        "work on the bare hook memory: the private _merge/_collapse called directly on detached trees / hand-linked sibling "
        "chains (also with a stale head backlink), pop/remove taken apart into single raw field writes so that the state "
        "between unlink, _collapse and the final _merge is dumped and compared; raw non-trivial = distinct raw script with "
        ">= 1 direct _collapse call over a chain of >= 3 trees and >= 1 direct _merge call")
TRUSTED = ["extraction: ExtrOcamlBasic only; OCaml 4.13.1; comp/pairing/driver.ml (comparators re-implemented in OCaml)",
           "correspondence harness comp/pairing/harness.cpp (g++ -fsanitize=address,undefined, -fno-access-control)",
           "oracle: std::multiset reference + pointer walker in comp/pairing/harness.cpp",
           "comp/pairing/driver_ptr.ml (pointer-level model driver; re-tabulates the model's memory function over the pool ids "
           "after every op)",
           "transliteration of pairing_heap.hpp into coq/Pairing/PairingPtr.v (assignment by assignment, by hand): tied to the "
           "source by the line-for-line comparison of all hook fields after every op and after direct _merge/_collapse calls; "
           "the refinement pointer-level -> functional model is PROVED (Properties_C08_ptr.v), no longer trusted"]
ASSUMPTIONS = ["Compare is a strict weak order: asymmetric and negatively transitive (Section hypotheses; heap order needs asymmetry only)",
               "element ids (node addresses) are unique; priorities of contained elements do not change",
               "push only of elements that are not contained, pop only when non-empty, remove only of contained elements "
               "(violations stop in FRG_ASSERT, modelled as AssertStop; pushing the SOLE contained element again is not "
               "detected by any assertion and is modelled as UB)",
               "single-threaded use"]

def _parse_state(line):
    """'u t=3 e=0 |c,b,s|c,b,s...' -> (top, [(c,b,s)...]) with None for '-'"""
    parts = line.split(" c=")[0].split("|")
    head = parts[0].split()
    top = head[1][2:]
    hooks = []
    for g in parts[1:]:
        hooks.append(tuple(None if x == "-" else x for x in g.strip().split(",")))
    return (None if top == "-" else top), hooks

def _nchildren(hooks, i):
    n, c = 0, hooks[i][0]
    while c is not None and c.isdigit() and n <= len(hooks):
        n += 1; c = hooks[int(c)][2]
    return n

def _bucket(n):
    return str(n) if n <= 2 else ("odd" if n % 2 else "even")

def shape_stats(c, lines, ri):
    """role / child-count histogram of what the REAL heap was asked to do; returns the nontrivial key or None"""
    out = ri["lines"]
    inner_remove = big_collapse = False
    prev = None
    for k, op in enumerate(lines[1:]):
        if k >= len(out) or not out[k].startswith("u "):
            break
        if prev is not None:
            top, hooks = prev
            t = op.split()
            if t[0] == "o" and top is not None and top.isdigit():
                n = _nchildren(hooks, int(top))
                c.count("pairing_pop_children_" + _bucket(n))
                big_collapse |= n >= 3
            elif t[0] == "r" and int(t[1]) < len(hooks):
                i = t[1]
                ch, bk, sb = hooks[int(i)]
                n = _nchildren(hooks, int(i))
                if top == i:
                    role = "root"
                elif bk is None or not bk.isdigit():
                    role = "absent"
                else:
                    first = hooks[int(bk)][0] == i
                    role = {(True, True): "first-child", (True, False): "only-child",
                            (False, True): "middle-sibling", (False, False): "last-sibling"}[(first, sb is not None)]
                c.count("pairing_remove_role_" + role)
                if role not in ("absent",):
                    c.count("pairing_remove_children_" + _bucket(n))
                    c.count("pairing_remove_%s_%s" % (role, "leaf" if n == 0 else "inner"))
                inner_remove |= role not in ("root", "absent") and n >= 1
                big_collapse |= n >= 3
        prev = _parse_state(out[k])
    if out and out[-1] in ("assert", "ub"):
        c.count("pairing_scripts_ending_in_" + out[-1])
    return "|".join(lines) if (inner_remove and big_collapse) else None

def _is_raw(lines):
    return bool(lines) and lines[0].split()[-1:] == ["raw"]

def raw_stats(c, lines, ri):
    """counters for a raw script from the REAL harness output; returns the nontrivial key or None"""
    out = ri["lines"]
    merges = sum(1 for l in out if l.startswith("m"))
    collapses = [l for l in out if l.startswith("k")]
    c.count("pairing_raw_direct_merge_calls", merges)
    c.count("pairing_raw_direct_collapse_calls", len(collapses))
    big = False
    prev = None
    ops = [l for l in lines[1:]]
    # chain length of each direct _collapse: walk the sibling chain in the dump BEFORE the call
    k = 0
    for op in ops:
        if k >= len(out) or out[k] in ("assert", "ub"):
            break
        t = op.split()
        if t[0] == "k" and prev is not None and t[1].isdigit() and int(t[1]) < len(prev):
            n, x = 0, t[1]
            while x is not None and x.isdigit() and n <= len(prev):
                n += 1; x = prev[int(x)][2]
            c.count("pairing_raw_collapse_chain_" + _bucket(n))
            big |= n >= 3
        prev = _parse_state(out[k])[1]
        k += 1
    if out and out[-1] == "assert":
        c.count("pairing_raw_scripts_ending_in_assert")
    return "|".join(lines) if (big and merges >= 1) else None

def run_ptr(c, har, drvp, cases, impl):
    """pointer-level model: the same cases as the functional model (impl results reused) + raw cases"""
    pm = vlib.run_cases(drvp, cases)
    for cid, lines in cases:
        ri, rm = impl.get(cid), pm.get(cid)
        if ri is None or ri.get("crash"):
            continue                       # already reported by the functional comparison
        if rm is None:
            c.mismatch(cid, lines, "pointer-level model produced no output"); continue
        if rm.get("crash"):
            c.mismatch(cid, lines, "pointer-level model driver crashed: " + rm["crash"][-300:]); continue
        c.count("pairing_ptr_lines_compared", len(ri["lines"]))
        d = vlib.first_diff(ri["lines"], rm["lines"])
        if d:
            c.mismatch(cid, lines, "pointer-level model: line %d: impl=%r model=%r" % d)

def run(c):
    """legs C and O for pairing_heap; returns False if the harness could not be built."""
    okm, mlog = vlib.coq_make(["Pairing/PairingExtract.vo"])
    okd, drv, dlog = vlib.ocaml_build("pairing_m", ["pairing_model"], os.path.join(vlib.ROOT, "comp/pairing/driver.ml"))
    okp, drvp, plog = vlib.ocaml_build("pairing_p", ["pairing_model"], os.path.join(vlib.ROOT, "comp/pairing/driver_ptr.ml"))
    if okm and not okp:
        c.broken.append("pairing pointer-level model driver build failed: " + plog[-500:])
    okh, har, hlog = vlib.cxx_build("pairing_h", os.path.join(vlib.ROOT, "comp/pairing/harness.cpp"))
    if not (okm and okd):
        c.broken.append("pairing model extraction/driver build failed: " + (mlog[-300:] if not okm else "") + dlog[-500:])
    if not okh:
        c.broken.append("pairing harness does not compile against the repo: " + hlog[-1500:])
        return False
    raw = []
    if c.replay:
        allc = vlib.read_replay(c.replay)
        cases = [x for x in allc if not _is_raw(x[1])]
        raw = [x for x in allc if _is_raw(x[1])]
    else:
        cases = gen.corpus()
        n = 1500 if c.tier == "quick" else 12000
        for i in range(n):
            cases.append(("g%d" % i, gen.gen_case(c.rng, c.rng.choice([10, 25, 60, 120, 250]))))
        if c.tier == "thorough":
            cases += gen.exhaustive_small(9, 6, (1, 2), 0, "ex9")
            cases += gen.exhaustive_small(7, 6, (1, 2, 3), 0, "ex7")
            cases += gen.exhaustive_small(7, 6, (1, 2), 1, "ex7")
            cases += gen.exhaustive_small(7, 6, (1, 2), 3, "ex7")
            cases += gen.exhaustive_small(9, 6, (1,), 4, "ex9")
        else:
            cases += gen.exhaustive_small(6, 5, (1, 2), 0, "ex6")
        # raw scripts for the pointer-level model: own generator stream, so the cases above do not depend on them
        rrng = random.Random(c.seed * 7919 + 13)
        raw = gen.raw_corpus()
        for i in range(400 if c.tier == "quick" else 4000):
            raw.append(("w%d" % i, gen.gen_raw_case(rrng, rrng.choice([8, 20, 50, 100]))))
        if c.tier == "thorough":
            raw += gen.raw_exhaustive_collapse(9, (1, 2), 0) + gen.raw_exhaustive_collapse(7, (1, 2, 3), 0)
            raw += gen.raw_exhaustive_collapse(8, (1, 2), 0, True) + gen.raw_exhaustive_collapse(8, (1, 2), 4, True)
            raw += gen.raw_exhaustive_collapse(7, (1, 2), 3) + gen.raw_exhaustive_collapse(7, (1, 2), 1)
        else:
            raw += gen.raw_exhaustive_collapse(5, (1, 2), 0) + gen.raw_exhaustive_collapse(4, (1, 2), 0, True)
    for _, ls in raw:
        c.count("pairing_raw_ops", max(0, len(ls) - 1))
    for _, ls in cases:
        c.count("pairing_ops", max(0, len(ls) - 1))
        if ls:
            t = ls[0].split()
            if len(t) == 4:
                c.count("pairing_cmp_kind_" + t[3])
    impl = vlib.run_cases(har, cases)
    model = vlib.run_cases(drv, cases) if okd else {}
    c.compare(cases, impl, model, lambda cid, lines, ri: shape_stats(c, lines, ri))
    if okp:
        run_ptr(c, har, drvp, cases, impl)
        if raw:
            impl_raw = vlib.run_cases(har, raw)
            c.compare(raw, impl_raw, vlib.run_cases(drvp, raw), lambda cid, lines, ri: raw_stats(c, lines, ri))
    return True
