"""pairing_heap component: builds model driver + harness, generates cases, runs legs C and O into the given Check.
Used by checks/c08.py."""
import os
import vlib
from comp.pairing import gen

RULE = ("seeded push/pop/remove scripts over node pools of 4..48 nodes, 5 comparators (less, greater, coarse classes, "
        "strict total, all-tie) and 7 priority patterns (many ties, few values, ascending, descending, zigzag, random); "
        "removal targets chosen by role (root, first child, only child, middle sibling, last sibling) and by number of "
        "children (0/odd/even); compared after EVERY op: top(), empty(), child/backlink/sibling of EVERY pool node and the sequence of "
        "Compare(a,b) calls made during the op; "
        "non-trivial = distinct script in which the real heap performed a remove of a non-root node that had children "
        "and a pop/remove that collapsed >= 3 children (role/child-count histogram taken from the real hook dumps)")
TRUSTED = ["extraction: ExtrOcamlBasic only; OCaml 4.13.1; comp/pairing/driver.ml (comparators re-implemented in OCaml)",
           "correspondence harness comp/pairing/harness.cpp (g++ -fsanitize=address,undefined, -fno-access-control)",
           "oracle: std::multiset reference + pointer walker in comp/pairing/harness.cpp",
           "modelled, not verified: pointer surgery on the three hook fields (the model is the child/sibling tree; "
           "every hook field is compared with the model's layout function after every op)"]
ASSUMPTIONS = ["Compare is a strict weak order: asymmetric and negatively transitive (Section hypotheses; heap order needs asymmetry only)",
               "element ids (node addresses) are unique; priorities of contained elements do not change",
               "push only of elements that are not contained, pop only when non-empty, remove only of contained elements "
               "(violations stop in FRG_ASSERT, modelled as AssertStop; pushing the SOLE contained element again is not "
               "detected by any assertion and is modelled as UB)",
               "single-threaded use"]

def _parse_state(line):
    """'u t=3 e=0 |c,b,s|c,b,s...' -> (top, [(c,b,s)...]) with None for '-'"""
    parts = line.split(" c=")[0].split("|")
    head = parts[0].split()
    top = head[1][2:]
    hooks = []
    for g in parts[1:]:
        hooks.append(tuple(None if x == "-" else x for x in g.strip().split(",")))
    return (None if top == "-" else top), hooks

def _nchildren(hooks, i):
    n, c = 0, hooks[i][0]
    while c is not None and c.isdigit() and n <= len(hooks):
        n += 1; c = hooks[int(c)][2]
    return n

def _bucket(n):
    return str(n) if n <= 2 else ("odd" if n % 2 else "even")

def shape_stats(c, lines, ri):
    """role / child-count histogram of what the REAL heap was asked to do; returns the nontrivial key or None"""
    out = ri["lines"]
    inner_remove = big_collapse = False
    prev = None
    for k, op in enumerate(lines[1:]):
        if k >= len(out) or not out[k].startswith("u "):
            break
        if prev is not None:
            top, hooks = prev
            t = op.split()
            if t[0] == "o" and top is not None and top.isdigit():
                n = _nchildren(hooks, int(top))
                c.count("pairing_pop_children_" + _bucket(n))
                big_collapse |= n >= 3
            elif t[0] == "r" and int(t[1]) < len(hooks):
                i = t[1]
                ch, bk, sb = hooks[int(i)]
                n = _nchildren(hooks, int(i))
                if top == i:
                    role = "root"
                elif bk is None or not bk.isdigit():
                    role = "absent"
                else:
                    first = hooks[int(bk)][0] == i
                    role = {(True, True): "first-child", (True, False): "only-child",
                            (False, True): "middle-sibling", (False, False): "last-sibling"}[(first, sb is not None)]
                c.count("pairing_remove_role_" + role)
                if role not in ("absent",):
                    c.count("pairing_remove_children_" + _bucket(n))
                    c.count("pairing_remove_%s_%s" % (role, "leaf" if n == 0 else "inner"))
                inner_remove |= role not in ("root", "absent") and n >= 1
                big_collapse |= n >= 3
        prev = _parse_state(out[k])
    if out and out[-1] in ("assert", "ub"):
        c.count("pairing_scripts_ending_in_" + out[-1])
    return "|".join(lines) if (inner_remove and big_collapse) else None

def run(c):
    """legs C and O for pairing_heap; returns False if the harness could not be built."""
    okm, mlog = vlib.coq_make(["Pairing/PairingExtract.vo"])
    okd, drv, dlog = vlib.ocaml_build("pairing_m", ["pairing_model"], os.path.join(vlib.ROOT, "comp/pairing/driver.ml"))
    okh, har, hlog = vlib.cxx_build("pairing_h", os.path.join(vlib.ROOT, "comp/pairing/harness.cpp"))
    if not (okm and okd):
        c.broken.append("pairing model extraction/driver build failed: " + (mlog[-300:] if not okm else "") + dlog[-500:])
    if not okh:
        c.broken.append("pairing harness does not compile against the repo: " + hlog[-1500:])
        return False
    if c.replay:
        cases = vlib.read_replay(c.replay)
    else:
        cases = gen.corpus()
        n = 1500 if c.tier == "quick" else 12000
        for i in range(n):
            cases.append(("g%d" % i, gen.gen_case(c.rng, c.rng.choice([10, 25, 60, 120, 250]))))
        if c.tier == "thorough":
            cases += gen.exhaustive_small(9, 6, (1, 2), 0, "ex9")
            cases += gen.exhaustive_small(7, 6, (1, 2, 3), 0, "ex7")
            cases += gen.exhaustive_small(7, 6, (1, 2), 1, "ex7")
            cases += gen.exhaustive_small(7, 6, (1, 2), 3, "ex7")
            cases += gen.exhaustive_small(9, 6, (1,), 4, "ex9")
        else:
            cases += gen.exhaustive_small(6, 5, (1, 2), 0, "ex6")
    for _, ls in cases:
        c.count("pairing_ops", max(0, len(ls) - 1))
        if ls:
            t = ls[0].split()
            if len(t) == 4:
                c.count("pairing_cmp_kind_" + t[3])
    impl = vlib.run_cases(har, cases)
    model = vlib.run_cases(drv, cases) if okd else {}
    c.compare(cases, impl, model, lambda cid, lines, ri: shape_stats(c, lines, ri))
    return True
