// Harness for frg::interval_tree (include/frg/interval_tree.hpp on top of rbtree.hpp's aggregator support).
// Runs op scripts over a pool of nodes on the REAL code and
//  * after EVERY mutating op prints the canonical state line: root, first(), and for EVERY pool node the five
//    navigation links of its rbtree hook, for members the colour and the interval_hook::subtree_max field
//    (private state read through -fno-access-control) -- compared with layout/maxes of the extracted model (leg C);
//  * per query prints the exact callback sequence (leg C) and evaluates the property with an oracle that does not
//    use the model (leg O): brute-force filter over the stored intervals (each overlapping interval exactly once, no
//    other); after every mutating op a walker recomputes subtree_max of every node from scratch and re-checks the
//    red-black tree (order by lower bound, stability, links, colouring, height).
// Script:  cfg <poolsize> <full|hash> [every [type]]   first line; type = u64 (default) | i64 | f64: the endpoint type P the
//                               tree is instantiated with (signed: negative endpoints; f64: doubles such as -94.75)
//          i <lo> <hi> <id>     interval_tree::insert(node id with [lo, hi])   (lo > hi: FRG_ASSERT expected)
//          r <id>               interval_tree::remove(node id)
//          q <lb> <ub>          for_overlaps(fn, lb, ub)        prints "o <ids in callback order>"
//          p <x>                for_overlaps(fn, x)             (one-argument form)
//          qn <mode> <lb> <ub>  nested: the callback of the outer query runs an inner for_overlaps on the same tree (pt: point query at the
//          pn <mode> <x>        hit's lower end, rg: range query [hit.lo, hit.hi]); prints "o <outer>" and "in <id> : <inner>" per outer hit
//          qm <mode> <lb> <ub>  like q / p, but the callback modifies the caller's variables that were passed as bounds: co coalescing
//          pm <mode> <x>        (lo = min(lo, n->lo), hi = max(hi, n->hi)), cu cursor advance, ga garbage; the answer must be that for the original bounds
//          qt <kind> <lb> <ub>  for_overlaps(fn, (K)lb, (K)ub) with arguments of C++ type K = kind: u32 unsigned, usz size_t, i16 short,
//          pt <kind> <x>        i32 int, f32 float (double trees only), mix (size_t, int); values non-negative and exact in both types
//          w <id> <hi>          upper(node) := hi, nothing re-aggregated (tree becomes "dirty": annotations stale)
//          a <id>               _rbtree.aggregate_path(node)    (public rbtree API; early stop observable when dirty)
//          A                    aggregate_node on every node, children first (tree clean again)
//          cfg <n> enum <u> <shard> <nshards>   (alone) self-enumeration of all insertion sequences of n intervals over
//                               {0..u-1} x all queries, digest output -- see run_enum below
// While dirty, i / r are skipped (the functional model recomputes whole paths, the code stops early: they are only
// equal on clean trees -- that is theorem C07_early_stop_sound) and the oracle is silent (stale annotations are
// the point of the w/a ops; queries on a dirty tree are outside the property, they are still compared with the model).
#include <csignal>
#include <unistd.h>
#include <sys/time.h>
#include <memory>
#include <string>
#include <vector>
#include <algorithm>
#include <cinttypes>
#include <limits>
#include <type_traits>
#include "vharness.hpp"
#include <frg/interval_tree.hpp>

using CT = frg::_redblack::color_type;

// ---- endpoint types.  interval_tree is a template in the endpoint type P; the harness instantiates it with an unsigned and a
// signed integer type and with double (negative / mixed-sign / fractional endpoints).  parse/str: script token <-> value
// (doubles printed with %.17g, which round-trips); from_int: the endpoint an enumeration index e in {0..u} stands for
// (signed: e - 4, doubles: (e - 4) * 0.25 -- both mixed-sign over the universe 8; unsigned: e itself).
template<class E> struct Codec;
template<> struct Codec<uint64_t> {
	static const char *name() { return "u64"; }
	static uint64_t parse(const std::string &s) { return vh::u64(s); }
	static std::string str(uint64_t v) { return std::to_string((unsigned long long)v); }
	static bool valid(uint64_t) { return true; }
	static uint64_t from_int(long long e) { return (uint64_t)e; }
};
template<> struct Codec<int64_t> {
	static const char *name() { return "i64"; }
	static int64_t parse(const std::string &s) { return (int64_t)strtoll(s.c_str(), nullptr, 10); }
	static std::string str(int64_t v) { return std::to_string((long long)v); }
	static bool valid(int64_t) { return true; }
	static int64_t from_int(long long e) { return e - 4; }
};
template<> struct Codec<int32_t> {
	static const char *name() { return "i32"; }
	static int32_t parse(const std::string &s) { return (int32_t)strtoll(s.c_str(), nullptr, 10); }
	static std::string str(int32_t v) { return std::to_string((long long)v); }
	static bool valid(int32_t) { return true; }
	static int32_t from_int(long long e) { return (int32_t)(e - 4); }
};
template<> struct Codec<double> {
	static const char *name() { return "f64"; }
	static double parse(const std::string &s) { double d = strtod(s.c_str(), nullptr); return d == 0 ? 0.0 : d; }   // -0 -> +0
	static std::string str(double v) { char b[40]; snprintf(b, sizeof b, "%.17g", v); return b; }
	static bool valid(double d) { return d == d; }      // NaN is not ordered: outside the property, skipped
	static double from_int(long long e) { return (double)(e - 4) * 0.25; }
};

static uint64_t fnv(const std::string &s) {
	uint64_t h = 14695981039346656037ULL;
	for(unsigned char c : s) { h ^= c; h *= 1099511628211ULL; }
	return h;
}

// output sink: normally stdout; in `enum` mode every canonical line is folded into a running FNV-1a digest instead
static bool g_fold = false;
static uint64_t g_digest = 14695981039346656037ULL;
static void emit(const std::string &s) {
	if(g_fold) {
		for(unsigned char c : s) { g_digest ^= c; g_digest *= 1099511628211ULL; }
		g_digest ^= '\n'; g_digest *= 1099511628211ULL;
	} else { fputs(s.c_str(), stdout); putchar('\n'); }
}

template<class E> struct Har {
	using C = Codec<E>;
	static std::string S(E v) { return C::str(v); }
	struct Node {
		E lo{}, hi{};
		uint64_t seq = 0;
		int id = 0;
		bool member = false;
		frg::rbtree_hook hook;
		frg::interval_hook<E> ih;
	};
	using IT = frg::interval_tree<Node, E, &Node::lo, &Node::hi, &Node::hook, &Node::ih>;
	using BT = typename IT::binary_tree;


	static std::string ids(void *p) { return p ? std::to_string(static_cast<Node *>(p)->id) : std::string("-"); }

	static void dump(IT &it, Node *pool, int P, bool hashmode) {
		std::string s = "t " + ids(it._rbtree.get_root()) + " " + ids(it._rbtree.first());
		for(int i = 0; i < P; i++) {
			auto &h = pool[i].hook;
			s += " | " + std::to_string(i) + ":" + ids(h.parent) + "," + ids(h.left) + "," + ids(h.right) + ","
				+ ids(h.predecessor) + "," + ids(h.successor) + ",";
			if(!pool[i].member) s += "-,-";   // colour and subtree_max of a non-member are stale, not observable
			else {
				s += h.color == CT::red ? "R" : h.color == CT::black ? "B" : "?";
				s += "," + S(pool[i].ih.subtree_max);
			}
		}
		if(hashmode) { char b[32]; snprintf(b, sizeof b, "h %016" PRIx64, fnv(s)); emit(b); }
		else emit(s);
	}

	// ---- independent walker over the real nodes
	struct Walk {
		int P; size_t steps = 0; bool broken = false; int height = 0;
		std::vector<Node *> ino;
		bool check_max;
		// returns black height; *mx = maximum of hi over the subtree recomputed from scratch
		int go(Node *nd, int depth, E *mx) {
			if(broken) return 0;
			if(++steps > 2 * (size_t)P + 16 || depth > 128) { vh::oracle("rb-shape", "left/right walk does not terminate (cycle through node %d)", nd->id); broken = true; return 0; }
			height = std::max(height, depth);
			if(!nd->member) vh::oracle("rb-member", "node %d reachable from the root but not contained", nd->id);
			if(nd->hook.color != CT::red && nd->hook.color != CT::black) vh::oracle("rb-colour", "member %d has no colour", nd->id);
			Node *l = BT::get_left(nd), *r = BT::get_right(nd);
			if(l && BT::get_parent(l) != nd) vh::oracle("rb-parent", "left child %d of %d has parent %s", l->id, nd->id, ids(BT::get_parent(l)).c_str());
			if(r && BT::get_parent(r) != nd) vh::oracle("rb-parent", "right child %d of %d has parent %s", r->id, nd->id, ids(BT::get_parent(r)).c_str());
			if(l && l == r) { vh::oracle("rb-shape", "node %d has the same left and right child", nd->id); broken = true; return 0; }
			if(nd->hook.color == CT::red && ((l && l->hook.color == CT::red) || (r && r->hook.color == CT::red)))
				vh::oracle("rb-redred", "red node %d has a red child", nd->id);
			E m = nd->hi, ml{}, mr{};
			int bl = 0, br = 0;
			if(l) { bl = go(l, depth + 1, &ml); if(ml > m) m = ml; }
			if(broken) return 0;
			ino.push_back(nd);
			if(r) { br = go(r, depth + 1, &mr); if(mr > m) m = mr; }
			if(broken) return 0;
			if(bl != br) vh::oracle("rb-blackheight", "node %d: black height left %d, right %d", nd->id, bl, br);
			if(check_max && nd->ih.subtree_max != m)
				vh::oracle("iv-max", "node %d [%s,%s]: subtree_max is %s, maximum upper bound in its subtree is %s", nd->id,
					S(nd->lo).c_str(), S(nd->hi).c_str(), S(nd->ih.subtree_max).c_str(), S(m).c_str());
			*mx = m;
			return bl + (nd->hook.color == CT::black ? 1 : 0);
		}
	};

	static void check_tree(IT &it, Node *pool, int P, const std::vector<int> &ref, bool check_max) {
		size_t n = ref.size();
		Walk w; w.P = P; w.check_max = check_max;
		Node *root = it._rbtree.get_root();
		if(root) {
			if(BT::get_parent(root)) vh::oracle("rb-parent", "root %d has parent %d", root->id, BT::get_parent(root)->id);
			if(root->hook.color != CT::black) vh::oracle("rb-rootblack", "root %d is not black", root->id);
			E m{}; w.go(root, 1, &m);
		}
		if(w.broken) return;
		auto &ino = w.ino;
		bool same = ino.size() == n;
		for(size_t i = 0; same && i < n; i++) same = ino[i]->id == ref[i];
		if(!same) {
			std::string a, b;
			for(auto *x : ino) a += " " + std::to_string(x->id);
			for(int x : ref) b += " " + std::to_string(x);
			vh::oracle("rb-inorder", "in-order walk over left/right is [%s ], reference is [%s ]", a.substr(0, 300).c_str(), b.substr(0, 300).c_str());
		}
		for(size_t i = 0; i + 1 < ino.size(); i++) {
			if(ino[i + 1]->lo < ino[i]->lo) { vh::oracle("rb-order", "in-order walk: node %d (lower %s) before node %d (lower %s)", ino[i]->id, S(ino[i]->lo).c_str(), ino[i + 1]->id, S(ino[i + 1]->lo).c_str()); break; }
			if(ino[i + 1]->lo == ino[i]->lo && ino[i + 1]->seq < ino[i]->seq) { vh::oracle("rb-stable", "equal lower bounds %s: node %d (inserted later) before node %d", S(ino[i]->lo).c_str(), ino[i]->id, ino[i + 1]->id); break; }
		}
		Node *f = it._rbtree.first();
		if(f != (ino.empty() ? nullptr : ino[0])) vh::oracle("rb-first", "first() is %s, leftmost element is %s", ids(f).c_str(), ino.empty() ? "-" : std::to_string(ino[0]->id).c_str());
		{
			size_t i = 0; Node *cur = f; bool ok = true;
			if(cur && BT::predecessor(cur)) vh::oracle("rb-predsucc", "first() %d has predecessor %d", cur->id, BT::predecessor(cur)->id);
			while(cur) {
				if(i >= n || cur->id != ref[i]) { ok = false; break; }
				Node *nx = BT::successor(cur);
				if(nx && BT::predecessor(nx) != cur) vh::oracle("rb-predsucc", "successor(%d) = %d but predecessor(%d) = %s", cur->id, nx->id, nx->id, ids(BT::predecessor(nx)).c_str());
				cur = nx; i++;
			}
			if(!ok || i != n) vh::oracle("rb-succwalk", "successor walk from first() leaves the reference sequence at position %zu of %zu", i, n);
		}
		{
			int lg = 0; while((2ULL << lg) <= (uint64_t)n + 1) lg++;
			if(w.height > 2 * lg) vh::oracle("rb-height", "height %d > 2*log2(%zu+1) = %d", w.height, n, 2 * lg);
		}
		for(int i = 0; i < P; i++) if(!pool[i].member) {
			auto &h = pool[i].hook;
			if(h.parent || h.left || h.right || h.predecessor || h.successor)
				vh::oracle("rb-reset", "node %d is not contained but its hook is not reset", i);
		}
	}

	// children first
	static void reaggregate(IT &it, Node *nd, int depth) {
		if(!nd || depth > 200) return;
		reaggregate(it, BT::get_left(nd), depth + 1);
		reaggregate(it, BT::get_right(nd), depth + 1);
		it._rbtree.aggregate_node(nd);
	}

	// ql/qu: the arguments as they are PASSED to for_overlaps (their C++ type may differ from the endpoint type: qt / pt ops);
	// lb/ub: the same mathematical values as endpoints, used by the oracle.  Returns the callback sequence.
	template<class QL, class QU>
	// mut (qm / pm ops): the callback MODIFIES the caller's variables that were passed as bounds -- 1 coalescing
	// (a = min(a, n->lo), b = max(b, n->hi)), 2 cursor advance (a = b = n->hi), 3 garbage (a = max, b = lowest).  Modelling
	// assumption, checked here: the bounds are read once at the call (passed by value), so the answer is that for the ORIGINAL bounds.
	static std::vector<int> query(IT &it, Node *pool, int P, QL ql, QU qu, E lb, E ub, bool one_arg, bool dirty, bool silent = false, int mut = 0) {
		std::vector<int> seen;
		size_t calls = 0;
		bool nonmember = false;
		QL a = ql; QU b = qu;       // the caller's variables
		auto fn = [&](Node *nd) {
			if(++calls > 4 * (size_t)P + 16) throw vh::AssertStop{"callback storm"};
			if(!nd || nd < pool || nd >= pool + P) { nonmember = true; return; }
			seen.push_back(nd->id);
			if(mut == 1) { if(nd->lo < a) a = (QL)nd->lo; if(b < nd->hi) b = (QU)nd->hi; if(one_arg && a < nd->hi) a = (QL)nd->hi; }
			else if(mut == 2) { a = (QL)nd->hi; b = (QU)nd->hi; }
			else if(mut == 3) { a = std::numeric_limits<QL>::max(); b = std::numeric_limits<QU>::lowest(); }
		};
		if(one_arg) it.for_overlaps(fn, a);
		else it.for_overlaps(fn, a, b);
		if(silent) return seen;
		std::string s = "o";
		for(int i : seen) s += " " + std::to_string(i);
		emit(s);
		if(nonmember) vh::oracle("iv-spurious", "callback invoked with a pointer that is not a pool node");
		if(dirty || lb > ub) return seen;      // outside the property's quantifier (see NOTES.md); compared with the model only
		std::vector<int> cnt(P, 0);
		for(int i : seen) cnt[i]++;
		for(int i = 0; i < P; i++) {
			bool want = pool[i].member && pool[i].lo <= ub && lb <= pool[i].hi;
			if(want && cnt[i] == 0) vh::oracle("iv-missed", "query [%s,%s]: stored interval %d = [%s,%s] overlaps but the callback was not invoked for it",
				S(lb).c_str(), S(ub).c_str(), i, S(pool[i].lo).c_str(), S(pool[i].hi).c_str());
			if(!want && cnt[i] > 0) vh::oracle("iv-spurious", "query [%s,%s]: callback invoked for node %d = [%s,%s] (%s)",
				S(lb).c_str(), S(ub).c_str(), i, S(pool[i].lo).c_str(), S(pool[i].hi).c_str(),
				pool[i].member ? "stored, does not overlap" : "not stored");
			if(want && cnt[i] > 1) vh::oracle("iv-twice", "query [%s,%s]: callback invoked %d times for interval %d = [%s,%s]",
				S(lb).c_str(), S(ub).c_str(), cnt[i], i, S(pool[i].lo).c_str(), S(pool[i].hi).c_str());
		}
		return seen;
	}

	// ---- nested queries (qn / pn ops): the callback of an outer query runs ANOTHER for_overlaps on the same tree (inner: point
	// query at the hit's lower end -- mode pt -- or range query [hit.lo, hit.hi] -- mode rg).  Modelling assumption, checked here:
	// a query keeps no state in the tree object (the model is a pure function), so the walk is re-entrant: the outer answer equals
	// the plain query's, every inner answer is that of an independent query.  Prints "o <outer ids>" and per outer hit "in <id> : <ids>".
	static void brute(Node *pool, int P, const std::vector<int> &seen, E lb, E ub, const char *what) {
		std::vector<int> cnt(P, 0);
		for(int i : seen) if(i >= 0 && i < P) cnt[i]++;
		for(int i = 0; i < P; i++) {
			bool want = pool[i].member && pool[i].lo <= ub && lb <= pool[i].hi;
			if(want && cnt[i] == 0) vh::oracle("iv-missed", "%s query [%s,%s]: stored interval %d = [%s,%s] overlaps but the callback was not invoked for it",
				what, S(lb).c_str(), S(ub).c_str(), i, S(pool[i].lo).c_str(), S(pool[i].hi).c_str());
			if(!want && cnt[i] > 0) vh::oracle("iv-spurious", "%s query [%s,%s]: callback invoked for node %d = [%s,%s] (%s)",
				what, S(lb).c_str(), S(ub).c_str(), i, S(pool[i].lo).c_str(), S(pool[i].hi).c_str(), pool[i].member ? "stored, does not overlap" : "not stored");
			if(want && cnt[i] > 1) vh::oracle("iv-twice", "%s query [%s,%s]: callback invoked %d times for interval %d = [%s,%s]",
				what, S(lb).c_str(), S(ub).c_str(), cnt[i], i, S(pool[i].lo).c_str(), S(pool[i].hi).c_str());
		}
	}
	static void nested_query(IT &it, Node *pool, int P, E lb, E ub, bool one_arg, bool inner_range, bool dirty) {
		std::vector<int> outer;
		std::vector<std::vector<int>> inner;
		size_t calls = 0;
		bool nonmember = false;
		auto fn = [&](Node *nd) {
			if(++calls > ((size_t)P + 2) * (4 * (size_t)P + 16)) throw vh::AssertStop{"callback storm"};
			if(!nd || nd < pool || nd >= pool + P) { nonmember = true; return; }
			outer.push_back(nd->id);
			inner.emplace_back();
			std::vector<int> &in = inner.back();
			auto fn2 = [&](Node *n2) {
				if(++calls > ((size_t)P + 2) * (4 * (size_t)P + 16)) throw vh::AssertStop{"callback storm"};
				if(!n2 || n2 < pool || n2 >= pool + P) { nonmember = true; return; }
				in.push_back(n2->id);
			};
			if(inner_range) it.for_overlaps(fn2, nd->lo, nd->hi);
			else it.for_overlaps(fn2, nd->lo);
		};
		if(one_arg) it.for_overlaps(fn, lb);
		else it.for_overlaps(fn, lb, ub);
		std::string s = "o";
		for(int i : outer) s += " " + std::to_string(i);
		emit(s);
		for(size_t k = 0; k < outer.size(); k++) {
			std::string l = "in " + std::to_string(outer[k]) + " :";
			for(int i : inner[k]) l += " " + std::to_string(i);
			emit(l);
		}
		if(nonmember) vh::oracle("iv-spurious", "callback invoked with a pointer that is not a pool node");
		if(dirty || lb > ub) return;
		brute(pool, P, outer, lb, ub, "outer (its callback ran inner queries)");
		for(size_t k = 0; k < outer.size() && vh::g_oracle_count == 0; k++) {
			Node &h = pool[outer[k]];
			brute(pool, P, inner[k], h.lo, inner_range ? h.hi : h.lo, "inner");
		}
	}

	// ---- queries whose arguments have another arithmetic type than the endpoint type P (qt <kind> lb ub / pt <kind> x):
	// the same mathematical value, non-negative and exactly representable in both types.  Modelling assumption, checked here:
	// the query is converted to P ONCE (for_overlaps takes P lb, P ub), so the answer equals the P-typed query's.
	template<class Q> static bool conv(const std::string &s, Q *out, E *as_e) {
		if constexpr(std::is_integral_v<Q>) {
			if(s.empty() || s.size() > 18) return false;
			for(char ch : s) if(ch < '0' || ch > '9') return false;
			unsigned long long v = strtoull(s.c_str(), nullptr, 10);
			unsigned long long qmax = std::min<unsigned long long>((unsigned long long)std::numeric_limits<Q>::max(), 1ULL << 62);
			unsigned long long emax = std::is_floating_point_v<E> ? (1ULL << 53)
				: std::min<unsigned long long>((unsigned long long)std::numeric_limits<E>::max(), 1ULL << 62);
			if(v > qmax || v > emax) return false;
			*out = (Q)v; *as_e = (E)v;
			return true;
		} else {
			if(!std::is_floating_point_v<E>) return false;     // a fractional query on an integer tree is not value-preserving
			char *end = nullptr;
			double d = strtod(s.c_str(), &end);
			if(s.empty() || end != s.c_str() + s.size() || !(d >= 0) || (double)(float)d != d) return false;
			*out = (Q)d; *as_e = (E)(d == 0 ? 0.0 : d);
			return true;
		}
	}
	template<class QL, class QU>
	static bool typed_query2(IT &it, Node *pool, int P, const std::string &kind, const std::string &a, const std::string &b, bool one_arg, bool dirty) {
		QL ql; QU qu; E lb, ub;
		if(!conv<QL>(a, &ql, &lb) || !conv<QU>(b, &qu, &ub)) return false;
		std::vector<int> got = query(it, pool, P, ql, qu, lb, ub, one_arg, dirty);
		if(vh::g_oracle_count > 0) return true;
		std::vector<int> ref = query(it, pool, P, lb, ub, lb, ub, one_arg, dirty, true);
		if(got != ref) {
			std::string x, y;
			for(int i : got) x += " " + std::to_string(i);
			for(int i : ref) y += " " + std::to_string(i);
			vh::oracle("iv-qtype", "query [%s,%s] passed with argument type %s reports [%s ], the same query passed as the endpoint type %s reports [%s ]",
				S(lb).c_str(), S(ub).c_str(), kind.c_str(), x.substr(0, 200).c_str(), C::name(), y.substr(0, 200).c_str());
		}
		return true;
	}
	static bool typed_query(IT &it, Node *pool, int P, const std::string &kind, const std::string &a, const std::string &b, bool one_arg, bool dirty) {
		if(kind == "u32") return typed_query2<unsigned, unsigned>(it, pool, P, kind, a, b, one_arg, dirty);
		if(kind == "usz") return typed_query2<size_t, size_t>(it, pool, P, kind, a, b, one_arg, dirty);
		if(kind == "i16") return typed_query2<short, short>(it, pool, P, kind, a, b, one_arg, dirty);
		if(kind == "i32") return typed_query2<int, int>(it, pool, P, kind, a, b, one_arg, dirty);
		if(kind == "f32") return typed_query2<float, float>(it, pool, P, kind, a, b, one_arg, dirty);
		if(kind == "mix" && !one_arg) return typed_query2<size_t, int>(it, pool, P, kind, a, b, one_arg, dirty);
		return false;
	}

	static void run_tree(const vh::Lines &ls, int P, bool hashmode, int every) {
		std::unique_ptr<Node[]> pool(new Node[P]);
		for(int i = 0; i < P; i++) pool[i].id = i;
		std::vector<int> ref;
		uint64_t seq = 0;
		bool dirty = false;
		IT it;
		for(size_t li = 1; li < ls.size(); li++) {
			auto t = vh::split(ls[li]);
			if(t.empty()) continue;
			const std::string &o = t[0];
			if(o == "i" && t.size() == 4) {
				E lo = C::parse(t[1]), hi = C::parse(t[2]); int id = atoi(t[3].c_str());
				if(!C::valid(lo) || !C::valid(hi)) { emit("skip"); continue; }
				if(dirty || id < 0 || id >= P || pool[id].member) { emit("skip"); continue; }
				Node &nd = pool[id];
				nd.lo = lo; nd.hi = hi; nd.seq = ++seq;
				if(lo > hi) {
					// documented precondition: FRG_ASSERT(lower <= upper) must stop the call before the tree is touched
					try { it.insert(&nd); } catch(vh::AssertStop &) { throw; }
					vh::oracle("iv-noassert", "insert of [%s,%s] (lower > upper) did not stop in FRG_ASSERT", S(lo).c_str(), S(hi).c_str());
					emit("noassert");
					return;
				}
				nd.member = true;
				try { it.insert(&nd); }
				catch(vh::AssertStop &a) { vh::oracle("iv-assert", "FRG_ASSERT fired on a valid insert: %s", a.where.c_str()); throw; }
				size_t pos = 0;
				while(pos < ref.size() && !(lo < pool[ref[pos]].lo)) pos++;
				ref.insert(ref.begin() + pos, id);
			} else if(o == "r" && t.size() == 2) {
				int id = atoi(t[1].c_str());
				if(dirty || id < 0 || id >= P || !pool[id].member) { emit("skip"); continue; }
				try { it.remove(&pool[id]); }
				catch(vh::AssertStop &a) { vh::oracle("iv-assert", "FRG_ASSERT fired on a valid remove: %s", a.where.c_str()); throw; }
				pool[id].member = false;
				ref.erase(std::find(ref.begin(), ref.end(), id));
			} else if((o == "q" && t.size() == 3) || (o == "p" && t.size() == 2)) {
				E lb = C::parse(t[1]), ub = o == "q" ? C::parse(t[2]) : lb;
				if(!C::valid(lb) || !C::valid(ub)) { emit("skip"); continue; }
				try { query(it, pool.get(), P, lb, ub, lb, ub, o == "p", dirty); }
				catch(vh::AssertStop &a) { vh::oracle("iv-assert", "FRG_ASSERT fired in for_overlaps: %s", a.where.c_str()); throw; }
				if(vh::g_oracle_count > 0) { emit("stopped"); return; }
				continue;
			} else if((o == "qn" && t.size() == 4) || (o == "pn" && t.size() == 3)) {
				E lb = C::parse(t[2]), ub = o == "qn" ? C::parse(t[3]) : lb;
				if((t[1] != "pt" && t[1] != "rg") || !C::valid(lb) || !C::valid(ub)) { emit("skip"); continue; }
				try { nested_query(it, pool.get(), P, lb, ub, o == "pn", t[1] == "rg", dirty); }
				catch(vh::AssertStop &a) { vh::oracle("iv-assert", "FRG_ASSERT fired in for_overlaps: %s", a.where.c_str()); throw; }
				if(vh::g_oracle_count > 0) { emit("stopped"); return; }
				continue;
			} else if((o == "qm" && t.size() == 4) || (o == "pm" && t.size() == 3)) {
				int mut = t[1] == "co" ? 1 : t[1] == "cu" ? 2 : t[1] == "ga" ? 3 : 0;
				E lb = C::parse(t[2]), ub = o == "qm" ? C::parse(t[3]) : lb;
				if(!mut || !C::valid(lb) || !C::valid(ub)) { emit("skip"); continue; }
				try { query(it, pool.get(), P, lb, ub, lb, ub, o == "pm", dirty, false, mut); }
				catch(vh::AssertStop &a) { vh::oracle("iv-assert", "FRG_ASSERT fired in for_overlaps: %s", a.where.c_str()); throw; }
				if(vh::g_oracle_count > 0) { emit("stopped"); return; }
				continue;
			} else if((o == "qt" && t.size() == 4) || (o == "pt" && t.size() == 3)) {
				bool ok;
				try { ok = typed_query(it, pool.get(), P, t[1], t[2], o == "qt" ? t[3] : t[2], o == "pt", dirty); }
				catch(vh::AssertStop &a) { vh::oracle("iv-assert", "FRG_ASSERT fired in for_overlaps: %s", a.where.c_str()); throw; }
				if(!ok) { emit("skip"); continue; }
				if(vh::g_oracle_count > 0) { emit("stopped"); return; }
				continue;
			} else if(o == "w" && t.size() == 3) {
				int id = atoi(t[1].c_str()); E hi = C::parse(t[2]);
				if(!C::valid(hi)) { emit("skip"); continue; }
				if(id < 0 || id >= P || !pool[id].member || hi < pool[id].lo) { emit("skip"); continue; }
				pool[id].hi = hi; dirty = true;
			} else if(o == "a" && t.size() == 2) {
				int id = atoi(t[1].c_str());
				if(id < 0 || id >= P || !pool[id].member) { emit("skip"); continue; }
				it._rbtree.aggregate_path(&pool[id]);
			} else if(o == "A" && t.size() == 1) {
				reaggregate(it, it._rbtree.get_root(), 0); dirty = false;
			} else { emit("skip"); continue; }
			if(every <= 1 || li % (size_t)every == 0 || li + 1 == ls.size()) {
				dump(it, pool.get(), P, hashmode);
				check_tree(it, pool.get(), P, ref, !dirty);
				if(vh::g_oracle_count > 0) { emit("stopped"); return; }
			}
		}
	}

	// ---- self-enumeration (thorough tier): cfg <n> enum <u> <shard> <nshards>
	// every insertion sequence of n intervals over the endpoint universe {0..u-1} (script number k, k = shard mod nshards),
	// each followed by ALL queries lb <= ub over {0..u} and all point queries, then one removal and all queries again --
	// the same script as gen.enum_script(n, u, k).  All canonical lines go into a digest ("d <scripts> <digest>" every 1024
	// scripts, "D ..." at the end); the oracle runs on every script; at the first oracle failure "F <k>" is printed and the
	// enumeration stops.
	static vh::Lines enum_script(int n, int u, unsigned long long k) {
		std::vector<std::pair<int,int>> ivs;
		for(int lo = 0; lo < u; lo++) for(int hi = lo; hi < u; hi++) ivs.push_back({lo, hi});
		vh::Lines ls;
		ls.push_back("cfg " + std::to_string(n) + " full 1 " + C::name());
		std::vector<std::pair<int,int>> seq;
		unsigned long long x = k;
		for(int j = 0; j < n; j++) { seq.push_back(ivs[x % ivs.size()]); x /= ivs.size(); }
		for(int j = 0; j < n; j++) ls.push_back("i " + S(C::from_int(seq[j].first)) + " " + S(C::from_int(seq[j].second)) + " " + std::to_string(j));
		vh::Lines qs;
		for(int lb = 0; lb <= u; lb++) for(int ub = lb; ub <= u; ub++) qs.push_back("q " + S(C::from_int(lb)) + " " + S(C::from_int(ub)));
		for(int p = 0; p <= u; p++) qs.push_back("p " + S(C::from_int(p)));
		// every query again with a callback that modifies the caller's bound variables
		static const char *modes[] = {"co", "cu", "ga"};
		for(int lb = 0; lb <= u; lb++) for(int ub = lb; ub <= u; ub++) qs.push_back(std::string("qm ") + modes[(lb + ub) % 3] + " " + S(C::from_int(lb)) + " " + S(C::from_int(ub)));
		for(int p = 0; p <= u; p++) qs.push_back(std::string("pm ") + modes[p % 3] + " " + S(C::from_int(p)));
		// typed instantiations: every query with non-negative bounds again with arguments of another arithmetic type
		if(std::string(C::name()) != "u64") {
			static const char *ikinds[] = {"u32", "usz", "i16", "i32"};
			bool fl = std::is_floating_point_v<E>;
			for(int lb = 4; lb <= u; lb++) for(int ub = lb; ub <= u; ub++)
				qs.push_back(std::string("qt ") + (fl ? "f32" : ikinds[(lb + ub) % 4]) + " " + S(C::from_int(lb)) + " " + S(C::from_int(ub)));
			for(int p = 4; p <= u; p++) qs.push_back(std::string("pt ") + (fl ? "f32" : ikinds[p % 4]) + " " + S(C::from_int(p)));
		}
		ls.insert(ls.end(), qs.begin(), qs.end());
		if(n >= 2) {
			int mx = 0;
			for(int j = 1; j < n; j++) if(seq[j].second > seq[mx].second) mx = j;
			int victim = k % 2 == 0 ? mx : (int)((k / 2) % n);
			ls.push_back("r " + std::to_string(victim));
			ls.insert(ls.end(), qs.begin(), qs.end());
		}
		return ls;
	}

	static void run_enum(int n, int u, unsigned long long shard, unsigned long long nshards) {
		unsigned long long niv = (unsigned long long)u * (u + 1) / 2, total = 1;
		for(int j = 0; j < n; j++) total *= niv;
		unsigned long long count = 0;
		g_fold = true; g_digest = 14695981039346656037ULL;
		for(unsigned long long k = shard; k < total; k += nshards) {
			run_tree(enum_script(n, u, k), n, false, 1);
			count++;
			if(vh::g_oracle_count > 0) { g_fold = false; printf("F %llu\n", k); return; }
			if(count % 1024 == 0) printf("d %llu %016llx\n", count, (unsigned long long)g_digest);
		}
		g_fold = false;
		printf("D %llu %016llx\n", count, (unsigned long long)g_digest);
	}

};

static void on_alarm(int) {
	static const char msg[] = "[timeout] operation on the tree did not terminate within the per-case limit\n";
	(void)!write(2, msg, sizeof msg - 1);
	_exit(96);
}

static void body(const vh::Lines &ls) {
	if(ls.empty()) return;
	signal(SIGPROF, on_alarm);
	struct itimerval tv = {};
	tv.it_value.tv_sec = ls.size() > 500 ? 150 : 3;
	setitimer(ITIMER_PROF, &tv, nullptr);
	auto t = vh::split(ls[0]);
	if((t.size() == 6 || t.size() == 7) && t[0] == "cfg" && t[2] == "enum") {
		std::string ty = t.size() == 7 ? t[6] : "u64";
		int n = atoi(t[1].c_str()), u = atoi(t[3].c_str());
		long long sh = atoll(t[4].c_str()), nsh = atoll(t[5].c_str());
		if(n < 1 || n > 6 || u < 1 || u > 8 || nsh < 1 || sh < 0 || sh >= nsh) { printf("badcfg\n"); return; }
		tv.it_value.tv_sec = 3000; setitimer(ITIMER_PROF, &tv, nullptr);
		if(ty == "f64") Har<double>::run_enum(n, u, sh, nsh);
		else if(ty == "i64") Har<int64_t>::run_enum(n, u, sh, nsh);
		else if(ty == "i32") Har<int32_t>::run_enum(n, u, sh, nsh);
		else Har<uint64_t>::run_enum(n, u, sh, nsh);
		return;
	}
	if((t.size() < 3 || t.size() > 5) || t[0] != "cfg") { printf("badcfg\n"); return; }
	std::string ty = t.size() == 5 ? t[4] : "u64";
	int every = t.size() >= 4 ? atoi(t[3].c_str()) : 1;
	int P = atoi(t[1].c_str());
	if(P < 1 || P > 200000) { printf("badcfg\n"); return; }
	if(ty == "f64") Har<double>::run_tree(ls, P, t[2] == "hash", every);
	else if(ty == "i64") Har<int64_t>::run_tree(ls, P, t[2] == "hash", every);
	else if(ty == "i32") Har<int32_t>::run_tree(ls, P, t[2] == "hash", every);
	else if(ty == "u64") Har<uint64_t>::run_tree(ls, P, t[2] == "hash", every);
	else printf("badcfg\n");
}

int main() { return vh::run(body); }
