"""Script generator for frg::interval_tree (C07).

Script:  cfg <pool> <full|hash> [every]         first line
         i <lo> <hi> <id> | r <id> | q <lb> <ub> | p <x> | w <id> <hi> | a <id> | A
         cfg <n> enum <u> <shard> <nshards>     (alone) self-enumeration inside harness / driver, digest output
Sources:
  corpus()             directed scripts (run first): one per mechanism of the property and per self-test mutation
  exhaustive(...)      every insertion sequence of n intervals over the endpoint universe {0..u-1}, followed by ALL
                       queries [lb,ub] (lb <= ub) and all point queries over {0..u}, then one removal and all queries again
  gen_case(rng, ...)   random / structured streams: duplicate, nested, touching, single-point intervals; queries
                       before / inside / touching / spanning / after (aimed with knowledge of the stored intervals);
                       removal of the node holding the maximum upper bound; ascending runs ending in an interval that
                       raises subtree_max along the whole right spine; sawtooth drain / refill
  gen_dirty(rng)       w / a / A streams: upper(node) overwritten without re-aggregation, then aggregate_path from
                       chosen nodes -- the states in which the early stop of aggregate_path is observable
  gen_big(rng, ...)    large trees in digest mode
"""


def _cfg(pool, mode="full", every=1):
    return "cfg %d %s %d" % (pool, mode, every)


def fmt_endpoint(typ, e, shift=4):
    """script token of the endpoint that the unsigned endpoint e stands for in a typed script:
    i64: e - shift (negative / mixed sign); f64: (e - shift) * 0.25 as %.17g (exactly representable, round-trips)"""
    if typ == "i64":
        return "%d" % (e - shift)
    if typ == "f64":
        return "%.17g" % ((e - shift) * 0.25)
    return "%d" % e


IKINDS = ["u32", "usz", "i16", "i32"]
KIND_MAX = {"u32": 4294967295, "usz": 1 << 62, "i16": 32767, "i32": 2147483647}
TYPE_IMAX = {"u64": 1 << 62, "i64": 1 << 62, "i32": 2147483647, "f64": 1 << 53}


def typed_twin(typ, toks, pick):
    """for a query whose (already converted) bound tokens are non-negative: the same query passed with arguments of
    another arithmetic type (qt / pt), or None.  pick(list) chooses the kind."""
    vals = [float(t) for t in toks]
    if any(v < 0 for v in vals):
        return None
    if all(v == int(v) and "." not in t and "e" not in t for v, t in zip(vals, toks)):
        kinds = [k for k in IKINDS if all(v <= KIND_MAX[k] and v <= TYPE_IMAX[typ] for v in vals)]
        if len(toks) == 2 and "i32" in kinds:
            kinds.append("mix")
        if typ == "f64":
            kinds.append("f32") if all(v < (1 << 24) for v in vals) else None
    elif typ == "f64":
        import struct
        kinds = ["f32"] if all(struct.unpack("f", struct.pack("f", v))[0] == v for v in vals) else []
    else:
        kinds = []
    if not kinds:
        return None
    k = pick(kinds)
    return ("qt %s %s %s" % (k, toks[0], toks[1])) if len(toks) == 2 else ("pt %s %s" % (k, toks[0]))


def retype(lines, typ, shift, rng=None):
    """the same script over another endpoint type: every endpoint e becomes fmt_endpoint(typ, e, shift) (order-preserving),
    the cfg line names the type.  All instantiations of the harness run the same histories.  Queries with non-negative
    bounds are followed (always without rng, with probability 1/2 with rng) by the same query passed with arguments of
    another arithmetic type (qt / pt: unsigned, size_t, short, int, float, mixed)."""
    w = lines[0].split()
    if w[2] == "enum":
        return list(lines)
    if len(w) == 3:
        w.append("1")
    out = [" ".join(w[:4] + ([typ] if typ != "u64" else []))]
    f = lambda e: fmt_endpoint(typ if typ != "i32" else "i64", int(e), shift if typ != "u64" else 0)
    cnt = [0]

    def pick(ks):
        if rng is not None:
            return rng.choice(ks)
        cnt[0] += 1
        return ks[cnt[0] % len(ks)]

    def twin(toks):
        if rng is not None and rng.random() < 0.5:
            return
        tw = typed_twin(typ, toks, pick)
        if tw:
            out.append(tw)
    for l in lines[1:]:
        t = l.split()
        if t[0] == "i":
            out.append("i %s %s %s" % (f(t[1]), f(t[2]), t[3]))
        elif t[0] == "q":
            out.append("q %s %s" % (f(t[1]), f(t[2])))
            if float(f(t[1])) <= float(f(t[2])):
                twin([f(t[1]), f(t[2])])
        elif t[0] == "p":
            out.append("p %s" % f(t[1]))
            twin([f(t[1])])
        elif t[0] in ("qm", "qn"):
            out.append("%s %s %s %s" % (t[0], t[1], f(t[2]), f(t[3])))
        elif t[0] in ("pm", "pn"):
            out.append("%s %s %s" % (t[0], t[1], f(t[2])))
        elif t[0] == "w":
            out.append("w %s %s" % (t[1], f(t[2])))
        else:
            out.append(l)
    return out


def all_intervals(u):
    return [(lo, hi) for lo in range(u) for hi in range(lo, u)]


MODES = ["co", "cu", "ga"]


def all_queries(u, inverted=False):
    """every [lb,ub] with lb <= ub over {0..u} (one beyond the universe: "after"), every point, optionally a few lb > ub"""
    qs = ["q %d %d" % (lb, ub) for lb in range(u + 1) for ub in range(lb, u + 1)]
    qs += ["p %d" % x for x in range(u + 1)]
    # every query again with a callback that modifies the caller's bound variables (coalescing / cursor / garbage)
    qs += ["qm %s %d %d" % (MODES[(lb + ub) % 3], lb, ub) for lb in range(u + 1) for ub in range(lb, u + 1)]
    qs += ["pm %s %d" % (MODES[x % 3], x) for x in range(u + 1)]
    if inverted:
        qs += ["q %d %d" % (lb, ub) for lb in range(1, u + 1) for ub in range(0, lb)]
    return qs


def enum_script(n, u, k, inverted=False, typ="u64"):
    """script number k of the enumeration of all sequences of n intervals over {0..u-1} (ids 0..n-1 in insertion
    order), followed by ALL queries, one removal (holder of the maximum for even k, node (k//2)%n for odd k) and all
    queries again.  Mirrored by enum_script in harness.cpp and driver.ml (self-enumeration of the thorough tier)."""
    ivs = all_intervals(u)
    qs = all_queries(u, inverted)
    x, seq = k, []
    for j in range(n):
        seq.append(ivs[x % len(ivs)]); x //= len(ivs)
    ins = ["i %d %d %d" % (lo, hi, j) for j, (lo, hi) in enumerate(seq)]
    if typ != "u64":
        # typed instantiation: endpoints through fmt_endpoint (shift 4), then every query with non-negative bounds again with
        # arguments of another arithmetic type (mirror of enum_script in harness.cpp / driver.ml)
        f = lambda e: fmt_endpoint("i64" if typ == "i32" else typ, e, 4)
        ins = ["i %s %s %d" % (f(lo), f(hi), j) for j, (lo, hi) in enumerate(seq)]
        def cv(q):
            t = q.split()
            k = 2 if t[0] in ("qm", "pm") else 1
            return " ".join(t[:k] + [f(int(x)) for x in t[k:]])
        qs = [cv(q) for q in qs]
        fl = typ == "f64"
        qs += ["qt %s %s %s" % ("f32" if fl else IKINDS[(lb + ub) % 4], f(lb), f(ub)) for lb in range(4, u + 1) for ub in range(lb, u + 1)]
        qs += ["pt %s %s" % ("f32" if fl else IKINDS[p % 4], f(p)) for p in range(4, u + 1)]
    lines = [_cfg(n) + ("" if typ == "u64" else " " + typ)] + ins + qs
    if n >= 2:
        mx = max(range(n), key=lambda j: (seq[j][1], -j))
        victim = mx if k % 2 == 0 else (k // 2) % n
        lines += ["r %d" % victim] + qs
    return lines


def exhaustive(n, u, inverted=False, typ="u64"):
    """all sequences of n intervals over {0..u-1} as explicit scripts (typ: endpoints e - 4 resp. (e - 4) / 4)"""
    return [("ex-%s-%d-%d-%d" % (typ, n, u, k), enum_script(n, u, k, inverted, typ)) for k in range(len(all_intervals(u)) ** n)]


def enum_cases(n, u, nshards, typ="u64"):
    """the same enumeration done inside harness and driver (digest of all canonical lines + oracle on every script)"""
    return [("enum-%s-%d-%d-%d" % (typ, n, u, sh), ["cfg %d enum %d %d %d %s" % (n, u, sh, nshards, typ)]) for sh in range(nshards)]


def fnv_lines(lines, h=14695981039346656037):
    for l in lines:
        for c in (l + "\n").encode():
            h = ((h ^ c) * 1099511628211) & 0xFFFFFFFFFFFFFFFF
    return h


class _State:
    def __init__(self, pool):
        self.pool = pool
        self.iv = {}                 # id -> (lo, hi)
        self.free = list(range(pool))

    def bounds(self):
        if not self.iv:
            return 0, 0
        return min(l for l, _ in self.iv.values()), max(h for _, h in self.iv.values())


def _query(rng, st, U, lines):
    """one query aimed at a class: before / after / touching / inside / spanning / point / random / inverted"""
    lo_min, hi_max = st.bounds()
    kind = rng.choice(["before", "after", "touch-hi", "touch-lo", "inside", "span", "point", "point-end", "random", "random", "inverted", "all"])
    ivs = list(st.iv.values())
    if kind == "before":
        ub = max(0, lo_min - rng.choice([0, 1, 1, 2])); lb = rng.randrange(0, ub + 1)
    elif kind == "after":
        lb = hi_max + rng.choice([0, 1, 1, 2]); ub = lb + rng.randrange(0, 3)
    elif kind == "touch-hi" and ivs:            # query starts exactly where a stored interval ends (or one after)
        h = rng.choice(ivs)[1]; lb = h + rng.choice([0, 0, 1]); ub = lb + rng.randrange(0, max(1, U // 4))
    elif kind == "touch-lo" and ivs:            # query ends exactly where a stored interval begins (or one before)
        l = rng.choice(ivs)[0]; ub = max(0, l - rng.choice([0, 0, 1])); lb = rng.randrange(max(0, ub - max(1, U // 4)), ub + 1)
    elif kind == "inside" and ivs:
        l, h = rng.choice(ivs); lb = rng.randrange(l, h + 1); ub = rng.randrange(lb, h + 1)
    elif kind == "span" and ivs:
        l, h = rng.choice(ivs); lb = max(0, l - rng.randrange(0, 3)); ub = h + rng.randrange(0, 3)
    elif kind == "point" or (kind == "point-end" and ivs):
        if kind == "point":
            x = rng.randrange(0, U + 1)
        else:
            l, h = rng.choice(ivs); x = rng.choice([l, h, h + 1, max(0, l - 1)])
        lines.append("p %d" % x)
        if rng.random() < 0.35:
            lines.append("pm %s %d" % (rng.choice(MODES), x))
        if len(st.iv) <= 64 and rng.random() < 0.3:
            lines.append("pn %s %d" % (rng.choice(["pt", "rg"]), x))
        return
    elif kind == "inverted":                    # lb > ub: outside the property, correspondence only
        ub = rng.randrange(0, U); lb = ub + 1 + rng.randrange(0, max(1, U // 2))
    elif kind == "all":
        lb, ub = 0, hi_max + 1
    else:
        lb = rng.randrange(0, U + 1); ub = rng.randrange(lb, U + 2)
    lines.append("q %d %d" % (lb, ub))
    if lb <= ub and rng.random() < 0.35:
        lines.append("qm %s %d %d" % (rng.choice(MODES), lb, ub))
    if lb <= ub and len(st.iv) <= 64 and rng.random() < 0.3:
        lines.append("qn %s %d %d" % (rng.choice(["pt", "rg"]), lb, ub))     # nested: inner query from inside the callback


def _interval(rng, st, U, style):
    ivs = list(st.iv.values())
    if style == "point":
        x = rng.randrange(U); return x, x
    if style == "dup" and ivs:
        return rng.choice(ivs)
    if style == "samelo" and ivs:
        l = rng.choice(ivs)[0]; return l, rng.randrange(l, U)
    if style == "nest-in" and ivs:
        l, h = rng.choice(ivs); a = rng.randrange(l, h + 1); return a, rng.randrange(a, h + 1)
    if style == "nest-out" and ivs:
        l, h = rng.choice(ivs); return rng.randrange(0, l + 1), rng.randrange(h, max(h + 1, U))
    if style == "touch" and ivs:
        l, h = rng.choice(ivs)
        if rng.random() < 0.5:
            return h, rng.randrange(h, max(h + 1, U))          # begins where the other ends
        return rng.randrange(0, l + 1), l                       # ends where the other begins
    if style == "short":
        l = rng.randrange(U); return l, min(U - 1, l + rng.randrange(0, 3))
    l = rng.randrange(U); return l, rng.randrange(l, U)


def gen_case(rng, style=None, pool=None, U=None):
    style = style or rng.choice(["mixed", "mixed", "mixed", "spine-raise", "spine-raise-left", "maxholder", "sawtooth", "nested", "touching", "points", "dups"])
    pool = pool or rng.choice([5, 6, 8, 12, 16, 24, 32, 48])
    U = U or rng.choice([4, 8, 8, 16, 100, 1 << 40])
    st = _State(pool)
    lines = [_cfg(pool)]

    def ins(lo=None, hi=None, istyle=None):
        if not st.free:
            return
        i = st.free.pop(0) if rng.random() < 0.5 else st.free.pop(rng.randrange(len(st.free)))
        if lo is None:
            lo, hi = _interval(rng, st, U, istyle or rng.choice(["any", "any", "point", "dup", "samelo", "nest-in", "nest-out", "touch", "short"]))
        st.iv[i] = (lo, hi)
        lines.append("i %d %d %d" % (lo, hi, i))

    def rem(which=None):
        if not st.iv:
            return
        if which == "max":          # the node(s) holding the maximum upper bound: subtree_max must shrink up the path
            m = max(h for _, h in st.iv.values())
            i = rng.choice([j for j, (_, h) in st.iv.items() if h == m])
        elif which == "minlo":
            i = min(st.iv, key=lambda j: st.iv[j][0])
        elif which == "maxlo":
            i = max(st.iv, key=lambda j: st.iv[j][0])
        else:
            i = rng.choice(list(st.iv))
        del st.iv[i]; st.free.append(i); st.free.sort()
        lines.append("r %d" % i)

    def qs(k):
        for _ in range(k):
            _query(rng, st, U if U <= 100 else (st.bounds()[1] + 2), lines)

    n = rng.randrange(pool, 3 * pool)
    if style in ("spine-raise", "spine-raise-left"):
        # monotone run of short intervals (long path), then intervals at the far end with a huge upper bound:
        # subtree_max must be raised along the whole spine (through nodes that were rotated); then remove them again
        ks = list(range(pool - 2))
        if style == "spine-raise-left":
            ks.reverse()
        for k in ks:
            ins(2 * k + 2, 2 * k + 2 + rng.randrange(0, 2))
            if rng.random() < 0.3:
                qs(1)
        far = (2 * (pool + 2)) if style == "spine-raise" else 0
        big = 1000 + rng.randrange(0, 5)
        ins(far, big); qs(3)
        ins(far, big - 1 if rng.random() < 0.5 else big); qs(2)
        rem("max"); qs(3); rem("max"); qs(3)
        for _ in range(pool // 2):
            rem(rng.choice(["max", None, "minlo", "maxlo"])); qs(1)
    elif style == "maxholder":
        for _ in range(pool):
            ins()
        qs(3)
        while st.iv:
            rem("max"); qs(2)
            if rng.random() < 0.2:
                ins()
    elif style == "sawtooth":
        for _ in range(2):
            while st.free:
                ins()
                if rng.random() < 0.3:
                    qs(1)
            while st.iv:
                rem(rng.choice(["max", "minlo", "maxlo", None, None]))
                if rng.random() < 0.5:
                    qs(1)
    else:
        istyle = {"nested": ["nest-in", "nest-out", "nest-in", "any"], "touching": ["touch", "touch", "short", "point"],
                  "points": ["point", "point", "short"], "dups": ["dup", "dup", "samelo", "any"]}.get(style)
        p = rng.choice([0.5, 0.6, 0.75])
        for _ in range(n):
            r = rng.random()
            if r < 0.35:
                qs(1)
            elif r < 0.35 + 0.65 * p:
                ins(istyle=rng.choice(istyle) if istyle else None)
            else:
                rem(rng.choice(["max", "max", None, None, "minlo", "maxlo"]))
            if rng.random() < 0.03:
                p = rng.choice([0.2, 0.5, 0.8])
        qs(4)
    if rng.random() < 0.05:
        # documented precondition: lower > upper stops in FRG_ASSERT (ends the case)
        if st.free:
            lines.append("i %d %d %d" % (5, 4, st.free[0]))
    return lines


def gen_dirty(rng, pool=None):
    """build a tree, then overwrite upper bounds without re-aggregation (w), call aggregate_path from chosen nodes (a),
    compare every subtree_max; finally A (everything re-aggregated), queries, and normal ops again"""
    pool = pool or rng.choice([4, 6, 8, 12, 16, 24])
    U = rng.choice([8, 16, 100])
    st = _State(pool)
    lines = [_cfg(pool)]
    for i in range(pool - rng.randrange(0, 2)):
        lo, hi = _interval(rng, st, U, rng.choice(["any", "short", "point", "touch"]))
        st.iv[i] = (lo, hi); st.free.remove(i)
        lines.append("i %d %d %d" % (lo, hi, i))
    for _ in range(rng.randrange(1, 4)):
        for _ in range(rng.randrange(1, 6)):
            mem = list(st.iv)
            r = rng.random()
            if r < 0.45:
                i = rng.choice(mem); lo, hi = st.iv[i]
                nh = rng.choice([lo, hi + 1, hi + U, max(lo, hi - 1), rng.randrange(lo, lo + 2 * U)])
                st.iv[i] = (lo, nh)
                lines.append("w %d %d" % (i, nh))
                if rng.random() < 0.4:
                    lines.append("a %d" % i)           # the intended use: change, then aggregate_path(node)
                elif rng.random() < 0.7:
                    # aggregate_path from other nodes first: below a stale node the walk stops early (observable),
                    # then from the changed node itself
                    for j in rng.sample(mem, min(len(mem), rng.randrange(1, 4))):
                        lines.append("a %d" % j)
                    lines.append("a %d" % i)
            elif r < 0.85:
                lines.append("a %d" % rng.choice(mem))
            else:
                _query(rng, st, U, lines)
        lines.append("A")
        for _ in range(3):
            _query(rng, st, U, lines)
        if st.iv and rng.random() < 0.7:
            i = rng.choice(list(st.iv)); del st.iv[i]; st.free.append(i); lines.append("r %d" % i)
        if st.free and rng.random() < 0.7:
            i = st.free.pop(0); lo, hi = _interval(rng, st, U, "any"); st.iv[i] = (lo, hi); lines.append("i %d %d %d" % (lo, hi, i))
    return lines


def gen_big(rng, pool, every):
    U = rng.choice([64, 1000, 1 << 40])
    lines = [_cfg(pool, "hash", every)]
    st = _State(pool)
    free = list(range(pool - 1, -1, -1))
    mem = []
    style = rng.choice(["random", "asc", "desc"])

    def ins(j):
        i = free.pop()
        lo = rng.randrange(U) if style == "random" else (j if style == "asc" else 10 * pool - j)
        hi = lo + rng.choice([0, 1, rng.randrange(0, 50), rng.randrange(0, U)])
        lines.append("i %d %d %d" % (lo, hi, i)); mem.append(i); st.iv[i] = (lo, hi)

    def rem():
        j = rng.randrange(len(mem))
        mem[j], mem[-1] = mem[-1], mem[j]
        i = mem.pop(); free.append(i); del st.iv[i]
        lines.append("r %d" % i)

    def q():
        lb = rng.randrange(U if style == "random" else 11 * pool)
        lines.append("q %d %d" % (lb, lb + rng.choice([0, 1, 5, 100])))
    for j in range(pool):
        ins(j)
        if j % 16 == 0:
            q()
    for j in range(pool // 2):
        rem()
        if rng.random() < 0.5:
            ins(pool + j)
        if j % 8 == 0:
            q()
    while len(mem) > pool // 4:
        rem()
    for _ in range(10):
        q()
    return lines


def corpus():
    """Directed scripts, run first.  No defect is known in interval_tree.hpp / the aggregator support; these pin down
    the mechanisms of the property and the self-test mutations of NOTES.md."""
    cs = []
    c = lambda name, pool, ops: cs.append(("corpus-" + name, [_cfg(pool)] + ops))
    Q8 = all_queries(8)
    # the history of the Examples in coq/Props/Properties_C07.v (demo_ops), then the queries stated there
    c("demo", 8, ["i 3 4 0", "i 1 6 1", "i 0 7 2", "i 4 4 3", "i 4 5 4", "i 5 7 5", "i 2 2 6", "i 3 4 7", "r 2", "r 5", "i 6 9 2", "r 1", "r 3",
                  "q 4 4", "q 5 6", "q 0 1", "q 10 12", "q 0 9", "p 2", "p 9", "q 3 3", "q 2 2", "w 6 20", "a 6", "A"] + Q8)
    c("empty", 2, ["q 0 7", "p 3", "i 2 5 0", "q 0 1", "q 0 2", "q 5 9", "q 6 9", "p 2", "p 5", "p 6", "r 0", "q 0 9"])
    # nested + touching + point intervals behind rotations, every query over {0..8}
    c("nested-touching-points", 8, ["i 3 4 0", "i 1 6 1", "i 0 7 2", "i 4 4 3", "i 4 5 4", "i 5 7 5", "i 2 2 6", "i 3 4 7"] + Q8
      + ["r 2"] + Q8 + ["r 1", "r 5"] + Q8)
    # CLRS pruning: left subtree's max >= lb but nothing in the left subtree overlaps -> right must not be needed;
    # and: overlap only in the right subtree although the left subtree was searched and found something
    c("prune-left-max", 8, ["i 4 4 0", "i 2 9 1", "i 6 6 2", "i 1 1 3", "i 3 3 4", "i 5 5 5", "i 7 8 6", "q 5 5", "q 6 7", "q 9 9", "q 10 12", "q 0 0", "p 9", "p 8", "p 4"])
    # lb == subtree_max of the left child (pruning test is <=, not <)
    c("prune-eq", 4, ["i 5 5 0", "i 1 3 1", "i 8 9 2", "q 3 4", "p 3", "q 4 4", "q 3 3"])
    # node's lo == ub: the node is hit, its right subtree has equal lo (duplicates go right)
    c("lo-eq-ub", 6, ["i 4 6 0", "i 4 4 1", "i 4 9 2", "i 4 5 3", "i 2 3 4", "q 0 4", "q 4 4", "p 4", "q 3 3"])
    # removal of the node holding the maximum: the max must shrink up the whole path (root included)
    c("remove-max-holder", 8, ["i %d %d %d" % (k, k + 1, k) for k in range(6)] + ["i 6 100 6", "q 50 60", "r 6", "q 50 60", "q 6 7", "i 0 90 6", "q 50 60", "r 6", "q 50 60"])
    # two-children removal where the predecessor carries the maximum / the removed node carries the maximum
    c("replace-node", 8, ["i 4 4 0", "i 2 2 1", "i 6 6 2", "i 1 1 3", "i 3 50 4", "i 5 5 5", "i 7 7 6", "q 40 45", "r 0", "q 40 45", "q 3 3", "r 4", "q 40 45", "q 2 7"])
    c("replace-node-2", 8, ["i 4 60 0", "i 2 2 1", "i 6 6 2", "i 1 1 3", "i 3 3 4", "i 5 5 5", "i 7 7 6", "q 40 45", "r 0", "q 40 45", "q 0 9"])
    # ascending run (left rotations at nodes whose annotation must be recomputed), big interval first / last
    c("asc-rot", 10, ["i 0 99 0"] + ["i %d %d %d" % (k, k, k) for k in range(1, 9)] + ["q 50 50", "r 0", "q 50 50", "i 9 99 0", "q 50 50", "q 9 9", "q 8 8"])
    c("desc-rot", 10, ["i 20 99 0"] + ["i %d %d %d" % (20 - k, 20 - k, k) for k in range(1, 9)] + ["q 50 50", "r 0", "q 50 50", "i 1 99 0", "q 50 50", "q 0 0", "p 1"])
    # inner-grandchild double rotations carrying a large upper bound
    c("double-rot", 6, ["i 10 10 0", "i 5 5 1", "i 7 80 2", "q 50 60", "i 20 20 3", "i 15 90 4", "q 85 85", "r 2", "q 50 60", "r 4", "q 50 95"])
    # duplicates: the same interval several times is reported once per node
    c("duplicates", 6, ["i 3 5 0", "i 3 5 1", "i 3 5 2", "i 3 5 3", "q 4 4", "q 5 6", "q 0 3", "q 6 7", "r 1", "q 4 4"])
    # inverted query lb > ub: outside the property (compared with the model only)
    c("inverted-query", 4, ["i 4 6 0", "i 1 2 1", "i 7 9 2", "q 5 3", "q 9 0", "q 6 5"])
    # lower > upper: FRG_ASSERT
    c("assert-lo-gt-hi", 4, ["i 1 2 0", "i 5 4 1", "q 0 9"])
    # early stop observable: stale ancestors, aggregate_path from below stops at the first unchanged node
    c("dirty-early-stop", 8, ["i %d %d %d" % (k, k, k) for k in range(7)] + ["w 0 50", "a 0", "w 5 60", "a 4", "a 6", "w 6 70", "a 6", "a 5", "A", "q 55 65", "w 6 6", "a 6", "w 0 0", "a 2", "a 0", "A", "q 0 100"])
    # shrunk replays of self-test mutations (NOTES.md) that were not already prefixes of corpus-demo
    c("selftest-replace-node-parent-path", 24, ["i 33 43 15", "i 49 68 12", "i 35 61 14", "i 15 80 11", "i 11 11 16", "r 11", "q 70 75", "q 62 68"])
    c("selftest-left-found-result", 4, ["i 2 2 0", "i 1 1 1", "i 3 3 2", "i 0 3 3", "q 3 3", "p 3", "q 2 3"])
    # the same histories on the signed and the double instantiation: all endpoints negative (shift 100, the scale 0.25 of
    # retype) and mixed sign (shift 4).  Seeded change C07-r4-2 (max_of(absent child) = numeric_limits<P>::min(), which is
    # the smallest POSITIVE double): first visible on "i -0.25 0 0" of corpus-f64-4-demo (subtree_max 2.2e-308 instead of 0).
    for name, ls in list(cs):
        for typ in ("i64", "i32", "f64"):
            for shift in (100, 4):
                cs.append(("%s-%s-%d" % (name.replace("corpus-", "corpus-%s-" % typ), "s", shift), retype(ls, typ, shift)))
    # seeded change C07-r7-2 (query bounds kept in members of the tree, read by reference during the walk: not re-entrant):
    # the callback of the outer query [0,9] runs an inner point / range query, after which the outer walk continues with the inner bounds
    NQ = ["qn %s %d %d" % (m, lb, ub) for m in ("pt", "rg") for lb in range(9) for ub in range(lb, 9)] + ["pn %s %d" % (m, x) for m in ("pt", "rg") for x in range(9)]
    cs.append(("corpus-nested", ["cfg 8 full 1", "i 3 4 0", "i 1 6 1", "i 0 7 2", "i 4 4 3", "i 4 5 4", "i 5 7 5", "i 2 2 6", "i 3 4 7", "q 0 9", "qn pt 0 9", "qn rg 0 9",
                                 "pn pt 4", "pn rg 4"] + NQ + ["r 2", "r 5"] + NQ))
    cs.append(("corpus-nested-f64", retype(["cfg 6 full 1", "i 4 6 0", "i 2 3 1", "i 7 9 2", "i 0 1 3", "i 5 8 4", "qn pt 0 9", "qn rg 0 9", "qn pt 3 4", "pn rg 5", "qn rg 2 7"], "f64", 4)))
    cs.append(("corpus-nested-i32", retype(["cfg 6 full 1", "i 4 6 0", "i 2 3 1", "i 7 9 2", "i 0 1 3", "i 5 8 4", "qn pt 0 9", "qn rg 0 9", "qn pt 3 4", "pn rg 5", "qn rg 2 7"], "i32", 100)))
    # seeded change C07-r6-2 (bounds taken as const P & alias the caller's variables): coalescing callback widens the bounds
    # during the traversal and [7,9] / [0,1] are reported for the query [3,4]; cursor advance in the point query
    cs.append(("corpus-qmut", ["cfg 6 full 1", "i 4 6 0", "i 2 3 1", "i 7 9 2", "i 0 1 3", "i 5 8 4", "q 3 4", "qm co 3 4", "qm cu 3 4", "qm ga 3 4",
                               "p 3", "pm co 3", "pm cu 3", "pm ga 3", "qm co 2 2", "pm cu 2", "qm ga 0 9"]))
    cs.append(("corpus-qmut-f64", ["cfg 6 full 1 f64", "i -1 0.5 0", "i -2 -1.25 1", "i 0.75 2 2", "i -4 -3 3", "i 0 1 4", "q -1.25 -1", "qm co -1.25 -1",
                                   "qm cu -1.25 -1", "qm ga -1.25 -1", "pm co -1.25", "pm cu -1", "pm ga 0"]))
    # seeded change C07-r5-1 (query bounds as deduced template types, compared per operand): a signed tree with a negative
    # bound, the query passed as size_t / unsigned -- the usual arithmetic conversions make -3 a huge unsigned number
    cs.append(("corpus-qtype-i64", ["cfg 4 full 1 i64", "i -3 2 0", "i 1 5 1", "i -7 -6 2", "q 1 2", "qt usz 1 2", "qt u32 1 2", "qt i16 1 2", "qt i32 1 2", "qt mix 1 2",
                                    "p 0", "pt usz 0", "pt u32 0", "p 6", "pt usz 6", "qt usz 0 9"]))
    cs.append(("corpus-qtype-i32", ["cfg 4 full 1 i32", "i -3 2 0", "i 1 5 1", "i -7 -6 2", "q 1 2", "qt u32 1 2", "qt usz 1 2", "qt i16 1 2", "qt mix 1 2",
                                    "p 0", "pt u32 0", "pt usz 0", "p 6", "pt u32 6", "qt u32 0 9"]))
    cs.append(("corpus-qtype-f64", ["cfg 4 full 1 f64", "i -0.75 0.5 0", "i 0.25 1.25 1", "i -2 -1.5 2", "q 0.25 0.5", "qt f32 0.25 0.5", "qt i32 0 1", "qt u32 1 1",
                                    "p 0", "pt f32 0", "pt i32 1", "pt usz 1", "qt f32 0.1 0.5", "qt i32 -1 1"]))
    return cs
