"""interval component (frg::interval_tree on rbtree.hpp's aggregator support, property C07): builds the model driver and
the harness, generates cases, runs legs C and O into the given Check."""
import os
import vlib
from comp.interval import gen
from comp.rb.check import CASE_NAMES, ROTATING

# rebalancing cases that re-aggregate rotated nodes + the replace_node path: zero hits = coverage rule broken
REQUIRED = sorted(ROTATING | {3, 4, 30, 31, 32, 40, 41, 42, 43})
EVENTS = ["max_raised", "max_shrunk", "early_differs", "early_same", "qtyped", "qmut", "qnested"]

RULE = ("seeded op scripts on frg::interval_tree instantiated with P = uint64_t, int64_t and double (the same histories with endpoints "
        "shifted / scaled: negative, mixed-sign, fractional; the N-endpoint model is compared through an order-isomorphic code) over a node pool (i lo hi id / r id / q lb ub / p x, plus w/a/A: upper(node) "
        "overwritten and rbtree::aggregate_path called from chosen nodes on stale trees): exhaustive insertion sequences over "
        "a small endpoint universe followed by ALL queries and a removal, random streams with duplicate / nested / touching / "
        "single-point intervals, queries before / inside / touching / spanning / after, removal of the holder of the maximum, "
        "monotone runs that raise subtree_max along a rotated spine, large trees (digest); after EVERY mutating op all five "
        "links + colour + subtree_max of EVERY pool node, root and first() are compared with the model, per query the exact "
        "callback sequence; non-trivial = distinct script with at least one rotation case and at least one query whose "
        "answer is a non-empty proper subset of the stored intervals; every rotating rebalancing case, replace_node, "
        "max-raised, max-shrunk and an observable early stop must be hit")
TRUSTED = ["extraction: ExtrOcamlBasic only; OCaml 4.13.1; comp/interval/driver.ml (prints layout, maxes, for_overlaps)",
           "correspondence harness comp/interval/harness.cpp (g++ -fsanitize=address,undefined, -fno-access-control)",
           "oracle: brute-force filter over the pool (exactly once each, no other), walker recomputing subtree_max from scratch + red-black checks",
           "the red-black core is the C06 model (Rb/RbModel.v): functional core + layout, individual pointer assignments compared not verified",
           "aggregate_path's early stop: zipper model (path_early) proved equal to the full recomputation the functional model does; "
           "tied to the code by the w/a scripts (stale trees) and by every subtree_max after every op",
           "endpoint codes of comp/interval/driver.ml (i64: sign bit flipped; f64: IEEE bits, negatives complemented): order-isomorphic maps "
           "into N so that the extracted N model answers for signed / double endpoints; C07_any_ordered_endpoint_type proves the same model "
           "text correct over any total preorder, C07_extracted_model_is_N_instance that the extracted model is its N instance",
           "Rb/RbCases.v (case tags) is statistics only"]
ASSUMPTIONS = ["insert only nodes not contained, remove only contained nodes (ids_fresh; documented precondition of rbtree)",
               "node identities of contained elements are pairwise distinct",
               "lower <= upper for every inserted interval (otherwise FRG_ASSERT stops the call: modelled, compared)",
               "endpoints are totally (pre)ordered by <=, < is its strict part (integers, doubles without NaN; NaN endpoints are skipped by harness and driver)",
               "a query keeps no state in the tree object: for_overlaps is re-entrant, a query started from inside a callback is an independent query "
               "and does not disturb the outer one (the model is a pure function); the harness runs nested queries (qn / pn) and checks outer and "
               "inner answers against the brute force and the model",
               "the query bounds are read once, at the call (passed by value): what the callback does to the caller's variables during the traversal "
               "does not change the answer; the harness runs callbacks that coalesce into / advance / trash the variables passed as bounds (qm / pm) "
               "and checks the answer for the ORIGINAL bounds",
               "the query bounds are converted to the endpoint type P once, at the call (for_overlaps takes P lb, P ub): the model knows only P-valued "
               "queries; the harness passes unsigned / size_t / short / int / float / mixed arguments holding the same value (qt / pt) and checks that "
               "the answer equals the P-typed query's (iv-qtype) and the brute force",
               "query with lb <= ub (for lb > ub the code's test differs from the property's; Example C07_inverted_query_differs)",
               "upper/lower of a contained node are not modified without calling aggregate_path (the w/a scripts do exactly that; C07_aggregate_path_restores)"]


def _strip_stats(c, model):
    """remove the '@' statistics lines of the model driver and tally them"""
    info = {}
    for cid, r in model.items():
        keep, rot, proper = [], False, False
        for l in r["lines"]:
            if l.startswith("@"):
                w = l[1:].split()
                if not w:
                    continue
                if w[0] == "q":
                    k, n = int(w[1]), int(w[2])
                    c.count("interval_query_" + ("empty_tree" if n == 0 else "none" if k == 0 else "all" if k == n else "proper_subset"))
                    proper = proper or 0 < k < n
                elif w[0] in EVENTS:
                    c.count("interval_" + w[0])
                else:
                    for x in w:
                        t = int(x)
                        c.count("interval_case_" + CASE_NAMES.get(t, str(t)))
                        rot = rot or t in ROTATING
            else:
                keep.append(l)
        r["lines"] = keep
        info[cid] = rot and proper
    return info


def _shrink(c, har):
    """delta-debug the first failing script of every oracle kind (ops only; the cfg line stays)"""
    seen = {}
    for idx, (kind, msg, cid, lines) in enumerate(c.oracle_fail):
        if kind in seen or len(lines) < 3:
            continue

        def pred(ops, kind=kind, cfg=lines[0]):
            r = vlib.run_cases(har, [("shrink", [cfg] + ops)], shards=1, timeout=120).get("shrink")
            if not r:
                return False
            if kind == "crash":
                return bool(r.get("crash"))
            return any(o.split(" ", 1)[0] == kind for o in r["oracle"])
        small = vlib.ddmin(lines[1:], pred, budget=60 if len(lines) > 1500 else 300)
        seen[kind] = [lines[0]] + small
        c.oracle_fail[idx] = (kind, msg + "  [script shrunk from %d to %d ops]" % (len(lines) - 1, len(small)), cid, seen[kind])


def _enum_followup(c, cases, impl, model, har, drv):
    """enum cases print digests only.  Oracle failure inside one ("F <k>"): re-run script k explicitly so that the
    violation carries a concrete, shrinkable script.  Digest mismatch without oracle failure: re-run the first
    differing block of 1024 scripts explicitly so that the diverging script is named."""
    extra = []
    for cid, ls in cases:
        w = ls[0].split() if ls else []
        if not (len(w) in (6, 7) and w[2] == "enum"):
            continue
        n, u, sh, nsh = int(w[1]), int(w[3]), int(w[4]), int(w[5])
        typ = w[6] if len(w) == 7 else "u64"
        ri, rm = impl.get(cid), model.get(cid)
        if not ri:
            continue
        done = [l for l in ri["lines"] if l.startswith("D ")]
        if done:
            cnt = int(done[0].split()[1])
            c.count("interval_enum_scripts", cnt); c.count("interval_enum_scripts_%s_%d_intervals_universe_%d" % (typ, n, u), cnt)
            c.evaluations += cnt - 1
        fail = [l for l in ri["lines"] if l.startswith("F ")]
        if fail:
            k = int(fail[0].split()[1])
            extra.append(("enumfail-%s-%d-%d-%d" % (typ, n, u, k), gen.enum_script(n, u, k, typ=typ)))
        elif rm and not ri.get("crash") and ri["lines"] != rm["lines"]:
            d = vlib.first_diff(ri["lines"], rm["lines"])
            blk = d[0] if d else 0
            ks = [sh + nsh * j for j in range(blk * 1024, (blk + 1) * 1024)]
            tot = len(gen.all_intervals(u)) ** n
            extra += [("enumdiff-%s-%d-%d-%d" % (typ, n, u, k), gen.enum_script(n, u, k, typ=typ)) for k in ks if k < tot]
    if extra:
        ri2 = vlib.run_cases(har, extra, timeout=600)
        rm2 = vlib.run_cases(drv, extra, timeout=600) if drv else {}
        _strip_stats(c, rm2)
        impl.update(ri2); model.update(rm2)
        reproduced = any(r["oracle"] or r.get("crash") for r in ri2.values())
        if reproduced:
            for cid, ls in cases:       # the explicit script carries the violation; the digest case would only repeat it
                if "enum" in ls[0] and impl.get(cid):
                    impl[cid]["oracle"] = []
        extra = [e for e in extra if not e[0].startswith("enumdiff") or impl[e[0]]["lines"] != model.get(e[0], {}).get("lines")][:50]
    return extra


def run(c):
    """legs C and O for the interval tree; returns False if the harness could not be built."""
    okm, mlog = vlib.coq_make(["Interval/IntervalExtract.vo"])
    okd, drv, dlog = vlib.ocaml_build("interval_m", ["interval_model"], os.path.join(vlib.ROOT, "comp/interval/driver.ml"))
    okh, har, hlog = vlib.cxx_build("interval_h", os.path.join(vlib.ROOT, "comp/interval/harness.cpp"))
    if not (okm and okd):
        c.broken.append("interval model extraction/driver build failed: " + (mlog[-500:] if not okm else dlog[-500:]))
    if not okh:
        c.broken.append("interval harness does not compile against the repo: " + hlog[-1500:])
        return False
    thorough = c.tier == "thorough"
    if c.replay:
        cases = vlib.read_replay(c.replay)
    else:
        cases = gen.corpus()
        # every generated history runs on one of the three instantiations of the harness: P = uint64_t, int64_t (endpoints
        # shifted: all negative / mixed sign), double (shifted and scaled by 0.25: negative, mixed-sign, fractional)
        def typed(ls):
            typ = c.rng.choice(["u64", "u64", "i64", "i64", "i32", "f64", "f64"])
            if typ == "i32" and any(int(x) >= (1 << 30) for l in ls[1:] if l[0] in "iqpw" for x in l.split()[1:] if x.isdigit()):
                typ = "i64"
            return gen.retype(ls, typ, c.rng.choice([100, 4, 4, 4, 0, 1 << 20]), c.rng)
        for i in range(8000 if thorough else 2000):
            cases.append(("g%d" % i, typed(gen.gen_case(c.rng))))
        for i in range(3000 if thorough else 600):
            cases.append(("d%d" % i, typed(gen.gen_dirty(c.rng))))
        for i in range(10 if thorough else 2):
            pool = c.rng.choice([3000, 8000] if thorough else [500, 1500])
            cases.append(("big%d-%d" % (i, pool), typed(gen.gen_big(c.rng, pool, 64 if pool >= 3000 else 16))))
        # exhaustive small scope: every insertion sequence x ALL queries (+ one removal, all queries again).
        # explicit scripts (with lb > ub queries; their '@' statistics feed the coverage rule) ...
        ex = gen.exhaustive(1, 8, inverted=True) + gen.exhaustive(2, 8 if thorough else 6, inverted=True) + gen.exhaustive(3, 3)
        ex += gen.exhaustive(2, 5, inverted=True, typ="f64") + gen.exhaustive(2, 5, inverted=True, typ="i64") + gen.exhaustive(3, 3, typ="f64")
        ivs = gen.all_intervals(8)
        qs = gen.all_queries(8)
        for k in range(1500 if thorough else 400):
            n = c.rng.choice([4, 5, 5, 6, 7])
            seq = [c.rng.choice(ivs) for _ in range(n)]
            lines = [gen._cfg(n)] + ["i %d %d %d" % (lo, hi, j) for j, (lo, hi) in enumerate(seq)] + qs
            nq = ["qn %s %d %d" % (c.rng.choice(["pt", "rg"]), lb, ub) for lb in range(9) for ub in range(lb, 9)] if k % 2 == 0 else []
            lines += nq + ["r %d" % c.rng.randrange(n)] + qs + nq
            ex.append(("exs-%d" % k, typed(lines)))
        # ... and the enumeration done inside harness and driver (digest of every canonical line, oracle on every script):
        # endpoint universe {0..7}: all sequences of <= 3 intervals (quick) / <= 4 intervals (thorough) x all queries
        if thorough:
            enum = gen.enum_cases(2, 8, 1) + gen.enum_cases(3, 8, 16) + gen.enum_cases(4, 8, 64) + gen.enum_cases(5, 5, 32) + gen.enum_cases(6, 3, 8)
            enum += gen.enum_cases(3, 8, 16, "f64") + gen.enum_cases(4, 8, 64, "f64") + gen.enum_cases(3, 8, 16, "i64") + gen.enum_cases(4, 6, 16, "i64") + gen.enum_cases(3, 8, 16, "i32")
        else:
            sh = c.rng.randrange(64)
            enum = gen.enum_cases(2, 8, 1) + gen.enum_cases(3, 8, 16) + gen.enum_cases(4, 4, 4) + [gen.enum_cases(4, 8, 64)[sh]] + [gen.enum_cases(5, 5, 256)[sh]]
            # the double / signed instantiations: endpoints (e - 4) * 0.25 resp. e - 4, i.e. negative and mixed sign
            enum += gen.enum_cases(3, 8, 16, "f64") + [gen.enum_cases(4, 8, 64, "f64")[sh]] + gen.enum_cases(3, 6, 8, "i64") + gen.enum_cases(3, 6, 8, "i32")
        ex += enum
        c.count("interval_exhaustive_cases", len(ex))
        cases += ex
    for _, ls in cases:
        c.count("interval_ops", len(ls) - 1)
        for l in ls[1:]:
            c.count("interval_op_" + {"i": "insert", "r": "remove", "q": "query2", "p": "query1", "qn": "query2_nested_inner_query_in_callback", "pn": "query1_nested_inner_query_in_callback", "qm": "query2_callback_mutates_bounds", "pm": "query1_callback_mutates_bounds", "qt": "query2_other_argument_type", "pt": "query1_other_argument_type", "w": "write_upper", "a": "aggregate_path", "A": "reaggregate"}.get(l.split()[0], "other"))
            if l.split()[0] == "q":
                w = l.split()
                if float(w[1]) > float(w[2]):
                    c.count("interval_query_inverted_lb_gt_ub")
        w = ls[0].split() if ls else []
        if len(w) >= 3:
            c.count("interval_endpoint_type_" + (w[-1] if w[-1] in ("i64", "i32", "f64") else "u64"))
            p = int(w[1]) if w[1].isdigit() else 0
            c.count("interval_pool_" + ("le8" if p <= 8 else "le24" if p <= 24 else "le64" if p <= 64 else "big"))
    # self-enumeration cases first (one long run each, spread over the shards), then big scripts
    order = sorted(cases, key=lambda cl: (0 if " enum " in cl[1][0] else 1, -len(cl[1])))
    impl = vlib.run_cases(har, order, timeout=1500)
    model = vlib.run_cases(drv, order, timeout=1500) if okd else {}
    info = _strip_stats(c, model)
    cases = cases + _enum_followup(c, cases, impl, model, har, drv if okd else None)
    if not c.replay and okd:
        missing = [CASE_NAMES[t] for t in REQUIRED if c.dist.get("interval_case_" + CASE_NAMES[t], 0) == 0]
        missing += [e for e in EVENTS if c.dist.get("interval_" + e, 0) == 0]
        missing += [q for q in ("none", "all", "proper_subset", "empty_tree") if c.dist.get("interval_query_" + q, 0) == 0]
        if missing:
            c.broken.append("interval coverage rule: never generated: " + ", ".join(missing))
    c.compare(cases, impl, model, lambda cid, lines, ri: "|".join(lines) if info.get(cid) else None)
    _shrink(c, har)
    return True
