(* driver for the extracted interval tree model: same scripts and the same canonical lines as
   comp/interval/harness.cpp.  Lines starting with '@' (rebalancing cases the operation went through, tags of
   Rb/RbCases.v, and annotation events) are statistics for the check and are stripped before the comparison. *)
let s_opt = function None -> "-" | Some i -> string_of_n i
let s_col = function None -> "-" | Some Red -> "R" | Some Black -> "B"
let n_of_int i = n_of_i64 (Int64.of_int i)
let int_of_n x = Int64.to_int (i64_of_n x)

let fnv (s : string) : int64 =
  let h = ref 0xcbf29ce484222325L in
  String.iter (fun c -> h := Int64.mul (Int64.logxor !h (Int64.of_int (Char.code c))) 1099511628211L) s;
  !h

exception Stop

(* endpoint types of the harness (cfg ... <u64|i64|f64>).  The extracted model has endpoints in N; signed integers and
   doubles are mapped to N by an ORDER-ISOMORPHIC code (the model only compares endpoints), and decoded for printing:
     i64: two's complement bits with the sign bit flipped;
     f64: IEEE bits, negative values bitwise complemented, others with the sign bit set (-0 is read as +0, NaN is skipped).
   enc_int: the endpoint an enumeration index stands for (mirror of Codec::from_int in harness.cpp). *)
type codec = { name : string; enc : string -> n option; dec : n -> string; of_int : int -> string;
               imax : int64; isf : bool }   (* largest integer query value exact in the endpoint type; floating point? *)
let two62 = Int64.shift_left 1L 62
let u64_codec = { name = "u64"; enc = (fun s -> Some (n_of_string s)); dec = string_of_n; of_int = string_of_int; imax = two62; isf = false }
let i64_codec = {
  name = "i64";
  enc = (fun s -> Some (n_of_i64 (Int64.logxor (Int64.of_string s) Int64.min_int)));
  dec = (fun c -> Printf.sprintf "%Ld" (Int64.logxor (i64_of_n c) Int64.min_int));
  of_int = (fun e -> string_of_int (e - 4)); imax = two62; isf = false }
let i32_codec = { i64_codec with name = "i32"; imax = 2147483647L }
let f64_str (f : float) = Printf.sprintf "%.17g" f
let f64_codec = {
  name = "f64";
  enc = (fun s -> let f = float_of_string s in
          if f <> f then None else
          let f = if f = 0.0 then 0.0 else f in
          let b = Int64.bits_of_float f in
          Some (n_of_i64 (if Int64.compare b 0L < 0 then Int64.lognot b else Int64.logor b Int64.min_int)));
  dec = (fun c -> let b = i64_of_n c in
          f64_str (Int64.float_of_bits (if Int64.compare b 0L < 0 then Int64.logxor b Int64.min_int else Int64.lognot b)));
  of_int = (fun e -> f64_str (float_of_int (e - 4) *. 0.25)); imax = Int64.shift_left 1L 53; isf = true }
(* qt / pt: is the token a value the harness passes with argument type [kind]?  (mirror of Har::conv in harness.cpp) *)
let kind_max = function "u32" -> Some 4294967295L | "usz" -> Some two62 | "i16" -> Some 32767L | "i32" -> Some 2147483647L | _ -> None
let typed_ok (cd : codec) (kind : string) (tok : string) : bool =
  match kind with
  | "f32" ->
    cd.isf && (match float_of_string_opt tok with
               | Some d -> d >= 0.0 && Int32.float_of_bits (Int32.bits_of_float d) = d
               | None -> false)
  | _ ->
    (match kind_max kind with
     | None -> false
     | Some qmax ->
       tok <> "" && String.length tok <= 18 && (let ok = ref true in String.iter (fun ch -> if ch < '0' || ch > '9' then ok := false) tok; !ok)
       && (let v = Int64.of_string tok in Int64.compare v qmax <= 0 && Int64.compare v cd.imax <= 0))
let codec_of = function "i32" -> Some i32_codec | "i64" -> Some i64_codec | "f64" -> Some f64_codec | "u64" -> Some u64_codec | _ -> None

(* output sink: normally stdout; in `enum` mode every canonical line is folded into a running FNV-1a digest *)
let folding = ref false
let digest = ref 0xcbf29ce484222325L
let emit (s : string) =
  if !folding then begin
    String.iter (fun c -> digest := Int64.mul (Int64.logxor !digest (Int64.of_int (Char.code c))) 1099511628211L) s;
    digest := Int64.mul (Int64.logxor !digest 10L) 1099511628211L
  end else (print_string s; print_string "\n")
let stat (s : string) = if not !folding then (print_string s; print_string "\n")

let rec body lines =
  match lines with
  | [] -> ()
  | hd :: ops ->
    let hdw = (match words hd with [a; b; c] -> [a; b; c; "1"; "u64"] | [a; b; c; d] -> [a; b; c; d; "u64"] | w -> w) in
    (match hdw with
     | ["cfg"; n; "enum"; u; sh; nsh] -> run_enum (int_of_string n) (int_of_string u) (int_of_string sh) (int_of_string nsh) u64_codec
     | ["cfg"; n; "enum"; u; sh; nsh; ty] when codec_of ty <> None ->
       (match codec_of ty with Some cd -> run_enum (int_of_string n) (int_of_string u) (int_of_string sh) (int_of_string nsh) cd | None -> ())
     | ["cfg"; p; mode; ev; ty] when codec_of ty <> None && (try int_of_string p >= 1 && int_of_string p <= 200000 with _ -> false) ->
       let cd = (match codec_of ty with Some cd -> cd | None -> u64_codec) in
       let pool = int_of_string p and hashmode = (mode = "hash") in
       let every = (match int_of_string_opt ev with Some e -> e | None -> 1) in
       let nlines = List.length ops and li = ref 0 in
       let t : (ielt, n) tree ref = ref E in
       let member = Array.make pool false in
       let lo_of = Array.make pool N0 in
       let dirty = ref false in
       let dump () =
         let b = Buffer.create 1024 in
         Buffer.add_string b ("t " ^ s_opt (root_id iid !t) ^ " " ^
                              (match first !t with None -> "-" | Some e -> string_of_n (iid e)));
         let hooks = Array.make pool null_hook in
         List.iter (fun (i, h) -> let k = int_of_n i in if k >= 0 && k < pool then hooks.(k) <- h) (List.rev (layout_list iid !t));
         if pool <= 16 then Array.iteri (fun i _ -> hooks.(i) <- layout iid !t (n_of_int i)) hooks;  (* the model's [layout] itself *)
         let mx = Array.make pool None in
         List.iter (fun (i, a) -> let k = int_of_n i in if k >= 0 && k < pool then mx.(k) <- Some a) (maxes !t);
         Array.iteri (fun i h ->
           Buffer.add_string b (Printf.sprintf " | %d:%s,%s,%s,%s,%s,%s,%s" i (s_opt h.h_parent) (s_opt h.h_left)
             (s_opt h.h_right) (s_opt h.h_pred) (s_opt h.h_succ) (s_col h.h_color) (match mx.(i) with None -> "-" | Some a -> cd.dec a))) hooks;
         let s = Buffer.contents b in
         if hashmode then emit (Printf.sprintf "h %016Lx" (fnv s)) else emit s in
       let dump () = if every <= 1 || !li mod every = 0 || !li = nlines then dump () in
       let cases cs = stat ("@" ^ String.concat " " (List.map string_of_n cs)) in
       let valid_id s = match int_of_string_opt s with Some i when i >= 0 && i < pool -> Some i | _ -> None in
       let root_max tr = match tr with E -> None | T (_, _, _, a, _) -> Some a in
       (try List.iter (fun l ->
         incr li;
         match words l with
         | ["i"; lo; hi; id] ->
           (match valid_id id, cd.enc lo, cd.enc hi with
            | Some i, Some elo, Some ehi when not member.(i) && not !dirty ->
              let x = mkI elo ehi (n_of_int i) in
              (match iinsert x !t with
               | None -> emit "assert"; raise Stop
               | Some t' ->
                 cases (insert_cases iless iagg x !t);
                 if root_max t' <> root_max !t then stat "@max_raised";
                 t := t'; member.(i) <- true; lo_of.(i) <- elo; dump ())
            | _ -> emit "skip")
         | ["r"; id] ->
           (match valid_id id with
            | Some i when member.(i) && not !dirty ->
              cases (remove_cases iid iagg (n_of_int i) !t);
              let t' = iremove (n_of_int i) !t in
              if root_max t' <> root_max !t && t' <> E then stat "@max_shrunk";
              t := t'; member.(i) <- false; dump ()
            | _ -> emit "skip")
         | ["q"; lb; ub] when cd.enc lb <> None && cd.enc ub <> None ->
           let get o = (match o with Some v -> v | None -> N0) in
           let r = for_overlaps (get (cd.enc lb)) (get (cd.enc ub)) !t in
           emit (String.concat " " ("o" :: List.map string_of_n r));
           if not !folding then stat (Printf.sprintf "@q %d %d" (List.length r) (size !t |> int_of_nat))
         | ["p"; x] when cd.enc x <> None ->
           let r = for_point (match cd.enc x with Some v -> v | None -> N0) !t in
           emit (String.concat " " ("o" :: List.map string_of_n r));
           if not !folding then stat (Printf.sprintf "@q %d %d" (List.length r) (size !t |> int_of_nat))
         | (["qn"; mode; lb; _] | ["pn"; mode; lb]) as ws when (mode = "pt" || mode = "rg")
                                   && List.for_all (fun x -> cd.enc x <> None) (List.tl (List.tl ws)) ->
           (* the model is a pure function: a query run from inside a callback is an independent query *)
           let get s = (match cd.enc s with Some v -> v | None -> N0) in
           let a = get lb in
           let b = (match ws with ["qn"; _; _; ub] -> get ub | _ -> a) in
           let hits = for_overlaps_nodes a b !t in
           emit (String.concat " " ("o" :: List.map (fun e -> string_of_n (iid e)) hits));
           List.iter (fun e ->
             let r = if mode = "rg" then for_overlaps (ilo e) (ihi e) !t else for_point (ilo e) !t in
             emit (String.concat " " (("in " ^ string_of_n (iid e) ^ " :") :: List.map string_of_n r))) hits;
           stat "@qnested"
         | ["qm"; mode; lb; ub] when List.mem mode ["co"; "cu"; "ga"] && cd.enc lb <> None && cd.enc ub <> None ->
           (* the model: the bounds are read once at the call; what the callback does to the caller's variables is irrelevant *)
           let get o = (match o with Some v -> v | None -> N0) in
           emit (String.concat " " ("o" :: List.map string_of_n (for_overlaps (get (cd.enc lb)) (get (cd.enc ub)) !t))); stat "@qmut"
         | ["pm"; mode; x] when List.mem mode ["co"; "cu"; "ga"] && cd.enc x <> None ->
           emit (String.concat " " ("o" :: List.map string_of_n (for_point (match cd.enc x with Some v -> v | None -> N0) !t))); stat "@qmut"
         | ["qt"; kind; lb; ub] when (if kind = "mix" then typed_ok cd "usz" lb && typed_ok cd "i32" ub else typed_ok cd kind lb && typed_ok cd kind ub) ->
           (* the model: the query is converted to the endpoint type once, whatever type the arguments had *)
           (match cd.enc lb, cd.enc ub with
            | Some a, Some b ->
              emit (String.concat " " ("o" :: List.map string_of_n (for_overlaps a b !t))); stat "@qtyped"
            | _ -> emit "skip")
         | ["pt"; kind; x] when kind <> "mix" && typed_ok cd kind x ->
           (match cd.enc x with
            | Some a -> emit (String.concat " " ("o" :: List.map string_of_n (for_point a !t))); stat "@qtyped"
            | None -> emit "skip")
         | ["w"; id; hi] ->
           (match valid_id id, cd.enc hi with
            | Some i, Some ehi when member.(i) && N.leb lo_of.(i) ehi ->
              t := iset_hi (n_of_int i) ehi !t; dirty := true; dump ()
            | _ -> emit "skip")
         | ["a"; id] ->
           (match valid_id id with
            | Some i when member.(i) ->
              (* aggregate_path WITH the early stop; '@' line: did the early stop leave the walk before the root
                 in a way that differs from recomputing the whole chain (only possible on a dirty tree) *)
              let te = iaggregate_path true (n_of_int i) !t in
              let tf = iaggregate_path false (n_of_int i) !t in
              if te <> tf then stat "@early_differs" else stat "@early_same";
              t := te; dump ()
            | _ -> emit "skip")
         | ["A"] -> t := iremk !t; dirty := false; dump ()
         | [] -> ()
         | _ -> emit "skip") ops
       with Stop -> ())
     | _ -> emit "badcfg")

(* self-enumeration, mirror of run_enum / enum_script in harness.cpp and of gen.enum_script *)
and enum_script n u k cd =
  let ivs = Array.of_list (List.concat (List.init u (fun lo -> List.init (u - lo) (fun d -> (lo, lo + d))))) in
  let niv = Array.length ivs in
  let seq = Array.make n (0, 0) in
  let x = ref k in
  for j = 0 to n - 1 do seq.(j) <- ivs.(!x mod niv); x := !x / niv done;
  let ins = List.init n (fun j -> Printf.sprintf "i %s %s %d" (cd.of_int (fst seq.(j))) (cd.of_int (snd seq.(j))) j) in
  let qs = List.concat (List.init (u + 1) (fun lb -> List.init (u + 1 - lb) (fun d -> Printf.sprintf "q %s %s" (cd.of_int lb) (cd.of_int (lb + d)))))
           @ List.init (u + 1) (fun p -> Printf.sprintf "p %s" (cd.of_int p)) in
  let modes = [| "co"; "cu"; "ga" |] in
  let qs = qs @ List.concat (List.init (u + 1) (fun lb -> List.init (u + 1 - lb) (fun d ->
                    Printf.sprintf "qm %s %s %s" modes.((lb + lb + d) mod 3) (cd.of_int lb) (cd.of_int (lb + d)))))
              @ List.init (u + 1) (fun p -> Printf.sprintf "pm %s %s" modes.(p mod 3) (cd.of_int p)) in
  let ikinds = [| "u32"; "usz"; "i16"; "i32" |] in
  let qs = if cd.name = "u64" then qs else
      qs @ List.concat (List.init (u + 1) (fun lb -> if lb < 4 then [] else List.init (u + 1 - lb) (fun d ->
              Printf.sprintf "qt %s %s %s" (if cd.isf then "f32" else ikinds.((lb + lb + d) mod 4)) (cd.of_int lb) (cd.of_int (lb + d)))))
         @ List.concat (List.init (u + 1) (fun p -> if p < 4 then [] else
              [Printf.sprintf "pt %s %s" (if cd.isf then "f32" else ikinds.(p mod 4)) (cd.of_int p)])) in
  let tail =
    if n >= 2 then begin
      let mx = ref 0 in
      for j = 1 to n - 1 do if snd seq.(j) > snd seq.(!mx) then mx := j done;
      let victim = if k mod 2 = 0 then !mx else (k / 2) mod n in
      (Printf.sprintf "r %d" victim) :: qs
    end else [] in
  (Printf.sprintf "cfg %d full 1 %s" n cd.name) :: (ins @ qs @ tail)

and run_enum n u shard nshards cd =
  let niv = u * (u + 1) / 2 in
  let total = ref 1 in
  for _ = 1 to n do total := !total * niv done;
  folding := true; digest := 0xcbf29ce484222325L;
  let count = ref 0 in
  let k = ref shard in
  while !k < !total do
    body (enum_script n u !k cd);
    incr count;
    if !count mod 1024 = 0 then Printf.printf "d %d %016Lx\n" !count !digest;
    k := !k + nshards
  done;
  folding := false;
  Printf.printf "D %d %016Lx\n" !count !digest

let () = run_cases body
