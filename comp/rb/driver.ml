(* driver for the extracted red-black tree model: same scripts and the same canonical state line as
   comp/rb/harness.cpp.  Lines starting with '@' (rebalancing cases the operation went through) are
   statistics for the check's histogram and are stripped before the comparison. *)
let s_opt = function None -> "-" | Some i -> string_of_n i
let s_col = function None -> "-" | Some Red -> "R" | Some Black -> "B"
let n_of_int i = n_of_i64 (Int64.of_int i)
let int_of_n x = Int64.to_int (i64_of_n x)

(* cfg <kind> <pool> <mode> [every [desc mask store]]: the state of the comparator object the harness hands to the rbtree
   constructor (DirLess: compares key^mask, descending if desc); the model's [less] is instantiated with the same state.
   [store] (how the harness creates the tree object) has no counterpart in the model. *)
let norm_cfg = function
  | [a; b; c; d] -> [a; b; c; d; "1"; "0"; "0"; "0"]
  | [a; b; c; d; e] -> [a; b; c; d; e; "0"; "0"; "0"]
  | w -> w
let dirless (desc : bool) (mask : n) : pelt -> pelt -> bool =
  pless (fun a b -> if desc then N.ltb (N.coq_lxor b mask) (N.coq_lxor a mask) else N.ltb (N.coq_lxor a mask) (N.coq_lxor b mask))

let fnv (s : string) : int64 =
  let h = ref 0xcbf29ce484222325L in
  String.iter (fun c -> h := Int64.mul (Int64.logxor !h (Int64.of_int (Char.code c))) 1099511628211L) s;
  !h

let body lines =
  match lines with
  | [] -> ()
  | hd :: ops ->
    let hdw = norm_cfg (words hd) in
    (match hdw with
     | ["cfg"; kind; p; mode; ev; desc; mask; _store] when (try int_of_string p >= 1 && int_of_string p <= 200000 with _ -> false) ->
       let cmp = kind <> "ord" and pool = int_of_string p and hashmode = (mode = "hash") in
       let every = (match int_of_string_opt ev with Some e -> e | None -> 1) in
       let nlines = List.length ops and li = ref 0 in
       let less = dirless (desc <> "0") (n_of_string mask) in
       let t : (pelt, unit) tree ref = ref E in
       let member = Array.make pool false in
       let dump () =
         let b = Buffer.create 1024 in
         Buffer.add_string b ("t " ^ s_opt (root_id pid !t) ^ " " ^
                              (match first !t with None -> "-" | Some e -> string_of_n (pid e)));
         let hooks =
           if pool <= 64 then Array.init pool (fun i -> layout pid !t (n_of_int i))   (* the model's [layout] itself *)
           else begin                                                                 (* same function, one traversal *)
             let a = Array.make pool null_hook in
             List.iter (fun (i, h) -> let k = int_of_n i in if k >= 0 && k < pool then a.(k) <- h) (List.rev (layout_list pid !t));
             a end in
         Array.iteri (fun i h ->
           Buffer.add_string b (Printf.sprintf " | %d:%s,%s,%s,%s,%s,%s" i (s_opt h.h_parent) (s_opt h.h_left)
             (s_opt h.h_right) (s_opt h.h_pred) (s_opt h.h_succ) (s_col h.h_color))) hooks;
         let s = Buffer.contents b in
         if hashmode then Printf.printf "h %016Lx\n" (fnv s) else (print_string s; print_string "\n") in
       let dump () = if every <= 1 || !li mod every = 0 || !li = nlines then dump () in
       let cases cs = print_string ("@" ^ String.concat " " (List.map string_of_n cs) ^ "\n") in
       let valid_id s = match int_of_string_opt s with Some i when i >= 0 && i < pool -> Some i | _ -> None in
       List.iter (fun l ->
         incr li;
         match words l with
         | ["i"; k; id] when cmp ->
           (match valid_id id with
            | Some i when not member.(i) ->
              let x = (n_of_string k, n_of_int i) in
              cases (insert_cases less pagg x !t);
              t := insert less pagg x !t; member.(i) <- true; dump ()
            | _ -> print_string "skip\n")
         | ["b"; bf; id] when not cmp ->
           let bid = if bf = "-" then Some (-1) else (match int_of_string_opt bf with Some i when i < pool -> Some i | _ -> None) in
           (match valid_id id, bid with
            | Some i, Some bi when not member.(i) && (bi < 0 || member.(bi)) ->
              let x = (N0, n_of_int i) in
              let before = if bi < 0 then None else Some (n_of_int bi) in
              cases (insert_before_cases pid pagg before x !t);
              t := insert_before pid pagg before x !t; member.(i) <- true; dump ()
            | _ -> print_string "skip\n")
         | ["r"; id] ->
           (match valid_id id with
            | Some i when member.(i) ->
              cases (remove_cases pid pagg (n_of_int i) !t);
              t := remove pid pagg (n_of_int i) !t; member.(i) <- false; dump ()
            | _ -> print_string "skip\n")
         | [] -> ()
         | _ -> print_string "skip\n") ops
     | _ -> print_string "badcfg\n")


(* ---------------------------------------------------------------------------------------------
   model-guided script generator:  <driver> gen <seed> <count> <maxpool>
   Knows the model's current tree, so it can pick operations by ROLE (root, leaf, red/black leaf, two
   children, predecessor is the left child, one child, minimum, maximum) and can AIM at the
   rebalancing case that has been hit least so far (tags of Rb/RbCases.v). Prints cases in the case
   protocol; the scripts are then run on the real code and on the model like any other script. *)
let rec collect f t acc = match t with
  | E -> acc
  | T (c, l, x, _, r) ->
    let acc = if f c l r then int_of_n (pid x) :: acc else acc in
    collect f l (collect f r acc)
let is_e = function E -> true | _ -> false
let roles : (string * (color -> (pelt, unit) tree -> (pelt, unit) tree -> bool)) list = [
  "leaf", (fun _ l r -> is_e l && is_e r);
  "redleaf", (fun c l r -> c = Red && is_e l && is_e r);
  "blackleaf", (fun c l r -> c = Black && is_e l && is_e r);
  "two", (fun _ l r -> not (is_e l) && not (is_e r));
  "predleft", (fun _ l r -> not (is_e r) && (match l with T (_, _, _, _, E) -> true | _ -> false));
  "preddeep", (fun _ l r -> not (is_e r) && (match l with T (_, _, _, _, T _) -> true | _ -> false));
  "onlyleft", (fun _ l r -> not (is_e l) && is_e r);
  "onlyright", (fun _ l r -> is_e l && not (is_e r));
  "blackinner", (fun c l r -> c = Black && not (is_e l) && not (is_e r));
]

let gen seed count maxpool =
  Random.init seed;
  let hits : (int, int) Hashtbl.t = Hashtbl.create 64 in
  let all_tags = [1;2;3;4;5;6;7;8;9;10;11;12;13;14;20;21;22;23;24;30;31;32;40;41;42;43;44] in
  List.iter (fun g -> Hashtbl.replace hits g 0) all_tags;
  let score cs = List.fold_left (fun m c -> min m (try Hashtbl.find hits (int_of_n c) with Not_found -> 0)) max_int cs in
  let note cs = List.iter (fun c -> let k = int_of_n c in Hashtbl.replace hits k (1 + try Hashtbl.find hits k with Not_found -> 0)) cs in
  let pick l = List.nth l (Random.int (List.length l)) in
  for cn = 0 to count - 1 do
    let cmp = Random.int 4 <> 0 in
    let pool = pick (List.filter (fun p -> p <= maxpool) [6; 8; 12; 16; 24; 40; 64]) in
    let keyspace = pick [3; 10; 1000] in
    let nops = 10 + Random.int (3 * pool) in
    let less = pless N.ltb in
    let t : (pelt, unit) tree ref = ref E in
    let member = Array.make pool false in
    Printf.printf "#case gd%d-%s-p%d-k%d\ncfg %s %d full\n" cn (if cmp then "cmp" else "ord") pool keyspace (if cmp then "cmp" else "ord") pool;
    let phase = ref (pick ["grow"; "churn"; "drain"; "grow"]) in
    for _ = 1 to nops do
      if Random.int 12 = 0 then phase := pick ["grow"; "churn"; "drain"];
      let mem = List.filter (fun i -> member.(i)) (List.init pool (fun i -> i)) in
      let free = List.filter (fun i -> not member.(i)) (List.init pool (fun i -> i)) in
      let p_ins = match !phase with "grow" -> 0.85 | "churn" -> 0.5 | _ -> 0.15 in
      let do_ins = mem = [] || (free <> [] && Random.float 1.0 < p_ins) in
      if do_ins then begin
        let id = if Random.bool () then List.hd free else pick free in
        if cmp then begin
          let cands = List.init 8 (fun _ -> Random.int keyspace) in
          let key =
            if Random.int 10 < 6 then
              snd (List.fold_left (fun (bs, bk) k ->
                let s = score (insert_cases less pagg (n_of_int k, n_of_int id) !t) in
                if s < bs then (s, k) else (bs, bk)) (max_int, List.hd cands) cands)
            else List.hd cands in
          let x = (n_of_int key, n_of_int id) in
          note (insert_cases less pagg x !t);
          t := insert less pagg x !t; member.(id) <- true;
          Printf.printf "i %d %d\n" key id
        end else begin
          let cands = None :: List.map (fun i -> Some i) mem in
          let x = (N0, n_of_int id) in
          let conv = function None -> None | Some i -> Some (n_of_int i) in
          let bf =
            if Random.int 10 < 6 then
              snd (List.fold_left (fun (bs, bk) k ->
                let s = score (insert_before_cases pid pagg (conv k) x !t) in
                if s < bs || (s = bs && Random.int 3 = 0) then (s, k) else (bs, bk)) (max_int, None) cands)
            else pick cands in
          note (insert_before_cases pid pagg (conv bf) x !t);
          t := insert_before pid pagg (conv bf) x !t; member.(id) <- true;
          Printf.printf "b %s %d\n" (match bf with None -> "-" | Some i -> string_of_int i) id
        end
      end else begin
        let r = Random.int 10 in
        let id =
          if r < 5 then
            snd (List.fold_left (fun (bs, bk) k ->
              let s = score (remove_cases pid pagg (n_of_int k) !t) in
              if s < bs || (s = bs && Random.int 3 = 0) then (s, k) else (bs, bk)) (max_int, List.hd mem) mem)
          else if r < 6 then (match root_id pid !t with Some i -> int_of_n i | None -> List.hd mem)
          else if r < 9 then
            (let (_, f) = pick roles in
             match collect f !t [] with [] -> pick mem | l -> pick l)
          else pick mem in
        note (remove_cases pid pagg (n_of_int id) !t);
        t := remove pid pagg (n_of_int id) !t; member.(id) <- false;
        Printf.printf "r %d\n" id
      end
    done
  done


(* ---------------------------------------------------------------------------------------------
   POINTER-LEVEL model (Rb/RbPtr.v):  <driver> ptr   — same scripts, same canonical state line, but every line
   is produced by running the assignment-by-assignment transliteration of rbtree.hpp on a heap of hooks
   (p_insert / p_remove / p_insert_before / p_first; rotateLeft / rotateRight for the `raw` scripts that call
   the private rotation helpers directly).  Nothing of the functional model is used here.
   Heap representation: the extracted heap is a closure chain (one closure per assignment).  To keep lookups
   O(1) on 10^4-node trees the driver re-tabulates after every operation: the ids written by the operation
   (p_wlog, instrumentation of the model) are read through the chain and stored in an array, and the next
   operation starts from the array-backed function — extensionally the same heap. *)
let ptr_fuel = nat_of_int 400

let body_ptr lines =
  match lines with
  | [] -> ()
  | hd :: ops ->
    let hdw = norm_cfg (words hd) in
    (match hdw with
     | ["cfg"; kind; p; mode; ev; desc; mask; _store] when (try int_of_string p >= 1 && int_of_string p <= 200000 with _ -> false) ->
       let cmp = kind <> "ord" and raw = (kind = "raw") and pool = int_of_string p and hashmode = (mode = "hash") in
       let every = (match int_of_string_opt ev with Some e -> e | None -> 1) in
       let nlines = List.length ops and li = ref 0 in
       let less = dirless (desc <> "0") (n_of_string mask) in
       let keys = Array.make pool N0 in
       let ek (i : n) : pelt = let k = int_of_n i in ((if k >= 0 && k < pool then keys.(k) else N0), i) in
       let arr = Array.make pool null_hook in
       let base (j : n) : hook = let k = int_of_n j in if k >= 0 && k < pool then arr.(k) else null_hook in
       let st : unit pstate ref = ref { pp_empty with p_hooks = base } in
       let member = Array.make pool false in
       let stopped = ref false in
       let undo : (int * bool) option ref = ref None in
       let flush (s' : unit pstate) =
         let vals = List.map (fun i -> (int_of_n i, s'.p_hooks i)) s'.p_wlog in
         List.iter (fun (k, h) -> if k >= 0 && k < pool then arr.(k) <- h) (List.rev vals);
         st := { p_hooks = base; p_root = s'.p_root; p_annots = s'.p_annots; p_wlog = [] } in
       let dump () =
         let b = Buffer.create 1024 in
         let fst_s = (match p_first ptr_fuel !st with
                      | POk None -> "-" | POk (Some i) -> string_of_n i
                      | PAssert _ -> "assert" | PUB _ -> "ub" | POutOfFuel -> "outoffuel") in
         Buffer.add_string b ("t " ^ s_opt (!st).p_root ^ " " ^ fst_s);
         Array.iteri (fun i h ->
           Buffer.add_string b (Printf.sprintf " | %d:%s,%s,%s,%s,%s,%s" i (s_opt h.h_parent) (s_opt h.h_left)
             (s_opt h.h_right) (s_opt h.h_pred) (s_opt h.h_succ)
             (if not member.(i) then "-" else match h.h_color with Some Red -> "R" | Some Black -> "B" | None -> "?"))) arr;
         let s = Buffer.contents b in
         if hashmode then Printf.printf "h %016Lx\n" (fnv s) else (print_string s; print_string "\n") in
       let dump () = if every <= 1 || !li mod every = 0 || !li = nlines then dump () in
       let finish (r : unit pstate pres) (after : unit -> unit) =
         match r with
         | POk s' -> flush s'; after (); dump ()
         | PAssert _ -> print_string "assert\n"; stopped := true
         | PUB l -> print_string ("ub " ^ string_of_n l ^ "\n"); stopped := true
         | POutOfFuel -> print_string "outoffuel\n"; stopped := true in
       let valid_id s = match int_of_string_opt s with Some i when i >= 0 && i < pool -> Some i | _ -> None in
       List.iter (fun l ->
         incr li;
         if not !stopped then
         match words l with
         | ["i"; k; id] when cmp ->
           (match valid_id id with
            | Some i when not member.(i) ->
              keys.(i) <- n_of_string k;
              finish (p_insert less pagg paeqb ek ptr_fuel !st (n_of_int i)) (fun () -> member.(i) <- true)
            | _ -> print_string "skip\n")
         | ["b"; bf; id] when not cmp ->
           let bid = if bf = "-" then Some (-1) else (match int_of_string_opt bf with Some i when i < pool -> Some i | _ -> None) in
           (match valid_id id, bid with
            | Some i, Some bi when not member.(i) && (bi < 0 || member.(bi)) ->
              keys.(i) <- N0;
              let before = if bi < 0 then None else Some (n_of_int bi) in
              finish (p_insert_before pagg paeqb ek ptr_fuel !st before (n_of_int i)) (fun () -> member.(i) <- true)
            | _ -> print_string "skip\n")
         | ["r"; id] ->
           (match valid_id id with
            | Some i when member.(i) ->
              finish (p_remove pagg paeqb ek ptr_fuel !st (n_of_int i)) (fun () -> member.(i) <- false)
            | _ -> print_string "skip\n")
         | [("L" | "R") as o; id] when raw ->
           (* the private helpers rotateLeft(n) / rotateRight(n), called directly; only when their assertion holds *)
           (match valid_id id with
            | Some i when member.(i) ->
              let h = arr.(i) in
              (match h.h_parent with
               | Some u when (let hu = base u in (if o = "L" then hu.h_right else hu.h_left) = Some (n_of_int i)) ->
                 finish ((if o = "L" then rotateLeft else rotateRight) pagg paeqb ek !st (n_of_int i))
                   (fun () -> undo := Some (int_of_n u, o = "L"))
               | _ -> print_string "skip\n")
            | _ -> print_string "skip\n")
         | ["U"] when raw ->
           (match !undo with
            | Some (i, was_left) when member.(i) ->
              (match arr.(i).h_parent with
               | Some u when (let hu = base u in (if was_left then hu.h_left else hu.h_right) = Some (n_of_int i)) ->
                 finish ((if was_left then rotateRight else rotateLeft) pagg paeqb ek !st (n_of_int i)) (fun () -> undo := None)
               | _ -> print_string "skip\n")
            | _ -> print_string "skip\n")
         | [] -> ()
         | _ -> print_string "skip\n") ops
     | _ -> print_string "badcfg\n")

let () =
  if Array.length Sys.argv >= 2 && Sys.argv.(1) = "ptr" then run_cases body_ptr
  else if Array.length Sys.argv >= 5 && Sys.argv.(1) = "gen" then
    gen (int_of_string Sys.argv.(2)) (int_of_string Sys.argv.(3)) (int_of_string Sys.argv.(4))
  else run_cases body
