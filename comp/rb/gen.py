"""Script generator for frg::rbtree / frg::rbtree_order (C06).

Script:  cfg <cmp|ord> <pool> <full|hash> [every]      first line
         i <key> <id> | b <beforeid|-> <id> | r <id>
Three sources:
  corpus()            minimised directed scripts (one per rebalancing case family; run first)
  gen_case(rng, ...)  plain random / structured streams: heavy duplicates (key spaces 3, 10, 1000),
                      ascending / descending runs, sawtooth (drain completely and re-insert every hook),
                      big trees (digest mode)
  guided(...)         the model-guided generator inside the model driver (`rb_m gen seed n maxpool`):
                      removal by role (root, red/black leaf, two children, predecessor is the left child,
                      one child) and aiming at the least-hit insertion/removal rebalancing case
  exhaustive(...)     every insert/remove sequence of a given length over <= maxm elements, keys {0..nkeys-1}
  gen_raw(rng)        `cfg raw` scripts for the pointer-level model only: insert/remove interleaved with direct calls
                      of the private helpers rotateLeft(n) / rotateRight(n) (ops `L id` / `R id`)
"""
import subprocess

KEYSPACES = [3, 10, 1000]


def _cfg(kind, pool, mode="full", every=1):
    return "cfg %s %d %s %d" % (kind, pool, mode, every)


def gen_case(rng, style=None, pool=None, keyspace=None):
    style = style or rng.choice(["mixed", "mixed", "dup", "asc", "desc", "sawtooth", "zigzag",
                                 "ord-append", "ord-front", "ord-random", "ord-random"])
    pool = pool or rng.choice([6, 8, 12, 16, 24, 32, 48, 64])
    keyspace = keyspace or rng.choice(KEYSPACES)
    kind = "ord" if style.startswith("ord") else "cmp"
    lines = [_cfg(kind, pool)]
    mem, free = [], list(range(pool))

    def ins(key=None, before=None):
        if not free:
            return
        i = free.pop(0) if rng.random() < 0.5 else free.pop(rng.randrange(len(free)))
        if kind == "cmp":
            lines.append("i %d %d" % (rng.randrange(keyspace) if key is None else key, i))
            mem.append(i)
        else:
            if before == "first":
                b = mem[0] if mem else None
            elif before == "last":
                b = None
            else:
                b = rng.choice(mem + [None]) if mem else None
            lines.append("b %s %d" % ("-" if b is None else b, i))
            if b is None:
                mem.append(i)
            else:
                mem.insert(mem.index(b), i)

    def rem(which=None):
        if not mem:
            return
        if which == "first":
            i = mem[0]
        elif which == "last":
            i = mem[-1]
        else:
            i = rng.choice(mem)
        mem.remove(i); free.append(i); free.sort()
        lines.append("r %d" % i)

    n = rng.randrange(pool, 4 * pool)
    if style in ("asc", "desc"):
        # monotone runs: always the same rotation direction, then removal in a fixed or random order
        ks = list(range(pool)) if style == "asc" else list(range(pool, 0, -1))
        for k in ks:
            ins(key=k if rng.random() < 0.9 else ks[0])
        order = rng.choice(["first", "last", None])
        for _ in range(rng.randrange(pool // 2, pool + 1)):
            rem(order)
        for _ in range(pool // 2):
            ins()
    elif style == "sawtooth":
        for _ in range(3):
            while free:
                ins()
            while mem:
                rem(rng.choice(["first", "last", None, None]))
    elif style == "zigzag":
        lo, hi = 0, 2 * pool
        for j in range(pool):
            if j % 2:
                ins(key=lo); lo += 1
            else:
                ins(key=hi); hi -= 1
        for _ in range(pool):
            rem()
            if rng.random() < 0.3:
                ins()
    elif style == "ord-append":
        for _ in range(n):
            if rng.random() < 0.75:
                ins(before="last")
            else:
                rem()
    elif style == "ord-front":
        for _ in range(n):
            if rng.random() < 0.75:
                ins(before="first")
            else:
                rem(rng.choice(["first", None]))
    else:   # mixed, dup, ord-random
        if style == "dup":
            keyspace = 3
        p = rng.choice([0.5, 0.6, 0.75])
        for _ in range(n):
            if rng.random() < p:
                ins()
            else:
                rem()
            if rng.random() < 0.03:
                p = rng.choice([0.2, 0.5, 0.8])
    return lines


def gen_big(rng, pool, every):
    """large tree in digest mode: grow to ~pool, churn, drain half; state digest + oracle every `every` ops"""
    kind = "cmp" if rng.random() < 0.8 else "ord"
    keyspace = rng.choice([10, 1000, 1 << 40])
    lines = [_cfg(kind, pool, "hash", every)]
    mem, free = [], list(range(pool - 1, -1, -1))
    style = rng.choice(["random", "asc", "desc"])

    def ins(j):
        i = free.pop()
        if kind == "cmp":
            k = rng.randrange(keyspace) if style == "random" else (j if style == "asc" else 10 * pool - j)
            lines.append("i %d %d" % (k, i))
        else:
            b = rng.choice(mem) if mem and rng.random() < 0.7 else None
            lines.append("b %s %d" % ("-" if b is None else b, i))
        mem.append(i)

    def rem():
        j = rng.randrange(len(mem))
        mem[j], mem[-1] = mem[-1], mem[j]
        i = mem.pop(); free.append(i)
        lines.append("r %d" % i)
    for j in range(pool):
        ins(j)
    for j in range(pool // 2):
        rem()
        if rng.random() < 0.5:
            ins(pool + j)
    while len(mem) > pool // 4:
        rem()
    return lines


def gen_raw(rng, pool=None):
    """`cfg raw`: the private rotation helpers are called directly (compared with the pointer-level model only, no
    oracle).  Two flavours:
      undo   every rotation (`L id` / `R id`; harness and model driver skip one whose own assertion would not hold) is
             followed by `U` (the inverse rotation), so the tree stays red-black and inserts/removes go on;
      keep   rotations are kept; afterwards only inserts and further rotations (fix_insert on a consistent search tree
             that is not red-black cannot dereference null, but may stop in an FRG_ASSERT -- in the real code and in
             the model at the same op; remove on such a tree has undefined behaviour in the C++ and is not issued)."""
    pool = pool or rng.choice([4, 6, 8, 12, 16, 24])
    keyspace = rng.choice(KEYSPACES)
    flavour = rng.choice(["undo", "undo", "keep"])
    lines = [_cfg("raw", pool)]
    mem, free = [], list(range(pool))

    def ins():
        if free:
            i = free.pop(rng.randrange(len(free)))
            lines.append("i %d %d" % (rng.randrange(keyspace), i)); mem.append(i)

    def rem():
        if mem:
            i = mem.pop(rng.randrange(len(mem))); free.append(i)
            lines.append("r %d" % i)
    for _ in range(rng.randrange(2, pool + 1)):
        ins()
    for _ in range(rng.randrange(0, pool // 2)):
        rem() if rng.random() < 0.5 else ins()
    p_rot = rng.choice([0.9, 0.6, 0.3])
    for _ in range(rng.randrange(4, 3 * pool)):
        r = rng.random()
        if r < p_rot and mem:
            i = rng.choice(mem)
            if flavour == "undo":
                # both directions at the same node: at most one is applicable; each is undone at once
                for o in rng.sample(["L", "R"], 2):
                    lines.append("%s %d" % (o, i)); lines.append("U")
            else:
                lines.append("%s %d" % (rng.choice("LR"), i))
        elif flavour == "keep" or r < p_rot + (1 - p_rot) * 0.6:
            ins()
        else:
            rem()
    return lines


def corpus_raw():
    cs = []
    c = lambda name, pool, ops: cs.append(("corpus-raw-" + name, [_cfg("raw", pool)] + ops))
    c("root-rot", 6, ["i 5 0", "i 3 1", "i 7 2", "L 2", "R 0", "R 1", "L 0"])
    c("inner-rot-undo", 8, ["i %d %d" % (k, k) for k in range(7)] + ["L 5", "U", "R 1", "U", "L 3", "U", "r 3", "R 2", "U", "L 4", "U", "i 9 7", "r 1"])
    c("assert-after-rot", 6, ["i 5 0", "i 3 1", "i 7 2", "L 2", "R 1", "R 0", "i 9 3", "i 10 4", "i 1 5"])
    return cs


def corpus():
    """Directed scripts, run first.  No defect is known in rbtree.hpp; these pin down the case families
    (found with the model-guided generator, kept minimal) and the self-test mutations of NOTES.md."""
    cs = []
    c = lambda name, kind, pool, ops: cs.append(("corpus-" + name, [_cfg(kind, pool)] + ops))
    c("empty-single", "cmp", 4, ["i 5 0", "r 0", "i 5 0", "r 0"])
    c("asc-7", "cmp", 8, ["i %d %d" % (k, k) for k in range(7)] + ["r 3", "r 1", "r 0", "r 2", "r 5", "r 4", "r 6"])
    c("desc-7", "cmp", 8, ["i %d %d" % (9 - k, k) for k in range(7)] + ["r 3", "r 5", "r 6", "r 4", "r 0", "r 1", "r 2"])
    c("dup-stable", "cmp", 8, ["i 1 0", "i 1 1", "i 1 2", "i 0 3", "i 1 4", "i 2 5", "i 1 6", "i 0 7", "r 1", "i 1 1", "r 0", "r 4", "i 1 4"])
    c("inner-grandchild", "cmp", 6, ["i 10 0", "i 5 1", "i 7 2", "i 20 3", "i 15 4", "r 2", "r 4"])
    c("two-children-root", "cmp", 8, ["i 4 0", "i 2 1", "i 6 2", "i 1 3", "i 3 4", "i 5 5", "i 7 6", "r 0", "r 4", "r 1", "i 4 0", "r 2"])
    c("pred-is-left-child", "cmp", 8, ["i 4 0", "i 2 1", "i 6 2", "i 1 3", "r 1", "i 2 1", "r 0"])
    c("red-sibling", "cmp", 10, ["i %d %d" % (k, k) for k in range(9)] + ["r 0", "r 1", "r 2"])
    c("red-sibling-right", "cmp", 10, ["i %d %d" % (20 - k, k) for k in range(9)] + ["r 0", "r 1", "r 2"])
    c("ord-basic", "ord", 8, ["b - 0", "b 0 1", "b - 2", "b 0 3", "b 2 4", "b 1 5", "r 0", "b 2 0", "r 1", "r 2", "b - 1", "b 3 2"])
    c("ord-front-run", "ord", 8, ["b - 0"] + ["b %d %d" % (k - 1, k) for k in range(1, 8)] + ["r 7", "r 0", "r 3"])
    return cs


def exhaustive(kind, length, maxm, nkeys):
    """every sequence of exactly `length` valid ops over <= maxm members (prefixes are covered because the
    state is dumped and checked after every op).  Inserts take the lowest free id (so removed hooks are
    re-inserted), removals any member."""
    out = []
    pool = maxm

    def rec(seq, mem):
        if len(seq) == length:
            out.append(("ex-%s-%d-%d" % (kind, length, len(out)), [_cfg(kind, pool)] + seq))
            return
        if len(mem) < maxm:
            i = min(set(range(pool)) - set(mem))
            if kind == "cmp":
                for k in range(nkeys):
                    rec(seq + ["i %d %d" % (k, i)], mem + [i])
            else:
                for b in [None] + mem:
                    rec(seq + ["b %s %d" % ("-" if b is None else b, i)], mem + [i])
        for i in mem:
            rec(seq + ["r %d" % i], [j for j in mem if j != i])
    rec([], [])
    return out


def guided(driver_exe, seed, count, maxpool=64):
    """cases from the model-guided generator built into the model driver"""
    p = subprocess.run([driver_exe, "gen", str(seed), str(count), str(maxpool)], capture_output=True, text=True, timeout=600)
    cases, cur = [], None
    for line in p.stdout.split("\n"):
        if line.startswith("#case "):
            cur = (line[6:].strip(), [])
            cases.append(cur)
        elif line and cur is not None:
            cur[1].append(line)
    return cases
