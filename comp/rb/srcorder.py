"""Source-order obligation for the pointer-level model (Rb/RbPtr.v).

The correspondence runs compare heaps only at the END of an operation, and the refinement proofs are about the
model, so neither notices a change of include/frg/rbtree.hpp that keeps every final heap but reorders independent
assignments or adds a dead store.  The model claims to be an assignment-by-assignment transliteration IN SOURCE
ORDER; this script checks that claim syntactically on every run of the check:

  for each transliterated function, the sequence of hook-field assignments (`h(x)->field = ...`, `_root = ...`) and
  of calls to the other transliterated functions, in textual order of the C++ body, must equal the sequence of
  `set_<field>` / call tokens in the body of the Coq definition (helpers reset_links / insert_*_links inlined);
  the number of FRG_ASSERTs (without the compile-time-disabled check_invariant ones) must equal the number of distinct
  PAssert sites.

Stand-alone: `python3 comp/rb/srcorder.py` (honours VERIF_REPO); exit 0 = same order.  No clang needed: the bodies
are found by brace matching, which is exact for this header (no braces in strings / comments inside the bodies).
"""
import os
import re
import sys

FIELDS = {"parent": "parent", "left": "left", "right": "right", "predecessor": "pred", "successor": "succ",
          "color": "color"}
CALLS = ["rotateLeft", "rotateRight", "fix_insert", "fix_remove", "aggregate_node", "aggregate_path",
         "remove_half_leaf", "replace_node", "insert_root", "insert_left", "insert_right"]
# C++ function -> Coq definition(s) whose bodies, concatenated in this order, transliterate it
FUNCS = {
    "insert_root": ["insert_root"], "insert_left": ["insert_left"], "insert_right": ["insert_right"],
    "fix_insert": ["fix_insert"], "remove": ["p_remove"], "replace_node": ["replace_node"],
    "remove_half_leaf": ["remove_half_leaf"], "fix_remove": ["fix_remove"],
    "rotateLeft": ["rotateLeft"], "rotateRight": ["rotateRight"], "aggregate_path": ["aggregate_path"],
}
INLINE = ["reset_links", "insert_left_links", "insert_right_links", "fix_remove_sibling", "fix_remove_rest"]
# fix_remove is cut into fix_remove_sibling + fix_remove_rest (if the model is written that way); the tail call is the
# parameter [again] of fix_remove_rest, instantiated with (fix_remove k) at the call site
AGAIN = {"again": "call:fix_remove"}


def _strip_cxx_comments(s):
    s = re.sub(r"/\*.*?\*/", lambda m: "\n" * m.group(0).count("\n"), s, flags=re.S)
    return re.sub(r"//[^\n]*", "", s)


def cxx_bodies(src):
    """name -> body text of every member function `void name(...) {` of tree_crtp_struct (first definition)"""
    src = _strip_cxx_comments(src)
    out = {}
    for m in re.finditer(r"\bvoid\s+(\w+)\s*\([^;{)]*\)\s*\{", src):
        name = m.group(1)
        i = m.end()
        depth = 1
        while depth and i < len(src):
            depth += {"{": 1, "}": -1}.get(src[i], 0)
            i += 1
        out.setdefault(name, src[m.end():i - 1])
    return out


def cxx_tokens(body):
    toks, asserts = [], 0
    pat = re.compile(r"h\([^;=]*?\)->(\w+)\s*=(?!=)|\b_root\s*=(?!=)|\b(" + "|".join(CALLS) + r")\s*\(|\bFRG_ASSERT\s*\(([^;]*);")
    for m in pat.finditer(body):
        if m.group(1):
            if m.group(1) in FIELDS:
                toks.append(FIELDS[m.group(1)])
        elif m.group(2):
            toks.append("call:" + m.group(2))
        elif m.group(3) is not None:
            # not modelled as assertions: the compile-time-disabled checker, and FRG_ASSERT(parent) of insert_left/right
            # (a node id is non-null by construction in the model)
            if "check_invariant" not in m.group(3) and m.group(3).strip() != "parent)":
                asserts += 1
        else:
            toks.append("root")
    return toks, asserts


def _strip_coq_comments(s):
    out, depth, i = [], 0, 0
    while i < len(s):
        if s.startswith("(*", i):
            depth += 1; i += 2
        elif s.startswith("*)", i) and depth:
            depth -= 1; i += 2
        else:
            if not depth:
                out.append(s[i])
            i += 1
    return "".join(out)


def coq_bodies(src):
    src = _strip_coq_comments(src)
    starts = [(m.start(), m.group(1), m.group(2)) for m in
              re.finditer(r"^\s*(Definition|Fixpoint|End|Record|Arguments|Lemma|Notation|Section|Variable|Variables)\s+(\w+)?", src, re.M)]
    out = {}
    for k, (pos, kw, name) in enumerate(starts):
        if kw in ("Definition", "Fixpoint") and name:
            end = starts[k + 1][0] if k + 1 < len(starts) else len(src)
            out.setdefault(name, src[pos:end])
    return out


def coq_tokens(name, bodies, depth=0):
    body = bodies.get(name, "")
    body = body.split(":=", 1)[1] if ":=" in body else body
    body = re.sub(r"\(\s*" + re.escape(name) + r"\s+k\s*\)", " ", body)      # the tail call passed as [again]
    toks, sites = [], []
    pat = re.compile(r"\bset_(parent|left|right|pred|succ|color|root)\b|\b(" + "|".join(CALLS + INLINE + list(AGAIN)) + r")\b|\bPAssert\s+(\d+)")
    for m in pat.finditer(body):
        if m.group(1):
            toks.append(m.group(1))
        elif m.group(2):
            f = m.group(2)
            if f in AGAIN:
                toks.append(AGAIN[f])
            elif f in INLINE:
                t, s2 = coq_tokens(f, bodies, depth + 1)
                toks += t; sites += s2
            elif f != name:
                toks.append("call:" + f)
            else:
                toks.append("call:" + f)      # the tail call of fix_insert / fix_remove / aggregate_path
        else:
            sites.append(m.group(3))
    return toks, sites


def check(repo_include, coq_file):
    cxx = cxx_bodies(open(os.path.join(repo_include, "frg", "rbtree.hpp")).read())
    coq = coq_bodies(open(coq_file).read())
    problems = []
    for cf, defs in FUNCS.items():
        if cf not in cxx:
            problems.append("%s: not found in rbtree.hpp" % cf)
            continue
        ct, ca = cxx_tokens(cxx[cf])
        qt, qs = [], []
        for d in defs:
            if d not in coq:
                problems.append("%s: Coq definition %s not found" % (cf, d))
            t, s2 = coq_tokens(d, coq)
            qt += t; qs += s2
        if cf == "aggregate_path":
            # the C++ calls A::aggregate directly; the model's [aggregate] is that call
            ct = [t for t in ct]
            qt = [t for t in qt if t != "call:aggregate_path"]
        if ct != qt:
            k = next((i for i in range(max(len(ct), len(qt))) if i >= len(ct) or i >= len(qt) or ct[i] != qt[i]), 0)
            problems.append("%s: assignment/call #%d differs: source %s, model %s\n      source: %s\n      model:  %s"
                            % (cf, k + 1, ct[k] if k < len(ct) else "<end>", qt[k] if k < len(qt) else "<end>",
                               " ".join(ct), " ".join(qt)))
        if ca != len(set(qs)):
            problems.append("%s: %d FRG_ASSERT in the source, %d distinct PAssert sites in the model" % (cf, ca, len(set(qs))))
    return (not problems), "\n".join(problems)


if __name__ == "__main__":
    repo = os.environ.get("VERIF_REPO", "/repo")
    root = os.path.dirname(os.path.dirname(os.path.dirname(os.path.abspath(__file__))))
    ok, detail = check(os.path.join(repo, "include"), os.path.join(root, "coq", "Rb", "RbPtr.v"))
    print("same order" if ok else detail)
    sys.exit(0 if ok else 1)
