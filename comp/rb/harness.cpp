// Harness for frg::rbtree / frg::rbtree_order (include/frg/rbtree.hpp).
// Runs op scripts over a pool of nodes on the REAL code and, after EVERY operation,
//  * prints the canonical state line: root, first(), and for EVERY pool node the five navigation
//    links of its hook (raw fields) and, for members, the colour -- compared with `layout` of the
//    extracted Gallina model (leg C);
//  * evaluates the property with an oracle that does not use the model (leg O): reference sequence
//    (stable sorted insertion / insert-before list), in-order walk over left/right == successor walk
//    from first() == reverse predecessor walk == reference, pred/succ inverse, parent/child agreement,
//    red-black colouring, height bound, removed hooks all-null.
// Script:  cfg <cmp|ord|raw> <poolsize> <full|hash> [every [desc mask store]]
//                                                      (first line; state printed/checked after every op,
//                                                       or after every `every`-th script line and the last)
//          desc mask store: STATE of the comparator object handed to the rbtree constructor (DirLess: compares key^mask,
//          descending if desc) and how the tree object is created: 0 = automatic storage, comparator passed as an lvalue;
//          1 = automatic storage, comparator passed as a temporary; 2 = zero-filled static storage + placement new;
//          3 = heap storage that holds a tree with the OPPOSITE comparator state before the placement new (so a
//          constructor that does not take its argument leaves a visibly wrong comparator).  The oracle checks the order
//          against the state the harness PASSED; the model driver instantiates `less` with the same state.
// Element layout: Node has TWO hooks after its payload; the tree under test uses the SECOND one (non-zero offset), a shadow
// tree with another comparator state uses the first one in lockstep (oracle kinds rb-shadow, rb-api: every navigation
// result of the public API is compared, as an ELEMENT pointer, with the raw hook field).
//          i <key> <id>        rbtree::insert(node id with key)
//          b <beforeid|-> <id> rbtree_order::insert(before, node id)
//          r <id>              remove(node id)
//          L <id> / R <id>     (cfg raw only) the PRIVATE helpers rotateLeft(node) / rotateRight(node), called directly
//                              (-fno-access-control) when their own assertion holds (node is the right / left child of
//                              its parent);  U = undo the last applied rotation by the inverse one.  `cfg raw` = rbtree with the comparator, state line after every op, NO oracle
//                              (a rotation without recolouring leaves a tree that is not red-black; later operations on it
//                              may legitimately stop in an FRG_ASSERT, printed as `assert`): these scripts are compared
//                              with the pointer-level model only (Rb/RbPtr.v, `rb_m ptr`).
// In `hash` mode the state line is replaced by its 64-bit FNV-1a digest (large trees).
#include <csignal>
#include <unistd.h>
#include <sys/time.h>
#include <memory>
#include <string>
#include <vector>
#include <algorithm>
#include "vharness.hpp"
#include <frg/rbtree.hpp>

#include <cstddef>
#include <cstring>
#include <new>
struct Node {
	uint64_t key = 0;
	uint64_t seq = 0;     // insertion sequence number (oracle: stability of equal keys)
	int id = 0;
	bool member = false;
	frg::rbtree_hook hook0;   // FIRST hook: the shadow tree
	uint64_t pad = 0x5a5a5a5a5a5a5a5aULL;
	frg::rbtree_hook hook;    // SECOND hook: the tree under test
};
static_assert(offsetof(Node, hook0) != 0 && offsetof(Node, hook) > offsetof(Node, hook0), "hooks after the payload");
// a STATEFUL comparator: the order depends on the state of the object given to the tree's constructor
struct DirLess {
	bool descending = false;
	uint64_t mask = 0;
	bool keys(uint64_t a, uint64_t b) const { return descending ? ((b ^ mask) < (a ^ mask)) : ((a ^ mask) < (b ^ mask)); }
	bool operator()(const Node &a, const Node &b) const { return keys(a.key, b.key); }
};
using CmpTree = frg::rbtree<Node, &Node::hook, DirLess>;
using ShadowTree = frg::rbtree<Node, &Node::hook0, DirLess>;
using OrdTree = frg::rbtree_order<Node, &Node::hook>;

static std::string ids(void *p) { return p ? std::to_string(static_cast<Node *>(p)->id) : std::string("-"); }

static uint64_t fnv(const std::string &s) {
	uint64_t h = 14695981039346656037ULL;
	for(unsigned char c : s) { h ^= c; h *= 1099511628211ULL; }
	return h;
}

template<class TR>
static void dump(TR &tr, Node *pool, int P, bool hashmode) {
	std::string s = "t " + ids(tr.get_root()) + " " + ids(tr.first());
	for(int i = 0; i < P; i++) {
		auto &h = pool[i].hook;
		s += " | " + std::to_string(i) + ":" + ids(h.parent) + "," + ids(h.left) + "," + ids(h.right) + ","
			+ ids(h.predecessor) + "," + ids(h.successor) + ",";
		if(!pool[i].member) s += "-";   // colour of a non-member is stale by design, not observable, not compared
		else s += h.color == frg::_redblack::color_type::red ? "R" : h.color == frg::_redblack::color_type::black ? "B" : "?";
	}
	if(hashmode) printf("h %016llx\n", (unsigned long long)fnv(s));
	else printf("%s\n", s.c_str());
}

// ---- independent oracle over the real nodes (public navigation API + raw colour)
template<class TR>
static void check_tree(TR &tr, Node *pool, int P, const std::vector<int> &ref, bool cmp, const DirLess &want = DirLess()) {
	using CT = frg::_redblack::color_type;
	size_t n = ref.size();
	std::vector<Node *> ino;
	bool broken = false;
	int height = 0;
	// explicit-stack in-order walk over left/right, bounded (a corrupted tree may contain cycles)
	struct Fr { Node *nd; int state; int bhl; int depth; };
	std::vector<Fr> st;
	Node *root = tr.get_root();
	int bh_ret = 0;
	if(root) {
		if(TR::get_parent(root)) vh::oracle("rb-parent", "root %d has parent %d", root->id, TR::get_parent(root)->id);
		if(root->hook.color != CT::black) vh::oracle("rb-rootblack", "root %d is not black", root->id);
		st.push_back({root, 0, 0, 1});
	}
	size_t steps = 0;
	while(!st.empty() && !broken) {
		Fr &f = st.back();
		Node *nd = f.nd;
		if(++steps > 4 * (size_t)P + 16 || f.depth > 128) { vh::oracle("rb-shape", "left/right walk does not terminate (cycle through node %d)", nd->id); broken = true; break; }
		if(f.state == 0) {
			height = std::max(height, f.depth);
			if(!nd->member) vh::oracle("rb-member", "node %d reachable from the root but not contained", nd->id);
			if(nd->hook.color != CT::red && nd->hook.color != CT::black) vh::oracle("rb-colour", "member %d has no colour", nd->id);
			Node *l = TR::get_left(nd), *r = TR::get_right(nd);
			if(l && TR::get_parent(l) != nd) vh::oracle("rb-parent", "left child %d of %d has parent %s", l->id, nd->id, ids(TR::get_parent(l)).c_str());
			if(r && TR::get_parent(r) != nd) vh::oracle("rb-parent", "right child %d of %d has parent %s", r->id, nd->id, ids(TR::get_parent(r)).c_str());
			if(l && l == r) vh::oracle("rb-shape", "node %d has the same left and right child", nd->id);
			if(nd->hook.color == CT::red && ((l && l->hook.color == CT::red) || (r && r->hook.color == CT::red)))
				vh::oracle("rb-redred", "red node %d has a red child", nd->id);
			f.state = 1;
			if(l) { int d = f.depth; st.push_back({l, 0, 0, d + 1}); continue; }
			bh_ret = 0;
		}
		if(f.state == 1) {
			f.bhl = bh_ret;
			ino.push_back(nd);
			f.state = 2;
			Node *r = TR::get_right(nd);
			if(r) { int d = f.depth; st.push_back({r, 0, 0, d + 1}); continue; }
			bh_ret = 0;
		}
		// state 2: both subtrees done, bh_ret = black height of the right one
		if(f.bhl != bh_ret) vh::oracle("rb-blackheight", "node %d: black height left %d, right %d", nd->id, f.bhl, bh_ret);
		bh_ret = f.bhl + (nd->hook.color == CT::black ? 1 : 0);
		st.pop_back();
	}
	if(broken) return;
	// in-order == reference (exactly the contained elements, each once, in the specified order)
	bool same = ino.size() == n;
	for(size_t i = 0; same && i < n; i++) same = ino[i]->id == ref[i];
	if(!same) {
		std::string a, b;
		for(auto *x : ino) a += " " + std::to_string(x->id);
		for(int x : ref) b += " " + std::to_string(x);
		vh::oracle("rb-inorder", "in-order walk over left/right is [%s ], reference is [%s ]", a.substr(0, 300).c_str(), b.substr(0, 300).c_str());
	}
	// comparator order and stability, stated directly on the walk
	if(cmp) for(size_t i = 0; i + 1 < ino.size(); i++) {
		// order w.r.t. the comparator state the harness PASSED to the constructor
		if(want.keys(ino[i + 1]->key, ino[i]->key)) { vh::oracle("rb-order", "in-order walk: node %d (key %llu) before node %d (key %llu) under the comparator passed to the tree (descending=%d mask=%llx)", ino[i]->id, (unsigned long long)ino[i]->key, ino[i + 1]->id, (unsigned long long)ino[i + 1]->key, (int)want.descending, (unsigned long long)want.mask); break; }
		if(ino[i + 1]->key == ino[i]->key && ino[i + 1]->seq < ino[i]->seq) { vh::oracle("rb-stable", "equal keys %llu: node %d (inserted later) before node %d", (unsigned long long)ino[i]->key, ino[i]->id, ino[i + 1]->id); break; }
	}
	// first() and the successor walk
	Node *f = tr.first();
	if(f != (ino.empty() ? nullptr : ino[0])) vh::oracle("rb-first", "first() is %s, leftmost element is %s", ids(f).c_str(), ino.empty() ? "-" : std::to_string(ino[0]->id).c_str());
	{
		size_t i = 0; Node *cur = f; bool ok = true;
		if(cur && TR::predecessor(cur)) { vh::oracle("rb-predsucc", "first() %d has predecessor %d", cur->id, TR::predecessor(cur)->id); }
		while(cur) {
			if(i >= n || cur->id != ref[i]) { ok = false; break; }
			Node *nx = TR::successor(cur);
			if(nx && TR::predecessor(nx) != cur) vh::oracle("rb-predsucc", "successor(%d) = %d but predecessor(%d) = %s", cur->id, nx->id, nx->id, ids(TR::predecessor(nx)).c_str());
			cur = nx; i++;
		}
		if(!ok || i != n) vh::oracle("rb-succwalk", "successor walk from first() leaves the reference sequence at position %zu of %zu", i, n);
	}
	// predecessor walk from the last element
	if(!ino.empty() && ino.size() == n) {
		Node *cur = ino.back(); size_t i = n; bool ok = true;
		if(TR::successor(cur)) vh::oracle("rb-predsucc", "last element %d has successor %d", cur->id, TR::successor(cur)->id);
		while(cur) {
			if(i == 0 || cur->id != ref[i - 1]) { ok = false; break; }
			Node *pv = TR::predecessor(cur);
			if(pv && TR::successor(pv) != cur) vh::oracle("rb-predsucc", "predecessor(%d) = %d but successor(%d) = %s", cur->id, pv->id, pv->id, ids(TR::successor(pv)).c_str());
			cur = pv; i--;
		}
		if(!ok || i != 0) vh::oracle("rb-predwalk", "predecessor walk from the last element leaves the reference sequence at position %zu", i);
	}
	// height <= 2*floor(log2(n+1))
	{
		int lg = 0; while((2ULL << lg) <= (unsigned long long)n + 1) lg++;
		if(height > 2 * lg) vh::oracle("rb-height", "height %d > 2*log2(%zu+1) = %d", height, n, 2 * lg);
	}
	// every navigation result of the public API, as an ELEMENT pointer, against the raw field of the hook the tree was
	// instantiated with (the second hook of Node, at a non-zero offset)
	for(int i = 0; i < P; i++) if(pool[i].member) {
		Node *nd = &pool[i]; auto &h = nd->hook;
		if(TR::get_parent(nd) != static_cast<Node *>(h.parent) || TR::get_left(nd) != static_cast<Node *>(h.left)
				|| TR::get_right(nd) != static_cast<Node *>(h.right) || TR::predecessor(nd) != static_cast<Node *>(h.predecessor)
				|| TR::successor(nd) != static_cast<Node *>(h.successor))
			vh::oracle("rb-api", "node %d: get_parent/get_left/get_right/predecessor/successor differ from the hook fields", i);
		for(void *q : {h.parent, h.left, h.right, h.predecessor, h.successor})
			if(q && (static_cast<Node *>(q) < pool || static_cast<Node *>(q) >= pool + P || static_cast<Node *>(q) != &pool[static_cast<Node *>(q)->id]))
				vh::oracle("rb-api", "node %d: a link is not an element pointer of the pool", i);
	}
	if(tr.get_root() && tr.get_root() != &pool[tr.get_root()->id]) vh::oracle("rb-api", "get_root() is not an element pointer");
	// removed / never inserted hooks: all five links null
	for(int i = 0; i < P; i++) if(!pool[i].member) {
		auto &h = pool[i].hook;
		if(h.parent || h.left || h.right || h.predecessor || h.successor)
			vh::oracle("rb-reset", "node %d is not contained but its hook is not reset (p=%s l=%s r=%s pred=%s succ=%s)", i,
				ids(h.parent).c_str(), ids(h.left).c_str(), ids(h.right).c_str(), ids(h.predecessor).c_str(), ids(h.successor).c_str());
	}
}

template<class TR>
static void run_tree(TR &tr, const vh::Lines &ls, int P, bool hashmode, bool cmp, int every, bool raw = false, DirLess want = DirLess()) {
	std::unique_ptr<Node[]> pool(new Node[P]);
	for(int i = 0; i < P; i++) pool[i].id = i;
	std::vector<int> ref;     // reference: ids in the order the property prescribes
	std::vector<int> ref2;    // the same for the shadow tree (first hook, another comparator state)
	DirLess want2{!want.descending, want.mask ^ 0x33};
	ShadowTree shadow(want2);
	bool use_shadow = cmp && !raw && P <= 64;
	uint64_t seq = 0;
	int undo_node = -1; bool undo_left = false;
	{
		for(size_t li = 1; li < ls.size(); li++) {
			auto t = vh::split(ls[li]);
			if(t.empty()) continue;
			const std::string &o = t[0];
			if(o == "i" && cmp && t.size() == 3) {
				uint64_t k = vh::u64(t[1]); int id = atoi(t[2].c_str());
				if(id < 0 || id >= P || pool[id].member) { printf("skip\n"); continue; }
				Node &nd = pool[id];
				nd.key = k; nd.seq = ++seq; nd.member = true;
				if constexpr(std::is_same_v<TR, CmpTree>) tr.insert(&nd);
				size_t pos = 0;   // after every element that is not greater under the comparator state that was passed
				while(pos < ref.size() && !want.keys(k, pool[ref[pos]].key)) pos++;
				ref.insert(ref.begin() + pos, id);
				if(use_shadow) {
					shadow.insert(&nd);
					size_t p2 = 0; while(p2 < ref2.size() && !want2.keys(k, pool[ref2[p2]].key)) p2++;
					ref2.insert(ref2.begin() + p2, id);
				}
			} else if(o == "b" && !cmp && t.size() == 3) {
				int id = atoi(t[2].c_str());
				int bid = t[1] == "-" ? -1 : atoi(t[1].c_str());
				if(id < 0 || id >= P || pool[id].member || bid >= P || (bid >= 0 && !pool[bid].member)) { printf("skip\n"); continue; }
				Node &nd = pool[id];
				nd.key = 0; nd.seq = ++seq; nd.member = true;
				if constexpr(std::is_same_v<TR, OrdTree>) tr.insert(bid < 0 ? nullptr : &pool[bid], &nd);
				if(bid < 0) ref.push_back(id);
				else ref.insert(std::find(ref.begin(), ref.end(), bid), id);
			} else if(o == "r" && t.size() == 2) {
				int id = atoi(t[1].c_str());
				if(id < 0 || id >= P || !pool[id].member) { printf("skip\n"); continue; }
				tr.remove(&pool[id]);
				pool[id].member = false;
				ref.erase(std::find(ref.begin(), ref.end(), id));
				if(use_shadow && cmp) { shadow.remove(&pool[id]); ref2.erase(std::find(ref2.begin(), ref2.end(), id)); }
			} else if(raw && (o == "L" || o == "R") && t.size() == 2) {
				int id = atoi(t[1].c_str());
				if(id < 0 || id >= P || !pool[id].member) { printf("skip\n"); continue; }
				Node *nd = &pool[id], *u = TR::get_parent(nd);
				if(!u || (o == "L" ? TR::get_right(u) : TR::get_left(u)) != nd) { printf("skip\n"); continue; }
				if(o == "L") tr.rotateLeft(nd); else tr.rotateRight(nd);
				undo_node = u->id; undo_left = (o == "L");
			} else if(raw && o == "U" && t.size() == 1) {
				// undo the last applied rotation: after rotateLeft(n) its old parent u is n's left child, rotateRight(u) restores
				// every link (and vice versa); colours were not touched
				if(undo_node < 0 || !pool[undo_node].member) { printf("skip\n"); continue; }
				Node *nd = &pool[undo_node], *u = TR::get_parent(nd);
				if(!u || (undo_left ? TR::get_left(u) : TR::get_right(u)) != nd) { printf("skip\n"); continue; }
				if(undo_left) tr.rotateRight(nd); else tr.rotateLeft(nd);
				undo_node = -1;
			} else { printf("skip\n"); continue; }
			if(raw) { dump(tr, pool.get(), P, hashmode); continue; }
			if(every <= 1 || li % (size_t)every == 0 || li + 1 == ls.size()) {
				dump(tr, pool.get(), P, hashmode);
				check_tree(tr, pool.get(), P, ref, cmp, want);
				if(use_shadow) {
					// the tree on the FIRST hook of the same elements: successor walk == its own reference sequence
					size_t i2 = 0; bool ok2 = true;
					for(Node *cur = shadow.first(); cur; cur = ShadowTree::successor(cur), i2++)
						if(i2 >= ref2.size() || cur != &pool[ref2[i2]]) { ok2 = false; break; }
					if(!ok2 || i2 != ref2.size()) vh::oracle("rb-shadow", "tree on the first hook (descending=%d mask=%llx): successor walk leaves its reference sequence at position %zu of %zu", (int)want2.descending, (unsigned long long)want2.mask, i2, ref2.size());
					for(int i = 0; i < P; i++) if(!pool[i].member && (pool[i].hook0.parent || pool[i].hook0.left || pool[i].hook0.right || pool[i].hook0.predecessor || pool[i].hook0.successor))
						vh::oracle("rb-shadow", "node %d is not contained but its first hook is not reset", i);
				} else {
					for(int i = 0; i < P; i++) if(pool[i].hook0.parent || pool[i].hook0.left || pool[i].hook0.right || pool[i].hook0.predecessor || pool[i].hook0.successor || pool[i].pad != 0x5a5a5a5a5a5a5a5aULL)
						vh::oracle("rb-api", "node %d: the tree wrote to the hook it was not instantiated with (or to the payload)", i);
				}
				// the structure is corrupt: further operations on it may not terminate; the case has failed already
				if(vh::g_oracle_count > 0) { printf("stopped\n"); return; }
			}
		}
	}
}

static void on_alarm(int) {
	static const char msg[] = "[timeout] operation on the tree did not terminate within the per-case limit\n";
	(void)!write(2, msg, sizeof msg - 1);
	_exit(96);
}

static void body(const vh::Lines &ls) {
	if(ls.empty()) return;
	// watchdog on CPU time (not wall time, so machine load cannot trip it): a corrupted tree can make
	// insert()/first()/fix_remove() loop forever.  A small case needs milliseconds.
	signal(SIGPROF, on_alarm);
	struct itimerval tv = {};
	tv.it_value.tv_sec = ls.size() > 500 ? 150 : 3;
	setitimer(ITIMER_PROF, &tv, nullptr);
	auto t = vh::split(ls[0]);
	if((t.size() != 4 && t.size() != 5 && t.size() != 8) || t[0] != "cfg") { printf("badcfg\n"); return; }
	int every = t.size() >= 5 ? atoi(t[4].c_str()) : 1;
	DirLess want;
	int store = 0;
	if(t.size() == 8) { want.descending = atoi(t[5].c_str()) != 0; want.mask = vh::u64(t[6]); store = atoi(t[7].c_str()); }
	int P = atoi(t[2].c_str());
	if(P < 1 || P > 200000) { printf("badcfg\n"); return; }
	bool hashmode = t[3] == "hash";
	if(t[1] == "raw") {
		// no oracle: the script may drive the tree out of the red-black invariant on purpose
		try { CmpTree tr(want); run_tree<CmpTree>(tr, ls, P, hashmode, true, 1, true, want); }
		catch(vh::AssertStop &) { printf("assert\n"); }
		return;
	}
	try {
		if(t[1] == "ord") { OrdTree tr; run_tree<OrdTree>(tr, ls, P, hashmode, false, every); }
		else if(store == 1) {
			CmpTree tr(DirLess{want.descending, want.mask});                       // comparator passed as a temporary
			run_tree<CmpTree>(tr, ls, P, hashmode, true, every, false, want);
		} else if(store == 2) {
			alignas(CmpTree) static unsigned char sbuf[sizeof(CmpTree)];            // static storage, all-zero
			memset(sbuf, 0, sizeof sbuf);
			CmpTree *tr = new (sbuf) CmpTree(want);
			run_tree<CmpTree>(*tr, ls, P, hashmode, true, every, false, want);
		} else if(store == 3) {
			void *mem = ::operator new(sizeof(CmpTree));                            // heap storage holding the OPPOSITE state
			new (mem) CmpTree(DirLess{!want.descending, ~want.mask});
			CmpTree *tr = new (mem) CmpTree(want);
			try { run_tree<CmpTree>(*tr, ls, P, hashmode, true, every, false, want); } catch(...) { ::operator delete(mem); throw; }
			::operator delete(mem);
		} else {
			DirLess lv = want;                                                      // comparator passed as an lvalue
			CmpTree tr(lv);
			run_tree<CmpTree>(tr, ls, P, hashmode, true, every, false, want);
		}
	} catch(vh::AssertStop &a) {
		// every script op is valid (invalid ones are skipped above), so no FRG_ASSERT may fire
		vh::oracle("rb-assert", "FRG_ASSERT fired on a valid operation: %s", a.where.c_str());
		throw;
	}
}

int main() { return vh::run(body); }
