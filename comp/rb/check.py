"""rb component (frg::rbtree / frg::rbtree_order, property C06): builds the model driver and the harness,
generates cases, runs legs C and O into the given Check."""
import os
import zlib
import vlib
from comp.rb import gen, srcorder

CASE_NAMES = {
    1: "ins_parent_black", 2: "ins_parent_red", 3: "ins_red_uncle_L", 4: "ins_red_uncle_R",
    5: "ins_rot_LL", 6: "ins_rot_LR", 7: "ins_rot_RR", 8: "ins_rot_RL", 9: "ins_root_painted",
    10: "rem_L_red_sibling", 11: "rem_L_black_nephews_parent_black", 12: "rem_L_black_nephews_parent_red",
    13: "rem_L_near_nephew_red", 14: "rem_L_far_nephew_red",
    20: "rem_R_red_sibling", 21: "rem_R_black_nephews_parent_black", 22: "rem_R_black_nephews_parent_red",
    23: "rem_R_near_nephew_red", 24: "rem_R_far_nephew_red",
    30: "rem_unlink_red", 31: "rem_unlink_black_red_child", 32: "rem_unlink_black_fix_remove",
    40: "rem_no_left_child", 41: "rem_no_right_child", 42: "rem_two_children", 43: "rem_pred_is_left_child",
    44: "rem_fix_reached_root",
}
# the 6 insertion and 10 removal rebalancing cases of DESIGN (plus the structural ones): zero hits = coverage rule broken
REQUIRED = sorted(CASE_NAMES)
ROTATING = {5, 6, 7, 8, 10, 13, 14, 20, 23, 24}

RULE = ("seeded op scripts on frg::rbtree (less on key) and frg::rbtree_order over a node pool: model-guided streams "
        "(removal by role: root, red/black leaf, two children, predecessor is the left child, one child; aimed at the "
        "least-hit fix_insert/fix_remove case), random/monotone/sawtooth streams with key spaces 3, 10, 1000, large trees "
        "(digest of the full state), exhaustive sequences over <= 6 elements; after EVERY op all five links of EVERY "
        "pool node + colour of members + root + first() are compared with the model's layout; non-trivial = distinct "
        "script with at least one rotation case; every one of the 27 case tags must be hit; the comparator is a STATEFUL object "
        "(direction + key mask, 5 states) handed to the constructor as lvalue / temporary, the tree object in automatic / zeroed "
        "static / heap-with-the-opposite-state storage, the oracle orders by the state that was PASSED; the elements carry two "
        "hooks after the payload, the tree under test uses the second, a shadow tree the first; SECOND model run: the same "
        "scripts through the pointer-level model (Rb/RbPtr.v, assignment-by-assignment transliteration of rbtree.hpp on a "
        "heap of hooks), same state line compared after every op, plus `raw` scripts that call the private helpers "
        "rotateLeft/rotateRight directly (no oracle, pointer-level model only, FRG_ASSERT stops compared)")
TRUSTED = ["extraction: ExtrOcamlBasic only; OCaml 4.13.1; comp/rb/driver.ml (prints layout; for pools > 64 through layout_list)",
           "correspondence harness comp/rb/harness.cpp (g++ -fsanitize=address,undefined, -fno-access-control)",
           "oracle: independent walker over the real nodes + reference sequence (std::vector, stable sorted insertion)",
           "pointer-level model Rb/RbPtr.v: transliteration of rbtree.hpp by hand (source order of assignments, FRG_ASSERT -> PAssert, "
           "null dereference -> PUB, loops with fuel); tied to the source by the second correspondence run; its refinement to the "
           "functional core is PROVED for insert and remove (Properties_C06_ptr.v); compared only: tree_order_struct::insert's descent and the annotation values (listed there as _partial)",
           "comp/rb/driver.ml `ptr` mode: re-tabulates the heap function into an array after every op from the model's write log (extensionally the identity)",
           "Rb/RbCases.v (case tags) is statistics only, nothing proved about it"]
ASSUMPTIONS = ["less is asymmetric and negatively transitive (strict weak order; Section hypotheses)",
               "insert only of elements not contained, remove / insert(before) only with contained elements (ids_fresh / documented precondition)",
               "ids (node addresses) of contained elements are pairwise distinct"]


def _strip_cases(c, model):
    """remove the '@' statistics lines of the model driver and tally them"""
    per_case_rot = {}
    for cid, r in model.items():
        keep, rot = [], False
        for l in r["lines"]:
            if l.startswith("@"):
                for w in l[1:].split():
                    t = int(w)
                    c.count("rb_case_" + CASE_NAMES.get(t, str(t)))
                    rot = rot or t in ROTATING
            else:
                keep.append(l)
        r["lines"] = keep
        per_case_rot[cid] = rot
    return per_case_rot


def _shrink(c, har):
    """delta-debug the first failing script of every oracle kind (ops only; the cfg line stays) so that the
    replay written by finish() is short.  Ops that become invalid by the removal of others are skipped by the
    harness (`skip`), so every candidate is a valid script."""
    seen = {}
    for idx, (kind, msg, cid, lines) in enumerate(c.oracle_fail):
        if kind in seen or len(lines) < 3:
            continue

        def pred(ops, kind=kind, cfg=lines[0]):
            r = vlib.run_cases(har, [("shrink", [cfg] + ops)], shards=1, timeout=120).get("shrink")
            if not r:
                return False
            if kind == "crash":
                return bool(r.get("crash"))
            return any(o.split(" ", 1)[0] == kind for o in r["oracle"])
        small = vlib.ddmin(lines[1:], pred, budget=60 if len(lines) > 1500 else 300)
        seen[kind] = [lines[0]] + small
        c.oracle_fail[idx] = (kind, msg + "  [script shrunk from %d to %d ops]" % (len(lines) - 1, len(small)), cid, seen[kind])


CMP_STATES = [(0, 0), (0, 0), (1, 0), (0, 0xff), (1, 0x5555), (0, (1 << 40) | 3), (1, (1 << 63) | 1), (0, 0)]


def _with_cmp_state(cid, ls):
    """append `desc mask store` to the cfg line of a cmp / raw case: the STATE of the comparator object handed to the rbtree
    constructor and how the tree object is created (automatic + lvalue / automatic + temporary / zeroed static storage /
    heap holding the opposite state).  Chosen from the case id (no rng: the scripts of a seed stay what they were)."""
    w = ls[0].split() if ls else []
    if len(w) not in (4, 5) or w[0] != "cfg" or w[1] not in ("cmp", "raw"):
        return ls
    h = zlib.crc32(cid.encode())
    desc, mask = CMP_STATES[h % len(CMP_STATES)]
    if len(w) == 4:
        w.append("1")
    return [" ".join(w + [str(desc), str(mask), str((h >> 8) % 4)])] + ls[1:]


def run(c):
    """legs C and O for the red-black tree; returns False if the harness could not be built."""
    okm, mlog = vlib.coq_make(["Rb/RbExtract.vo"])
    okd, drv, dlog = vlib.ocaml_build("rb_m", ["rb_model"], os.path.join(vlib.ROOT, "comp/rb/driver.ml"))
    okh, har, hlog = vlib.cxx_build("rb_h", os.path.join(vlib.ROOT, "comp/rb/harness.cpp"))
    if not (okm and okd):
        c.broken.append("rb model extraction/driver build failed: " + (mlog[-500:] if not okm else dlog[-500:]))
    if not okh:
        c.broken.append("rb harness does not compile against the repo: " + hlog[-1500:])
        return False
    # the pointer-level model claims source order: same sequence of hook assignments / calls per function as rbtree.hpp
    try:
        so_ok, so_detail = srcorder.check(os.path.join(vlib.REPO, "include"), os.path.join(vlib.COQ, "Rb", "RbPtr.v"))
    except Exception as ex:
        so_ok, so_detail = False, "srcorder raised %r" % (ex,)
    c.gen_obligation("rb_ptr_source_order (rbtree.hpp vs Rb/RbPtr.v)", so_ok, so_detail)
    thorough = c.tier == "thorough"
    is_raw = lambda ls: bool(ls) and ls[0].split()[:2] == ["cfg", "raw"]
    raw = []
    if c.replay:
        cases = vlib.read_replay(c.replay)
        raw = [(cid, ls) for cid, ls in cases if is_raw(ls)]
        cases = [(cid, ls) for cid, ls in cases if not is_raw(ls)]
    else:
        cases = gen.corpus()
        if okd:
            g = gen.guided(drv, c.rng.randrange(1 << 30), 6000 if thorough else 700)
            c.count("rb_guided_cases", len(g))
            cases += g
        for i in range(4000 if thorough else 500):
            cases.append(("g%d" % i, gen.gen_case(c.rng)))
        for i in range(12 if thorough else 3):
            pool = c.rng.choice([3000, 10000] if thorough else [600, 2000])
            cases.append(("big%d-%d" % (i, pool), gen.gen_big(c.rng, pool, 64 if pool >= 3000 else 16)))
        ex = gen.exhaustive("cmp", 8 if thorough else 6, 6, 3) + gen.exhaustive("ord", 7 if thorough else 5, 6, 0)
        if thorough:
            ex += gen.exhaustive("cmp", 9, 6, 2)
        c.count("rb_exhaustive_cases", len(ex))
        cases += ex
    if not c.replay:
        cases = [(cid, _with_cmp_state(cid, ls)) for cid, ls in cases]
    for _, ls in cases:
        if ls and len(ls[0].split()) == 8 and ls[0].split()[1] == "cmp":
            w8 = ls[0].split()
            c.count("rb_cmp_%s_mask%s" % ("desc" if w8[5] != "0" else "asc", "0" if w8[6] == "0" else "x"))
            c.count("rb_tree_storage_" + ["auto_lvalue", "auto_temporary", "static_zeroed", "heap_opposite"][int(w8[7]) % 4])
    for _, ls in cases:
        c.count("rb_ops", len(ls) - 1)
        w = ls[0].split() if ls else []
        if len(w) >= 4:
            c.count("rb_variant_" + w[1]); c.count("rb_dump_" + w[3])
            p = int(w[2]) if w[2].isdigit() else 0
            c.count("rb_pool_" + ("le8" if p <= 8 else "le24" if p <= 24 else "le64" if p <= 64 else "big"))
    # big cases first so that the shards are balanced
    order = sorted(cases, key=lambda cl: -len(cl[1]))
    impl = vlib.run_cases(har, order, timeout=1500)
    model = vlib.run_cases(drv, order, timeout=1500) if okd else {}
    # second model run: the pointer-level model (Rb/RbPtr.v) on the same scripts; the functional comparison below stays
    pmodel = vlib.run_cases(drv, order, timeout=1500, args=["ptr"]) if okd else {}
    for cid, ls in cases:
        ri, rp = impl.get(cid), pmodel.get(cid)
        if ri is None or ri.get("crash") or not okd:
            continue
        c.count("rb_ptr_cases")
        if rp is None:
            c.mismatch(cid, ls, "pointer-level model produced no output")
        elif rp.get("crash"):
            c.mismatch(cid, ls, "pointer-level model driver crashed: " + rp["crash"][-300:])
        else:
            d = vlib.first_diff(ri["lines"], rp["lines"])
            if d:
                c.mismatch(cid, ls, "pointer-level model (Rb/RbPtr.v): line %d: impl=%r ptr-model=%r" % d)
    # scripts that call the private rotation helpers directly: pointer-level model only, no oracle in the harness
    if not c.replay:
        raw = gen.corpus_raw() + [("raw%d" % i, gen.gen_raw(c.rng)) for i in range(3000 if thorough else 400)]
        raw = [(cid, _with_cmp_state(cid, ls)) for cid, ls in raw]
    if raw and okd:
        rimpl = vlib.run_cases(har, raw, timeout=600)
        rptr = vlib.run_cases(drv, raw, timeout=600, args=["ptr"])
        for cid, ls in raw:
            c.count("rb_raw_cases")
            c.count("rb_raw_rotations_applied", sum(1 for a, b in zip(ls[1:], (rimpl.get(cid) or {}).get("lines", []))
                                                    if a[:1] in "LR" and b.startswith("t ")))
            if any(l == "assert" for l in (rimpl.get(cid) or {}).get("lines", [])):
                c.count("rb_raw_assert_stops")
        c.compare(raw, rimpl, rptr, lambda cid, lines, ri: None)
    rot = _strip_cases(c, model)
    if not c.replay and okd:
        missing = [CASE_NAMES[t] for t in REQUIRED if c.dist.get("rb_case_" + CASE_NAMES[t], 0) == 0]
        if missing:
            c.broken.append("rb coverage rule: rebalancing cases never generated: " + ", ".join(missing))
    c.compare(cases, impl, model, lambda cid, lines, ri: "|".join(lines) if rot.get(cid) else None)
    _shrink(c, har)
    return True
