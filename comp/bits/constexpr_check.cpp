// Constant evaluation of frg::array_concat, incl. zero-length pieces and std::array arguments, checked by
// static_assert against the expected std::array.  Compiled with -fsyntax-only by comp/bits/check.py; a failing
// assertion is reported as an oracle failure (kind array-constexpr) on the corpus case "array cconcat".
#include <array>
#include <frg/array.hpp>
template <class R, size_t N> constexpr bool same(const R &r, const std::array<int, N> &w) {
	if(r.size() != N) return false;
	for(size_t i = 0; i < N; i++) if(r[i] != w[i]) return false;
	return true;
}
constexpr frg::array<int, 2> a{1, 2};
constexpr frg::array<int, 3> b{3, 4, 5};
constexpr frg::array<int, 0> e{};
constexpr std::array<int, 0> s0{};
constexpr std::array<int, 2> s2{6, 7};
static_assert(same(frg::array_concat<int>(e, a, b), std::array<int, 5>{1, 2, 3, 4, 5}), "empty piece first");
static_assert(same(frg::array_concat<int>(a, e, b), std::array<int, 5>{1, 2, 3, 4, 5}), "empty piece in the middle");
static_assert(same(frg::array_concat<int>(a, b, e), std::array<int, 5>{1, 2, 3, 4, 5}), "empty piece last");
static_assert(same(frg::array_concat<int>(e, s0, a, e, s2, s0, b), std::array<int, 7>{1, 2, 6, 7, 3, 4, 5}), "several empty pieces, std::array arguments");
static_assert(same(frg::array_concat<int>(e, s0), std::array<int, 0>{}), "only empty pieces");
static_assert(same(frg::array_concat<int>(a, b, s2, a, b), std::array<int, 12>{1, 2, 3, 4, 5, 6, 7, 1, 2, 3, 4, 5}), "five pieces");
static_assert(same(frg::array_concat<int>(a), std::array<int, 2>{1, 2}), "one piece");
int main() { return 0; }
