"""bits component (C18): builds the model driver and the harness TUs, generates cases, runs legs C and O
into the given Check."""
import os, sys
from concurrent.futures import ThreadPoolExecutor
import vlib
from comp.bits import gen

RULE = ("seeded op scripts: bitset<N> for N in 1..130, 191..193, 255..257, 320 (4 registers; constructors, set/reset/flip/test, "
        "proxy reference ops, &= |= ^= ~ & | ^, <<= >>= << >> by 0..N+200, word/offset boundaries, 2^k and 2^64-1, "
        "count/any/all/none/==) each op followed by a bit-by-bit comparison of all registers with std::bitset<N> and a "
        "padding inspection; array<T,N> for T in uint64_t, double, float (incl. +-0.0, NaNs, inf), const char*, an enum, a struct with padding and its own non-bitwise operator== vs std::array (front/back/[]/iteration/get/swap/==/!=/array_concat of 1..5 arrays of mixed lengths incl. zero-length frg::array/std::array pieces in every position, std::array arguments, and constant evaluation); mt19937 (seeds 0,1,5489,2^32-1,random; >= 2000 outputs and "
        "the full private state) vs std::mt19937; pcg_basic32 vs the pcg-c-basic reference; insertion_sort on all arrays of "
        "length <= 6 over 3 keys (tagged) and random ones under 5 comparators. non-trivial = distinct script that "
        "(bitset) shifts across a word boundary or by >= N, (mt) passes >= 1 regeneration, (pcg) makes a bounded draw, "
        "(sort) has >= 2 elements, (array) calls back/concat")
TRUSTED = ["extraction: ExtrOcamlBasic only; OCaml 4.13.1; comp/bits/driver.ml",
           "correspondence harness comp/bits/harness.cpp (g++ -O1 -fsanitize=address,undefined -fno-access-control -fno-lifetime-dse)",
           "oracle: libstdc++ std::bitset/std::array/std::mt19937/std::rotr, the pcg-c-basic reference re-typed in the harness "
           "+ its published demo vector, ASan redzones around exact-size heap objects",
           "meaning of __builtin_popcountll = number of 1 digits (BitsetModel.popcount)"]
ASSUMPTIONS = ["bitset: N >= 1; set/reset/flip/test/operator[] only with pos < N (std::bitset throws there; documented precondition)",
               "integer constructor argument and shift amounts are any 64-bit values",
               "pcg bounded draw: bound > 0 (bound = 0 divides by zero); generator state is a uint64 with an odd increment (every seeded state)",
               "insertion_sort: comp asymmetric and transitive; element swap is value exchange"]

def nontrivial(cid, lines, ri):
    k = gen.kind_of(lines)
    if k == "bitset":
        n = int(lines[0].split()[1])
        for l in lines:
            t = l.split()
            if t[0] in ("shl", "shr", "shlc", "shrc"):
                p = int(t[-1])
                if p >= n or (p % 64 and n > 64):
                    return "|".join(lines)
        return None
    if k == "mt":
        return "|".join(lines) if any(l.startswith("gen") and int(l.split()[1]) > 0 for l in lines) else None
    if k == "pcg":
        return "|".join(lines) if any(l.startswith("bounded") for l in lines) else None
    if k == "sortcase":
        return "|".join(lines) if any(len(l.split()) >= 4 for l in lines) else None
    if k == "array":
        return "|".join(lines) if any(l.startswith(("back", "concat", "eq")) for l in lines) or "cconcat" in lines[0] else None
    return None

GEN_OBLIGATIONS = ["BitsConsts_mt_ok", "BitsConsts_pcg_ok", "BitsConsts_bitset_ok"]

def regen(c):
    """constants of random.hpp / literals of bitset.hpp from the clang AST -> coq/Gen/BitsConsts.v, closed by vm_compute"""
    rc, o, e = vlib.sh([sys.executable, os.path.join(vlib.ROOT, "translator", "gen_bits.py")], timeout=600)
    ok = rc == 0
    log = (o + e)[-600:]
    if ok:
        ok, mlog = vlib.coq_make(["Gen/BitsConsts.vo"], jobs=2)
        log = mlog[-800:]
    for name in GEN_OBLIGATIONS:
        c.gen_obligation(name, ok, "" if ok else "(translator/gen_bits.py or coq/Gen/BitsConsts.v failed: %s)" % log)
    return ok

def build(c):
    regen(c)
    okm, mlog = vlib.coq_make(["Bits/BitsExtract.vo"], jobs=4)
    okd, drv, dlog = vlib.ocaml_build("bits_m", ["bits_model"], os.path.join(vlib.ROOT, "comp/bits/driver.ml"))
    if not (okm and okd):
        c.broken.append("bits model extraction/driver build failed: " + (mlog[-800:] if not okm else dlog[-800:]))
    src = os.path.join(vlib.ROOT, "comp/bits/harness.cpp")
    jobs = [("bits_h%d" % g, ["-DBITS_SIZES=" + " ".join("X(%d)" % n for n in gen.group_sizes(g)), "-fno-lifetime-dse"])
            for g in range(gen.NGROUPS)]
    # the two array TUs are the slowest: start them first
    jobs = [("bits_harrA", ["-DBITS_ARRAY_A", "-fno-lifetime-dse"]), ("bits_harrB", ["-DBITS_ARRAY_B", "-fno-lifetime-dse"])] + jobs
    jobs.append(("bits_hmisc", ["-DBITS_MISC", "-fno-lifetime-dse"]))
    with ThreadPoolExecutor(max_workers=5) as ex:
        res = list(ex.map(lambda j: vlib.cxx_build(j[0], src, extra=j[1]), jobs))
    exes = {}
    for (name, _), (ok, exe, log) in zip(jobs, res):
        if not ok:
            c.broken.append("bits harness %s does not compile against the repo: %s" % (name, log[-1500:]))
            return None, None
        exes[name] = exe
    return (drv if okd else None), exes

def make_cases(c):
    rng = c.rng
    cases = gen.corpus()
    quick = c.tier == "quick"
    for n in gen.SIZES:
        for rep in range(1 if quick else 3):
            for j, ls in enumerate(gen.shift_sweep(rng, n)):
                cases.append(("sweep-%d-%d-%d" % (n, rep, j), ls))
        for j in range(3 if quick else 80):
            cases.append(("b%d-%d" % (n, j), gen.gen_bitset(rng, n, rng.choice([20, 60, 120]))))
    for kind, sizes in gen.ARRAY_KINDS.items():
        for n in sizes:
            for j in range(6 if quick else 60):
                cases.append(("arr-%s-%d-%d" % (kind, n, j), gen.gen_array(rng, kind, n)))
    seeds = [None, 0, 1, 5489, 2**32 - 1] + [rng.getrandbits(32) for _ in range(5 if quick else 60)]
    for j, s in enumerate(seeds):
        cases.append(("mt-%d" % j, gen.gen_mt(rng, s, 2000 if j < 6 else rng.choice([2000, 2500, 624, 625, 1248]))))
    for j in range(40 if quick else 600):
        cases.append(("pcg-%d" % j, gen.gen_pcg(rng)))
    sl = gen.sort_lines_exhaustive(6 if quick else 7)
    for i in range(0, len(sl), 100):
        cases.append(("sort-ex-%d" % (i // 100), ["sortcase"] + sl[i:i + 100]))
    for j in range(20 if quick else 300):
        cases.append(("sort-r%d" % j, gen.gen_sort_random(rng, 30)))
    if not quick:
        cases += gen.exhaustive_small(8)
    return cases

def run(c):
    """legs C and O for the bits component; returns False if something could not be built."""
    drv, exes = build(c)
    if exes is None:
        return False
    cases = vlib.read_replay(c.replay) if c.replay else make_cases(c)
    route = {}
    for cid, ls in cases:
        k = gen.kind_of(ls)
        c.count("bits_cases_" + k); c.count("bits_ops_" + k, len(ls) - 1)
        if k == "bitset":
            n = int(ls[0].split()[1])
            g = gen.group_of(n)
            name = "bits_h%d" % (g if g is not None else 0)
            c.count("bits_bitset_Nmod64_%s" % ("0" if n % 64 == 0 else "1" if n % 64 == 1 else "63" if n % 64 == 63 else "other"))
            for l in ls:
                t = l.split()
                if t[0] in ("shl", "shr", "shlc", "shrc"):
                    p = int(t[-1])
                    c.count("bits_shift_" + ("ge_64words" if p >= 64 * ((n + 63) // 64) else "ge_N" if p >= n else
                                             "zero" if p == 0 else "word_multiple" if p % 64 == 0 else "general"))
        elif k == "array":
            kind = ls[0].split()[1]
            name = "bits_harr" + gen.ARRAY_GROUP.get(kind, "A")
            c.count("bits_array_kind_" + kind)
        else:
            name = "bits_hmisc"
        route.setdefault(name, []).append((cid, ls))
    impl = {}
    # compact sanitizer reports (source locations only) so that the first line survives vlib's tail cut
    fmt = ':stack_trace_format="#%n %S"'
    env = {"ASAN_OPTIONS": vlib.SAN_ENV["ASAN_OPTIONS"] + ":malloc_context_size=0:print_legend=0" + fmt,
           "UBSAN_OPTIONS": vlib.SAN_ENV["UBSAN_OPTIONS"] + fmt}
    for name, cs in route.items():
        impl.update(vlib.run_cases(exes[name], cs, shards=min(4, max(1, len(cs) // 8)), timeout=300, env=env))
    model = vlib.run_cases(drv, cases, shards=8, timeout=600) if drv else {}
    c.compare(cases, impl, model, nontrivial)
    # constant evaluation of array_concat under static_assert (separate TU so that a failing assertion does not
    # take the run-time harness, and with it the failing inputs, away)
    rc, o, e = vlib.sh(["g++"] + vlib.CXX_BASE + ["-fsyntax-only", os.path.join(vlib.ROOT, "comp/bits/constexpr_check.cpp")], timeout=300)
    c.count("bits_constexpr_static_asserts", 7)
    if rc != 0:
        msg = next((l for l in e.split("\n") if "static assertion failed" in l or "error" in l), e.strip()[:200])
        c.oracle("array-constexpr", "constexpr_check.cpp does not compile: " + msg.strip()[:300],
                 "corpus-array-concat-empty-constexpr", ["array cconcat"])
    return True
