"""Script generator for C18 (bitset, array, mt19937, pcg_basic32, insertion_sort).
Aimed at: N mod 64 in {0,1,63} and their neighbours, shift amounts at every word/offset boundary,
at N, at 64*ceil(N/64) and far beyond (2^k), positions at word boundaries, the last word's padding,
mt19937 past several regenerations, pcg bounds with high rejection rates, all small arrays for the sort."""
import itertools

SIZES = list(range(1, 131)) + [191, 192, 193, 253, 255, 256, 257, 320]
NGROUPS = 8
M64 = (1 << 64) - 1

def group_of(n):
    return SIZES.index(n) % NGROUPS if n in SIZES else None

def group_sizes(g):
    return [n for i, n in enumerate(SIZES) if i % NGROUPS == g]

def kind_of(lines):
    return lines[0].split()[0] if lines else "?"

def nwords(n):
    return (n + 63) // 64

# ---------------------------------------------------------------------------------------------
def pattern_ops(rng, n, r):
    """ops that give register r an interesting value reaching into every word"""
    v = rng.choice([0, M64, 1, 1 << 63, 0xAAAAAAAAAAAAAAAA, 0x5555555555555555, rng.getrandbits(64), rng.getrandbits(64),
                    (1 << (n % 64)) - 1 if n % 64 else M64, rng.getrandbits(64) | (1 << 63) | 1])
    ops = ["val %d %d" % (r, v)]
    k = rng.choice([0, 1, 3, n // 3 + 1, n])
    for _ in range(k):
        ops.append("set1 %d %d" % (r, rng.randrange(n)))
    if n > 64 and rng.random() < 0.7:
        ops.append("shl %d %d" % (r, rng.randrange(1, n)))
        ops.append("xor %d %d" % (r, rng.randrange(4)))
        for _ in range(rng.randrange(4)):
            ops.append("flip %d %d" % (r, rng.randrange(n)))
    ops += ["set1 %d %d" % (r, n - 1)] if rng.random() < 0.5 else []
    return ops

def shift_amount(rng, n):
    bs = nwords(n)
    c = rng.random()
    if c < 0.45:
        return rng.randrange(0, n + 201)
    if c < 0.75:
        return max(0, rng.choice([0, 1, 63, 64, 65, 127, 128, n - 1, n, n + 1, 64 * bs - 1, 64 * bs, 64 * bs + 1,
                                  64 * (bs - 1), 64 * (bs - 1) + 1, 64 * bs + 64, n + 200, n % 64, 64 - n % 64]))
    if c < 0.95:
        return 1 << rng.randrange(64)
    return rng.choice([M64, M64 - 63, (1 << 63) + 64, (1 << 32) + rng.randrange(128)])

def position(rng, n):
    if rng.random() < 0.5:
        return rng.randrange(n)
    bs = nwords(n)
    return min(n - 1, max(0, rng.choice([0, 1, 62, 63, 64, 65, n - 1, n - 2, 64 * (bs - 1), 64 * (bs - 1) - 1, n // 2])))

def gen_bitset(rng, n, n_ops):
    lines = ["bitset %d" % n]
    for r in range(4):
        if rng.random() < 0.8:
            lines += pattern_ops(rng, n, r)
    R = lambda: rng.randrange(4)
    for _ in range(n_ops):
        c = rng.random()
        if c < 0.30:
            o = rng.choice(["shl", "shr", "shlc", "shrc"])
            if o in ("shl", "shr"):
                lines.append("%s %d %d" % (o, R(), shift_amount(rng, n)))
            else:
                lines.append("%s %d %d %d" % (o, R(), R(), shift_amount(rng, n)))
        elif c < 0.50:
            o = rng.choice(["set", "set1", "reset", "flip", "ref=", "refflip", "refcp"])
            p = position(rng, n)
            if o in ("set", "ref="):
                lines.append("%s %d %d %d" % (o, R(), p, rng.randrange(2)))
            elif o == "refcp":
                lines.append("refcp %d %d %d %d" % (R(), p, R(), position(rng, n)))
            else:
                lines.append("%s %d %d" % (o, R(), p))
        elif c < 0.62:
            lines.append("%s %d %d" % (rng.choice(["test", "ctest", "refnot", "refbool"]), R(), position(rng, n)))
        elif c < 0.74:
            o = rng.choice(["and", "or", "xor", "not", "and3", "or3", "xor3"])
            if o.endswith("3"):
                lines.append("%s %d %d %d" % (o, R(), R(), R()))
            else:
                lines.append("%s %d %d" % (o, R(), R()))
        elif c < 0.82:
            lines.append("%s %d" % (rng.choice(["setall", "resetall", "flipall", "flipall", "new"]), R()))
        elif c < 0.88:
            lines += pattern_ops(rng, n, R())
        else:
            o = rng.choice(["count", "any", "all", "none", "eq", "size", "count", "all"])
            lines.append("eq %d %d" % (R(), R()) if o == "eq" else "%s %d" % (o, R()))
    for r in range(4):
        lines += ["count %d" % r, "any %d" % r, "all %d" % r, "none %d" % r]
    return lines

def shift_sweep(rng, n, chunk=120):
    """every shift amount 0..N+200 and every 2^k, both directions, of a pattern with bit 0, bit N-1 and
    random bits set; split into several cases"""
    amounts = list(range(0, n + 201)) + [1 << k for k in range(64)] + [M64]
    pre = ["bitset %d" % n] + pattern_ops(rng, n, 1) + ["set1 1 0", "set1 1 %d" % (n - 1)]
    pre += ["setall 3"]
    out = []
    for i in range(0, len(amounts), chunk):
        ls = list(pre)
        for p in amounts[i:i + chunk]:
            ls += ["shlc 0 1 %d" % p, "shrc 2 1 %d" % p]
            if p % 7 == 0:
                ls += ["shlc 0 3 %d" % p, "count 0", "shrc 2 3 %d" % p, "count 2"]
        out.append(ls)
    return out

def exhaustive_small(maxn=6):
    """thorough tier: every value of bitset<N>, N <= maxn, under every unary op / query and every shift 0..N+2, 64, 65"""
    out = []
    for n in range(1, maxn + 1):
        for v in range(1 << n):
            ls = ["bitset %d" % n, "val 1 %d" % v, "count 1", "any 1", "all 1", "none 1", "not 0 1", "count 0"]
            for p in list(range(0, n + 3)) + [64, 65]:
                ls += ["shlc 0 1 %d" % p, "shrc 2 1 %d" % p]
            for p in range(n):
                ls += ["val 0 %d" % v, "flip 0 %d" % p, "refnot 0 %d" % p, "eq 0 1"]
            out.append(("ex-bitset-%d-%d" % (n, v), ls))
    return out

# ---------------------------------------------------------------------------------------------
ARRAY_KINDS = {"u64": [1, 2, 3, 4, 7, 16], "f64": [1, 3, 4], "f32": [1, 3, 4], "ptr": [1, 3, 4], "enum": [1, 3, 4], "pad": [1, 3, 4]}
ARRAY_GROUP = {"u64": "A", "pad": "A", "enum": "A", "f64": "B", "f32": "B", "ptr": "B"}

def array_elem(rng, kind):
    """an element code (see comp/bits/harness.cpp: floats 0..9 = +0 -0 NaN +inf -inf 1 -1 2.5 denorm -NaN)"""
    if kind == "u64":
        return rng.choice([0, 1, M64, rng.randrange(1000), rng.getrandbits(64)])
    if kind in ("f64", "f32"):
        return rng.choice([0, 1, 2, 3, 4, 5, 6, 7, 8, 9, 0, 1, 2, rng.randrange(10, 40), rng.randrange(10, 1 << 20)])
    if kind == "ptr":
        return rng.randrange(200)
    if kind == "enum":
        return rng.choice([0, 255, 256, rng.randrange(600)])
    return rng.randrange(4) + (rng.choice([0, 1, 2, 3, 4, 5, 1 << 31, (1 << 32) - 1, rng.getrandbits(32)]) << 8)   # pad: a + (b << 8)

def array_equiv(rng, kind, c):
    """another code for an element that compares equal to c under the element's own == (where one exists)"""
    if kind in ("f64", "f32"):
        return {0: 1, 1: 0}.get(c, c)
    if kind == "ptr":
        return c + 64
    if kind == "enum":
        return c + 256
    if kind == "pad":
        return c ^ 256           # flips the low bit of b, which Pad::operator== ignores
    return c

def gen_array(rng, kind, n):
    e = lambda: array_elem(rng, kind)
    cur = [e() for _ in range(n)]
    lines = ["array %s %d " % (kind, n) + " ".join(map(str, cur))]
    for _ in range(rng.randrange(6, 26)):
        o = rng.choice(["front", "back", "back", "idx", "put", "iter", "eq", "eq", "eqv", "eqv", "eqself", "size", "get", "swap", "concat", "concatz"])
        if o == "idx":
            lines.append("idx %d" % rng.randrange(n))
        elif o == "put":
            i = rng.choice([0, n - 1, rng.randrange(n)]); v = e(); cur[i] = v
            lines.append("put %d %d" % (i, v))
        elif o == "eq":          # unrelated / periodic comparand
            lines.append("eq " + " ".join(str(e()) for _ in range(rng.randrange(1, n + 1))))
        elif o == "eqv":         # the same elements, some written with an equivalent code, at most one really changed
            v = [array_equiv(rng, kind, c) if rng.random() < 0.5 else c for c in cur]
            if rng.random() < 0.3:
                v[rng.randrange(n)] = e()
            lines.append("eq " + " ".join(map(str, v)))
        elif o == "swap":
            v = [e() for _ in range(n)]
            lines.append("swap " + " ".join(map(str, v))); cur = v
        elif o == "concatz":
            lines.append("concatz " + " ".join(str(e()) for _ in range(5)))
        elif o == "concat":
            m = rng.choice([1, 2, 3, 5] if kind == "u64" else [2, 5])
            lines.append("concat %d " % m + " ".join(str(e()) for _ in range(5)))
        else:
            lines.append(o)
    lines += ["front", "back", "iter", "eqself"]
    return lines

def gen_mt(rng, seed=None, count=2000):
    lines = ["mt"]
    if seed is not None:
        lines.append("seed %d" % seed)
    lines += ["gen %d" % count, "state"]
    if rng.random() < 0.5:
        lines += ["seed %d" % rng.getrandbits(32), "gen %d" % rng.choice([1, 623, 624, 625, 700]), "state"]
    return lines

def gen_pcg(rng):
    lines = ["pcg"]
    big = lambda: rng.choice([0, 1, 42, M64, 1 << 63, rng.getrandbits(64), rng.getrandbits(64)])
    for _ in range(rng.randrange(1, 4)):
        c = rng.random()
        if c < 0.4:
            lines.append("ctor %d %d" % (big(), big()))
        elif c < 0.6:
            lines.append("ctor1 %d" % big())
        else:
            lines.append("seed %d %d" % (big(), big()))
        lines.append("gen %d" % rng.choice([1, 8, 50, 200]))
        for _ in range(rng.randrange(1, 4)):
            b = rng.choice([1, 2, 3, 5, 6, 7, 10, 100, 1000, 1 << 16, (1 << 31) - 1, 1 << 31, (1 << 31) + 1,
                            (1 << 32) - 1, (1 << 32) - 2, 3 << 30, rng.randrange(1, 1 << 32), rng.randrange(1, 1 << 32)])
            lines.append("bounded %d %d" % (b, rng.choice([1, 20, 60])))
    return lines

def sort_lines_exhaustive(maxlen=6, kinds=(0, 1, 2, 3)):
    out = []
    for n in range(0, maxlen + 1):
        for keys in itertools.product((0, 1, 2), repeat=n):
            elems = " ".join(str(k * 16 + i) for i, k in enumerate(keys))
            for kd in kinds:
                out.append(("sort %d %s" % (kd, elems)).rstrip())
    return out

def gen_sort_random(rng, n_lines):
    lines = ["sortcase"]
    for _ in range(n_lines):
        n = rng.choice([0, 1, 2, 3, 7, 8, 15, 40])
        ks = rng.choice([2, 3, 10, 1000])
        elems = " ".join(str(rng.randrange(ks) * 16 + (i % 16)) for i in range(n))
        lines.append(("sort %d %s" % (rng.choice([0, 1, 2, 3, 4]), elems)).rstrip())
    return lines

# ---------------------------------------------------------------------------------------------
def corpus():
    """Minimised past failures (the replays that showed D20-D23 on the unfixed code); run first."""
    cs = []
    cs.append(("corpus-d20-array-back", ["array u64 3 10 20 30", "back"]))
    # seeded change (round 2): array::operator== via memcmp for scalar T -- wrong for floating point
    cs.append(("corpus-array-eq-signed-zero", ["array f64 3 0 5 1", "eq 1 5 0", "eqself"]))
    cs.append(("corpus-array-eq-nan", ["array f64 1 2", "eqself", "eq 2", "eq 9"]))
    cs.append(("corpus-array-eq-f32", ["array f32 4 0 2 3 7", "eqself", "eq 1 2 3 7", "put 1 6", "eq 1 6 3 7", "eqself"]))
    cs.append(("corpus-array-eq-pad-enum-ptr", ["array pad 3 1 258 515", "eq 1 2 771", "eq 1 258 516", "eqself"]))
    # seeded change (round 2): concat_insert stopped at a zero-length piece that is not the last argument
    cs.append(("corpus-array-concat-empty-pieces", ["array u64 3 10 20 30", "concatz 1 2 3 4 5"]))
    cs.append(("corpus-array-concat-empty-f64", ["array f64 1 2", "concatz 1 0 9 5 3"]))
    cs.append(("corpus-array-concat-empty-constexpr", ["array cconcat"]))
    cs.append(("corpus-array-concat-5", ["array u64 2 1 2", "concat 3 7 8 9 10 11", "concat 5 1 2 3 4 5"]))
    cs.append(("corpus-d21-ctor-mask", ["bitset 12", "val 0 65535", "count 0"]))
    cs.append(("corpus-d21-ctor-upper-words", ["bitset 70", "val 0 5", "count 0"]))
    cs.append(("corpus-d22-ref-not", ["bitset 12", "set1 0 3", "refnot 0 3", "refnot 0 4"]))
    cs.append(("corpus-d23-shl-far", ["bitset 70", "setall 0", "shl 0 200"]))
    cs.append(("corpus-d23-shr-far", ["bitset 70", "setall 0", "shr 0 128"]))
    cs.append(("corpus-d23-shr-wordmultiple", ["bitset 64", "setall 0", "shr 0 64"]))
    cs.append(("corpus-d23-shl-between", ["bitset 12", "setall 0", "shl 0 64"]))
    cs.append(("corpus-existing-test-253", ["bitset 253", "set1 1 23", "set1 1 124", "set1 1 32", "set1 1 123", "set1 1 1", "set1 1 252", "shlc 0 1 12", "count 0"]))
    # tests.cpp bitset::setters_and_getters: bitset<12>::set(13) / test(13) must keep working (no fix may change it)
    cs.append(("corpus-existing-test-set13", ["bitset 12", "xset 0 13", "xtest 0 13", "xset 0 15", "xtest 0 15", "xtest 0 14", "xtest 0 12"]))
    cs.append(("corpus-existing-test-set47", ["bitset 50", "val 0 35184372088832", "ctest 0 45", "set1 0 47", "ctest 0 47", "count 0"]))
    cs.append(("corpus-pcg-demo", ["pcg", "demo", "ctor 42 54", "gen 6", "bounded 6 20"]))
    cs.append(("corpus-mt-default", ["mt", "gen 1300", "state"]))
    cs.append(("corpus-sort-ties", ["sortcase", "sort 0 16 0 17 1 32", "sort 2 0 16 32 48", "sort 3 3 2 1", "sort 0"]))
    return cs
