// Harness for C18: frg::bitset, frg::array, frg::mt19937, frg::pcg_basic32, frg::insertion_sort.
// Runs op scripts on the REAL code from /repo/include, prints canonical lines (compared with the
// extracted Gallina model) and evaluates the property with references that do not use the model:
// std::bitset<N> bit by bit + padding inspection, std::array, std::mt19937, the PCG reference C
// code (re-typed below, plus an independently written 128-bit/rotr formulation and the published
// demo vector), a permutation/ordering checker for the sort.
//
// One source, several translation units: -DBITS_SIZES="X(1) X(9) ..." selects the bitset sizes
// instantiated in this TU; -DBITS_MISC builds the array/PRNG/sort part.
#include <algorithm>
#include <array>
#include <bit>
#include <bitset>
#include <map>
#include <new>
#include <random>
#include "vharness.hpp"
#include <frg/bitset.hpp>
#include <frg/array.hpp>
#include <frg/random.hpp>
#include <frg/algorithm.hpp>

using vh::oracle;
typedef unsigned long long ull;

// ================================================================================================
// bitset
// ================================================================================================
static const int NREG = 4;

struct IBits {
	virtual ~IBits() {}
	virtual size_t n() = 0;
	virtual size_t nwords() = 0;
	virtual size_t objsize() = 0;
	virtual uint64_t word(int r, size_t i) = 0;
	virtual bool sbit(int r, size_t i) = 0;
	virtual void ctor_default(int r) = 0;
	virtual void ctor_val(int r, ull v) = 0;
	virtual void set_all(int r) = 0;
	virtual void reset_all(int r) = 0;
	virtual void flip_all(int r) = 0;
	virtual void set(int r, size_t p, bool v) = 0;
	virtual void set1(int r, size_t p) = 0;
	virtual void reset(int r, size_t p) = 0;
	virtual void flip(int r, size_t p) = 0;
	virtual void test(int r, size_t p, bool &f, bool &s) = 0;
	virtual void ctest(int r, size_t p, bool &f, bool &s) = 0;
	virtual void ref_assign(int r, size_t p, bool v) = 0;
	virtual void ref_copy(int r, size_t p, int r2, size_t p2) = 0;
	virtual void ref_not(int r, size_t p, bool &f, bool &s) = 0;
	virtual void ref_bool(int r, size_t p, bool &f, bool &s) = 0;
	virtual void ref_flip(int r, size_t p) = 0;
	virtual void and_(int r, int r2) = 0;
	virtual void or_(int r, int r2) = 0;
	virtual void xor_(int r, int r2) = 0;
	virtual void and3(int r, int a, int b) = 0;
	virtual void or3(int r, int a, int b) = 0;
	virtual void xor3(int r, int a, int b) = 0;
	virtual void not_(int r, int r2) = 0;
	virtual void shl(int r, size_t p) = 0;
	virtual void shr(int r, size_t p) = 0;
	virtual void shlc(int r, int r2, size_t p) = 0;
	virtual void shrc(int r, int r2, size_t p) = 0;
	virtual void count(int r, size_t &f, size_t &s) = 0;
	virtual void any(int r, bool &f, bool &s) = 0;
	virtual void all(int r, bool &f, bool &s) = 0;
	virtual void none(int r, bool &f, bool &s) = 0;
	virtual void eq(int r, int r2, bool &f, bool &s) = 0;
	virtual size_t size(int r) = 0;
	virtual void xset(int r, size_t p) = 0;
	virtual bool xtest(int r, size_t p) = 0;
};

template <size_t N>
struct Impl : IBits {
	using F = frg::bitset<N>;
	using S = std::bitset<N>;
	F *f[NREG];
	void *mem[NREG];
	S s[NREG];
	Impl() {
		for(int r = 0; r < NREG; r++) {
			// exact-size heap block: ASan redzones right after the object
			mem[r] = malloc(sizeof(F));
			memset(mem[r], 0xAA, sizeof(F));
			f[r] = new(mem[r]) F();
		}
	}
	~Impl() { for(int r = 0; r < NREG; r++) free(mem[r]); }
	size_t n() override { return N; }
	size_t nwords() override { return F::buffer_size; }
	size_t objsize() override { return sizeof(F); }
	uint64_t word(int r, size_t i) override { return f[r]->buffer[i]; }
	bool sbit(int r, size_t i) override { return s[r][i]; }
	void ctor_default(int r) override { memset(mem[r], 0xAA, sizeof(F)); f[r] = new(mem[r]) F(); s[r] = S(); }
	void ctor_val(int r, ull v) override { memset(mem[r], 0xAA, sizeof(F)); f[r] = new(mem[r]) F(v); s[r] = S(v); }
	void set_all(int r) override { f[r]->set(); s[r].set(); }
	void reset_all(int r) override { f[r]->reset(); s[r].reset(); }
	void flip_all(int r) override { f[r]->flip(); s[r].flip(); }
	void set(int r, size_t p, bool v) override { f[r]->set(p, v); s[r].set(p, v); }
	void set1(int r, size_t p) override { f[r]->set(p); s[r].set(p); }
	void reset(int r, size_t p) override { f[r]->reset(p); s[r].reset(p); }
	void flip(int r, size_t p) override { f[r]->flip(p); s[r].flip(p); }
	void test(int r, size_t p, bool &a, bool &b) override { a = f[r]->test(p); b = s[r].test(p); }
	void ctest(int r, size_t p, bool &a, bool &b) override { const F &c = *f[r]; const S &d = s[r]; a = c[p]; b = d[p]; }
	void ref_assign(int r, size_t p, bool v) override { (*f[r])[p] = v; s[r][p] = v; }
	void ref_copy(int r, size_t p, int r2, size_t p2) override {
		typename F::reference x = (*f[r])[p], y = (*f[r2])[p2]; x = y;
		typename S::reference u = s[r][p], w = s[r2][p2]; u = w;
	}
	void ref_not(int r, size_t p, bool &a, bool &b) override { b = ~s[r][p]; a = ~(*f[r])[p]; }
	void ref_bool(int r, size_t p, bool &a, bool &b) override { a = bool((*f[r])[p]); b = bool(s[r][p]); }
	void ref_flip(int r, size_t p) override { (*f[r])[p].flip(); s[r][p].flip(); }
	void and_(int r, int r2) override { *f[r] &= *f[r2]; s[r] &= s[r2]; }
	void or_(int r, int r2) override { *f[r] |= *f[r2]; s[r] |= s[r2]; }
	void xor_(int r, int r2) override { *f[r] ^= *f[r2]; s[r] ^= s[r2]; }
	void and3(int r, int a, int b) override { *f[r] = *f[a] & *f[b]; s[r] = s[a] & s[b]; }
	void or3(int r, int a, int b) override { *f[r] = *f[a] | *f[b]; s[r] = s[a] | s[b]; }
	void xor3(int r, int a, int b) override { *f[r] = *f[a] ^ *f[b]; s[r] = s[a] ^ s[b]; }
	void not_(int r, int r2) override { *f[r] = ~*f[r2]; s[r] = ~s[r2]; }
	void shl(int r, size_t p) override { *f[r] <<= p; s[r] <<= p; }
	void shr(int r, size_t p) override { *f[r] >>= p; s[r] >>= p; }
	void shlc(int r, int r2, size_t p) override { *f[r] = *f[r2] << p; s[r] = s[r2] << p; }
	void shrc(int r, int r2, size_t p) override { *f[r] = *f[r2] >> p; s[r] = s[r2] >> p; }
	void count(int r, size_t &a, size_t &b) override { a = f[r]->count(); b = s[r].count(); }
	void any(int r, bool &a, bool &b) override { a = f[r]->any(); b = s[r].any(); }
	void all(int r, bool &a, bool &b) override { a = f[r]->all(); b = s[r].all(); }
	void none(int r, bool &a, bool &b) override { a = f[r]->none(); b = s[r].none(); }
	void eq(int r, int r2, bool &a, bool &b) override { a = (*f[r] == *f[r2]); b = (s[r] == s[r2]); }
	size_t size(int r) override { return f[r]->size(); }
	void xset(int r, size_t p) override { f[r]->set(p); }
	bool xtest(int r, size_t p) override { return f[r]->test(p); }
};

#ifndef BITS_SIZES
#define BITS_SIZES
#endif
static IBits *make_bits(size_t n) {
	switch(n) {
#define X(K) case K: return new Impl<K>();
	BITS_SIZES
#undef X
	default: return nullptr;
	}
}

static void print_words(IBits *b, int r) {
	printf("w");
	for(size_t i = 0; i < b->nwords(); i++) printf(" %016llx", (ull)b->word(r, i));
	printf("\n");
}

// the property, evaluated on the real object against std::bitset: every bit below N, padding above
static void check_regs(IBits *b, const char *after) {
	size_t N = b->n(), nw = b->nwords();
	if(nw != (N + 63) / 64 || b->objsize() != nw * 8)
		oracle("bitset-layout", "bitset<%zu>: %zu words, sizeof %zu", N, nw, b->objsize());
	for(int r = 0; r < NREG; r++) {
		for(size_t i = 0; i < N; i++) {
			bool fb = (b->word(r, i / 64) >> (i % 64)) & 1;
			if(fb != b->sbit(r, i)) {
				oracle("bitset-ref", "bitset<%zu> after '%s': register %d bit %zu is %d, std::bitset has %d", N, after, r, i, (int)fb, (int)b->sbit(r, i));
				return;
			}
		}
		if(N % 64) {
			uint64_t pad = b->word(r, nw - 1) >> (N % 64);
			if(pad) { oracle("bitset-padding", "bitset<%zu> after '%s': register %d has bits set at or beyond N (last word %016llx)", N, after, r, (ull)b->word(r, nw - 1)); return; }
		}
	}
}

static void qbool(const char *what, size_t N, const std::string &line, bool f, bool s) {
	printf("b %d\n", (int)f);
	if(f != s) oracle("bitset-ref", "bitset<%zu> '%s': %s returned %d, std::bitset %d", N, line.c_str(), what, (int)f, (int)s);
}

static void bitset_case(const vh::Lines &ls, size_t N) {
	IBits *b = make_bits(N);
	if(!b) { printf("unsupported-size %zu\n", N); return; }
	bool out_of_domain = false;
	for(size_t li = 1; li < ls.size(); li++) {
		auto t = vh::split(ls[li]);
		const std::string &o = t[0];
		auto R = [&](int k) { return (int)(vh::u64(t[k]) % NREG); };
		auto P = [&](int k) { return (size_t)vh::u64(t[k]); };
		bool f = false, s = false; int tgt = -1;
		if(o == "new") { tgt = R(1); b->ctor_default(tgt); }
		else if(o == "val") { tgt = R(1); b->ctor_val(tgt, vh::u64(t[2])); }
		else if(o == "setall") { tgt = R(1); b->set_all(tgt); }
		else if(o == "resetall") { tgt = R(1); b->reset_all(tgt); }
		else if(o == "flipall") { tgt = R(1); b->flip_all(tgt); }
		else if(o == "set") { tgt = R(1); b->set(tgt, P(2), vh::u64(t[3]) != 0); }
		else if(o == "set1") { tgt = R(1); b->set1(tgt, P(2)); }
		else if(o == "reset") { tgt = R(1); b->reset(tgt, P(2)); }
		else if(o == "flip") { tgt = R(1); b->flip(tgt, P(2)); }
		else if(o == "test") { b->test(R(1), P(2), f, s); qbool("test", N, ls[li], f, s); }
		else if(o == "ctest") { b->ctest(R(1), P(2), f, s); qbool("operator[] const", N, ls[li], f, s); }
		else if(o == "ref=") { tgt = R(1); b->ref_assign(tgt, P(2), vh::u64(t[3]) != 0); }
		else if(o == "refcp") { tgt = R(1); b->ref_copy(tgt, P(2), R(3), P(4)); }
		else if(o == "refnot") { b->ref_not(R(1), P(2), f, s); qbool("~reference", N, ls[li], f, s); }
		else if(o == "refbool") { b->ref_bool(R(1), P(2), f, s); qbool("bool(reference)", N, ls[li], f, s); }
		else if(o == "refflip") { tgt = R(1); b->ref_flip(tgt, P(2)); }
		else if(o == "and") { tgt = R(1); b->and_(tgt, R(2)); }
		else if(o == "or") { tgt = R(1); b->or_(tgt, R(2)); }
		else if(o == "xor") { tgt = R(1); b->xor_(tgt, R(2)); }
		else if(o == "and3") { tgt = R(1); b->and3(tgt, R(2), R(3)); }
		else if(o == "or3") { tgt = R(1); b->or3(tgt, R(2), R(3)); }
		else if(o == "xor3") { tgt = R(1); b->xor3(tgt, R(2), R(3)); }
		else if(o == "not") { tgt = R(1); b->not_(tgt, R(2)); }
		else if(o == "shl") { tgt = R(1); b->shl(tgt, P(2)); }
		else if(o == "shr") { tgt = R(1); b->shr(tgt, P(2)); }
		else if(o == "shlc") { tgt = R(1); b->shlc(tgt, R(2), P(3)); }
		else if(o == "shrc") { tgt = R(1); b->shrc(tgt, R(2), P(3)); }
		else if(o == "count") { size_t a, c; b->count(R(1), a, c); printf("n %zu\n", a);
			if(a != c) oracle("bitset-ref", "bitset<%zu> '%s': count() = %zu, std::bitset %zu", N, ls[li].c_str(), a, c); }
		else if(o == "any") { b->any(R(1), f, s); qbool("any", N, ls[li], f, s); }
		else if(o == "all") { b->all(R(1), f, s); qbool("all", N, ls[li], f, s); }
		else if(o == "none") { b->none(R(1), f, s); qbool("none", N, ls[li], f, s); }
		else if(o == "eq") { b->eq(R(1), R(2), f, s); qbool("operator==", N, ls[li], f, s); }
		else if(o == "size") { printf("n %zu\n", b->size(R(1))); if(b->size(R(1)) != N) oracle("bitset-ref", "size() = %zu for bitset<%zu>", b->size(R(1)), N); }
		// pos in [N, 64*ceil(N/64)): outside std::bitset's domain (it throws); the existing repo test
		// bitset::setters_and_getters relies on it, so it is compared with the model only and the
		// std::bitset oracle is switched off for the rest of the script
		else if((o == "xset" || o == "xtest") && P(2) >= 64 * b->nwords()) { printf("UB\n"); delete b; return; }
		else if(o == "xset") { tgt = R(1); b->xset(tgt, P(2)); out_of_domain = true; }
		else if(o == "xtest") { printf("b %d\n", (int)b->xtest(R(1), P(2))); }
		else { printf("?\n"); continue; }
		if(tgt >= 0) print_words(b, tgt);
		if(!out_of_domain) check_regs(b, ls[li].c_str());
	}
	for(int r = 0; r < NREG; r++) print_words(b, r);
	delete b;
}

// ================================================================================================
// array
// ================================================================================================
#if defined(BITS_ARRAY_A) || defined(BITS_ARRAY_B) || defined(BITS_MISC)
static void print_list(const char *tag, const std::vector<uint64_t> &v) {
	printf("%s", tag);
	for(auto x : v) printf(" %llu", (ull)x);
	printf("\n");
}
static std::vector<uint64_t> nums(const std::vector<std::string> &t, size_t from) {
	std::vector<uint64_t> v;
	for(size_t i = from; i < t.size(); i++) v.push_back(vh::u64(t[i]));
	return v;
}

// Element kinds.  A script denotes an element by a code; dec() builds the element, show() prints it
// canonically (bit pattern for floating point, so that -0.0 / +0.0 / the NaNs are distinguishable).
// The element type's OWN operator== is what array::operator== has to use: for float/double it is not
// reflexive (NaN) and not bitwise (-0.0 == +0.0), for Pad it ignores padding and the low bit of b.
static const uint64_t F64_TAB[10] = {0x0000000000000000ull, 0x8000000000000000ull, 0x7ff8000000000000ull, 0x7ff0000000000000ull,
	0xfff0000000000000ull, 0x3ff0000000000000ull, 0xbff0000000000000ull, 0x4004000000000000ull, 0x0000000000000001ull, 0xfff8000000000000ull};
static const uint32_t F32_TAB[10] = {0x00000000u, 0x80000000u, 0x7fc00000u, 0x7f800000u, 0xff800000u, 0x3f800000u, 0xbf800000u,
	0x40200000u, 0x00000001u, 0xffc00000u};   // +0 -0 NaN +inf -inf 1 -1 2.5 denorm_min -NaN
static char g_ptr_base[64];
enum class Colour : uint8_t { black = 0, white = 255 };
struct Pad {
	uint8_t a; /* 3 bytes of padding */ uint32_t b;
	bool operator==(const Pad &o) const { return a == o.a && (b | 1u) == (o.b | 1u); }
};
static std::string hex(ull x, int w) { char buf[32]; snprintf(buf, sizeof buf, "%0*llx", w, x); return buf; }

struct KU64 { using T = uint64_t; static constexpr bool full = true; static const char *name() { return "u64"; }
	static T dec(uint64_t c) { return c; } static std::string show(const T &x) { return std::to_string(x); }
	static void scribble(T &, int) {} };
struct KF64 { using T = double; static constexpr bool full = false; static const char *name() { return "f64"; }
	static T dec(uint64_t c) { if(c >= 10) return (double)c; double d; memcpy(&d, &F64_TAB[c], 8); return d; }
	static std::string show(const T &x) { uint64_t b; memcpy(&b, &x, 8); return hex(b, 16); }
	static void scribble(T &, int) {} };
struct KF32 { using T = float; static constexpr bool full = false; static const char *name() { return "f32"; }
	static T dec(uint64_t c) { if(c >= 10) return (float)c; float d; memcpy(&d, &F32_TAB[c], 4); return d; }
	static std::string show(const T &x) { uint32_t b; memcpy(&b, &x, 4); return hex(b, 8); }
	static void scribble(T &, int) {} };
struct KPtr { using T = const char *; static constexpr bool full = false; static const char *name() { return "ptr"; }
	static T dec(uint64_t c) { return g_ptr_base + c % 64; } static std::string show(const T &x) { return std::to_string(x - g_ptr_base); }
	static void scribble(T &, int) {} };
struct KEnum { using T = Colour; static constexpr bool full = false; static const char *name() { return "enum"; }
	static T dec(uint64_t c) { return (Colour)(uint8_t)c; } static std::string show(const T &x) { return std::to_string((unsigned)(uint8_t)x); }
	static void scribble(T &, int) {} };
struct KPad { using T = Pad; static constexpr bool full = false; static const char *name() { return "pad"; }
	static T dec(uint64_t c) { Pad p; p.a = (uint8_t)c; p.b = (uint32_t)(c >> 8); return p; }
	static std::string show(const T &x) { return std::to_string((unsigned)x.a) + ":" + std::to_string(x.b); }
	static void scribble(T &x, int pat) { memset((char *)&x + 1, pat, 3); } };   // the padding bytes

struct IArr {
	virtual ~IArr() {}
	virtual void load(const std::vector<uint64_t> &v) = 0;
	virtual void op(const std::vector<std::string> &t, const std::string &line) = 0;
};

template <class K, size_t N>
struct ArrImpl : IArr {
	using T = typename K::T;
	using FA = frg::array<T, N>;
	using SA = std::array<T, N>;
	FA *a; void *mem; SA s;
	ArrImpl() { mem = malloc(sizeof(FA)); memset(mem, 0xAA, sizeof(FA)); a = new(mem) FA{}; s = SA{}; }
	~ArrImpl() { free(mem); }
	void load(const std::vector<uint64_t> &v) override { for(size_t i = 0; i < N; i++) put(i, v[i]); }
	void put(size_t i, uint64_t c) { (*a)[i] = K::dec(c); K::scribble((*a)[i], 0xAA); s[i] = K::dec(c); }
	template <class It> static std::vector<std::string> shows(It b, It e) { std::vector<std::string> r; for(; b != e; ++b) r.push_back(K::show(*b)); return r; }
	static void plist(const std::vector<std::string> &v) { printf("l"); for(auto &x : v) printf(" %s", x.c_str()); printf("\n"); }
	template <size_t M> static void fill(frg::array<T, M> &f, std::array<T, M> &m, const std::vector<uint64_t> &v, size_t off, int pat) {
		for(size_t i = 0; i < M; i++) { f[i] = K::dec(v[(off + i) % v.size()]); K::scribble(f[i], pat); m[i] = K::dec(v[(off + i) % v.size()]); }
	}
	template <class R> void cmp_concat(const R &r, std::initializer_list<std::vector<std::string>> parts, size_t arity) {
		std::vector<std::string> got = shows(r.begin(), r.end()), want;
		for(auto &p : parts) want.insert(want.end(), p.begin(), p.end());
		plist(got);
		if(got != want) oracle("array-ref", "array_concat<%s> of %zu arrays (%zu elements) differs from the concatenation of the std::arrays", K::name(), arity, want.size());
	}
	template <size_t M>
	void concat_with(const std::vector<uint64_t> &v) {
		frg::array<T, M> b{}; std::array<T, M> sb{}; fill<M>(b, sb, v, 0, 0x55);
		frg::array<T, 2> c{}; std::array<T, 2> sc{}; fill<2>(c, sc, v, 3, 0x33);
		auto A = shows(s.begin(), s.end()), B = shows(sb.begin(), sb.end()), C = shows(sc.begin(), sc.end());
		auto r1 = frg::array_concat<T>(*a);
		auto r2 = frg::array_concat<T>(*a, b);
		auto r3 = frg::array_concat<T>(b, *a, b);
		auto r4 = frg::array_concat<T>(*a, b, c, *a);
		auto r5 = frg::array_concat<T>(c, *a, b, c, b);
		static_assert(std::tuple_size_v<decltype(r5)> == N + 2 * M + 4);
		cmp_concat(r1, {A}, 1); cmp_concat(r2, {A, B}, 2); cmp_concat(r3, {B, A, B}, 3);
		cmp_concat(r4, {A, B, C, A}, 4); cmp_concat(r5, {C, A, B, C, B}, 5);
	}
	// array_concat with ZERO-LENGTH pieces (frg::array<T,0> and std::array<T,0>) in first / middle / last position,
	// several of them, only empties, and std::array arguments mixed with frg::array ones
	void concat_empty(const std::vector<uint64_t> &v) {
		frg::array<T, 2> b{}; std::array<T, 2> sb{}; fill<2>(b, sb, v, 0, 0x55);
		frg::array<T, 3> c{}; std::array<T, 3> sc{}; fill<3>(c, sc, v, 2, 0x33);   // sc doubles as a std::array ARGUMENT
		frg::array<T, 0> e0{}; std::array<T, 0> s0{};
		auto A = shows(s.begin(), s.end()), B = shows(sb.begin(), sb.end()), C = shows(sc.begin(), sc.end());
		std::vector<std::string> E;
		cmp_concat(frg::array_concat<T>(e0, *a), {E, A}, 2);
		cmp_concat(frg::array_concat<T>(*a, e0, b), {A, E, B}, 3);
		cmp_concat(frg::array_concat<T>(*a, b, e0), {A, B, E}, 3);
		cmp_concat(frg::array_concat<T>(e0, e0, *a, e0, b), {E, E, A, E, B}, 5);
		cmp_concat(frg::array_concat<T>(e0), {E}, 1);
		cmp_concat(frg::array_concat<T>(e0, s0, e0), {E, E, E}, 3);
		cmp_concat(frg::array_concat<T>(s0, *a, sc, e0, b), {E, A, C, E, B}, 5);
		cmp_concat(frg::array_concat<T>(*a, s0, sc), {A, E, C}, 3);
		cmp_concat(frg::array_concat<T>(sc, *a), {C, A}, 2);
	}
	void eq_against(const FA &b, const SA &sb, const char *what) {
		bool x = (*a == b), y = (s == sb), nx = (*a != b), ny = (s != sb), rx = (b == *a), ry = (sb == s);
		printf("b %d %d\n", (int)x, (int)nx);
		if(x != y) oracle("array-ref", "array<%s,%zu> operator== (%s) gives %d, std::array %d", K::name(), N, what, (int)x, (int)y);
		if(nx != ny) oracle("array-ref", "array<%s,%zu> operator!= (%s) gives %d, std::array %d", K::name(), N, what, (int)nx, (int)ny);
		if(rx != ry) oracle("array-ref", "array<%s,%zu> operator== with the operands exchanged (%s) gives %d, std::array %d", K::name(), N, what, (int)rx, (int)ry);
	}
	void op(const std::vector<std::string> &t, const std::string &line) override {
		const std::string &o = t[0];
		const FA &ca = *a;
		if(o == "front") { std::string x = K::show(a->front()), y = K::show(ca.front()), w = K::show(s.front()); printf("v %s\n", x.c_str());
			if(x != w || y != w) oracle("array-ref", "array<%s,%zu>::front() = %s, std::array %s", K::name(), N, x.c_str(), w.c_str()); }
		else if(o == "back") { std::string x = K::show(a->back()), y = K::show(ca.back()), w = K::show(s.back()); printf("v %s\n", x.c_str());
			if(x != w || y != w) oracle("array-ref", "array<%s,%zu>::back() = %s, std::array %s", K::name(), N, x.c_str(), w.c_str());
			if(&a->back() != a->data() + (N - 1)) oracle("array-ref", "array<%s,%zu>::back() does not refer to the last element", K::name(), N); }
		else if(o == "idx") { size_t i = vh::u64(t[1]) % N; std::string x = K::show((*a)[i]), y = K::show(ca[i]), w = K::show(s[i]); printf("v %s\n", x.c_str());
			if(x != w || y != w) oracle("array-ref", "array<%s,%zu>[%zu] differs from std::array", K::name(), N, i); }
		else if(o == "put") { put(vh::u64(t[1]) % N, vh::u64(t[2])); printf("u\n"); }
		else if(o == "iter") { std::vector<std::string> got, got2 = shows(ca.begin(), ca.end()), got3 = shows(a->cbegin(), a->cend()), want = shows(s.begin(), s.end());
			for(auto &x : *a) got.push_back(K::show(x));
			plist(got);
			if(got != want || got2 != want || got3 != want) oracle("array-ref", "iteration over array<%s,%zu> differs from std::array", K::name(), N);
			if(a->end() - a->begin() != (ptrdiff_t)N || a->data() != a->begin()) oracle("array-ref", "begin/end/data inconsistent"); }
		else if(o == "eq") { auto v = nums(t, 1); FA b; SA sb; memset((void *)&b, 0x55, sizeof b); fill<N>(b, sb, v, 0, 0x55);
			eq_against(b, sb, line.c_str()); }
		else if(o == "eqself") { FA b; SA sb = s; memset((void *)&b, 0x55, sizeof b);   // an element-wise copy (different padding) and the object itself
			for(size_t i = 0; i < N; i++) { b[i] = (*a)[i]; K::scribble(b[i], 0x55); }
			eq_against(b, sb, "copy of itself"); eq_against(*a, s, "itself"); }
		else if(o == "size") { printf("n %zu\n", a->size());
			if(a->size() != N || a->max_size() != N || a->empty() != (N == 0)) oracle("array-ref", "size/max_size/empty wrong"); }
		else if(o == "get") { std::string x = K::show(frg::get<0>(*a)), y = K::show(frg::get<N - 1>(*a)), z = K::show(frg::get<N / 2>(ca));
			printf("v %s %s %s\n", x.c_str(), y.c_str(), z.c_str());
			if(x != K::show(std::get<0>(s)) || y != K::show(std::get<N - 1>(s)) || z != K::show(std::get<N / 2>(s))) oracle("array-ref", "get<I> differs from std::get"); }
		else if(o == "swap") { auto v = nums(t, 1); FA b{}; SA sb{}; fill<N>(b, sb, v, 0, 0x55);
			swap(*a, b); std::swap(s, sb);
			auto got = shows(b.begin(), b.end()), want = shows(sb.begin(), sb.end());
			plist(got);
			if(got != want) oracle("array-ref", "swap differs from std::array"); }
		else if(o == "concat") { size_t m = vh::u64(t[1]); auto v = nums(t, 2);
			while(v.size() < 5) v.push_back(0);
			// (fewer instantiations for the non-integer kinds: compile time)
			if constexpr (K::full) { if(m == 1) concat_with<1>(v); else if(m == 2) concat_with<2>(v); else if(m == 3) concat_with<3>(v); else concat_with<5>(v); }
			else { if(m == 2) concat_with<2>(v); else concat_with<5>(v); } }
		else if(o == "concatz") { auto v = nums(t, 1); while(v.size() < 5) v.push_back(0); concat_empty(v); }
		else printf("?\n");
	}
};

// constant evaluation of array_concat (incl. empty pieces); the results are constexpr objects, i.e. computed by
// the compiler, and are compared at run time so that a wrong one yields an oracle line with a failing input
// (comp/bits/constexpr_check.cpp holds the same expressions under static_assert, compiled by check.py)
namespace cx {
	constexpr frg::array<int, 2> a{1, 2};
	constexpr frg::array<int, 3> b{3, 4, 5};
	constexpr frg::array<int, 0> e{};
	constexpr std::array<int, 0> s0{};
	constexpr std::array<int, 2> s2{6, 7};
	constexpr auto r1 = frg::array_concat<int>(e, a, b);
	constexpr auto r2 = frg::array_concat<int>(a, e, b);
	constexpr auto r3 = frg::array_concat<int>(a, b, e);
	constexpr auto r4 = frg::array_concat<int>(e, s0, a, e, s2, s0, b);
	constexpr auto r5 = frg::array_concat<int>(e, s0);
	constexpr auto r6 = frg::array_concat<int>(a, b, s2, a, b);
}
template <class R> static void cx_show(const R &r, std::initializer_list<int> want, const char *what) {
	std::vector<int> got(r.begin(), r.end()), w(want);
	printf("l"); for(int x : got) printf(" %d", x); printf("\n");
	if(got != w) oracle("array-ref", "constant-evaluated array_concat<int>(%s) is wrong (%zu elements)", what, got.size());
}
static void cconcat_case() {
	cx_show(cx::r1, {1, 2, 3, 4, 5}, "[], a, b");
	cx_show(cx::r2, {1, 2, 3, 4, 5}, "a, [], b");
	cx_show(cx::r3, {1, 2, 3, 4, 5}, "a, b, []");
	cx_show(cx::r4, {1, 2, 6, 7, 3, 4, 5}, "[], std[], a, [], std{6,7}, std[], b");
	cx_show(cx::r5, {}, "[], std[]");
	cx_show(cx::r6, {1, 2, 3, 4, 5, 6, 7, 1, 2, 3, 4, 5}, "a, b, std{6,7}, a, b");
}

template <class K>
static IArr *make_arr(size_t n) {
	if constexpr (K::full) {
		switch(n) {
		case 1: return new ArrImpl<K, 1>();
		case 2: return new ArrImpl<K, 2>();
		case 3: return new ArrImpl<K, 3>();
		case 4: return new ArrImpl<K, 4>();
		case 7: return new ArrImpl<K, 7>();
		case 16: return new ArrImpl<K, 16>();
		default: return nullptr;
		}
	} else {
		switch(n) {
		case 1: return new ArrImpl<K, 1>();
		case 3: return new ArrImpl<K, 3>();
		case 4: return new ArrImpl<K, 4>();
		default: return nullptr;
		}
	}
}

// "array <kind> <N> codes..."
static void array_case(const vh::Lines &ls) {
	auto t0 = vh::split(ls[0]);
	const std::string &kind = t0[1];
	if(kind == "cconcat") { cconcat_case(); return; }
	size_t n = vh::u64(t0[2]);
	auto v = nums(t0, 3);
	IArr *a = nullptr;
#ifdef BITS_ARRAY_A
	if(kind == "u64") a = make_arr<KU64>(n);
	else if(kind == "pad") a = make_arr<KPad>(n);
	else if(kind == "enum") a = make_arr<KEnum>(n);
#endif
#ifdef BITS_ARRAY_B
	if(kind == "f64") a = make_arr<KF64>(n);
	else if(kind == "f32") a = make_arr<KF32>(n);
	else if(kind == "ptr") a = make_arr<KPtr>(n);
#endif
	if(!a) { printf("unsupported-size\n"); return; }
	while(v.size() < n) v.push_back(0);
	a->load(v);
	for(size_t i = 1; i < ls.size(); i++) a->op(vh::split(ls[i]), ls[i]);
	delete a;
}

#endif
#if defined(BITS_ARRAY_A) || defined(BITS_ARRAY_B)
#define BITS_HAVE_ARRAY 1
#endif
#ifdef BITS_MISC
// ================================================================================================
// mt19937
// ================================================================================================
static void mt_case(const vh::Lines &ls) {
	frg::mt19937 g;            // default: seed(5489)
	std::mt19937 ref;          // default seed 5489 as well
	for(size_t i = 1; i < ls.size(); i++) {
		auto t = vh::split(ls[i]);
		if(t[0] == "seed") { uint32_t s = (uint32_t)vh::u64(t[1]); g.seed(s); ref.seed(s); printf("u\n"); }
		else if(t[0] == "gen") {
			size_t k = vh::u64(t[1]); bool bad = false; size_t bj = 0; uint32_t bx = 0, by = 0;
			for(size_t j = 0; j < k; j++) {
				uint32_t x = g(), y = (uint32_t)ref();
				printf(j % 8 == 7 || j + 1 == k ? "%08x\n" : "%08x ", x);
				if(x != y && !bad) { bad = true; bj = j; bx = x; by = y; }
			}
			if(bad) oracle("mt-ref", "mt19937 output %zu of this gen is %08x, std::mt19937 gives %08x", bj, bx, by);
		}
		else if(t[0] == "state") {   // the whole private state
			printf("ctr %d\n", g._ctr);
			for(int j = 0; j < 624; j++) { printf(j % 8 == 7 ? "%08x\n" : "%08x ", g._st[j]); }
			if(g._ctr < 0 || g._ctr > 624) oracle("mt-ref", "_ctr = %d outside [0,624]", g._ctr);
		}
		else printf("?\n");
	}
}

// ================================================================================================
// pcg_basic32 -- reference: pcg-c-basic (pcg_basic.c), re-typed
// ================================================================================================
struct pcg32_random_t { uint64_t state; uint64_t inc; };
static uint32_t pcg32_random_r(pcg32_random_t *rng) {
	uint64_t oldstate = rng->state;
	rng->state = oldstate * 6364136223846793005ULL + rng->inc;
	uint32_t xorshifted = ((oldstate >> 18u) ^ oldstate) >> 27u;
	uint32_t rot = oldstate >> 59u;
	return (xorshifted >> rot) | (xorshifted << ((-rot) & 31));
}
static void pcg32_srandom_r(pcg32_random_t *rng, uint64_t initstate, uint64_t initseq) {
	rng->state = 0U;
	rng->inc = (initseq << 1u) | 1u;
	pcg32_random_r(rng);
	rng->state += initstate;
	pcg32_random_r(rng);
}
static uint32_t pcg32_boundedrand_r(pcg32_random_t *rng, uint32_t bound) {
	uint32_t threshold = -bound % bound;
	for(;;) {
		uint32_t r = pcg32_random_r(rng);
		if(r >= threshold) return r % bound;
	}
}
// second, independently phrased formulation: 128-bit arithmetic and std::rotr
static uint32_t pcg_alt(uint64_t &state, uint64_t inc) {
	uint64_t old = state;
	state = (uint64_t)(((unsigned __int128)old * 6364136223846793005ULL + inc) & ~0ULL);
	uint32_t xs = (uint32_t)(((old >> 18) ^ old) >> 27);
	return std::rotr(xs, (int)(old >> 59));
}

static void pcg_case(const vh::Lines &ls) {
	frg::pcg_basic32 g(0);
	pcg32_random_t ref; pcg32_srandom_r(&ref, 0, 1);
	uint64_t alt_state = ref.state;
	auto show = [&]() { printf("s %llu %llu\n", (ull)g.state_, (ull)g.inc_);
		if(g.state_ != ref.state || g.inc_ != ref.inc) oracle("pcg-ref", "state/inc (%llu,%llu) differ from the reference (%llu,%llu)", (ull)g.state_, (ull)g.inc_, (ull)ref.state, (ull)ref.inc); };
	for(size_t i = 1; i < ls.size(); i++) {
		auto t = vh::split(ls[i]);
		if(t[0] == "ctor") { uint64_t s = vh::u64(t[1]), q = vh::u64(t[2]); g = frg::pcg_basic32(s, q); pcg32_srandom_r(&ref, s, q); alt_state = ref.state; show(); }
		else if(t[0] == "ctor1") { uint64_t s = vh::u64(t[1]); g = frg::pcg_basic32(s); pcg32_srandom_r(&ref, s, 1); alt_state = ref.state; show(); }
		else if(t[0] == "seed") { uint64_t s = vh::u64(t[1]), q = vh::u64(t[2]); g.seed(s, q); pcg32_srandom_r(&ref, s, q); alt_state = ref.state; show(); }
		else if(t[0] == "gen") {
			size_t k = vh::u64(t[1]); bool bad = false; size_t bj = 0; uint32_t bx = 0, by = 0, bz = 0;
			for(size_t j = 0; j < k; j++) {
				uint32_t x = g(), y = pcg32_random_r(&ref), z = pcg_alt(alt_state, ref.inc);
				printf(j % 8 == 7 || j + 1 == k ? "%08x\n" : "%08x ", x);
				if((x != y || x != z) && !bad) { bad = true; bj = j; bx = x; by = y; bz = z; }
			}
			if(bad) oracle("pcg-ref", "pcg output %zu is %08x, reference %08x, 128-bit/rotr formulation %08x", bj, bx, by, bz);
			show();
		}
		else if(t[0] == "bounded") {
			uint32_t bound = (uint32_t)vh::u64(t[1]); size_t k = vh::u64(t[2]); int bad = 0; size_t bj = 0; uint32_t bx = 0, by = 0;
			for(size_t j = 0; j < k; j++) {
				uint32_t x = g(bound), y = pcg32_boundedrand_r(&ref, bound);
				printf(j % 8 == 7 || j + 1 == k ? "%u\n" : "%u ", x);
				if(x >= bound && !bad) { bad = 1; bj = j; bx = x; by = y; }
				if(x != y && !bad) { bad = 2; bj = j; bx = x; by = y; }
			}
			if(bad == 1) oracle("pcg-bound", "bounded draw %u is not below the bound %u", bx, bound);
			if(bad == 2) oracle("pcg-ref", "bounded draw %zu is %u, reference %u (bound %u)", bj, bx, by, bound);
			alt_state = ref.state;
			show();
		}
		else if(t[0] == "demo") {
			// published check vector of pcg-c-basic (pcg32-demo: seed 42, sequence 54)
			static const uint32_t want[6] = {0xa15c02b7u, 0x7b47f409u, 0xba1d3330u, 0x83d2f293u, 0xbfa4784bu, 0xcbed606eu};
			frg::pcg_basic32 d(42, 54);
			int bj = -1; uint32_t bx = 0;
			for(int j = 0; j < 6; j++) { uint32_t x = d(); printf(j == 5 ? "%08x\n" : "%08x ", x);
				if(x != want[j] && bj < 0) { bj = j; bx = x; } }
			if(bj >= 0) oracle("pcg-ref", "demo vector: output %d is %08x, published %08x", bj, bx, want[bj]);
		}
		else printf("?\n");
	}
}

// ================================================================================================
// insertion_sort
// ================================================================================================
// elements are key*16+tag; the comparators look at the key only (strict weak orders with ties)
static bool comp_of(int kind, uint64_t a, uint64_t b) {
	switch(kind) {
	case 0: return (a >> 4) < (b >> 4);
	case 1: return (a >> 4) > (b >> 4);
	case 2: return (a >> 5) < (b >> 5);
	case 3: return false;
	default: return a < b;
	}
}
static void sort_case(const vh::Lines &ls) {
	for(size_t i = 1; i < ls.size(); i++) {
		auto t = vh::split(ls[i]);
		if(t[0] != "sort") { printf("?\n"); continue; }
		int kind = atoi(t[1].c_str());
		std::vector<uint64_t> in = nums(t, 2), v = in, w = in;
		auto comp = [kind](uint64_t a, uint64_t b) { return comp_of(kind, a, b); };
		frg::insertion_sort(v.begin(), v.end(), comp);
		// same through raw pointers in an exact-size heap block
		uint64_t *p = (uint64_t *)malloc(in.size() * 8 + 1);
		std::copy(in.begin(), in.end(), p);
		frg::insertion_sort(p, p + in.size(), comp);
		print_list("l", v);
		if(!std::equal(v.begin(), v.end(), p)) oracle("sort", "vector-iterator and pointer runs differ");
		free(p);
		std::vector<uint64_t> a = in, b = v;
		std::sort(a.begin(), a.end()); std::sort(b.begin(), b.end());
		if(a != b) oracle("sort", "'%s': the result is not a permutation of the input", ls[i].c_str());
		bool bad = false;
		for(size_t x = 0; x < v.size() && !bad; x++)
			for(size_t y = x + 1; y < v.size() && !bad; y++)
				if(comp(v[x], v[y])) { bad = true; oracle("sort", "'%s': comp(out[%zu], out[%zu]) holds for an earlier/later pair", ls[i].c_str(), x, y); }
	}
}
#endif // BITS_MISC

static void body(const vh::Lines &ls) {
	if(ls.empty()) return;
	auto t = vh::split(ls[0]);
	if(t[0] == "bitset") bitset_case(ls, vh::u64(t[1]));
#ifdef BITS_HAVE_ARRAY
	else if(t[0] == "array") array_case(ls);
#endif
#ifdef BITS_MISC
	else if(t[0] == "mt") mt_case(ls);
	else if(t[0] == "pcg") pcg_case(ls);
	else if(t[0] == "sortcase") sort_case(ls);
#endif
	else printf("unknown-kind\n");
}

int main() { return vh::run(body); }
