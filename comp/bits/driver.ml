(* driver for the extracted C18 models: same scripts as comp/bits/harness.cpp *)
exception Stop
let nreg = 4
let hexw (x : n) = Printf.sprintf "%016Lx" (i64_of_n x)
let hex8 (x : n) = Printf.sprintf "%08Lx" (i64_of_n x)
let print_words ws = print_string ("w" ^ String.concat "" (List.map (fun w -> " " ^ hexw w) ws) ^ "\n")
let pb b = print_string (if b then "b 1\n" else "b 0\n")
let get = function Ok a -> a | UB -> (print_string "UB\n"; raise Stop)
let print_list tag l = print_string (tag ^ String.concat "" (List.map (fun x -> " " ^ string_of_n x) l) ^ "\n")
let nums ws = List.map n_of_string ws

let bitset_case nn ops =
  let n = n_of_string nn in
  let regs = Array.make nreg (ctor_default n) in
  let r s = (int_of_string s) mod nreg in
  let upd k o = regs.(k) <- get (apply_op n regs.(k) o); print_words regs.(k) in
  let qry k q = pb (get (query n regs.(k) q)) in
  let bo v = (n_of_string v) <> N0 in
  (try List.iter (fun l -> match words l with
    | ["new"; a] -> regs.(r a) <- ctor_default n; print_words regs.(r a)
    | ["val"; a; v] -> regs.(r a) <- get (ctor_val n (n_of_string v)); print_words regs.(r a)
    | ["setall"; a] -> upd (r a) BSetAll
    | ["resetall"; a] -> upd (r a) BResetAll
    | ["flipall"; a] -> upd (r a) BFlipAll
    | ["set"; a; p; v] -> upd (r a) (BSet (n_of_string p, bo v))
    | ["set1"; a; p] -> upd (r a) (BSet (n_of_string p, true))
    | ["reset"; a; p] -> upd (r a) (BReset (n_of_string p))
    | ["flip"; a; p] -> upd (r a) (BFlip (n_of_string p))
    | ["test"; a; p] | ["ctest"; a; p] -> qry (r a) (QTest (n_of_string p))
    | ["ref="; a; p; v] -> upd (r a) (BRefAssign (n_of_string p, bo v))
    | ["refcp"; a; p; b; q] -> upd (r a) (BRefCopy (n_of_string p, regs.(r b), n_of_string q))
    | ["refnot"; a; p] -> qry (r a) (QRefNot (n_of_string p))
    | ["refbool"; a; p] -> qry (r a) (QRefBool (n_of_string p))
    | ["refflip"; a; p] -> upd (r a) (BRefFlip (n_of_string p))
    | ["and"; a; b] -> upd (r a) (BAnd regs.(r b))
    | ["or"; a; b] -> upd (r a) (BOr regs.(r b))
    | ["xor"; a; b] -> upd (r a) (BXor regs.(r b))
    | ["and3"; a; b; c] -> let v = get (apply_op n regs.(r b) (BAnd regs.(r c))) in regs.(r a) <- v; print_words v
    | ["or3"; a; b; c] -> let v = get (apply_op n regs.(r b) (BOr regs.(r c))) in regs.(r a) <- v; print_words v
    | ["xor3"; a; b; c] -> let v = get (apply_op n regs.(r b) (BXor regs.(r c))) in regs.(r a) <- v; print_words v
    | ["not"; a; b] -> let v = get (apply_op n regs.(r b) BNot) in regs.(r a) <- v; print_words v
    | ["shl"; a; p] -> upd (r a) (BShl (n_of_string p))
    | ["shr"; a; p] -> upd (r a) (BShr (n_of_string p))
    | ["shlc"; a; b; p] -> let v = get (apply_op n regs.(r b) (BShl (n_of_string p))) in regs.(r a) <- v; print_words v
    | ["shrc"; a; b; p] -> let v = get (apply_op n regs.(r b) (BShr (n_of_string p))) in regs.(r a) <- v; print_words v
    | ["count"; a] -> print_string ("n " ^ string_of_n (get (count regs.(r a))) ^ "\n")
    | ["any"; a] -> qry (r a) QAny
    | ["all"; a] -> qry (r a) QAll
    | ["none"; a] -> qry (r a) QNone
    | ["eq"; a; b] -> qry (r a) (QEq regs.(r b))
    | ["size"; a] -> print_string ("n " ^ string_of_n n ^ "\n")
    | ["xset"; a; p] -> upd (r a) (BSet (n_of_string p, true))
    | ["xtest"; a; p] -> qry (r a) (QTest (n_of_string p))
    | _ -> print_string "?\n") ops;
    Array.iter print_words regs
  with Stop -> ())

let rec take k l = if k <= 0 then [] else match l with [] -> [] | x :: r -> x :: take (k - 1) r
let rec pad k l = if List.length l >= k then l else pad k (l @ [N0])
let cyc len v = List.init len (fun i -> List.nth v (i mod List.length v))
(* element kinds of comp/bits/harness.cpp: an element is denoted by a code; [show] prints what the harness
   prints for it, [elem_eq] is the element type's own operator== on codes (NOT reflexive for NaN codes 2 and 9,
   NOT injective for -0.0/+0.0, pointers mod 64, enum mod 256, Pad ignoring the low bit of b) *)
let f64_tab = [| 0x0000000000000000L; 0x8000000000000000L; 0x7ff8000000000000L; 0x7ff0000000000000L; 0xfff0000000000000L;
                 0x3ff0000000000000L; 0xbff0000000000000L; 0x4004000000000000L; 0x0000000000000001L; 0xfff8000000000000L |]
let f32_tab = [| 0x00000000l; 0x80000000l; 0x7fc00000l; 0x7f800000l; 0xff800000l; 0x3f800000l; 0xbf800000l;
                 0x40200000l; 0x00000001l; 0xffc00000l |]
let code (x : n) : int = Int64.to_int (i64_of_n x)
let pad_a c = c land 255
let pad_b c = (c lsr 8) land 0xffffffff
let show kind (x : n) : string =
  let c = code x in
  match kind with
  | "f64" -> Printf.sprintf "%016Lx" (if c < 10 then f64_tab.(c) else Int64.bits_of_float (float_of_int c))
  | "f32" -> Printf.sprintf "%08lx" (if c < 10 then f32_tab.(c) else Int32.bits_of_float (float_of_int c))
  | "ptr" -> string_of_int (c mod 64)
  | "enum" -> string_of_int (c land 255)
  | "pad" -> string_of_int (pad_a c) ^ ":" ^ string_of_int (pad_b c)
  | _ -> string_of_n x
let elem_eq kind (x : n) (y : n) : bool =
  let c = code x and d = code y in
  match kind with
  | "f64" | "f32" ->
      let nan k = k = 2 || k = 9 in
      if nan c || nan d then false else if c <= 1 && d <= 1 then true else c = d
  | "ptr" -> c mod 64 = d mod 64
  | "enum" -> c land 255 = d land 255
  | "pad" -> pad_a c = pad_a d && (pad_b c) lor 1 = (pad_b d) lor 1
  | _ -> x = y

let cconcat_case () =
  let n k = n_of_string (string_of_int k) in
  let a = [n 1; n 2] and b = [n 3; n 4; n 5] and s2 = [n 6; n 7] and e = [] in
  List.iter (fun ls -> print_list "l" (arr_concat ls))
    [[e; a; b]; [a; e; b]; [a; b; e]; [e; e; a; e; s2; e; b]; [e; e]; [a; b; s2; a; b]]

let array_case hdr ops =
  let kind = List.hd hdr in
  if kind = "cconcat" then cconcat_case () else
  let len = int_of_string (List.nth hdr 1) in
  let a = ref (take len (pad len (nums (List.tl (List.tl hdr))))) in
  let sh = show kind in
  let showo = function Some x -> print_string ("v " ^ sh x ^ "\n") | None -> print_string "UB\n" in
  let some = function Some x -> sh x | None -> "UB" in
  let plist l = print_string ("l" ^ String.concat "" (List.map (fun x -> " " ^ sh x) l) ^ "\n") in
  let b2 x = if x then "1" else "0" in
  let eqline b = print_string ("b " ^ b2 (arr_eqb (elem_eq kind) !a b) ^ " " ^ b2 (arr_neb (elem_eq kind) !a b) ^ "\n") in
  let idx i = Int64.to_int (Int64.unsigned_rem (i64_of_n (n_of_string i)) (Int64.of_int len)) in
  List.iter (fun l -> match words l with
    | ["front"] -> showo (arr_front !a)
    | ["back"] -> showo (arr_back !a)
    | ["idx"; i] -> showo (arr_index !a (nat_of_int (idx i)))
    | ["put"; i; v] -> let k = idx i in
        a := List.mapi (fun j x -> if j = k then n_of_string v else x) !a; print_string "u\n"
    | ["iter"] -> plist (arr_iter !a)
    | "eq" :: v -> eqline (cyc len (nums v))
    | ["eqself"] -> eqline !a; eqline !a
    | ["size"] -> print_string ("n " ^ string_of_int len ^ "\n")
    | ["get"] -> print_string ("v " ^ some (arr_index !a (nat_of_int 0)) ^ " " ^ some (arr_index !a (nat_of_int (len - 1))) ^ " " ^ some (arr_index !a (nat_of_int (len / 2))) ^ "\n")
    | "swap" :: v -> let b = cyc len (nums v) in plist !a; a := b
    | "concat" :: m :: v -> let m = int_of_string m in
        let m = if kind = "u64" then (if m = 1 || m = 2 || m = 3 then m else 5) else (if m = 2 then 2 else 5) in
        let v = pad 5 (nums v) in
        let b = cyc m v in
        let c = List.init 2 (fun i -> List.nth v ((3 + i) mod List.length v)) in
        List.iter (fun ls -> plist (arr_concat ls)) [[!a]; [!a; b]; [b; !a; b]; [!a; b; c; !a]; [c; !a; b; c; b]]
    | "concatz" :: v -> let v = pad 5 (nums v) in
        let b = cyc 2 v and c = List.init 3 (fun i -> List.nth v ((2 + i) mod List.length v)) and e = [] in
        List.iter (fun ls -> plist (arr_concat ls))
          [[e; !a]; [!a; e; b]; [!a; b; e]; [e; e; !a; e; b]; [e]; [e; e; e]; [e; !a; c; e; b]; [!a; e; c]; [c; !a]]
    | _ -> print_string "?\n") ops

let outs k (next : unit -> string) =
  for j = 0 to k - 1 do
    print_string (next ()); print_string (if j mod 8 = 7 || j + 1 = k then "\n" else " ")
  done

let mt_case ops =
  let g = ref (mt_seed mt_default_seed) in
  List.iter (fun l -> match words l with
    | ["seed"; s] -> g := mt_seed (n_of_string s); print_string "u\n"
    | ["gen"; k] -> outs (int_of_string k) (fun () -> let (g', r) = mt_next !g in g := g'; hex8 r)
    | ["state"] -> print_string ("ctr " ^ string_of_int (int_of_nat !g.mt_ctr) ^ "\n");
        List.iteri (fun j x -> print_string (hex8 x); print_string (if j mod 8 = 7 then "\n" else " ")) !g.mt_st
    | _ -> print_string "?\n") ops

let pcg_case ops =
  let g = ref (pcg_seed N0 (n_of_string "1")) in
  let show () = print_string ("s " ^ string_of_n !g.pcg_state ^ " " ^ string_of_n !g.pcg_inc ^ "\n") in
  (try List.iter (fun l -> match words l with
    | ["ctor"; s; q] | ["seed"; s; q] -> g := pcg_seed (n_of_string s) (n_of_string q); show ()
    | ["ctor1"; s] -> g := pcg_seed (n_of_string s) (n_of_string "1"); show ()
    | ["gen"; k] -> outs (int_of_string k) (fun () -> let (g', r) = pcg_next !g in g := g'; hex8 r); show ()
    | ["bounded"; b; k] -> outs (int_of_string k) (fun () ->
          match pcg_bounded (nat_of_int 100000) !g (n_of_string b) with
          | DOk (g', v) -> g := g'; string_of_n v
          | DDivZero -> print_string "divzero\n"; raise Stop
          | DOutOfFuel -> print_string "fuel\n"; raise Stop); show ()
    | ["demo"] -> let d = ref (pcg_seed (n_of_string "42") (n_of_string "54")) in
        outs 6 (fun () -> let (g', r) = pcg_next !d in d := g'; hex8 r)
    | _ -> print_string "?\n") ops
  with Stop -> ())

let ult a b = Int64.unsigned_compare a b < 0
let comp_of kind (a : n) (b : n) : bool =
  let a = i64_of_n a and b = i64_of_n b in
  let sh x k = Int64.shift_right_logical x k in
  match kind with
  | 0 -> ult (sh a 4) (sh b 4)
  | 1 -> ult (sh b 4) (sh a 4)
  | 2 -> ult (sh a 5) (sh b 5)
  | 3 -> false
  | _ -> ult a b

let sort_case ops =
  List.iter (fun l -> match words l with
    | "sort" :: kind :: v ->
        let c = comp_of (int_of_string kind) and v = nums v in
        let r = insertion_sort c v in
        print_list "l" r;
        if isort_idx c N0 v <> r then print_string "index-version-differs\n"
    | _ -> print_string "?\n") ops

let body lines = match lines with
  | [] -> ()
  | h :: ops -> (match words h with
    | ["bitset"; nn] -> bitset_case nn ops
    | "array" :: hdr -> array_case hdr ops
    | "mt" :: _ -> mt_case ops
    | "pcg" :: _ -> pcg_case ops
    | "sortcase" :: _ -> sort_case ops
    | _ -> print_string "unknown-kind\n")

let () = run_cases body
