(* driver for the extracted C18 models: same scripts as comp/bits/harness.cpp *)
exception Stop
let nreg = 4
let hexw (x : n) = Printf.sprintf "%016Lx" (i64_of_n x)
let hex8 (x : n) = Printf.sprintf "%08Lx" (i64_of_n x)
let print_words ws = print_string ("w" ^ String.concat "" (List.map (fun w -> " " ^ hexw w) ws) ^ "\n")
let pb b = print_string (if b then "b 1\n" else "b 0\n")
let get = function Ok a -> a | UB -> (print_string "UB\n"; raise Stop)
let print_list tag l = print_string (tag ^ String.concat "" (List.map (fun x -> " " ^ string_of_n x) l) ^ "\n")
let nums ws = List.map n_of_string ws

let bitset_case nn ops =
  let n = n_of_string nn in
  let regs = Array.make nreg (ctor_default n) in
  let r s = (int_of_string s) mod nreg in
  let upd k o = regs.(k) <- get (apply_op n regs.(k) o); print_words regs.(k) in
  let qry k q = pb (get (query n regs.(k) q)) in
  let bo v = (n_of_string v) <> N0 in
  (try List.iter (fun l -> match words l with
    | ["new"; a] -> regs.(r a) <- ctor_default n; print_words regs.(r a)
    | ["val"; a; v] -> regs.(r a) <- get (ctor_val n (n_of_string v)); print_words regs.(r a)
    | ["setall"; a] -> upd (r a) BSetAll
    | ["resetall"; a] -> upd (r a) BResetAll
    | ["flipall"; a] -> upd (r a) BFlipAll
    | ["set"; a; p; v] -> upd (r a) (BSet (n_of_string p, bo v))
    | ["set1"; a; p] -> upd (r a) (BSet (n_of_string p, true))
    | ["reset"; a; p] -> upd (r a) (BReset (n_of_string p))
    | ["flip"; a; p] -> upd (r a) (BFlip (n_of_string p))
    | ["test"; a; p] | ["ctest"; a; p] -> qry (r a) (QTest (n_of_string p))
    | ["ref="; a; p; v] -> upd (r a) (BRefAssign (n_of_string p, bo v))
    | ["refcp"; a; p; b; q] -> upd (r a) (BRefCopy (n_of_string p, regs.(r b), n_of_string q))
    | ["refnot"; a; p] -> qry (r a) (QRefNot (n_of_string p))
    | ["refbool"; a; p] -> qry (r a) (QRefBool (n_of_string p))
    | ["refflip"; a; p] -> upd (r a) (BRefFlip (n_of_string p))
    | ["and"; a; b] -> upd (r a) (BAnd regs.(r b))
    | ["or"; a; b] -> upd (r a) (BOr regs.(r b))
    | ["xor"; a; b] -> upd (r a) (BXor regs.(r b))
    | ["and3"; a; b; c] -> let v = get (apply_op n regs.(r b) (BAnd regs.(r c))) in regs.(r a) <- v; print_words v
    | ["or3"; a; b; c] -> let v = get (apply_op n regs.(r b) (BOr regs.(r c))) in regs.(r a) <- v; print_words v
    | ["xor3"; a; b; c] -> let v = get (apply_op n regs.(r b) (BXor regs.(r c))) in regs.(r a) <- v; print_words v
    | ["not"; a; b] -> let v = get (apply_op n regs.(r b) BNot) in regs.(r a) <- v; print_words v
    | ["shl"; a; p] -> upd (r a) (BShl (n_of_string p))
    | ["shr"; a; p] -> upd (r a) (BShr (n_of_string p))
    | ["shlc"; a; b; p] -> let v = get (apply_op n regs.(r b) (BShl (n_of_string p))) in regs.(r a) <- v; print_words v
    | ["shrc"; a; b; p] -> let v = get (apply_op n regs.(r b) (BShr (n_of_string p))) in regs.(r a) <- v; print_words v
    | ["count"; a] -> print_string ("n " ^ string_of_n (get (count regs.(r a))) ^ "\n")
    | ["any"; a] -> qry (r a) QAny
    | ["all"; a] -> qry (r a) QAll
    | ["none"; a] -> qry (r a) QNone
    | ["eq"; a; b] -> qry (r a) (QEq regs.(r b))
    | ["size"; a] -> print_string ("n " ^ string_of_n n ^ "\n")
    | ["xset"; a; p] -> upd (r a) (BSet (n_of_string p, true))
    | ["xtest"; a; p] -> qry (r a) (QTest (n_of_string p))
    | _ -> print_string "?\n") ops;
    Array.iter print_words regs
  with Stop -> ())

let rec take k l = if k <= 0 then [] else match l with [] -> [] | x :: r -> x :: take (k - 1) r
let rec pad k l = if List.length l >= k then l else pad k (l @ [N0])
let cyc len v = List.init len (fun i -> List.nth v (i mod List.length v))
let showo = function Some x -> print_string ("v " ^ string_of_n x ^ "\n") | None -> print_string "UB\n"
let some = function Some x -> string_of_n x | None -> "UB"

let array_case hdr ops =
  let len = int_of_string (List.hd hdr) in
  let a = ref (take len (pad len (nums (List.tl hdr)))) in
  List.iter (fun l -> match words l with
    | ["front"] -> showo (arr_front !a)
    | ["back"] -> showo (arr_back !a)
    | ["idx"; i] -> showo (arr_index !a (nat_of_int (Int64.to_int (Int64.unsigned_rem (i64_of_n (n_of_string i)) (Int64.of_int len)))))
    | ["put"; i; v] -> let k = Int64.to_int (Int64.unsigned_rem (i64_of_n (n_of_string i)) (Int64.of_int len)) in
        a := List.mapi (fun j x -> if j = k then n_of_string v else x) !a; print_string "u\n"
    | ["iter"] -> print_list "l" (arr_iter !a)
    | "eq" :: v -> pb (!a = cyc len (nums v))
    | ["size"] -> print_string ("n " ^ string_of_int len ^ "\n")
    | ["get"] -> print_string ("v " ^ some (arr_index !a (nat_of_int 0)) ^ " " ^ some (arr_index !a (nat_of_int (len - 1))) ^ " " ^ some (arr_index !a (nat_of_int (len / 2))) ^ "\n")
    | "swap" :: v -> let b = cyc len (nums v) in print_list "l" !a; a := b
    | "concat" :: m :: v -> let m = int_of_string m in let m = if m = 1 || m = 2 || m = 3 then m else 5 in
        let b = take m (pad 5 (nums v)) in
        print_list "l" (arr_concat [!a; b]); print_list "l" (arr_concat [b; !a; b])
    | _ -> print_string "?\n") ops

let outs k (next : unit -> string) =
  for j = 0 to k - 1 do
    print_string (next ()); print_string (if j mod 8 = 7 || j + 1 = k then "\n" else " ")
  done

let mt_case ops =
  let g = ref (mt_seed mt_default_seed) in
  List.iter (fun l -> match words l with
    | ["seed"; s] -> g := mt_seed (n_of_string s); print_string "u\n"
    | ["gen"; k] -> outs (int_of_string k) (fun () -> let (g', r) = mt_next !g in g := g'; hex8 r)
    | ["state"] -> print_string ("ctr " ^ string_of_int (int_of_nat !g.mt_ctr) ^ "\n");
        List.iteri (fun j x -> print_string (hex8 x); print_string (if j mod 8 = 7 then "\n" else " ")) !g.mt_st
    | _ -> print_string "?\n") ops

let pcg_case ops =
  let g = ref (pcg_seed N0 (n_of_string "1")) in
  let show () = print_string ("s " ^ string_of_n !g.pcg_state ^ " " ^ string_of_n !g.pcg_inc ^ "\n") in
  (try List.iter (fun l -> match words l with
    | ["ctor"; s; q] | ["seed"; s; q] -> g := pcg_seed (n_of_string s) (n_of_string q); show ()
    | ["ctor1"; s] -> g := pcg_seed (n_of_string s) (n_of_string "1"); show ()
    | ["gen"; k] -> outs (int_of_string k) (fun () -> let (g', r) = pcg_next !g in g := g'; hex8 r); show ()
    | ["bounded"; b; k] -> outs (int_of_string k) (fun () ->
          match pcg_bounded (nat_of_int 100000) !g (n_of_string b) with
          | DOk (g', v) -> g := g'; string_of_n v
          | DDivZero -> print_string "divzero\n"; raise Stop
          | DOutOfFuel -> print_string "fuel\n"; raise Stop); show ()
    | ["demo"] -> let d = ref (pcg_seed (n_of_string "42") (n_of_string "54")) in
        outs 6 (fun () -> let (g', r) = pcg_next !d in d := g'; hex8 r)
    | _ -> print_string "?\n") ops
  with Stop -> ())

let ult a b = Int64.unsigned_compare a b < 0
let comp_of kind (a : n) (b : n) : bool =
  let a = i64_of_n a and b = i64_of_n b in
  let sh x k = Int64.shift_right_logical x k in
  match kind with
  | 0 -> ult (sh a 4) (sh b 4)
  | 1 -> ult (sh b 4) (sh a 4)
  | 2 -> ult (sh a 5) (sh b 5)
  | 3 -> false
  | _ -> ult a b

let sort_case ops =
  List.iter (fun l -> match words l with
    | "sort" :: kind :: v ->
        let c = comp_of (int_of_string kind) and v = nums v in
        let r = insertion_sort c v in
        print_list "l" r;
        if isort_idx c N0 v <> r then print_string "index-version-differs\n"
    | _ -> print_string "?\n") ops

let body lines = match lines with
  | [] -> ()
  | h :: ops -> (match words h with
    | ["bitset"; nn] -> bitset_case nn ops
    | "array" :: hdr -> array_case hdr ops
    | "mt" :: _ -> mt_case ops
    | "pcg" :: _ -> pcg_case ops
    | "sortcase" :: _ -> sort_case ops
    | _ -> print_string "unknown-kind\n")

let () = run_cases body
