"""Case generator for the fmt component (fmt() and stack_buffer_logger parts of C19, fmt part of C20).

A case is a list of groups separated by the line "next" (see comp/fmt/driver.ml for the lines).
Packs of one argument may use every kind; packs of two the kinds K2, packs of three the kinds K3
(the harness has a fixed set of typed trampolines)."""
import itertools, re

K1 = "uUQilqhHaAbcvsp"
K2 = "iUqcvspb"
K3 = "iUcs"
LIMITS = [2, 3, 7, 8, 16, 128]
KD = "iUcsv"        # kinds of the deferred (rvalue) packs, at most 2 arguments
ALPHA = b"{}:09xq"
CONVS = ["", "b", "c", "d", "i", "o", "X", "x"]

RANGE = {"u": (0, 2**32 - 1), "U": (0, 2**64 - 1), "Q": (0, 2**64 - 1), "i": (-2**31, 2**31 - 1),
         "l": (-2**63, 2**63 - 1), "q": (-2**63, 2**63 - 1), "h": (-2**15, 2**15 - 1), "H": (0, 2**16 - 1),
         "a": (-128, 127), "A": (0, 255), "b": (0, 1), "c": (-128, 127), "p": (0, 2**64 - 1)}


def hx(b):
    return bytes(b).hex() if len(b) else "-"


def boundary(k):
    lo, hi = RANGE[k]
    vs = [0, 1, lo, hi, (lo + hi) // 2 + 7]
    if lo < 0:
        vs += [-1, lo + 1]
    if k == "c":
        vs += [65, 48, 10, -3]
    if k == "p":
        vs += [0xdeadbeef, 0x7ffc5e8c0990]
    return [v for i, v in enumerate(vs) if lo <= v <= hi and v not in vs[:i]]


def rand_text(rng, n, nul=False, hi=True):
    out = bytearray()
    for _ in range(n):
        r = rng.random()
        if r < 0.75:
            out.append(rng.choice(b"abcxyz XYZ0159%-+_.,"))
        elif r < 0.85 and hi:
            out.append(rng.randrange(128, 256))
        elif r < 0.88 and nul:
            out.append(0)
        else:
            out.append(rng.randrange(1, 128))
    return bytes(out)


def rand_arg(rng, kinds, nul=False):
    k = rng.choice(kinds)
    if k in "vs":
        return (k, hx(rand_text(rng, rng.choice([0, 1, 2, 3, 5, 9]), nul=nul)))
    vs = boundary(k)
    if rng.random() < 0.3:
        lo, hi = RANGE[k]
        return (k, str(rng.randint(lo, hi)))
    return (k, str(rng.choice(vs)))


def rand_pack(rng, n, nul=False):
    kinds = K1 if n <= 1 else K2 if n == 2 else K3
    return [rand_arg(rng, kinds, nul) for _ in range(n)]


_RUN = re.compile(rb"[0-9]{6,}")


def huge_field(fmt):
    """a digit run that could be taken as a field width between 10^5 and INT_MAX: not executed (the field alone
    would be up to 2 GiB of padding); runs that do not fit an int are kept (they are rejected specs)"""
    return any(int(m.group()) <= 2**31 - 1 and int(m.group()) >= 100000 for m in _RUN.finditer(fmt))


def grp(fmt, args, tag=None):
    if huge_field(fmt):
        fmt = _RUN.sub(b"2147483648", fmt)
    ls = ["fmt " + hx(fmt)] + ["arg %s %s" % a for a in args]
    if tag:
        ls.append("tag " + tag)
    return ls


def pack_cases(prefix, groups, per=25):
    cases = []
    for i in range(0, len(groups), per):
        ls = []
        for g in groups[i:i + per]:
            if ls:
                ls.append("next")
            ls += g
        cases.append(("%s-%d" % (prefix, i // per), ls))
    return cases


# ------------------------------------------------------------------------------------------------
# format strings
# ------------------------------------------------------------------------------------------------
def rand_spec(rng, nargs, wellformed=True):
    s = b""
    r = rng.random()
    if r < 0.35:
        s += str(rng.choice([0, 0, 1, 1, 2, 3, 7, 10, nargs, max(nargs - 1, 0)])).encode()
    elif r < 0.38:
        s += rng.choice([b"00", b"01", b"18446744073709551615", b"18446744073709551616", b"18446744073709551617",
                         b"4294967296", b"99999999999999999999999"])
    if rng.random() < 0.75:
        s += b":"
        if rng.random() < 0.4:
            s += b"0"
        r = rng.random()
        if r < 0.6:
            s += str(rng.choice([0, 1, 2, 3, 5, 8, 10, 12, 16, 20, 33, 64, 65, 70])).encode()
        elif r < 0.64:
            s += str(rng.choice([100, 255, 300, 999, 1000, 1010])).encode()
        elif r < 0.67:
            s += rng.choice([b"2147483648", b"2147483650", b"4294967296", b"4294967301", b"99999999999",
                             b"21474836470", b"18446744073709551616", b"0000000000000000000012"])
        s += rng.choice(CONVS).encode()
    if not wellformed:
        k = rng.randrange(5)
        pos = rng.randrange(len(s) + 1)
        if k == 0:
            s = s[:pos] + bytes([rng.choice(b"{:- +#.qxd09 \x00\xff")]) + s[pos:]
        elif k == 1 and s:
            s = s[:pos] + s[pos + 1:]
        elif k == 2:
            s = s + rng.choice([b"x", b":", b"d5", b" ", b"{"])
        elif k == 3:
            s = rng.choice([b" ", b"-", b"+", b"a"]) + s
        else:
            s = s[:pos] + s[pos:pos + 2] + s[pos:]
    return b"{" + s + b"}"


def rand_format(rng, nargs, malformed=0.15):
    out = b""
    for _ in range(rng.choice([1, 1, 2, 2, 3, 4, 6])):
        r = rng.random()
        if r < 0.3:
            out += rand_text(rng, rng.choice([0, 1, 2, 5, 11]), nul=True)
        elif r < 0.38:
            out += rng.choice([b"{{", b"}}", b"}", b"{{}}", b"{{{", b"}{", b"{{}"])
        else:
            out += rand_spec(rng, nargs, wellformed=rng.random() >= malformed)
    r = rng.random()
    if r < 0.06:
        out += b"{" + rand_spec(rng, nargs)[1:-1]        # unclosed
    elif r < 0.09:
        out = out[:rng.randrange(len(out) + 1)]             # cut off
    return out


def gen_fmt_groups(rng, n, malformed=0.15):
    gs = []
    for _ in range(n):
        na = rng.choice([0, 1, 1, 1, 2, 2, 3])
        gs.append(grp(rand_format(rng, na, malformed), rand_pack(rng, na, nul=True), "random"))
    return gs


def deferred_groups(rng, n):
    """fmt objects built from rvalue arguments and rendered later (harness line `defer ret|var`)"""
    gs = []
    fixed = [(b"{}", [("i", "-123456789")]), (b"{}|{}", [("i", "2147483647"), ("U", str(2**64 - 1))]), (b"{:x}", [("U", "3735928559")]),
             (b"{}", [("v", hx(b"view text"))]), (b"{}", [("s", hx(b"c string"))]), (b"{:c}{}", [("c", "65"), ("c", "-7")]),
             (b"a{1}b{0:08d}c", [("i", "-42"), ("v", hx(b"zz"))]), (b"{}{}", [("s", hx(b"left")), ("i", "77")]), (b"no args {{}}", [])]
    for f, a in fixed:
        for how in ("ret", "var"):
            gs.append(grp(f, a, "deferred") + ["defer " + how])
    for _ in range(n):
        na = rng.choice([1, 1, 2, 2])
        pack = [rand_arg(rng, KD) for _ in range(na)]
        gs.append(grp(rand_format(rng, na, 0.05), pack, "deferred") + ["defer " + rng.choice(["ret", "var"])])
    return gs


def product_groups(rng, full):
    """every conversion x every argument kind x the boundary values of the kind x fill/width combinations"""
    gs = []
    widths = ["", "0", "1", "5", "05", "012", "20", "020", "70", "070"] if full else ["", "5", "05", "20", "070"]
    for conv in CONVS:
        for k in K1:
            if k in "vs":
                vals = ["-", hx(b"ab"), hx(b"a\0b") if k == "v" else hx(b"q\0r")]
            else:
                vals = [str(v) for v in boundary(k)]
            for v in vals:
                ws = widths if full else [rng.choice(widths), rng.choice(widths)]
                for w in ws:
                    f = b"{:" + w.encode() + conv.encode() + b"}"
                    gs.append(grp(f, [(k, v)], "product"))
    return gs


def alphabet_strings(maxlen):
    for n in range(0, maxlen + 1):
        for t in itertools.product(ALPHA, repeat=n):
            yield bytes(t)


ALPHA_PACKS = [
    [],
    [("i", "-77")], [("U", "48879")], [("c", "65")], [("s", hx(b"ab"))], [("c", "-3")], [("p", "4660")],
    [("i", "5"), ("s", hx(b"zq"))], [("c", "-128"), ("U", str(2**64 - 1))], [("q", str(-2**63)), ("v", hx(b"v\0w"))],
]


def alphabet_groups(rng, maxlen, sample=None, packs_per=3):
    gs = []
    strs = list(alphabet_strings(maxlen))
    if sample is not None and sample < len(strs):
        short = [s for s in strs if len(s) <= 3]
        longer = [s for s in strs if len(s) > 3]
        strs = short + rng.sample(longer, min(sample, len(longer)))
    for s in strs:
        packs = [ALPHA_PACKS[0]] + rng.sample(ALPHA_PACKS[1:], packs_per - 1) if b"{" in s else [ALPHA_PACKS[0]]
        for p in packs:
            gs.append(grp(s, p, "alphabet"))
    return gs


def alphabet6_groups(rng, lo, hi):
    """length-6 strings (index range of the enumeration), one pack each"""
    gs = []
    for idx in range(lo, hi):
        t, x = [], idx
        for _ in range(6):
            t.append(ALPHA[x % 7]); x //= 7
        s = bytes(t)
        if b"{" not in s:
            continue
        gs.append(grp(s, ALPHA_PACKS[1 + idx % (len(ALPHA_PACKS) - 1)], "alphabet6"))
    return gs


def mutation_groups(rng, n):
    """malformed stream beyond the alphabet: byte-level mutations of valid formats, every prefix"""
    gs = []
    for _ in range(n):
        na = rng.choice([0, 1, 2])
        f = bytearray(rand_format(rng, na, malformed=0.0))
        for _ in range(rng.choice([1, 1, 2, 3])):
            k = rng.randrange(4)
            pos = rng.randrange(len(f) + 1)
            if k == 0:
                f[pos:pos] = bytes([rng.choice(b"{}:09xXc\x00\x7b\xfb\xff\x80 ")])
            elif k == 1 and f:
                del f[min(pos, len(f) - 1)]
            elif k == 2 and f:
                f[min(pos, len(f) - 1)] = rng.randrange(256)
            else:
                f[pos:pos] = rng.choice([b"{", b"}", b"{{", b"99999999999", b"{:", b"{0:0"])
        gs.append(grp(bytes(f), rand_pack(rng, na, nul=True), "mutation"))
        if rng.random() < 0.08:
            pk = rand_pack(rng, na)
            for cut in range(len(f)):
                gs.append(grp(bytes(f[:cut]), pk, "prefix"))
    return gs


# ------------------------------------------------------------------------------------------------
# logger
# ------------------------------------------------------------------------------------------------
def split_text(rng, text, pieces):
    cuts = sorted(rng.randrange(len(text) + 1) for _ in range(pieces - 1))
    out, prev = [], 0
    for c in cuts + [len(text)]:
        out.append(text[prev:c]); prev = c
    return out


def logger_group(rng, limit, total, pieces, endlog=True, tag="logger"):
    text = rand_text(rng, total)
    ls = ["log %d" % limit]
    for p in split_text(rng, text, pieces):
        r = rng.random()
        if r < 0.4:
            ls.append("put s " + hx(p))
        elif r < 0.7:
            ls.append("put v " + hx(p))
        elif r < 0.8 and len(p) <= 3 and all(48 <= b <= 57 for b in p) and (p[:1] != b"0" or p == b"0") and p:
            ls.append("put i " + p.decode())
        elif r < 0.9 and b"{" not in p and b"}" not in p:
            ls.append("putf " + hx(p[:len(p) // 2] + b"{}" + p[len(p) // 2:]) + " i " + str(rng.choice(boundary("i"))))
        else:
            ls.append("putf " + hx(b"{}") + " s " + hx(p))
    if rng.random() < 0.35:
        k = rng.choice("uUQilqhHaAbcp")
        ls.insert(rng.randrange(1, len(ls) + 1), "put %s %s" % (k, rng.choice(boundary(k))))
    if endlog:
        ls.append("endlog")
    ls.append("tag " + tag)
    return ls


def nonbrace_text(rng, n):
    return bytes(rng.choice(b"abcdefghijklmnopqrstuvwxyzABCXYZ0123456789 .,-_%") for _ in range(n))


def logger_boundary_groups(rng, full):
    """a C-string append that ends with the buffer exactly full (Limit-1 bytes pending), one short of it, or just
    flushed - at the first boundary and at each multiple - followed by appends of the other kinds: integers and
    chars (digit by digit through append(char)), views (byte by byte), another C string, a fmt() object"""
    gs = []
    follow_all = ["put i -1234567", "put U 18446744073709551615", "put c 65", "put c -8", "put v " + hx(b"vw"), "put v -",
                  "put s " + hx(b"st"), "putf " + hx(b"<{}>") + " i 90", "put b 1", "put p 48879", "put Q 7", "put h -300"]
    for limit in LIMITS:
        ends = set()
        for m in (1, 2, 3):
            for d in (-1, 0, 1):
                ends.add(m * (limit - 1) + d); ends.add(m * limit + d)
        for end in sorted(e for e in ends if e >= 0):
            follows = follow_all if full else rng.sample(follow_all, 5)
            for fo in follows:
                for prefix_kind in (None, "v", "i", "c", "s"):
                    if prefix_kind is not None and not full and rng.random() < 0.5:
                        continue
                    ls = ["log %d" % limit]
                    pre = 0
                    if prefix_kind == "v":
                        pre = min(end, rng.choice([1, 2, 3])); ls.append("put v " + hx(nonbrace_text(rng, pre)))
                    elif prefix_kind == "s":
                        pre = min(end, rng.choice([1, 2])); ls.append("put s " + hx(nonbrace_text(rng, pre)))
                    elif prefix_kind == "i":
                        v = rng.choice([7, -5, 123, 100000]); t = str(v)
                        if len(t) > end:
                            continue
                        pre = len(t); ls.append("put i %d" % v)
                    elif prefix_kind == "c":
                        v = rng.choice([5, 65, -9, 127]); t = str(v)
                        if len(t) > end:
                            continue
                        pre = len(t); ls.append("put c %d" % v)
                    ls.append("put s " + hx(nonbrace_text(rng, end - pre)))      # the C string ends at `end` bytes of text
                    ls.append(fo)
                    if rng.random() < 0.4:
                        ls.append(rng.choice(follow_all))
                    ls += ["endlog", "tag logger-boundary"]
                    gs.append(ls)
    return gs


def logger_groups(rng, full):
    gs = []
    for limit in LIMITS:
        top = 3 * limit + 2
        lens = set(range(0, top + 1))
        for m in range(1, 6):
            for d in (-1, 0, 1):
                lens.add(max(0, m * (limit - 1) + d))
        for total in sorted(lens):
            for pieces in ([1, 2, 3, 4] if full or limit < 64 else [2, 3]):
                gs.append(logger_group(rng, limit, total, pieces))
    # special shapes: no endlog at all, two endlogs, appends after endlog, an assertion in the middle
    for limit in LIMITS:
        for total in (0, 1, limit - 1, limit, 2 * limit + 1):
            gs.append(logger_group(rng, limit, total, 2, endlog=False, tag="logger-noend"))
        gs.append(["log %d" % limit, "endlog", "tag logger-empty"])
        gs.append(["log %d" % limit, "put s -", "put v -", "putf -", "endlog", "tag logger-empty"])
        gs.append(["log %d" % limit, "put s " + hx(b"ab"), "endlog", "put s " + hx(b"c"), "endlog", "tag logger-two-endlogs"])
        gs.append(["log %d" % limit, "endlog", "endlog", "tag logger-two-endlogs"])
        gs.append(["log %d" % limit, "put s " + hx(b"abcde"), "putf " + hx(b"xy{:c}z") + " i 65", "put s " + hx(b"f"), "endlog", "tag logger-assert"])
        gs.append(["log %d" % limit, "put s " + hx(b"abcde"), "endlog", "putf " + hx(b"xy{:c}z") + " U 65", "tag logger-assert"])
    return gs


# ------------------------------------------------------------------------------------------------
def corpus():
    """minimised past failures and fixed witnesses first"""
    g = []
    # D31 (fmt part): the width accumulator overflowed int (UBSan formatting.hpp:588)
    g.append(("corpus-d31-width-overflow", grp(b"{:99999999999}", [("i", "1")])))
    g.append(("corpus-d31-width-boundary", grp(b"{:2147483648}", [("i", "1")]) + ["next"] + grp(b"{:2147483650x}", [("U", "1")])
              + ["next"] + grp(b"{:02147483647q}", [("i", "1")]) + ["next"] + grp(b"a{0:4294967301}b", [("i", "1")])))
    # D50: print_int<char> of a negative char indexed the digit table with a negative int (ASan global-buffer-overflow)
    g.append(("corpus-d50-negative-char", grp(b"{}", [("c", "-1")])))
    g.append(("corpus-d50-negative-char-conv", grp(b"{:d}", [("c", "-128")]) + ["next"] + grp(b"{:x}", [("c", "-3")]) + ["next"] + grp(b"{:05b}", [("c", "-2")])))
    g.append(("corpus-d50-logger-char", ["log 8", "put c -1", "endlog"]))
    # D51: the position accumulator (size_t) wrapped: position 2^64 selected argument 0
    g.append(("corpus-d51-position-wrap", grp(b"{18446744073709551616}", [("i", "7")])))
    g.append(("corpus-d51-position-wrap-1", grp(b"{18446744073709551617}", [("i", "7"), ("i", "8")]) + ["next"]
              + grp(b"{18446744073709551615}", [("i", "7")]) + ["next"] + grp(b"{36893488147419103232:x}", [("i", "7")])))
    # behaviour pinned down while reading
    g.append(("corpus-braces", grp(b"a}}b{{c}", []) + ["next"] + grp(b"{", []) + ["next"] + grp(b"a{", []) + ["next"] + grp(b"{{", [])
              + ["next"] + grp(b"{{}", [("i", "1")]) + ["next"] + grp(b"{ {}", [("i", "1")]) + ["next"] + grp(b"{}{}", [("i", "1")])
              + ["next"] + grp(b"{1}{}", [("i", "1"), ("i", "2")]) + ["next"] + grp(b"{a}{}", [("i", "7")])))
    g.append(("corpus-conv-c", grp(b"{:c}", [("i", "65")]) + ["next"] + grp(b"{:c}", [("c", "65")]) + ["next"] + grp(b"{:c}", [("b", "1")])
              + ["next"] + grp(b"{:c}", [("p", "65")]) + ["next"] + grp(b"{:c}", [("s", hx(b"zz"))]) + ["next"] + grp(b"x{:c}y{}", [("U", "65")])))
    # seeded change missed once: fmt() holding rvalue arguments by reference (fmt_impl<Ts &&...>)
    g.append(("corpus-fmt-stores", ["traits"]))
    g.append(("corpus-fmt-deferred", sum([x + ["next"] for x in deferred_groups(__import__("random").Random(1), 0)], [])[:-1]))
    # seeded change caught only by luck once: C-string append ending with the buffer exactly full, then char-wise appends
    g.append(("corpus-logger-cstr-full-then-digits", ["log 8", "put s " + hx(b"abcdefg"), "put i 1234567", "endlog", "next",
                                                      "log 8", "put s " + hx(b"abcdefgh"), "put i -12", "put v " + hx(b"xy"), "endlog", "next",
                                                      "log 7", "put v " + hx(b"ab"), "put s " + hx(b"cdef"), "put c 65", "put U 99", "endlog", "next",
                                                      "log 16", "put s " + hx(b"0123456789abcde"), "put i 5", "put s " + hx(b"0123456789abcd"), "put c -3", "endlog", "next",
                                                      "log 128", "put s " + hx(b"q" * 127), "put i 31337", "put s " + hx(b"r" * 122), "put Q 424242", "endlog", "next",
                                                      "log 2", "put s " + hx(b"a"), "put i 10", "endlog", "next", "log 3", "put s " + hx(b"ab"), "put i 10", "endlog"]))
    g.append(("corpus-three-digit-width", grp(b"{:300}|{0:0999x}", [("i", "-5")])))
    g.append(("corpus-logger-edges", ["log 2", "put s " + hx(b"a"), "endlog", "next", "log 2", "put s " + hx(b"ab"), "endlog", "next",
                                      "log 3", "put s " + hx(b"ab"), "endlog", "next", "log 3", "put s " + hx(b"abc"), "endlog", "next",
                                      "log 8", "put s " + hx(b"abcdefg"), "endlog", "next", "log 8", "put s " + hx(b"abcdefgh"), "endlog", "next",
                                      "log 8", "put s " + hx(b"abcdefghijklmn"), "endlog", "next", "log 8", "put s " + hx(b"abcdefghijklmno"), "endlog"]))
    return g


def quick_cases(rng, focus):
    cases = []
    if focus in (None, "C19"):
        cases += pack_cases("prod", product_groups(rng, False))
        cases += pack_cases("rnd", gen_fmt_groups(rng, 6000, malformed=0.12))
        cases += pack_cases("log", logger_groups(rng, False), per=10)
        cases += pack_cases("logb", logger_boundary_groups(rng, False), per=10)
        cases += pack_cases("defer", deferred_groups(rng, 600), per=10)
        cases += pack_cases("alpha", alphabet_groups(rng, 5, sample=2500, packs_per=2))
    if focus in (None, "C20"):
        cases += pack_cases("mal-alpha", alphabet_groups(rng, 5, sample=6000, packs_per=3))
        cases += pack_cases("mal-mut", mutation_groups(rng, 5000))
        cases += pack_cases("mal-rnd", gen_fmt_groups(rng, 2000, malformed=0.6))
    return cases


def thorough_batches(rng, focus):
    if focus in (None, "C19"):
        yield pack_cases("tprod", product_groups(rng, True))
        yield pack_cases("trnd", gen_fmt_groups(rng, 60000, malformed=0.12))
        yield pack_cases("tlog", logger_groups(rng, True), per=10)
        yield pack_cases("tlogb", logger_boundary_groups(rng, True), per=10)
        yield pack_cases("tdefer", deferred_groups(rng, 6000), per=10)
    yield pack_cases("mal-talpha", alphabet_groups(rng, 5, packs_per=3), per=40)
    if focus in (None, "C20"):
        step = 7 ** 6 // 4
        for i in range(4):
            yield pack_cases("mal-talpha6-%d" % i, alphabet6_groups(rng, i * step, min(7 ** 6, (i + 1) * step)), per=40)
        yield pack_cases("mal-tmut", mutation_groups(rng, 40000))
