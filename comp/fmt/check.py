"""fmt component (fmt() and stack_buffer_logger parts of C19, fmt part of C20): builds the extracted model
driver and the harness against /repo's current headers, generates cases, runs legs C and O into the given Check.

run(c, focus): focus "C19" = rendering (conversion x argument kind x boundary values x fill/width, random
grammar formats, the logger at every length around the multiples of Limit-1; oracle kinds fmt-spec, logger,
crash); focus "C20" = the malformed stream (every string over `{ } : 0 9 x q` up to length 5 / 6, byte
mutations, prefixes, numbers that do not fit; oracle kind crash = ASan/UBSan/timeout; the reference-renderer
kinds found there belong to C19 and are counted as such); None = both."""
import os
import vlib
from comp.fmt import gen

RULE = ("fmt: product conversion{none,b,c,d,i,o,X,x} x argument kind(15 C++ types) x boundary values of the type (0, +-1, min, max, mid) "
        "x fill/width{none,0,1,5,05,012,20,020,70,070}; random formats from the grammar with explicit/out-of-range positions, "
        "{{, }}, unclosed and cut-off braces, bytes >= 128 and NUL, 0-3 arguments; widths/positions that do not fit int/size_t; "
        "malformed stream: every string over `{ } : 0 9 x q` of length <= 5 (sampled in quick) and 6 (thorough), byte mutations and "
        "every prefix of valid formats; format strings and string arguments in exact-size heap blocks; fmt objects built from RVALUE "
        "arguments (function results, moved locals of a dead frame) returned from a noinline helper / kept in a variable and rendered after "
        "the stack was overwritten, and the storage class of the fmt object's arguments read off its type.  logger: Limit in "
        "{2,3,7,8,16,128}, message lengths 0..3*Limit+2 and m*(Limit-1)+{-1,0,1}, 1-4 appends per message of C strings, views, integers, "
        "chars and fmt() objects; a C-string append ending at m*(Limit-1)+{-1,0,1} and m*Limit+{-1,0,1} bytes of text (m = 1..3) followed "
        "by every other kind of append; no endlog, two endlogs, an assertion inside an append.  non-trivial = distinct format string containing a brace, "
        "or distinct (Limit, script) of a logger run with at least one flush before endlog")
TRUSTED = ["extraction: ExtrOcamlBasic only; OCaml 4.13.1; comp/fmt/driver.ml (hex/decimal parsing, the table C++ argument type -> model arg "
           "that mirrors overload resolution of format_object: short, unsigned short, signed char, unsigned char, bool promote to int)",
           "correspondence harness comp/fmt/harness.cpp (g++ -fsanitize=address,undefined, -O0): byte-collecting sink, recording logger "
           "sink (with begin/finalize), typed trampolines (every kind for 1 argument, 8 kinds for 2, 4 kinds for 3)",
           "oracle: reference renderer in the harness written from the documented grammar ([0-9]+)?(:0?[0-9]*[bcdioXx]?)? with std::regex "
           "and glibc snprintf; chunk concatenation / chunk size for the logger; type traits on decltype(frg::fmt(...)) (kind fmt-owns); ASan "
           "(incl. stack-use-after-scope and, with detect_stack_use_after_return=1 for this harness, stack-use-after-return), UBSan (signed overflow, array bounds)",
           "modelled, not verified: the sink's own append (std::string), C-string arguments as `bytes followed by NUL`"]
ASSUMPTIONS = ["LP64: int 32 bits, long = long long = size_t = uintptr_t 64 bits, char signed 8 bits",
               "argument values are values of their C++ type (args_ok); const char * arguments are NUL-terminated arrays",
               "format strings shorter than 2^64 bytes; field widths between 10^5 and INT_MAX are not executed (up to 2 GiB of padding)",
               "logger: text without NUL bytes (the sink receives a C string); Limit >= 2 (Limit 1 stops in FRG_ASSERT(_off < Limit) on "
               "the second byte); at most one endlog, at the end (a second endlog re-emits the buffer: outside the property's quantifier, "
               "compared with the model only)",
               "automatic argument index = ordinal number of the brace group (explicit-position and malformed groups count too), as in the source; "
               "the c conversion on a non-char integer argument stops in the assertion of format_integer (taken as a documented precondition)"]

C19_KINDS = {"fmt-spec", "logger", "fmt-owns"}
# fmt objects that outlive their creating expression must own rvalue arguments: let ASan see a dead frame
SAN = {"ASAN_OPTIONS": vlib.SAN_ENV["ASAN_OPTIONS"].replace("detect_stack_use_after_return=0", "detect_stack_use_after_return=1")}
_built = {}


def build(c):
    if "ok" in _built:
        return _built["ok"]
    okm, mlog = vlib.coq_make(["Fmt/FmtExtract.vo"])
    shim = os.path.join(vlib.BUILD, "extract", "fmt_shim.ml")
    os.makedirs(os.path.dirname(shim), exist_ok=True)
    open(shim, "w").write("type nonrec string = string\n")     # Coq's [string] is extracted as a type named string
    okd, drv, dlog = vlib.ocaml_build("fmt_m", ["fmt_model", "fmt_shim"], os.path.join(vlib.ROOT, "comp/fmt/driver.ml"))
    okh, har, hlog = vlib.cxx_build("fmt_h", os.path.join(vlib.ROOT, "comp/fmt/harness.cpp"), extra=["-O0", "-g1"])
    if not (okm and okd):
        c.broken.append("fmt model extraction/driver build failed: " + (mlog[-800:] if not okm else dlog[-800:]))
    if not okh:
        c.broken.append("fmt harness does not compile against /repo: " + hlog[-1500:])
    _built["ok"] = (okh, okd, har, drv)
    return _built["ok"]


def _key(cid, lines, ri):
    ks = set()
    limit, script = None, []
    for l in lines + ["next"]:
        if l.startswith("fmt ") and "7b" in l:
            ks.add(l)
        elif l.startswith("log "):
            limit, script = l, []
        elif l == "next":
            if limit and script:
                ks.add((limit, tuple(script)))
            limit, script = None, []
        elif limit:
            script.append(l)
    # logger scripts count only if a flush happened before endlog (two or more chunk lines in some group)
    if not any(l.startswith("fmt ") for l in lines):
        chunks, best = 0, 0
        for l in ri["lines"]:
            if l.startswith("grp "):
                chunks = 0
            elif l.startswith("chunk "):
                chunks += 1; best = max(best, chunks)
        if best < 2:
            return None
    return frozenset(ks) if ks else None


def _count(c, cases):
    for _, ls in cases:
        for l in ls:
            if l.startswith("tag "):
                c.count("fmt_grp_" + l[4:])
            elif l.startswith("arg ") or l.startswith("put "):
                c.count("fmt_argkind_" + l.split()[1])
            elif l.startswith("log "):
                c.count("fmt_logger_limit_" + l.split()[1])
            elif l.startswith("fmt "):
                c.count("fmt_formats")


def _run_batch(c, cases, har, drv, okd, focus):
    _count(c, cases)
    impl = vlib.run_cases(har, cases, timeout=900, env=SAN)
    model = vlib.run_cases(drv, cases, timeout=900) if okd else {}
    for r in impl.values():
        for l in r["lines"]:
            if l.startswith("!HARNESS"):
                c.broken.append("fmt generator/harness disagreement: " + l)
        if focus == "C20":
            keep = [o for o in r["oracle"] if o.partition(" ")[0] not in C19_KINDS]
            c.ignored_oracle += len(r["oracle"]) - len(keep)
            r["oracle"] = keep
    for r in model.values():
        for l in r["lines"]:
            if l.startswith("end ub") or l.startswith("end fuel"):
                c.count("fmt_model_ub_or_fuel")
    c.compare(cases, impl, model, _key)


def run(c, focus=None):
    okh, okd, har, drv = build(c)
    if not okh:
        return False
    if c.replay:
        _run_batch(c, vlib.read_replay(c.replay), har, drv, okd, focus)
        return True
    cases = gen.corpus() + gen.quick_cases(c.rng, focus)
    _run_batch(c, cases, har, drv, okd, focus)
    if c.tier == "thorough":
        for batch in gen.thorough_batches(c.rng, focus):
            _run_batch(c, batch, har, drv, okd, focus)
    return True
