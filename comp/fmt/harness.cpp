// Harness for frg::fmt() and frg::stack_buffer_logger (C19 fmt/logger part, C20 fmt part).
// Runs each group on the REAL code: the format string in an exact-size heap block (no NUL), the
// arguments as a typed pack built by a fixed set of trampolines, a byte-collecting sink or a
// real stack_buffer_logger<RecSink, Limit> with a recording sink.  Prints canonical lines
// (compared with the extracted Gallina model) and evaluates the property without the model:
//   kind "fmt-spec": a reference renderer written from the documented grammar
//                    ([0-9]+)?(:0?[0-9]*[bcdioXx]?)?  (std::regex + snprintf),
//   kind "fmt-owns":  what a fmt object stores for an rvalue argument (type traits: must be a value), and fmt
//                    objects built from rvalue arguments that are rendered LATER (returned from a noinline
//                    helper / kept in a variable, stack clobbered in between) against the reference renderer,
//   kind "logger":   concatenation of the chunks == the appended text, every chunk <= Limit-1,
//   and the sanitizers (ASan: exact-size blocks; UBSan: signed overflow, array bounds).
// Case lines: see comp/fmt/driver.ml.
#include <climits>
#include <optional>
#include <regex>
#include <tuple>
#include <type_traits>
#include "vharness.hpp"
#include <frg/formatting.hpp>
#include <frg/logging.hpp>

namespace {

struct ByteSink {
	std::string s;
	void append(char c) { s.push_back(c); }
	void append(const char *p) { s += p; }
};

std::string hex(const std::string &s) {
	static const char *d = "0123456789abcdef";
	if(s.empty()) return "-";
	std::string r;
	for(unsigned char c : s) { r.push_back(d[c >> 4]); r.push_back(d[c & 15]); }
	return r;
}
std::string esc(const std::string &s) {
	std::string r; char b[8];
	for(unsigned char c : s) { if(c >= 32 && c < 127 && c != '\\') r.push_back(c); else { snprintf(b, sizeof b, "\\x%02x", c); r += b; } }
	return r;
}
std::string unhex(const std::string &h) {
	std::string r;
	if(h == "-") return r;
	for(size_t i = 0; i + 1 < h.size(); i += 2) r.push_back((char)strtoul(h.substr(i, 2).c_str(), nullptr, 16));
	return r;
}

// exact-size heap copy of a byte string (ASan sees any read outside); size 0 -> pointer to the end of a 1-byte block
struct Block {
	char *base = nullptr; char *p = nullptr; size_t n = 0;
	Block() {}
	Block(const std::string &s, bool nul) {
		n = s.size();
		size_t sz = n + (nul ? 1 : 0);
		base = (char *)malloc(sz ? sz : 1);
		memcpy(base, s.data(), n);
		if(nul) base[n] = 0;
		p = sz ? base : base + 1;
	}
	Block(const Block &) = delete;
	Block(Block &&o) : base(o.base), p(o.p), n(o.n) { o.base = nullptr; }
	Block &operator=(Block &&o) { free(base); base = o.base; p = o.p; n = o.n; o.base = nullptr; return *this; }
	~Block() { free(base); }
};

// one argument value.  kinds: u unsigned int, U unsigned long, Q unsigned long long, i int, l long,
// q long long, h short, H unsigned short, a signed char, A unsigned char, b bool, c char,
// v frg::string_view, s const char *, p const void *
struct AV {
	char kind; long long i = 0; unsigned long long u = 0; std::string text;
	Block blk;
};

std::string assert_expr(const vh::AssertStop &a) {
	auto b = a.where.find("Assertion '"), e = a.where.rfind("' failed!");
	return (b != std::string::npos && e != std::string::npos) ? a.where.substr(b + 11, e - b - 11) : a.where;
}

// ---- typed trampolines.  N selects the set of argument kinds: every kind for N == 1,
// {i U q c v s p b} for N == 2, {i U c s} for N == 3; D = maximal number of arguments.
template<int N, int D, typename Run, typename... Ts>
void call(Run &run, const std::vector<AV> &a, size_t i, Ts &...vals) {
	if(i == a.size()) { run(vals...); return; }
	if constexpr (sizeof...(Ts) < D) {
		const AV &x = a[i];
		switch(x.kind) {
		case 'i': { int v = (int)x.i; call<N, D>(run, a, i + 1, vals..., v); break; }
		case 'U': { unsigned long v = (unsigned long)x.u; call<N, D>(run, a, i + 1, vals..., v); break; }
		case 'c': { char v = (char)x.i; call<N, D>(run, a, i + 1, vals..., v); break; }
		case 's': { const char *v = x.blk.p; call<N, D>(run, a, i + 1, vals..., v); break; }
		default:
			if constexpr (N <= 2) {
				switch(x.kind) {
				case 'q': { long long v = x.i; call<N, D>(run, a, i + 1, vals..., v); return; }
				case 'v': { frg::string_view v{x.blk.p, x.blk.n}; call<N, D>(run, a, i + 1, vals..., v); return; }
				case 'p': { const void *v = (const void *)(uintptr_t)x.u; call<N, D>(run, a, i + 1, vals..., v); return; }
				case 'b': { bool v = x.i != 0; call<N, D>(run, a, i + 1, vals..., v); return; }
				default: break;
				}
			}
			if constexpr (N == 1) {
				switch(x.kind) {
				case 'u': { unsigned int v = (unsigned int)x.u; call<N, D>(run, a, i + 1, vals..., v); return; }
				case 'Q': { unsigned long long v = x.u; call<N, D>(run, a, i + 1, vals..., v); return; }
				case 'l': { long v = (long)x.i; call<N, D>(run, a, i + 1, vals..., v); return; }
				case 'h': { short v = (short)x.i; call<N, D>(run, a, i + 1, vals..., v); return; }
				case 'H': { unsigned short v = (unsigned short)x.u; call<N, D>(run, a, i + 1, vals..., v); return; }
				case 'a': { signed char v = (signed char)x.i; call<N, D>(run, a, i + 1, vals..., v); return; }
				case 'A': { unsigned char v = (unsigned char)x.u; call<N, D>(run, a, i + 1, vals..., v); return; }
				default: break;
				}
			}
			printf("!HARNESS unsupported argument kind %c in a pack of %d\n", x.kind, N);
		}
	}
}
template<typename Run>
void call_pack(Run &run, const std::vector<AV> &a) {
	switch(a.size()) {
	case 0: run(); break;
	case 1: call<1, 1>(run, a, 0); break;
	case 2: call<2, 2>(run, a, 0); break;
	case 3: call<3, 3>(run, a, 0); break;
	default: printf("!HARNESS more than 3 arguments\n");
	}
}

// ---- fmt objects that outlive the full expression that created them.  The arguments are RVALUES
// (function results / moved-from locals of a frame that is gone when the object is rendered), so the
// fmt object must own them; the stack is overwritten before rendering.  Kinds {i U c s v}, 1-2 arguments.
[[gnu::noinline]] void clobber(int depth) {
	volatile char pad[3072];
	for(size_t i = 0; i < sizeof pad; i++) pad[i] = (char)0xA5;
	if(depth) clobber(depth - 1);
	asm volatile("" ::: "memory");
}
template<typename T> [[gnu::noinline]] T mk(const T &v) { return v; }

template<typename... Ts>
[[gnu::noinline]] auto make_fmt_ret(frg::string_view view, const std::tuple<Ts...> &vals) {
	std::tuple<Ts...> local = vals;      // lives in this frame, dead when the caller renders
	return std::apply([&](auto &...xs) { return frg::fmt(view, std::move(xs)...); }, local);
}
template<typename... Ts>
void run_deferred(bool ret, frg::string_view view, ByteSink &sink, const std::tuple<Ts...> &vals) {
	if(ret) {
		auto f = make_fmt_ret(view, vals);
		clobber(3);
		frg::format(f, sink);
	} else {
		std::apply([&](auto &...xs) {
			auto f = frg::fmt(view, mk(xs)...);      // temporaries die at the end of this full expression
			clobber(3);
			{ volatile long a = mk(0x5a5a5a5a5a5a5a5al), b = mk(0x6b6b6b6b6b6b6b6bl), c = mk(0x7c7c7c7c7c7c7c7cl); (void)a; (void)b; (void)c; }
			frg::format(f, sink);
		}, vals);
	}
}
template<int D, typename Run, typename... Ts>
void build(Run &run, const std::vector<AV> &a, size_t i, std::tuple<Ts...> t) {
	if(i == a.size()) { run(t); return; }
	if constexpr (sizeof...(Ts) < D) {
		const AV &x = a[i];
		switch(x.kind) {
		case 'i': build<D>(run, a, i + 1, std::tuple_cat(t, std::make_tuple((int)x.i))); break;
		case 'U': build<D>(run, a, i + 1, std::tuple_cat(t, std::make_tuple((unsigned long)x.u))); break;
		case 'c': build<D>(run, a, i + 1, std::tuple_cat(t, std::make_tuple((char)x.i))); break;
		case 's': build<D>(run, a, i + 1, std::tuple_cat(t, std::make_tuple((const char *)x.blk.p))); break;
		case 'v': build<D>(run, a, i + 1, std::tuple_cat(t, std::make_tuple(frg::string_view{x.blk.p, x.blk.n}))); break;
		default: printf("!HARNESS unsupported argument kind %c in a deferred pack\n", x.kind);
		}
	} else printf("!HARNESS more than %d arguments in a deferred pack\n", D);
}

// what a fmt object stores for its arguments, read off its type
template<typename T> struct stored;
template<typename... Ts> struct stored<frg::detail_::fmt_impl<Ts...>> { using first = std::tuple_element_t<0, std::tuple<Ts...>>; };
template<typename T> const char *storage_name() {
	return std::is_rvalue_reference_v<T> ? "rvalue-ref" : std::is_lvalue_reference_v<T> ? "ref" : "value";
}
void print_traits() {
	frg::string_view view{"{}", 2};
	int lv = 1; frg::string_view lsv{"x", 1};
	using R1 = typename stored<decltype(frg::fmt(view, 1))>::first;
	using R2 = typename stored<decltype(frg::fmt(view, frg::string_view{"x", 1}))>::first;
	using R3 = typename stored<decltype(frg::fmt(view, mk((const char *)"x")))>::first;
	using L1 = typename stored<decltype(frg::fmt(view, lv))>::first;
	using L2 = typename stored<decltype(frg::fmt(view, lsv))>::first;
	printf("stores rvalue int=%s view=%s cstr=%s lvalue int=%s view=%s\n", storage_name<R1>(), storage_name<R2>(), storage_name<R3>(),
		storage_name<L1>(), storage_name<L2>());
	if(std::is_reference_v<R1> || std::is_reference_v<R2> || std::is_reference_v<R3>)
		vh::oracle("fmt-owns", "fmt() stores an rvalue argument by reference (int: %s, string_view: %s, const char *: %s): a fmt object that is rendered after the "
			"full expression that created it (returned from a function, kept in a variable) reads dead temporaries", storage_name<R1>(), storage_name<R2>(), storage_name<R3>());
}

// ---- the reference renderer (independent of the model and of frigg): documented grammar
//   "{{" -> "{";  "{" spec "}" with spec = ([0-9]+)?(:0?[0-9]*[bcdioXx]?)? renders the selected argument
//   (explicit position, else the ordinal number of the brace group); anything else between braces,
//   a position outside the pack, or an unclosed brace is copied verbatim.
struct RefResult { std::string out; bool asserted = false; };

std::string ref_digits(unsigned long long mag, int radix, bool caps) {
	char buf[80];
	if(radix == 10) snprintf(buf, sizeof buf, "%llu", mag);
	else if(radix == 16) snprintf(buf, sizeof buf, caps ? "%llX" : "%llx", mag);
	else if(radix == 8) snprintf(buf, sizeof buf, "%llo", mag);
	else { std::string r; do { r.insert(r.begin(), (char)('0' + (mag & 1))); mag >>= 1; } while(mag); return r; }
	return buf;
}
std::string ref_int(bool neg, unsigned long long mag, int radix, bool caps, bool zero, long width) {
	if(radix == 10) {      // all the way through snprintf: zero padding goes after the sign
		std::vector<char> buf(width + 64);
		if(neg && mag <= (unsigned long long)LLONG_MAX + 1) {
			long long v = mag == (unsigned long long)LLONG_MAX + 1 ? LLONG_MIN : -(long long)mag;
			snprintf(buf.data(), buf.size(), zero ? "%0*lld" : "%*lld", (int)width, v);
			return buf.data();
		} else if(!neg) {
			snprintf(buf.data(), buf.size(), zero ? "%0*llu" : "%*llu", (int)width, mag);
			return buf.data();
		}
	}
	std::string body = ref_digits(mag, radix, caps), sign = neg ? "-" : "";
	long fill = width - (long)(sign.size() + body.size());
	if(fill < 0) fill = 0;
	return zero ? sign + std::string(fill, '0') + body : std::string(fill, ' ') + sign + body;
}
// returns false for "precondition violated: stops through the assertion hook"
bool ref_arg(const AV &a, bool zero, long width, char conv, std::string &out) {
	int radix = conv == 'x' || conv == 'X' ? 16 : conv == 'o' ? 8 : conv == 'b' ? 2 : 10;
	bool caps = conv == 'X';
	switch(a.kind) {
	case 'v': out += a.text; return true;
	case 's': out += a.text.substr(0, a.text.find('\0')); return true;
	case 'p': out += "0x" + ref_int(false, a.u, 16, caps, zero, width); return true;
	case 'c':
		if(conv == 'c') { out.push_back((char)a.i); return true; }
		break;
	default: break;
	}
	if(conv == 'c') return false;     // the character conversion is for char arguments only
	bool is_unsigned = a.kind == 'u' || a.kind == 'U' || a.kind == 'Q' || a.kind == 'H' || a.kind == 'A';
	if(is_unsigned) out += ref_int(false, a.u, radix, caps, zero, width);
	else if(a.kind == 'b') out += ref_int(false, a.i != 0, radix, caps, zero, width);
	else out += ref_int(a.i < 0, a.i < 0 ? 0ULL - (unsigned long long)a.i : (unsigned long long)a.i, radix, caps, zero, width);
	return true;
}
RefResult ref_fmt(const std::string &f, const std::vector<AV> &args) {
	static const std::regex spec_re("([0-9]+)?(:(0?)([0-9]*)([bcdioXx]?))?");
	RefResult r; size_t ordinal = 0, i = 0;
	while(i < f.size()) {
		if(f[i] != '{') { r.out.push_back(f[i]); i++; continue; }
		if(i + 1 < f.size() && f[i + 1] == '{') { r.out.push_back('{'); i += 2; continue; }
		size_t close = f.find('}', i + 1);
		if(close == std::string::npos) { r.out += f.substr(i); break; }
		std::string spec = f.substr(i + 1, close - i - 1), whole = f.substr(i, close - i + 1);
		size_t ord = ordinal++;
		i = close + 1;
		std::smatch m;
		if(!std::regex_match(spec, m, spec_re)) { r.out += whole; continue; }
		// position: decimal, unbounded
		size_t pos = ord; bool in_range = true;
		if(m[1].matched) {
			std::string d = m[1].str(); d.erase(0, std::min(d.find_first_not_of('0'), d.size()));
			if(d.size() > 9) in_range = false; else pos = d.empty() ? 0 : strtoul(d.c_str(), nullptr, 10);
		}
		if(!in_range || pos >= args.size()) { r.out += whole; continue; }
		bool zero = m[3].matched && m[3].length() > 0;
		long width = 0;
		if(m[4].matched && m[4].length() > 0) {
			std::string d = m[4].str(); d.erase(0, std::min(d.find_first_not_of('0'), d.size()));
			if(d.size() > 10 || (!d.empty() && strtoll(d.c_str(), nullptr, 10) > INT_MAX)) { r.out += whole; continue; }   // no such field width: malformed
			width = d.empty() ? 0 : strtol(d.c_str(), nullptr, 10);
		}
		char conv = (m[5].matched && m[5].length()) ? m[5].str()[0] : 0;
		if(!ref_arg(args[pos], zero, width, conv, r.out)) { r.asserted = true; break; }
	}
	return r;
}

// ---- parsing of the case lines
bool parse_arg(const std::string &k, const std::string &v, std::vector<AV> &args) {
	AV a; a.kind = k[0];
	switch(a.kind) {
	case 'v': a.text = unhex(v); a.blk = Block(a.text, false); break;
	case 's': a.text = unhex(v); a.blk = Block(a.text, true); break;
	case 'u': case 'U': case 'Q': case 'H': case 'A': case 'p': a.u = vh::u64(v); break;
	default: a.i = vh::i64(v); a.u = (unsigned long long)a.i; break;
	}
	args.push_back(std::move(a));
	return true;
}

struct RecSink {
	std::vector<std::string> *ev; std::vector<std::string> *chunks;
	void begin() { ev->push_back("begin"); }
	void operator()(const char *m) { chunks->push_back(m); ev->push_back("chunk " + hex(m)); }
	void finalize(bool done) { ev->push_back(done ? "finalize 1" : "finalize 0"); }
};

struct LogOp { std::string op; std::string fmt; std::vector<AV> args; };

template<size_t L>
void run_logger(std::vector<LogOp> &ops, bool plain) {
	std::vector<std::string> ev, chunks;
	bool asserted = false; std::string expr;
	{
		frg::stack_buffer_logger<RecSink, L> logger{RecSink{&ev, &chunks}};
		try {
			auto it = logger();
			for(auto &o : ops) {
				if(o.op == "endlog") it << frg::endlog;
				else if(o.op == "put") {
					auto run = [&](auto &...xs) { (void)(it << ... << xs); };
					call<1, 1>(run, o.args, 0);
				} else {   // putf: at most one argument of the kinds {i U c s}
					Block f(o.fmt, false);
					frg::string_view view{f.p, f.n};
					auto run = [&](auto &...xs) { it << frg::fmt(view, xs...); };
					if(o.args.size() == 0) run(); else call<3, 1>(run, o.args, 0);
				}
			}
		} catch(vh::AssertStop &a) { asserted = true; expr = assert_expr(a); }
	}
	for(auto &e : ev) printf("%s\n", e.c_str());
	if(asserted) printf("end assert %s\n", expr.c_str()); else printf("end ok\n");
	// oracle: what was appended (reference rendering), in order, in chunks of at most L-1 bytes
	std::string want; bool ref_assert = false;
	for(auto &o : ops) {
		if(o.op == "endlog") continue;
		if(o.op == "put") { std::string t; ref_arg(o.args[0], false, 0, 0, t); want += t; }
		else { RefResult r = ref_fmt(o.fmt, o.args); want += r.out; if(r.asserted) { ref_assert = true; break; } }
	}
	bool ended = !ops.empty() && ops.back().op == "endlog";
	std::string got;
	for(auto &c : chunks) {
		got += c;
		if(c.size() > L - 1) vh::oracle("logger", "Limit %zu: a chunk of %zu bytes was handed to the sink (at most %zu fit the buffer)", L, c.size(), L - 1);
	}
	if(ref_assert != asserted)
		vh::oracle("logger", "Limit %zu: %s, the documented behaviour %s", L, asserted ? "stopped in FRG_ASSERT" : "completed", ref_assert ? "stops in the assertion hook" : "completes");
	else if(!asserted && ended && plain && got != want)
		vh::oracle("logger", "Limit %zu: chunks concatenate to \"%s\" (%zu bytes), appended text is \"%s\" (%zu bytes)", L, esc(got).c_str(), got.size(), esc(want).c_str(), want.size());
}

void run_group(const vh::Lines &ls) {
	std::string fmt; bool have_fmt = false;
	std::vector<AV> args;
	size_t limit = 0; std::vector<LogOp> ops; int endlogs = 0; bool after_end = false;
	int defer = 0;   // 1 = returned from a noinline helper, 2 = kept in a variable
	for(auto &l : ls) {
		auto t = vh::split(l);
		if(t.empty()) continue;
		if(t[0] == "fmt" && t.size() == 2) { fmt = unhex(t[1]); have_fmt = true; }
		else if(t[0] == "arg" && t.size() == 3) parse_arg(t[1], t[2], args);
		else if(t[0] == "defer" && t.size() == 2) defer = t[1] == "ret" ? 1 : 2;
		else if(t[0] == "traits") { print_traits(); return; }
		else if(t[0] == "log" && t.size() == 2) limit = vh::u64(t[1]);
		else if(t[0] == "put" && t.size() == 3) { LogOp o; o.op = "put"; parse_arg(t[1], t[2], o.args); ops.push_back(std::move(o)); if(endlogs) after_end = true; }
		else if(t[0] == "putf" && t.size() >= 2) {
			LogOp o; o.op = "putf"; o.fmt = unhex(t[1]);
			for(size_t i = 2; i + 1 < t.size(); i += 2) parse_arg(t[i], t[i + 1], o.args);
			ops.push_back(std::move(o)); if(endlogs) after_end = true;
		}
		else if(t[0] == "endlog") { LogOp o; o.op = "endlog"; ops.push_back(std::move(o)); endlogs++; }
	}
	if(limit) {
		// the oracle is about "appends, then endlog"; scripts with several endlogs are compared with the model only
		bool plain = endlogs <= 1 && !after_end;
		switch(limit) {
		case 2: run_logger<2>(ops, plain); break;
		case 3: run_logger<3>(ops, plain); break;
		case 7: run_logger<7>(ops, plain); break;
		case 8: run_logger<8>(ops, plain); break;
		case 16: run_logger<16>(ops, plain); break;
		case 128: run_logger<128>(ops, plain); break;
		default: printf("!HARNESS unsupported Limit %zu\n", limit);
		}
		return;
	}
	if(!have_fmt) return;
	Block f(fmt, false);
	frg::string_view view{f.p, f.n};
	ByteSink sink; bool asserted = false; std::string expr;
	auto run = [&](auto &...xs) { frg::format(frg::fmt(view, xs...), sink); };
	auto drun = [&](auto &tup) { run_deferred(defer == 1, view, sink, tup); };
	try { if(defer) build<2>(drun, args, 0, std::tuple<>{}); else call_pack(run, args); }
	catch(vh::AssertStop &a) { asserted = true; expr = assert_expr(a); }
	if(asserted) printf("end assert %s\n", expr.c_str()); else printf("end ok\n");
	printf("out %s\n", hex(sink.s).c_str());
	RefResult r = ref_fmt(fmt, args);
	const char *okind = defer ? "fmt-owns" : "fmt-spec";
	if(r.asserted != asserted)
		vh::oracle(okind, "fmt=\"%s\": frigg %s (output \"%s\"), the documented grammar %s (\"%s\")", esc(fmt).c_str(),
			asserted ? "stopped in FRG_ASSERT" : "completed", esc(sink.s).c_str(), r.asserted ? "stops in the assertion hook" : "completes", esc(r.out).c_str());
	else if(!asserted && r.out != sink.s)
		vh::oracle(okind, "%sfmt=\"%s\": frigg \"%s\" (%zu bytes), documented grammar gives \"%s\" (%zu bytes)", defer ? "fmt object rendered after the expression that created it from rvalue arguments: " : "", esc(fmt).c_str(),
			esc(sink.s).c_str(), sink.s.size(), esc(r.out).c_str(), r.out.size());
}

void body(const vh::Lines &ls) {
	vh::Lines cur; int k = 0;
	for(size_t i = 0; i <= ls.size(); i++) {
		if(i == ls.size() || ls[i] == "next") { printf("grp %d\n", k++); run_group(cur); cur.clear(); }
		else cur.push_back(ls[i]);
	}
}

} // namespace

int main() { return vh::run(body); }
