(* driver for the extracted fmt / logger model (coq/Fmt/FmtModel.v, LoggerModel.v): same cases as
   comp/fmt/harness.cpp.  A case is a list of groups separated by "next".
   fmt group:
     fmt <hex>                 format string bytes (exact; "-" = empty)
     arg <kind> <value>        kinds: u unsigned int, U unsigned long, Q unsigned long long, i int, l long,
                               q long long, h short, H unsigned short, a signed char, A unsigned char,
                               b bool, c char (decimal value); v string_view, s C string (hex bytes; for s the
                               array is these bytes followed by a NUL); p pointer (decimal address)
     defer ret|var             (harness only) the fmt object is built from rvalue arguments, returned from a noinline
                               helper / kept in a variable, and rendered after the stack was overwritten; the model owns
                               its arguments, so its output is the same as for an immediate rendering
     -> end ok | end assert <expr>,  out <hex>
   traits group:
     traits                    what a fmt object stores: rvalue arguments by value, lvalue arguments by reference
   logger group:
     log <Limit>               stack_buffer_logger<RecSink, Limit>
     put <kind> <value>        item << value
     putf <hex> [<kind> <value>]   item << frg::fmt(view, value)
     endlog                    item << frg::endlog
     -> begin, chunk <hex>..., finalize 0|1, end ok | end assert <expr>
   The mapping of C++ argument types to the model's [arg] (overload resolution of format_object: integral
   promotion of the narrow types and of bool to int) is the table below. *)

let hex_of (l : n list) : Stdlib.String.t =
  if l = [] then "-" else
  Stdlib.String.concat "" (List.map (fun b -> Printf.sprintf "%02x" (Int64.to_int (i64_of_n b) land 255)) l)
let bytes_of_hex (h : Stdlib.String.t) : n list =
  if h = "-" then [] else
  List.init (Stdlib.String.length h / 2) (fun i -> n_of_i64 (Int64.of_string ("0x" ^ Stdlib.String.sub h (2 * i) 2)))

let rec ocaml_of_coq_string (s : Fmt_model.string) : Stdlib.String.t = match s with
  | EmptyString -> ""
  | String (Ascii (b0, b1, b2, b3, b4, b5, b6, b7), r) ->
    let v = List.fold_right (fun b a -> 2 * a + (if b then 1 else 0)) [b0; b1; b2; b3; b4; b5; b6; b7] 0 in
    Stdlib.String.make 1 (Char.chr v) ^ ocaml_of_coq_string r

let n32 = n_of_i64 32L and n64 = n_of_i64 64L

let arg_of (k : Stdlib.String.t) (v : Stdlib.String.t) : arg = match k with
  | "u" -> AUInt (n32, n_of_string v)
  | "U" | "Q" -> AUInt (n64, n_of_string v)
  | "i" | "h" | "H" | "a" | "A" -> ASInt (n32, z_of_string v)
  | "l" | "q" -> ASInt (n64, z_of_string v)
  | "b" -> ABool (v <> "0")
  | "c" -> AChar (z_of_string v)
  | "v" -> AStrView (bytes_of_hex v)
  | "s" -> ACStr (bytes_of_hex v)
  | "p" -> APtr (n_of_string v)
  | _ -> failwith ("arg kind " ^ k)

let end_line o = match o with
  | Ok _ -> "end ok\n"
  | AssertStop w -> "end assert " ^ ocaml_of_coq_string w ^ "\n"
  | UB w -> "end ub " ^ ocaml_of_coq_string w ^ "\n"
  | OutOfFuel -> "end fuel\n"

let rec pairs = function
  | k :: v :: r -> arg_of k v :: pairs r
  | _ -> []

let run_group lines =
  let fmt = ref None and args = ref [] and limit = ref 0 and ops = ref [] in
  List.iter (fun l ->
    match words l with
    | ["traits"] -> print_string "stores rvalue int=value view=value cstr=value lvalue int=ref view=ref\n"
    | ["fmt"; h] -> fmt := Some (bytes_of_hex h)
    | ["arg"; k; v] -> args := arg_of k v :: !args
    | ["log"; n] -> limit := int_of_string n
    | ["put"; k; v] ->
      (match format_arg (arg_of k v) default_options with
       | Ok bs -> ops := LAppend (bs, Ok ()) :: !ops
       | AssertStop w -> ops := LAppend ([], AssertStop w) :: !ops
       | UB w -> ops := LAppend ([], UB w) :: !ops
       | OutOfFuel -> ops := LAppend ([], OutOfFuel) :: !ops)
    | "putf" :: h :: rest ->
      let (bs, o) = run_fmt (bytes_of_hex h) (pairs rest) in
      ops := LAppend (bs, o) :: !ops
    | ["endlog"] -> ops := LEndlog :: !ops
    | _ -> ()) lines;
  if !limit > 0 then begin
    let (evs, o) = run_logger (nat_of_int !limit) (List.rev !ops) in
    List.iter (function
      | EvBegin -> print_string "begin\n"
      | EvChunk c -> print_string ("chunk " ^ hex_of c ^ "\n")
      | EvFinalize d -> print_string (if d then "finalize 1\n" else "finalize 0\n")) evs;
    print_string (end_line o)
  end else match !fmt with
  | None -> ()
  | Some f ->
    let (out, o) = run_fmt f (List.rev !args) in
    (* the list-level reference of coq/Fmt/FmtRef.v must agree (that is theorem C19_fmt; checked here on every case too) *)
    if fmt_ref f (List.rev !args) <> (out, o) then print_string "!MODEL-EXN fmt_ref differs from run_fmt\n";
    print_string (end_line o);
    print_string ("out " ^ hex_of out ^ "\n")

let body lines =
  let groups = ref [] and cur = ref [] in
  List.iter (fun l -> if l = "next" then begin groups := List.rev !cur :: !groups; cur := [] end else cur := l :: !cur) lines;
  groups := List.rev !cur :: !groups;
  List.iteri (fun i g -> print_string (Printf.sprintf "grp %d\n" i); run_group g) (List.rev !groups)

let () = run_cases body
