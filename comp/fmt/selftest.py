"""Self-test of the fmt component: applies hand-made mutations to a scratch worktree of /repo and runs legs C and O
of comp/fmt/check.py (no proof leg) against it.  Usage: python3 comp/fmt/selftest.py [mutation names...]
The runs bypass vlib's repo-mode hold and build the harness under another name (fmt_h_scratch), so they do not
interfere with checks against /repo; evidence/replays of these runs go to /tmp/fmt-selftest."""
import subprocess, sys, os, re, collections
ROOT = os.path.dirname(os.path.dirname(os.path.dirname(os.path.abspath(__file__))))
sys.path.insert(0, os.path.join(ROOT, "lib")); sys.path.insert(0, ROOT)

def _private_run(focus):
    import vlib
    _h = vlib.hold
    vlib.hold = lambda name, shared=False: None if name == "repo-mode" else _h(name, shared)
    _cb = vlib.cxx_build
    vlib.cxx_build = lambda name, src, **kw: _cb(name + "_scratch", src, **kw)
    from comp.fmt import check as fmt
    c = vlib.Check(focus, [])
    vlib.EVID = "/tmp/fmt-selftest/evid"; vlib.REPLAYS = vlib.EVID + "/replays"; os.makedirs(vlib.REPLAYS, exist_ok=True)
    c.rule = fmt.RULE
    c.kind_filter = lambda k: k not in vlib.LIFETIME_KINDS
    fmt.run(c, focus)
    print("evaluations", c.evaluations, "mismatches", len(c.mismatches), "oracle", len(c.oracle_fail))
    print(collections.Counter(k for k, _, _, _ in c.oracle_fail))
    for o in c.oracle_fail[:4]:
        print("ORACLE", o[0], o[1][:300], o[2])
    sys.exit(c.finish())

if len(sys.argv) >= 3 and sys.argv[1] == "--run":
    os.chdir(ROOT)
    _private_run(sys.argv[2])
WT = "/tmp/fmt-selftest/wt"
if not os.path.exists(WT):
    os.makedirs("/tmp/fmt-selftest", exist_ok=True)
    subprocess.run(["git", "-C", os.environ.get("VERIF_REPO", "/repo"), "worktree", "add", "-f", "-q", WT, "HEAD"], check=True)
F = WT + "/include/frg/formatting.hpp"
L = WT + "/include/frg/logging.hpp"
MUT = [
 ("pos-off-by-one", F, "\t\t\t\tpos = tmp_pos;", "\t\t\t\tpos = tmp_pos + 1;"),
 ("zero-flag-ignored", F, "\t\t\t\t\t\t\tfo.fill_zeros = true;\n", "\t\t\t\t\t\t\t;\n"),
 ("xX-swapped", F, "case 'X': fo.use_capitals = true; [[fallthrough]];\n\t\t\t\t\t\t\t\tcase 'x':", "case 'x': fo.use_capitals = true; [[fallthrough]];\n\t\t\t\t\t\t\t\tcase 'X':"),
 ("echo-malformed-drops-brace", F, "// Failed to parse format specifier, print it as is\n\t\t\t\t\t\t\t\tformat_object(self.fmt.sub_string(arg_fmt_start,\n\t\t\t\t\t\t\t\t\t\targ_fmt_end - arg_fmt_start + 1),",
                                   "// Failed to parse format specifier, print it as is\n\t\t\t\t\t\t\t\tformat_object(self.fmt.sub_string(arg_fmt_start,\n\t\t\t\t\t\t\t\t\t\targ_fmt_end - arg_fmt_start),"),
 ("double-brace-emits-two", F, "\t\t\t\t\t\t\tif (c == '{')\n\t\t\t\t\t\t\t\ti++;\n", ""),
 ("logger-flush-at-limit", L, None, None),
 ("logger-drops-flush-byte", L, "\t\t\t\t_logger->_emit(_buffer);\n\t\t\t\t_off = 0;\n\t\t\t}\n\t\t\t_buffer[_off++] = s;", "\t\t\t\t_logger->_emit(_buffer);\n\t\t\t\t_off = 0;\n\t\t\t\treturn;\n\t\t\t}\n\t\t\t_buffer[_off++] = s;"),
 ("endlog-extra-empty-chunk", L, "\t\t\t_logger->_emit(_buffer);\n\t\t\t_done = true;", "\t\t\t_logger->_emit(_buffer);\n\t\t\t_logger->_emit(\"\");\n\t\t\t_done = true;"),
 ("revert-D31", F, "\t\t\t\t\t\t\tif (fo.minimum_width > (INT_MAX - (c - '0')) / 10)\n\t\t\t\t\t\t\t\treturn false;\n", ""),
 ("revert-D50", F, "std::make_unsigned_t<T> absv = ~static_cast", "auto absv = ~static_cast"),
 ("revert-D51", F, "\t\t\t\t\t\t\tif (tmp_pos > (SIZE_MAX - (c - '0')) / 10)\n\t\t\t\t\t\t\t\treturn false;\n", ""),
 ("width-drops-hundreds", F, "fo.minimum_width *= 10;", "fo.minimum_width = (fo.minimum_width % 10) * 10;"),
 ("current-arg-not-counted-on-malformed", F, "size_t pos = current_arg++;", "size_t pos = current_arg; if (self.fmt[arg_fmt_start + 1] != 'a' && self.fmt[arg_fmt_start + 1] != ' ') current_arg++;"),
 ("unclosed-echo-short", F, "self.fmt.size() - arg_fmt_start),", "self.fmt.size() - arg_fmt_start - 1),"),
 ("lookahead-unchecked", F, "auto next = (i + 1) < self.fmt.size() ? self.fmt[i + 1] : 0;", "auto next = self.fmt[i + 1];"),
 ("logger-cstr-append-no-flush-terminator", L, None, None),
 ("fmt-holds-rvalues-by-reference", F, "return detail_::fmt_impl<Ts...>{fmt, frg::tuple<Ts...>{std::forward<Ts>(ts)...}};",
                                       "return detail_::fmt_impl<Ts &&...>{fmt, frg::tuple<Ts &&...>{std::forward<Ts>(ts)...}};"),
 ("logger-cstr-full-then-char-append", L, None, None),
]
only = sys.argv[1:] 
for name, path, old, new in MUT:
    if only and name not in only: continue
    subprocess.run(["git", "-C", WT, "checkout", "-q", "--", "."], check=True)
    s = open(path).read()
    if name == "logger-flush-at-limit":
        s2 = s.replace("FRG_ASSERT(_off < Limit);\n\t\t\tif(_off + 1 == Limit) {", "FRG_ASSERT(_off <= Limit);\n\t\t\tif(_off == Limit) {")
        s2 = s2.replace("FRG_ASSERT(_off < Limit);\n\t\t\t\tif(_off + 1 == Limit) {", "FRG_ASSERT(_off <= Limit);\n\t\t\t\tif(_off == Limit) {")
        s2 = s2.replace("item &operator<< (endlog_t) {\n\t\t\tFRG_ASSERT(_off < Limit);", "item &operator<< (endlog_t) {\n\t\t\tFRG_ASSERT(_off <= Limit);")
    elif name == "logger-cstr-append-no-flush-terminator":
        # the C-string append forgets to reset _off after a flush on the rare path _off + 1 == Limit
        s2 = s.replace("\t\t\t\t\t_logger->_emit(_buffer);\n\t\t\t\t\t_off = 0;\n", "\t\t\t\t\t_logger->_emit(_buffer);\n\t\t\t\t\t_off = Limit > 8 ? 1 : 0;\n")
    elif name == "logger-cstr-full-then-char-append":
        # the C-string append flushes eagerly when it has just filled the buffer but leaves _off at Limit-1:
        # only a following char-wise append (digits, view bytes) sees the stale offset
        s2 = s.replace("\t\t\t\t_buffer[_off++] = *str++;\n\t\t\t}\n", "\t\t\t\t_buffer[_off++] = *str++;\n\t\t\t}\n\t\t\tif(_off + 1 == Limit && Limit > 2) { _buffer[_off] = 0; _logger->_emit(_buffer); _off = 1; }\n")
    else:
        assert s.count(old) >= 1, name
        s2 = s.replace(old, new)
    assert s2 != s, name
    open(path, "w").write(s2)
    for focus in ("C19", "C20"):
        env = dict(os.environ, VERIF_REPO=WT)
        p = subprocess.run(["python3", os.path.abspath(__file__), "--run", focus], capture_output=True, text=True, env=env, timeout=1500)
        out = p.stdout
        m = re.search(r"mismatches (\d+) oracle (\d+)", out)
        kinds = re.search(r"Counter\((.*)\)", out)
        viol = len(re.findall(r"^VIOLATION", out, re.M))
        first = [l for l in out.split("\n") if l.startswith("ORACLE")][:2]
        print("%-40s %s rc=%d C=%s O=%s kinds=%s VIOLATION lines=%d" % (name, focus, p.returncode, m.group(1) if m else "?", m.group(2) if m else "?", kinds.group(1) if kinds else "?", viol))
        for f in first: print("      ", f[:220])
        if not m: print(out[-1500:], p.stderr[-1500:])
        sys.stdout.flush()
subprocess.run(["git", "-C", WT, "checkout", "-q", "--", "."], check=True)
subprocess.run(["git", "-C", "/repo", "worktree", "remove", "--force", WT])
