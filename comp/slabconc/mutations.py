#!/usr/bin/env python3
"""Hand-made breaking changes of slab.hpp used for the self-test of the C05 check (see NOTES.md).
usage: mutations.py <repo-copy> <name>     applies mutation <name> to <repo-copy>/include/frg/slab.hpp"""
import sys

M = {
 # bucket lock still held while _construct_slab calls Policy::map
 "unlock_after_construct": [("""			bucket_guard.unlock();

			auto slb = _construct_slab(index);
			if(!slb)
				return nullptr;
""", """			auto slb = _construct_slab(index);
			bucket_guard.unlock();
			if(!slb)
				return nullptr;
""")],
 # unmap called inside the _tree_mutex scope of free_huge_
 "unmap_in_tree_scope": [("""			_usedPages -= (sup->length + huge_padding) / page_size;
		}

		// Note: we cannot access sup after poison().
		auto sb_base = sup->sb_base;
		auto sb_reservation = sup->sb_reservation;""", """			_usedPages -= (sup->length + huge_padding) / page_size;
			_plcy.unmap(sup->sb_base, sup->sb_reservation);
			return;
		}

		// Note: we cannot access sup after poison().
		auto sb_base = sup->sb_base;
		auto sb_reservation = sup->sb_reservation;""")],
 # the new slab is attached to the bucket without re-taking the bucket lock
 "drop_relock": [("""			bucket_guard.lock();

			FRG_ASSERT(slb->available);""", """			FRG_ASSERT(slb->available);"""),
                 ("""				bkt->head_slb = slb;
		}

		bucket_guard.unlock();
""", """				bkt->head_slb = slb;
		}

		if(bucket_guard.is_locked())
			bucket_guard.unlock();
""")],
 # head_slb read after the bucket lock was released
 "touch_head_after_unlock": [("""		bucket_guard.unlock();

		//if(logAllocations)
		//	std::cout << "frg/slab: Allocate small-object at " << object << std::endl;
		object->~freelist();""", """		bucket_guard.unlock();
		{ volatile auto peek = bkt->head_slb; (void)peek; }

		//if(logAllocations)
		//	std::cout << "frg/slab: Allocate small-object at " << object << std::endl;
		object->~freelist();""")],
 # _usedPages += without the tree guard (slab path of allocate)
 "no_tree_guard": [("""			unique_lock<Mutex> tree_guard(_tree_mutex);
#ifdef FRG_SLAB_TRACK_REGIONS
			_frame_tree.insert(slb);
#endif
			_usedPages += (slb->length + huge_padding) / page_size;
			tree_guard.unlock();
""", """			_usedPages += (slb->length + huge_padding) / page_size;
""")],
 # early `return nullptr` with the bucket lock still owned by a guard that was moved to the heap (leak of the lock)
 "free_pushes_outside_lock": [("""		auto bkt = &_bkts[slb->index];
		unique_lock<Mutex> bucket_guard(bkt->bucket_mutex);
		{
			bool reinsert_into_bucket = !slb->available;
			FRG_ASSERT(slb->num_reserved);

			FRG_ASSERT(!slb->available || slb->contains(slb->available));
			object->link = slb->available;
			slb->available = object;
""", """		auto bkt = &_bkts[slb->index];
		bool reinsert_into_bucket = !slb->available;
		object->link = slb->available;
		slb->available = object;
		unique_lock<Mutex> bucket_guard(bkt->bucket_mutex);
		{
			FRG_ASSERT(slb->num_reserved);
""")],
 # the bucket lock is re-taken BEFORE the tree lock is taken: two pool locks at once
 "nested_locks": [("""			unique_lock<Mutex> tree_guard(_tree_mutex);
#ifdef FRG_SLAB_TRACK_REGIONS
			_frame_tree.insert(slb);
#endif
			_usedPages += (slb->length + huge_padding) / page_size;
			tree_guard.unlock();

			// Finally, re-lock the bucket to attach the new slab.
			bucket_guard.lock();
""", """			bucket_guard.lock();
			unique_lock<Mutex> tree_guard(_tree_mutex);
#ifdef FRG_SLAB_TRACK_REGIONS
			_frame_tree.insert(slb);
#endif
			_usedPages += (slb->length + huge_padding) / page_size;
			tree_guard.unlock();
""")],
 # plain removal of the re-lock (the later bucket_guard.unlock() then trips unique_lock's own FRG_ASSERT)
 "drop_relock_plain": [("""			bucket_guard.lock();

			FRG_ASSERT(slb->available);""", """			FRG_ASSERT(slb->available);""")],
 # `return nullptr` on map failure moved before the unlock: the early return leaves through the RAII guard (fine) --
 # but here the guard is released manually only on the success path and re-locked state is lost: lock leak via dont-unlock
 "early_return_keeps_lock": [("""			bucket_guard.unlock();

			auto slb = _construct_slab(index);
			if(!slb)
				return nullptr;
""", """			bucket_guard.unlock();

			auto slb = _construct_slab(index);
			if(!slb) {
				bucket_guard.lock();
				bkt->head_slb = nullptr;
				new (&bucket_guard) unique_lock<Mutex>();
				return nullptr;
			}
""")],
}

def main():
    repo, name = sys.argv[1], sys.argv[2]
    p = repo + "/include/frg/slab.hpp"
    s = open(p).read()
    for old, new in M[name]:
        if s.count(old) != 1:
            sys.exit("mutation %s: anchor found %d times" % (name, s.count(old)))
        s = s.replace(old, new)
    open(p, "w").write(s)

if __name__ == "__main__":
    if len(sys.argv) == 2 and sys.argv[1] == "--list":
        print(" ".join(M))
    else:
        main()
