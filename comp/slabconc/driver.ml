(* driver for the extracted lock skeleton (coq/SlabConc/Shapes.v over coq/Gen/SlabSkeleton.v):
   prints  "C <bool>"            check_skeleton actual (computed by the extracted checker, cross-check of vm_compute)
           "S <fn> <word...>"    every observable lock shape of every API function
   comp/slabconc/check.py compares the harness's per-call logs (T lines) against the S lines. *)
open Slabconc_model
let char_of_ascii (Ascii (b0, b1, b2, b3, b4, b5, b6, b7)) =
  let b x k = if x then 1 lsl k else 0 in
  Char.chr (b b0 0 + b b1 1 + b b2 2 + b b3 3 + b b4 4 + b b5 5 + b b6 6 + b b7 7)
let rec ocaml_string (s : Slabconc_model.string) : Stdlib.String.t = match s with
  | EmptyString -> ""
  | String (c, r) -> Stdlib.String.make 1 (char_of_ascii c) ^ ocaml_string r

let () =
  Printf.printf "C %b\n" (check_skeleton actual);
  List.iter (fun f ->
    let name = ocaml_string f in
    Printf.printf "F %s %b\n" name (check_fun actual f);
    List.iter (fun w ->
      Printf.printf "S %s%s\n" name (Stdlib.String.concat "" (List.map (fun o -> " " ^ ocaml_string o) w)))
      (shapes actual f)) api;
  (* "P <fn> <word...>": the lock shapes of the call paths of the concrete concurrent model (ConcSlabModel.v);
     check.py requires each of them to be among the S lines of its function (for allocate/free/deallocate this is
     also the Coq obligation conc_slab_shapes_match; realloc is checked here only) *)
  List.iter (fun (f, w) ->
      Printf.printf "P %s%s\n" (ocaml_string f) (Stdlib.String.concat "" (List.map (fun o -> " " ^ ocaml_string o) w)))
    (cshapes cmodel_paths @ cshapes cmodel_paths_realloc);
  flush stdout
