"""slabconc component (C05: slab_pool under concurrency): regenerates the lock skeleton from the clang AST, builds the
extracted skeleton checker/shape enumerator and the harness (ASan and TSan builds), runs legs C and O into the given
Check.  Used by checks/c05.py."""
import os, subprocess, sys, threading
import vlib
from comp.slabconc import gen

HERE = os.path.dirname(os.path.abspath(__file__))
RULE = ("seeded single-threaded scripts (allocate/free/deallocate/realloc/get_size over every size-class boundary, large blocks, "
        "scripted map failures; 5 policies: aligned/unaligned x poisoning, small slabs) whose per-call lock/unlock/callback log is "
        "matched against the path shapes of the generated skeleton, plus TSan stress scenarios with 2-8 threads (mix with "
        "cross-thread frees, all threads finding a class empty behind a barrier, frees into the slab another thread allocates "
        "from, concurrent large blocks); non-trivial = distinct (API function, observed lock/callback word) pairs plus distinct "
        "(scenario kind, thread count, policy) triples that completed; replay leg: 'rlog' scenarios (the mix workload with per-thread "
        "call logs and a global order of call entries and critical sections) replayed on the extracted concrete concurrent model, "
        "every returned address compared, the theorems' per-step hypotheses checked on every replayed step")
TRUSTED = ["translator/gen_slabconc.py (clang 14 JSON AST -> coq/Gen/SlabSkeleton.v, SlabSkeletonTR.v; pointer-provenance Fresh/Alias/Store "
           "events are a syntactic approximation; mutable static storage and poison-family policy calls on a block after its "
           "publication (Store) are reported as accesses to fields outside the lock table, flow-insensitively in source order)",
           "field -> lock table field_class in coq/SlabConc/Skeleton.v",
           "extraction: ExtrOcamlBasic only; OCaml 4.13.1; comp/slabconc/driver.ml (prints shapes of coq/SlabConc/Shapes.v, proved sound in ShapesSound.v)",
           "harness comp/slabconc/harness.cpp (instrumented Mutex = std::mutex + per-thread counter; g++ -fsanitize=thread and "
           "-fsanitize=address,undefined; -fno-access-control)",
           "ThreadSanitizer's happens-before detector; the C++ memory model for code inside critical sections",
           "rbtree operations on partial_tree are atomic with respect to the bucket lock (their internals belong to C06)",
           "replay of multi-threaded logs: comp/slabconc/cdriver.ml (schedule built from the logged global order; thr/lk "
           "functions re-tabulated into arrays after every step), the relaxed atomic sequence counter of the harness "
           "(modification order consistent with happens-before)",
           "coq/SlabConc/ConcSlabModel.v: a locked body is one atomic step (granularity justified by C05_conc_slab_reduction + "
           "C05_mutual_exclusion_of_bodies; read/write-split bodies only at the abstract level of AllocModel.v)"]
ASSUMPTIONS = ["the Mutex template argument is a correct mutex (lock() blocks while held, unlock() releases; modelled as such)",
               "API preconditions of C01 (free/realloc only of live blocks); FRG_ASSERT failures are documented stops",
               "Policy::map returns memory disjoint from everything mapped and not unmapped (fresh blocks in the abstract allocator)",
               "enable_checking == false (as in /repo; the translator checks the constant and that _verify_* is only called under it): "
               "the _verify_* walkers are not part of the API paths.  The lock discipline is checked for the source preprocessed "
               "without AND with FRG_SLAB_TRACK_REGIONS (Gen/SlabSkeletonTR.v, skeleton_disciplined_track_regions); the harness, the "
               "concrete model and the TSan legs use the default build (macro undefined)",
               "numUsedPages() is not part of the concurrent API mix (it reads _usedPages without _tree_mutex)",
               "concrete concurrent model: a pointer passed to free/deallocate/realloc is live and not the argument or pending result of "
               "another in-flight call; non-zero map() answers are disjoint from mapped frames and from the private regions of "
               "in-flight allocations (checked on every replayed step of the rlog scenarios)",
               "C02's footprint bound is not claimed under concurrency (two threads finding a class empty both map a slab)"]

_regen_done = {}


def regen(c=None):
    """(Re)generate coq/Gen/SlabSkeleton.v from the current source. Returns (ok, message)."""
    key = vlib.REPO
    if key not in _regen_done:
        p = subprocess.run([sys.executable, os.path.join(vlib.ROOT, "translator", "gen_slabconc.py")],
                           capture_output=True, text=True, timeout=600)
        _regen_done[key] = (p.returncode == 0, (p.stderr or "")[-800:])
    return _regen_done[key]


def build_model():
    """extracted skeleton + shapes -> build/bin/slabconc_m.  (vlib.ocaml_build cannot be used: it `open`s the extracted
    module in front of lib/coqnum.ml.inc and the extracted module defines Coq's `string` type.)"""
    ok, log = vlib.coq_make(["SlabConc/SlabConcExtract.vo"])
    if not ok:
        return False, None, log[-1500:]
    bdir = os.path.join(vlib.BUILD, "ocaml_slabconc")
    os.makedirs(bdir, exist_ok=True)
    os.makedirs(os.path.join(vlib.BUILD, "bin"), exist_ok=True)
    for ext in (".ml", ".mli"):
        open(os.path.join(bdir, "slabconc_model" + ext), "w").write(
            open(os.path.join(vlib.BUILD, "extract", "slabconc_model" + ext)).read())
    open(os.path.join(bdir, "slabconc_main.ml"), "w").write(open(os.path.join(HERE, "driver.ml")).read())
    out = os.path.join(vlib.BUILD, "bin", "slabconc_m")
    rc, o, e = vlib.sh(["ocamlfind", "ocamlopt", "-w", "-a", "slabconc_model.mli", "slabconc_model.ml", "slabconc_main.ml",
                        "-o", out], cwd=bdir, timeout=600)
    return rc == 0, out, o + e


def build_cmodel():
    """extracted concrete concurrent model (coq/SlabConc/ConcSlabModel.v; no Coq strings in it) + comp/slabconc/cdriver.ml
    -> build/bin/slabconc_c.  Requires build_model() to have produced build/extract/slabconc_cmodel.ml."""
    if not os.path.exists(os.path.join(vlib.BUILD, "extract", "slabconc_cmodel.ml")):
        return False, None, "build/extract/slabconc_cmodel.ml missing (SlabConcExtract.v failed)"
    return vlib.ocaml_build("slabconc_c", ["slabconc_cmodel"], os.path.join(HERE, "cdriver.ml"))


def rlog_expected(lines):
    """per rlog scenario: {(tid, k): result observed by the thread on the real pool} from the harness's `rl c` lines"""
    scen, cur, cnt = [], None, None
    for l in lines:
        w = l.split()
        if len(w) < 2 or w[0] != "rl":
            continue
        if w[1] == "cfg":
            cur, cnt = {}, {}
            scen.append(cur)
        elif w[1] == "c" and cur is not None:
            t = int(w[2]); k = cnt.get(t, 0); cnt[t] = k + 1
            cur[(t, k)] = w[5] if w[3] == "a" else ("u" if w[3] in "fd" else w[6])
    return scen


def rlog_model(lines):
    """per replayed scenario: ({(tid, k): result computed by the model}, info) from cdriver's output"""
    scen, cur = [], None
    for l in lines:
        w = l.split()
        if not w:
            continue
        if w[0] == "K":
            cur = ({}, {"cfg_ok": w[2] == "true", "hyp": None, "div": None, "steps": 0})
            scen.append(cur)
        elif cur is None:
            continue
        elif w[0] == "M":
            cur[0][(int(w[1]), int(w[2]))] = " ".join(w[3:])
        elif w[0] == "H":
            cur[1]["hyp"] = (int(w[1]), " ".join(w[2:]))
        elif w[0] == "D":
            cur[1]["div"] = " ".join(w[1:])
        elif w[0] == "S":
            cur[1]["steps"] = int(w[1])
    return scen


def crash_message(text):
    import re
    m = re.search(r"SUMMARY: ThreadSanitizer: ([^\n]*)", text)
    if m:
        return "ThreadSanitizer: " + re.sub(r"/[^ ]*/include/frg/", "frg/", m.group(1))[:300]
    return vlib._crash_summary(text)


def shrink_st(harness, lines, kind, budget=80):
    """delta-debug a single-threaded script while the same oracle kind keeps failing"""
    hdr, ops = lines[0], lines[1:]

    def pred(cand):
        r = vlib.run_cases(harness, [("shrink", [hdr] + cand)], shards=1, timeout=60).get("shrink")
        if r is None:
            return False
        kinds = set(o.split(" ")[0] for o in r["oracle"])
        if r.get("crash"):
            kinds.add(classify_crash(r["crash"]))
        if "assert" in r["lines"]:
            kinds.add("assert")
        return kind in kinds
    if len(ops) < 2 or not pred(ops):
        return lines
    return [hdr] + vlib.ddmin(ops, pred, budget=budget)


def classify_crash(text):
    if "ThreadSanitizer: data race" in text:
        return "race"
    if "ThreadSanitizer: lock-order-inversion" in text or "ThreadSanitizer: double lock" in text:
        return "deadlock"
    if "ThreadSanitizer" in text:
        return "race"
    if "timeout after" in text or text.startswith("rc=4"):
        return "deadlock"
    return "crash"


def run(c):
    # ---- source-derived skeleton, regenerated on every run
    gok, gmsg = regen()
    c.gen_obligation("Gen/SlabSkeleton.v and Gen/SlabSkeletonTR.v (-DFRG_SLAB_TRACK_REGIONS) regenerated from the clang AST of slab.hpp", gok, gmsg)
    res = {}

    def b_model():
        res["m"] = build_model()
        res["c"] = build_cmodel() if res["m"][0] else (False, None, "skeleton extraction failed")

    def b_asan():
        res["a"] = vlib.cxx_build("slabconc_asan", os.path.join(HERE, "harness.cpp"), san="asan", extra=["-pthread"])

    def b_tsan():
        res["t"] = vlib.cxx_build("slabconc_tsan", os.path.join(HERE, "harness.cpp"), san="tsan")
    ths = [threading.Thread(target=f) for f in (b_model, b_asan, b_tsan)]
    [t.start() for t in ths]
    [t.join() for t in ths]
    okm, drv, mlog = res["m"]
    oka, hasan, alog = res["a"]
    okt, htsan, tlog = res["t"]
    okc, cdrv, clog = res["c"]
    shapes, disciplined, mshapes = {}, False, []
    if okm:
        rc, out, err = vlib.sh([drv], timeout=300)
        for line in out.split("\n"):
            w = line.split()
            if not w:
                continue
            if w[0] == "C":
                disciplined = w[1] == "true"
            elif w[0] == "S":
                shapes.setdefault(w[1], set()).add(" ".join(w[2:]))
            elif w[0] == "P":
                mshapes.append((w[1], " ".join(w[2:])))
        c.gen_obligation("skeleton_disciplined (check_skeleton Gen.SlabSkeleton.actual = true, extracted checker)", disciplined)
        c.gen_obligation("skeleton has path shapes for every API function",
                         all(shapes.get(f) for f in ("allocate", "realloc", "free", "deallocate", "get_size")))
        badp = [(f, w) for f, w in mshapes if w not in shapes.get(f, ())]
        c.gen_obligation("concrete concurrent model: the lock shape of every call path (realloc included) is a path shape of the "
                         "generated skeleton", bool(mshapes) and not badp and any(f == "realloc" for f, _ in mshapes), str(badp[:3]))
        if not okc:
            c.broken.append("slabconc concrete-model replay driver build failed: " + str(clog)[-800:])
    else:
        c.broken.append("slabconc skeleton extraction/driver build failed: " + str(mlog)[-800:])
    if not (oka and okt):
        c.broken.append("slabconc harness does not compile against the repo: " + (alog if not oka else tlog)[-1500:])
        return False

    # ---- cases
    if c.replay:
        cases = vlib.read_replay(c.replay)
    else:
        cases = gen.corpus()
        nst, nmt = (500, 36) if c.tier == "quick" else (12000, 800)
        for i in range(nst):
            cases.append(("st%d" % i, gen.gen_st(c.rng)))
        for i in range(nmt):
            cases.append(("mt%d" % i, gen.gen_mt(c.rng, 1.0 if c.tier == "quick" else 2.0, 0.30 if c.tier == "quick" else 0.10)))
    st = [(i, l) for i, l in cases if l and l[0].startswith("st")]
    mt = [(i, l) for i, l in cases if l and l[0].startswith("mt")]
    r_st = vlib.run_cases(hasan, st, timeout=300) if st else {}
    r_mt = vlib.run_cases(htsan, mt, shards=min(4, max(1, len(mt))), timeout=1500) if mt else {}
    # a share of the concurrent cases also under ASan/UBSan (memory errors that TSan does not report)
    mt_asan = mt[: max(1, len(mt) // 3)] if mt else []
    r_mta = vlib.run_cases(hasan, mt_asan, shards=min(4, max(1, len(mt_asan))), timeout=1500) if mt_asan else {}

    shrunk = {}

    def report(kind, msg, cid, lines, leg):
        if lines and lines[0].startswith("st") and not c.replay:
            if kind not in shrunk and len(shrunk) < 6:        # shrink the first failing script of each kind
                shrunk[kind] = shrink_st(hasan, lines, kind)
                lines = shrunk[kind]
        c.oracle(kind, "[%s] %s" % (leg, msg), cid, lines)

    def collect(cid, lines, r, leg):
        if r is None:
            c.mismatch(cid, lines, "harness (%s) produced no output" % leg)
            return
        if r.get("crash"):
            report(classify_crash(r["crash"]), crash_message(r["crash"]), cid, lines, leg)
        for o in r["oracle"]:
            k, _, m = o.partition(" ")
            report(k, m, cid, lines, leg)
        if "assert" in r["lines"]:
            report("assert", "FRG_ASSERT fired during a valid API call", cid, lines, leg)

    for cid, lines in st:
        r = r_st.get(cid)
        c.add_case(cid, lines)
        c.count("slabconc_st_cases"); c.count("slabconc_st_ops", len(lines) - 1); c.count("slabconc_st_policy_" + lines[0].split()[1])
        collect(cid, lines, r, "asan")
        if r is None:
            continue
        for l in r["lines"]:
            w = l.split()
            if w[0] == "T":
                fn, word = w[1], " ".join(w[2:])
                c.count("slabconc_calls_" + fn)
                if okm and word not in shapes.get(fn, ()):
                    c.mismatch(cid, lines, "lock/callback log of %s is not a path of the generated skeleton: [%s]" % (fn, word))
                else:
                    c.nontrivial.add((fn, word))
            elif w[0] == "r" and w[1] == "null":
                c.count("slabconc_null_returns")
    for cid, lines in mt:
        c.add_case(cid, lines)
        hdr = lines[0].split()
        c.count("slabconc_mt_cases"); c.count("slabconc_mt_threads_" + hdr[2]); c.count("slabconc_mt_policy_" + hdr[1])
        for legname, rr in (("tsan", r_mt), ("asan", r_mta)):
            if legname == "asan" and cid not in rr:
                continue
            r = rr.get(cid)
            collect(cid, lines, r, legname)
            if r is None:
                continue
            for l in r["lines"]:
                w = l.split()
                if w[0] == "mt" and w[-1] == "done":
                    c.count("slabconc_mt_scenario_" + w[1])
                    c.nontrivial.add((w[1], hdr[2], hdr[1]))
    # ---- replay of the logged interleavings on the extracted concrete concurrent model
    rl_cases = [(cid, [l for l in r_mt[cid]["lines"] if l.startswith("rl ")]) for cid, _ in mt
                if r_mt.get(cid) and any(l.startswith("rl cfg") for l in r_mt[cid]["lines"])]
    if rl_cases and okc:
        r_rl = vlib.run_cases(cdrv, rl_cases, shards=min(4, len(rl_cases)), timeout=1500)
        src = dict(mt)
        for cid, rll in rl_cases:
            lines = src[cid]
            exp = rlog_expected(rll)
            rr = r_rl.get(cid)
            if rr is None or rr.get("crash"):
                c.mismatch(cid, lines, "replay driver produced no output: " + str((rr or {}).get("crash"))[-300:])
                continue
            got = rlog_model(rr["lines"])
            complete = sum(1 for l in rll if l.startswith("rl end"))
            if len(got) != complete:
                c.mismatch(cid, lines, "replay: %d logged scenarios, %d replayed" % (complete, len(got)))
                continue
            for k, (e, (g, info)) in enumerate(zip(exp, got)):
                c.count("slabconc_rlog_scenarios"); c.count("slabconc_rlog_calls", len(e)); c.count("slabconc_rlog_model_steps", info["steps"])
                if not info["cfg_ok"]:
                    c.mismatch(cid, lines, "replay: cfg_ok is false for the harness configuration")
                if info["div"]:
                    c.mismatch(cid, lines, "replay scenario %d: the model cannot follow the logged order: %s" % (k, info["div"]))
                bad = [(key, e[key], g.get(key)) for key in sorted(e) if e[key] != g.get(key)]
                if bad:
                    (t, i), ev, gv = bad[0]
                    c.mismatch(cid, lines, "replay scenario %d: thread %d call %d returned %s on the real pool, the concurrent model "
                                           "computes %s (%d of %d calls differ)" % (k, t, i, ev, gv, len(bad), len(e)))
                elif not info["div"]:
                    c.nontrivial.add(("rlog", lines[0].split()[2], lines[0].split()[1]))
                if info["hyp"] and info["hyp"][0]:
                    c.mismatch(cid, lines, "replay scenario %d: a hypothesis of the theorems (api_ok / policy_ok per step) does not hold "
                                           "for the real run at %s (%d steps)" % (k, info["hyp"][1], info["hyp"][0]))
    elif any(l.startswith("rlog") for _, ls in mt for l in ls) and okc and not c.replay:
        c.broken.append("rlog scenarios produced no replay log")
    c.extra["slabconc_skeleton_shapes_observed"] = {
        f: "%d of %d" % (len(set(k[1] for k in c.nontrivial if len(k) == 2 and k[0] == f)), len(shapes.get(f, ())))
        for f in ("allocate", "realloc", "free", "deallocate", "get_size")}
    return True
