(* Replay of the harness's multi-threaded logs (scenario "rlog") on the EXTRACTED concrete concurrent model
   (coq/SlabConc/ConcSlabModel.v: cinit / cstep) -- built by vlib.ocaml_build with lib/coqnum.ml.inc prepended.

   Input per case: the "rl ..." lines printed by comp/slabconc/harness.cpp:
     rl cfg page sb slabsz nbuckets aligned poison hdr_frame hdr_slab nthreads
     rl c <tid> a <n> <res> <m|-> <map answer>  |  rl c <tid> f <p>  |  rl c <tid> d <p> <n>
     rl c <tid> r <p> <n> <res> <m|-> <map answer>
     rl o E<tid> L<tid> ...        global order of call entries (E) and critical sections (L)
     rl end <count>
   The scripts are the calls (the map answer is part of the op, as in SlabModel.v); the schedule is built from the
   global order: at E<t> thread t takes its call-entry step, at L<t> it takes its lock step, the locked body and the
   unlock; after either it runs on through segments that take no lock (map, private construction, poison/unmap,
   return) until it is about to lock or has returned.  Every step is first checked against the hypotheses of the
   theorems (extracted step_okb); the results the model computes are printed as "M <tid> <k> <result>" and compared
   by check.py with what each thread observed on the real pool.
   Trusted here: after every step the function-typed fields (thr, lk) are re-tabulated into arrays (extensionally the
   same functions; without it the closures built by updt/updl grow with the length of the run). *)

let nthreads = ref 0
let nb = ref 0

let tabulate (g : cstate) : cstate =
  let nt = !nthreads and nbk = !nb in
  let idle = g.thr (nat_of_int nt) in
  let ta = Array.init nt (fun i -> g.thr (nat_of_int i)) in
  let la = Array.init (nbk + 1) (fun i -> g.lk (if i = nbk then LT else LB (nat_of_int i))) in
  { sh = g.sh;
    lk = (fun l -> match l with
                   | LT -> la.(nbk)
                   | LB i -> let k = int_of_nat i in if k < nbk then la.(k) else g.lk l);
    thr = (fun t -> let k = int_of_nat t in if k < nt then ta.(k) else idle) }

let string_of_result (r : result) : string = match r with
  | RPtr p -> string_of_n p
  | RNull -> "0"
  | RUnit -> "u"
  | RSize z -> "size " ^ string_of_n z
  | RAssert w -> "assert " ^ string_of_n w
  | RUB w -> "ub " ^ string_of_n w

exception Diverged of string

let replay (cfgw : string list) (calls : string list list) (order : string list) : unit =
  let a = Array.of_list cfgw in
  let c = { page = n_of_string a.(0); sb = n_of_string a.(1); slabsz = n_of_string a.(2); nbuckets = n_of_string a.(3);
            aligned = (a.(4) = "1"); poison = (a.(5) = "1"); hdr_frame = n_of_string a.(6); hdr_slab = n_of_string a.(7) } in
  let nt = int_of_string a.(8) in
  nthreads := nt; nb := int_of_string a.(3);
  let ntn = nat_of_int nt in
  let scripts = Array.make nt [] in
  let env_of w m = if w = "m" then MapRet (n_of_string m) else MapFail in
  List.iter (fun w ->
    match w with
    | t :: "a" :: n :: _res :: hm :: mp :: _ -> let t = int_of_string t in scripts.(t) <- Alloc (n_of_string n, env_of hm mp) :: scripts.(t)
    | t :: "f" :: p :: _ -> let t = int_of_string t in scripts.(t) <- Free (n_of_string p) :: scripts.(t)
    | t :: "d" :: p :: n :: _ -> let t = int_of_string t in scripts.(t) <- Dealloc (n_of_string p, n_of_string n) :: scripts.(t)
    | t :: "r" :: p :: n :: _res :: hm :: mp :: _ ->
        let t = int_of_string t in scripts.(t) <- Realloc (n_of_string p, n_of_string n, env_of hm mp) :: scripts.(t)
    | _ -> ()) calls;
  Array.iteri (fun i l -> scripts.(i) <- List.rev l) scripts;
  Printf.printf "K cfg_ok %b\n" (cfg_ok c);
  let g = ref (tabulate (cinit c (fun t -> let k = int_of_nat t in if k < nt then scripts.(k) else []))) in
  let hyp = ref 0 and steps = ref 0 and first_hyp = ref "" in
  let pc_of t = (!g.thr (nat_of_int t)).pc in
  let step t =
    let tn = nat_of_int t in
    if not (step_okb c ntn !g tn) then begin
      incr hyp;
      if !first_hyp = "" then first_hyp := Printf.sprintf "thread %d at step %d" t !steps end;
    incr steps;
    g := tabulate (cstep c !g tn) in
  let at_lock t = (match lock_of (pc_of t) with Some _ -> true | None -> false) in
  let is_idle t = (match pc_of t with Idle -> true | _ -> false) in
  let run_nonlock t =
    let fuel = ref 64 in
    while not (at_lock t) && not (is_idle t) do
      decr fuel; if !fuel < 0 then raise (Diverged (Printf.sprintf "thread %d does not reach a lock or a return" t));
      step t done in
  (try
    List.iter (fun ev ->
      let k = ev.[0] and t = int_of_string (String.sub ev 1 (String.length ev - 1)) in
      if k = 'E' then begin
        if not (is_idle t) then raise (Diverged (Printf.sprintf "call entry of thread %d while the model is still inside its previous call" t));
        step t; run_nonlock t end
      else begin
        if not (at_lock t) then raise (Diverged (Printf.sprintf "critical section of thread %d logged, but the model is not at a lock step" t));
        step t;
        let fuel = ref 16 and go = ref true in
        while !go do
          decr fuel; if !fuel < 0 then raise (Diverged (Printf.sprintf "thread %d does not unlock" t));
          let u = (match unlock_of (pc_of t) with Some _ -> true | None -> false) in
          step t; if u then go := false done;
        run_nonlock t end) order;
    for t = 0 to nt - 1 do
      if not (idle_done (!g.thr (nat_of_int t))) then
        raise (Diverged (Printf.sprintf "thread %d has not finished its script at the end of the log" t))
    done
  with Diverged m -> Printf.printf "D %s\n" m);
  for t = 0 to nt - 1 do
    List.iteri (fun k (r, _) -> Printf.printf "M %d %d %s\n" t k (string_of_result r)) (List.rev (!g.thr (nat_of_int t)).outs)
  done;
  Printf.printf "H %d %s\n" !hyp !first_hyp;
  Printf.printf "S %d\n" !steps

let () = run_cases (fun lines ->
  let cfgw = ref [] and calls = ref [] and order = ref [] in
  List.iter (fun l ->
    match words l with
    | "rl" :: "cfg" :: r -> cfgw := r; calls := []; order := []
    | "rl" :: "c" :: r -> calls := r :: !calls
    | "rl" :: "o" :: r -> order := List.rev_append r !order
    | "rl" :: "end" :: _ -> if !cfgw <> [] then replay !cfgw (List.rev !calls) (List.rev !order); cfgw := []
    | _ -> ()) lines)
