// Harness for C05 (slab_pool under concurrency).  Runs on the REAL frg::slab_pool from $VERIF_REPO/include with
//  (i)  an instrumented Mutex type (template parameter of slab_pool) that counts the pool mutexes held by the calling
//       thread; every policy callback checks that the count is 0 ("policy-under-lock"), every lock() that it is 0
//       ("two-locks"), every API return that it is 0 ("lock-held-at-return");
//  (ii) single-threaded scripts ("st"): per API call the lock/unlock/policy-callback event log is printed as a `T` line;
//       the check compares it with the path shapes of the generated lock skeleton (model-vs-implementation tie);
//  (iii) multi-threaded stress ("mt", meant for the TSan build): 2..8 threads on shared size classes, cross-thread
//       frees through mailboxes, all threads finding a class empty behind a barrier, one thread allocating from the
//       slab the others free into, concurrent large blocks.  Each block is stamped with its owner; stamps, a
//       post-join overlap check over all live blocks, the _usedPages accounting at quiescence and a watchdog are the
//       oracles: kinds double-handout, overlap, accounting, deadlock (+ "race" = TSan report, classified by check.py).
// The oracles do not use the Coq model.
#include <atomic>
#include <chrono>
#include <mutex>
#include <thread>
#include <algorithm>
#include <sys/mman.h>
#include <unistd.h>
#include "vharness.hpp"
#include <frg/slab.hpp>

// ------------------------------------------------------------------------------------------------------------
// violations found on worker threads are queued and printed by the main thread
// ------------------------------------------------------------------------------------------------------------
static std::mutex g_viol_mu;
static std::vector<std::pair<std::string, std::string>> g_viol;
static std::atomic<int> g_nviol{0};

static void viol(const char *kind, const char *fmt, ...) {
	char buf[512];
	va_list ap; va_start(ap, fmt); vsnprintf(buf, sizeof buf, fmt, ap); va_end(ap);
	g_nviol++;
	std::lock_guard<std::mutex> g(g_viol_mu);
	if(g_viol.size() < 20) g_viol.push_back({kind, buf});
}
static void flush_viol() {
	std::lock_guard<std::mutex> g(g_viol_mu);
	for(auto &v : g_viol) vh::oracle(v.first.c_str(), "%s", v.second.c_str());
	g_viol.clear();
}

// ------------------------------------------------------------------------------------------------------------
// instrumented mutex + event log
// ------------------------------------------------------------------------------------------------------------
struct Ev { char k; const void *mu; const char *name; };     // k: 'L' lock, 'U' unlock, 'P' policy callback
static thread_local int t_held = 0;
static thread_local std::vector<Ev> *t_log = nullptr;
static std::atomic<long> g_locks{0}, g_callbacks{0};

static std::atomic<uint64_t> g_tid_ctr{0};
static thread_local uint64_t t_id = ++g_tid_ctr;

// replay log (mt scenario "rlog"): per thread every API call with its arguments, its result and the answer of
// Policy::map inside it, plus a GLOBAL order of call entries and critical sections: a sequence number drawn from one
// relaxed atomic counter at every call entry and inside every critical section (right after the mutex is acquired).
// Relaxed read-modify-writes are totally ordered consistently with happens-before, and add no synchronisation that
// could hide a race from TSan.  check.py replays the events in that order on the extracted concrete concurrent
// model (coq/SlabConc/ConcSlabModel.v) and compares every returned address.
struct RCall { char k; uintptr_t p; size_t n; uintptr_t res; uintptr_t mp; bool has_map; uint64_t seq; };
struct RLog { std::vector<RCall> calls; std::vector<uint64_t> lseq; uintptr_t mp = 0; bool has_map = false; };
static thread_local RLog *t_rl = nullptr;
static std::atomic<uint64_t> g_seq{0};

struct IMutex {
	std::mutex m;                      // a real mutex, so that TSan sees the synchronisation the pool relies on
	std::atomic<uint64_t> owner{0};    // instrumentation only (relaxed): detects a thread re-locking its own mutex
	void lock() {
		if(t_held != 0) viol("two-locks", "lock() while the thread already holds %d pool mutex(es)", t_held);
		if(owner.load(std::memory_order_relaxed) == t_id) {
			viol("deadlock", "lock() of a pool mutex the calling thread already holds (self-deadlock; lock leaked by an earlier call?)");
			throw vh::AssertStop{"self-deadlock on a pool mutex"};
		}
		m.lock();
		if(t_rl) t_rl->lseq.push_back(g_seq.fetch_add(1, std::memory_order_relaxed));
		owner.store(t_id, std::memory_order_relaxed);
		t_held++;
		g_locks.fetch_add(1, std::memory_order_relaxed);
		if(t_log) t_log->push_back({'L', this, nullptr});
	}
	void unlock() {
		if(t_log) t_log->push_back({'U', this, nullptr});
		t_held--;
		owner.store(0, std::memory_order_relaxed);
		m.unlock();
	}
};

static void callback(const char *name) {
	if(t_held != 0) viol("policy-under-lock", "policy.%s called while the calling thread holds %d pool mutex(es)", name, t_held);
	g_callbacks.fetch_add(1, std::memory_order_relaxed);
	if(t_log) t_log->push_back({'P', nullptr, name});
}

// ------------------------------------------------------------------------------------------------------------
// arena + policies
// ------------------------------------------------------------------------------------------------------------
static const size_t ARENA = size_t(6) << 30;
static char *g_arena = nullptr;
static std::atomic<size_t> g_off{0};
static std::atomic<long> g_fail_in{0};         // >0: the g_fail_in-th map from now fails
static std::atomic<long> g_maps{0}, g_unmaps{0}, g_mapfails{0};

static void arena_init() {
	g_arena = (char *)mmap(nullptr, ARENA, PROT_READ | PROT_WRITE, MAP_PRIVATE | MAP_ANONYMOUS | MAP_NORESERVE, -1, 0);
	if(g_arena == MAP_FAILED) { perror("mmap"); exit(2); }
}
static void arena_reset() {
	size_t used = std::min(ARENA, (g_off.load() + 0xFFFFF) & ~size_t(0xFFFFF));
	if(used) { mprotect(g_arena, used, PROT_READ | PROT_WRITE); madvise(g_arena, used, MADV_DONTNEED); }
	g_off = 0; g_fail_in = 0; g_maps = 0; g_unmaps = 0; g_mapfails = 0;
}
static uintptr_t arena_map_(size_t len, size_t align);
static uintptr_t arena_map(size_t len, size_t align) {
	uintptr_t a = arena_map_(len, align);
	if(t_rl) { t_rl->mp = a; t_rl->has_map = true; }
	return a;
}
static uintptr_t arena_map_(size_t len, size_t align) {
	long f = g_fail_in.load();
	if(f > 0 && g_fail_in.fetch_sub(1) == 1) { g_mapfails++; return 0; }
	size_t span = len + align + 0x1000;
	size_t o = g_off.fetch_add(span);
	if(o + span > ARENA) { g_mapfails++; return 0; }
	uintptr_t a = ((uintptr_t)g_arena + o + align - 1) & ~(uintptr_t)(align - 1);
	g_maps++;
	return a;
}

struct PolBase {
	void unmap(uintptr_t base, size_t len) {
		callback("unmap");
		g_unmaps++;
		uintptr_t b = (base + 0xFFF) & ~uintptr_t(0xFFF), e = (base + len) & ~uintptr_t(0xFFF);
		if(e > b) mprotect((void *)b, e - b, PROT_NONE);       // any later touch by the pool or a user traps
	}
};
struct PolAligned : PolBase {
	uintptr_t map(size_t len, size_t align) { callback("map"); return arena_map(len, align); }
};
struct PolUnaligned : PolBase {
	uintptr_t map(size_t len) { callback("map"); return arena_map(len, 0x1000); }
};
template<typename B> struct WithPoison : B {
	void poison(void *, size_t) { callback("poison"); }
	void unpoison(void *, size_t) { callback("unpoison"); }
	void unpoison_expand(void *, size_t) { callback("unpoison_expand"); }
};
struct PolSmall : PolAligned {          // small slabs and few buckets: slabs fill up quickly, many map calls
	static constexpr size_t slabsize = 1 << 16;
	static constexpr size_t sb_size = 1 << 16;
	static constexpr int num_buckets = 10;
};

// ------------------------------------------------------------------------------------------------------------
// helpers over a concrete pool type
// ------------------------------------------------------------------------------------------------------------
template<typename Pool> static std::string render(Pool &pool, const std::vector<Ev> &log) {
	std::string out, last;
	for(auto &e : log) {
		std::string w;
		if(e.k == 'P') w = std::string("P:") + e.name;
		else {
			bool tree = e.mu == (const void *)&pool._tree_mutex;
			bool bucket = false;
			for(int i = 0; i < Pool::num_buckets; i++) if(e.mu == (const void *)&pool._bkts[i].bucket_mutex) bucket = true;
			if(!tree && !bucket) w = "?";
			else w = std::string(e.k == 'L' ? "L" : "U") + (tree ? "T" : "B");
		}
		if(e.k == 'P' && w == last) continue;       // run-length collapse of identical consecutive callbacks
		out += " " + w; last = w;
	}
	return out;
}

// sum over all slabs currently in the partial trees of (length + page) / page
template<typename Pool> static size_t partial_pages(Pool &pool, size_t &nslabs) {
	size_t tot = 0; nslabs = 0;
	for(int i = 0; i < Pool::num_buckets; i++) {
		auto &tr = pool._bkts[i].partial_tree;
		for(auto s = tr.first(); s; s = Pool::partial_tree_type::successor(s)) {
			tot += (s->length + Pool::huge_padding) / Pool::page_size; nslabs++;
		}
	}
	return tot;
}

static uint64_t stamp_of(unsigned owner, unsigned seq) { return (uint64_t(owner + 1) << 40) | (uint64_t(seq) << 8) | 0x5A; }
static void stamp(void *p, size_t n, uint64_t s) {
	if(n < 8) { memset(p, int(s >> 8) | 1, n); return; }
	uint64_t *w = (uint64_t *)p; size_t k = n / 8;
	for(size_t i = 0; i < k && i < 8; i++) w[i] = s;
	w[k - 1] = s;
}
static bool stamp_ok(const void *p, size_t n, uint64_t s) {
	if(n < 8) { const unsigned char *c = (const unsigned char *)p; for(size_t i = 0; i < n; i++) if(c[i] != (unsigned char)(int(s >> 8) | 1)) return false; return true; }
	const uint64_t *w = (const uint64_t *)p; size_t k = n / 8;
	for(size_t i = 0; i < k && i < 8; i++) if(w[i] != s) return false;
	return w[k - 1] == s;
}

struct Blk { void *p; size_t n; uint64_t s; };

static void overlap_check(std::vector<Blk> v, const char *where) {
	std::sort(v.begin(), v.end(), [](const Blk &a, const Blk &b) { return a.p < b.p; });
	for(size_t i = 1; i < v.size(); i++) {
		if(v[i].p == v[i - 1].p) { viol("double-handout", "%s: block %p is live twice", where, v[i].p); return; }
		if((char *)v[i - 1].p + std::max<size_t>(v[i - 1].n, 1) > (char *)v[i].p) {
			viol("overlap", "%s: live blocks %p+%zu and %p overlap", where, v[i - 1].p, v[i - 1].n, v[i].p); return; }
	}
}

// ------------------------------------------------------------------------------------------------------------
// single-threaded scripts: event log per API call
// ------------------------------------------------------------------------------------------------------------
template<typename Pol> static void run_st(const vh::Lines &ls) {
	using Pool = frg::slab_pool<Pol, IMutex>;
	Pol pol;
	Pool *pool = new Pool(pol);
	std::vector<Blk> live;
	std::vector<Ev> log;
	unsigned seq = 0;
	auto begin = [&] { log.clear(); t_log = &log; };
	auto end = [&](const char *fn) {
		t_log = nullptr;
		if(t_held != 0) { viol("lock-held-at-return", "%s returned while the thread holds %d pool mutex(es)", fn, t_held); t_held = 0; }
		printf("T %s%s\n", fn, render(*pool, log).c_str());
	};
	auto check_blk = [&](const Blk &b, const char *when) {
		if(!stamp_ok(b.p, b.n, b.s)) viol("double-handout", "%s: owner stamp of live block %p (%zu bytes) was overwritten", when, b.p, b.n);
	};
	for(size_t i = 1; i < ls.size(); i++) {
		auto t = vh::split(ls[i]);
		const std::string &o = t[0];
		if(o == "mf") { g_fail_in = vh::i64(t[1]); continue; }
		if(o == "a" || o == "r0") {
			size_t n = vh::u64(t[1]);
			begin();
			void *p = (o == "a") ? pool->allocate(n) : pool->realloc(nullptr, n);
			end(o == "a" ? "allocate" : "realloc");
			printf("r %s\n", p ? "ok" : "null");
			if(p) {
				size_t gs = pool->get_size(p);
				if(gs < std::max<size_t>(n, 1)) viol("overlap", "get_size %zu < requested %zu", gs, n);
				Blk b{p, std::max<size_t>(n, 1), stamp_of(0, seq++)};
				stamp(b.p, b.n, b.s); live.push_back(b);
			}
		} else if(o == "f" || o == "d") {
			if(live.empty()) continue;
			size_t k = vh::u64(t[1]) % live.size();
			Blk b = live[k]; live.erase(live.begin() + k);
			check_blk(b, "before free");
			begin();
			if(o == "f") pool->free(b.p); else pool->deallocate(b.p, b.n);
			end(o == "f" ? "free" : "deallocate");
		} else if(o == "f0") {
			begin(); pool->free(nullptr); end("free");
		} else if(o == "r") {
			if(live.empty()) continue;
			size_t k = vh::u64(t[1]) % live.size(); size_t n = vh::u64(t[2]);
			Blk b = live[k];
			check_blk(b, "before realloc");
			begin();
			void *p = pool->realloc(b.p, n);
			end("realloc");
			printf("r %s\n", p ? (p == b.p ? "same" : "moved") : "null");
			if(n == 0) { live.erase(live.begin() + k); }
			else if(p) {
				Blk nb{p, n, stamp_of(0, seq++)};
				stamp(nb.p, nb.n, nb.s); live[k] = nb;
			}
		} else if(o == "g") {
			if(live.empty()) continue;
			size_t k = vh::u64(t[1]) % live.size();
			begin(); size_t gs = pool->get_size(live[k].p); end("get_size");
			if(gs < live[k].n) viol("overlap", "get_size %zu < requested %zu", gs, live[k].n);
		}
		if(i % 16 == 0 || i + 1 == ls.size()) { for(auto &b : live) check_blk(b, "sweep"); overlap_check(live, "st"); }
	}
	printf("maps %ld unmaps %ld mapfails %ld\n", g_maps.load(), g_unmaps.load(), g_mapfails.load());
	// the pool object itself is leaked on purpose (slab_pool has no destructor that releases slabs)
}

// ------------------------------------------------------------------------------------------------------------
// multi-threaded stress
// ------------------------------------------------------------------------------------------------------------
struct Barrier {
	std::atomic<int> n{0}, gen{0}; int total;
	explicit Barrier(int t) : total(t) { }
	void wait() {
		int g = gen.load(std::memory_order_acquire);
		if(n.fetch_add(1, std::memory_order_acq_rel) + 1 == total) { n.store(0, std::memory_order_relaxed); gen.fetch_add(1, std::memory_order_release); }
		else while(gen.load(std::memory_order_acquire) == g) std::this_thread::yield();
	}
};

static std::atomic<int> g_done{0};
static std::atomic<bool> g_in_mt{false};

template<typename F> static bool run_threads(int nt, F f, int timeout_s) {
	g_done = 0;
	std::vector<std::thread> th;
	for(int t = 0; t < nt; t++) th.emplace_back([&, t] {
		try { f(t); } catch(vh::AssertStop &a) { viol("assert", "FRG_ASSERT fired on a worker thread: %s", a.where.c_str()); }
		if(t_held != 0) viol("lock-held-at-return", "worker %d finished holding %d pool mutex(es)", t, t_held);
		g_done.fetch_add(1, std::memory_order_release);
	});
	auto t0 = std::chrono::steady_clock::now();
	while(g_done.load(std::memory_order_acquire) < nt) {
		std::this_thread::sleep_for(std::chrono::milliseconds(5));
		if(std::chrono::steady_clock::now() - t0 > std::chrono::seconds(timeout_s)) {
			flush_viol();
			vh::oracle("deadlock", "watchdog: %d of %d worker threads still not finished after %d s", nt - g_done.load(), nt, timeout_s);
			fflush(stdout);
			_exit(4);
		}
	}
	for(auto &x : th) x.join();
	return true;
}

struct Rng { uint64_t s; uint64_t next() { s ^= s << 13; s ^= s >> 7; s ^= s << 17; return s; } };

template<typename Pol> static void run_mt(const vh::Lines &ls, int nt) {
	using Pool = frg::slab_pool<Pol, IMutex>;
	const int TMO = 60;
	for(size_t li = 1; li < ls.size(); li++) {
		auto t = vh::split(ls[li]);
		const std::string &o = t[0];
		arena_reset();                      // every scenario runs on a fresh pool in a fresh arena
		Pol pol;
		Pool *pool = new Pool(pol);
		std::vector<std::vector<Blk>> lives(nt);
		long large_live = 0;
		if(o == "mix" || o == "rlog") {
			// mix ITERS SEED XFREE% SIZE...   random allocate/free/realloc on shared classes, cross-thread frees via mailboxes
			// rlog ...                         the same workload, with the replay log (see RLog above) printed after the join
			const bool rl = o == "rlog";
			int iters = atoi(t[1].c_str()); uint64_t seed = vh::u64(t[2]); int xfree = atoi(t[3].c_str());
			std::vector<size_t> sizes; for(size_t k = 4; k < t.size(); k++) sizes.push_back(vh::u64(t[k]));
			const int MB = 64;
			struct Slot { std::atomic<int> st{0}; Blk b{nullptr, 0, 0}; };      // 0 empty, 1 busy, 2 full
			std::vector<Slot> mail(nt * MB);
			std::vector<RLog> rlogs(nt);
			g_seq = 0;
			Barrier bar(nt);
			run_threads(nt, [&](int me) {
				Rng r{seed * 0x9E3779B97F4A7C15ull + me + 1};
				auto &live = lives[me]; unsigned seq = 0;
				RLog *mylog = rl ? &rlogs[me] : nullptr;
				// API calls, logged when rl (the log is thread-local; the only shared object is the relaxed counter)
				auto enter = [&]() -> uint64_t { if(!mylog) return 0; mylog->has_map = false; mylog->mp = 0; t_rl = mylog;
					return g_seq.fetch_add(1, std::memory_order_relaxed); };
				auto leave = [&](char k, void *p, size_t n, void *res, uint64_t sq) { if(!mylog) return; t_rl = nullptr;
					mylog->calls.push_back({k, (uintptr_t)p, n, (uintptr_t)res, mylog->mp, mylog->has_map, sq}); };
				auto do_alloc = [&](size_t n) { uint64_t sq = enter(); void *p = pool->allocate(n); leave('a', nullptr, n, p, sq); return p; };
				auto do_free = [&](void *p) { uint64_t sq = enter(); pool->free(p); leave('f', p, 0, nullptr, sq); };
				auto do_dealloc = [&](void *p, size_t n) { uint64_t sq = enter(); pool->deallocate(p, n); leave('d', p, n, nullptr, sq); };
				auto do_realloc = [&](void *p, size_t n) { uint64_t sq = enter(); void *q = pool->realloc(p, n); leave('r', p, n, q, sq); return q; };
				auto release = [&](Blk b) {
					if(!stamp_ok(b.p, b.n, b.s)) viol("double-handout", "mix: owner stamp of block %p (%zu bytes) overwritten while live", b.p, b.n);
					if(r.next() & 1) do_free(b.p); else do_dealloc(b.p, b.n);
				};
				bar.wait();
				for(int i = 0; i < iters; i++) {
					uint64_t x = r.next();
					// take over blocks other threads mailed to us
					Slot &in = mail[me * MB + (x >> 8) % MB];
					int full = 2;
					if(in.st.load(std::memory_order_relaxed) == 2 && in.st.compare_exchange_strong(full, 1, std::memory_order_acquire)) {
						Blk q = in.b; in.st.store(0, std::memory_order_release); release(q);
					}
					int c = x % 100;
					if(c < 55 || live.empty()) {
						size_t n = sizes[(x >> 16) % sizes.size()];
						void *p = do_alloc(n);
						if(!p) continue;
						Blk b{p, std::max<size_t>(n, 1), stamp_of(me, seq++)};
						stamp(b.p, b.n, b.s); live.push_back(b);
					} else if(c < 60) {
						size_t k = (x >> 16) % live.size(); size_t n = std::max<size_t>(sizes[(x >> 32) % sizes.size()], 1);
						Blk b = live[k];
						if(!stamp_ok(b.p, b.n, b.s)) viol("double-handout", "mix: stamp of %p overwritten before realloc", b.p);
						void *p = do_realloc(b.p, n);
						if(p) { Blk nb{p, std::max<size_t>(n, 1), stamp_of(me, seq++)}; stamp(nb.p, nb.n, nb.s); live[k] = nb; }
					} else {
						size_t k = (x >> 16) % live.size();
						Blk b = live[k]; live[k] = live.back(); live.pop_back();
						if(int((x >> 40) % 100) < xfree && nt > 1) {
							int to = (me + 1 + (x >> 48) % (nt - 1)) % nt;
							Slot &s = mail[to * MB + (x >> 24) % MB];
							int empty = 0;
							if(s.st.load(std::memory_order_relaxed) == 0 && s.st.compare_exchange_strong(empty, 1, std::memory_order_acquire)) {
								s.b = b; s.st.store(2, std::memory_order_release);
								continue;
							}
						}
						release(b);
					}
				}
				t_rl = nullptr;
			}, TMO);
			// drain the mailboxes (state 1 cannot remain: every claimer completes its store before it finishes)
			for(auto &s : mail) if(s.st.load() == 2) lives[0].push_back(s.b);
			if(rl) {
				printf("rl cfg %zu %zu %zu %d %d %d %zu %zu %d\n", (size_t)Pool::page_size, (size_t)Pool::sb_size, (size_t)Pool::slabsize,
						(int)Pool::num_buckets, frg::is_detected_v<frg::policy_map_aligned_t, Pol> ? 1 : 0, Pool::has_poisoning ? 1 : 0,
						sizeof(typename Pool::frame), sizeof(typename Pool::slab_frame), nt);
				// events in global order: E <tid> (call entry), L <tid> (critical section)
				struct Evt { uint64_t seq; int tid; char k; };
				std::vector<Evt> evs;
				for(int ti = 0; ti < nt; ti++) {
					for(auto &cl : rlogs[ti].calls) {
						evs.push_back({cl.seq, ti, 'E'});
						if(cl.k == 'a') printf("rl c %d a %zu %lu %s %lu\n", ti, cl.n, (unsigned long)cl.res, cl.has_map ? "m" : "-", (unsigned long)cl.mp);
						else if(cl.k == 'f') printf("rl c %d f %lu\n", ti, (unsigned long)cl.p);
						else if(cl.k == 'd') printf("rl c %d d %lu %zu\n", ti, (unsigned long)cl.p, cl.n);
						else printf("rl c %d r %lu %zu %lu %s %lu\n", ti, (unsigned long)cl.p, cl.n, (unsigned long)cl.res, cl.has_map ? "m" : "-", (unsigned long)cl.mp);
					}
					for(auto sq : rlogs[ti].lseq) evs.push_back({sq, ti, 'L'});
				}
				std::sort(evs.begin(), evs.end(), [](const Evt &a, const Evt &b) { return a.seq < b.seq; });
				for(size_t i = 0; i < evs.size(); i += 400) {
					std::string line = "rl o";
					for(size_t j = i; j < evs.size() && j < i + 400; j++) { char buf[32]; snprintf(buf, sizeof buf, " %c%d", evs[j].k, evs[j].tid); line += buf; }
					printf("%s\n", line.c_str());
				}
				printf("rl end %zu\n", evs.size());
			}
		} else if(o == "empty") {
			// empty SIZE K : all threads find the class empty at the same time (barrier), K allocations each
			size_t n = vh::u64(t[1]); int k = atoi(t[2].c_str());
			Barrier bar(nt);
			run_threads(nt, [&](int me) {
				bar.wait();
				for(int i = 0; i < k; i++) {
					void *p = pool->allocate(n);
					if(!p) { if(!g_mapfails.load()) viol("null-without-map-failure", "empty: allocate(%zu) returned null although no map call failed", n); return; }
					Blk b{p, std::max<size_t>(n, 1), stamp_of(me, i)}; stamp(b.p, b.n, b.s); lives[me].push_back(b);
				}
			}, TMO);
		} else if(o == "drain") {
			// drain SIZE COUNT : thread 0 keeps allocating from the class while the others free blocks of the same slabs
			size_t n = vh::u64(t[1]); int cnt = atoi(t[2].c_str());
			std::vector<Blk> pre;
			for(int i = 0; i < cnt * (nt - 1); i++) { void *p = pool->allocate(n); if(!p) break; Blk b{p, std::max<size_t>(n, 1), stamp_of(99, i)}; stamp(b.p, b.n, b.s); pre.push_back(b); }
			Barrier bar(nt);
			run_threads(nt, [&](int me) {
				bar.wait();
				if(me == 0) {
					for(int i = 0; i < cnt; i++) { void *p = pool->allocate(n); if(!p) continue; Blk b{p, std::max<size_t>(n, 1), stamp_of(0, i)}; stamp(b.p, b.n, b.s); lives[0].push_back(b); }
				} else {
					for(size_t i = me - 1; i < pre.size(); i += nt - 1) {
						if(!stamp_ok(pre[i].p, pre[i].n, pre[i].s)) viol("double-handout", "drain: stamp of %p overwritten while live", pre[i].p);
						pool->free(pre[i].p);
					}
				}
			}, TMO);
		} else if(o == "large") {
			// large ITERS : concurrent large blocks (tree mutex / _usedPages / map+unmap)
			int iters = atoi(t[1].c_str());
			Barrier bar(nt);
			run_threads(nt, [&](int me) {
				Rng r{uint64_t(me) * 77 + 5};
				bar.wait();
				std::vector<Blk> mine;
				for(int i = 0; i < iters; i++) {
					size_t n = Pool::max_bucket_size + 1 + (r.next() % (3 * Pool::sb_size));
					void *p = pool->allocate(n);
					if(p) { Blk b{p, n, stamp_of(me, i)}; stamp(b.p, b.n, b.s); mine.push_back(b); }
					if(mine.size() > 3 || (r.next() & 1)) {
						if(mine.empty()) continue;
						Blk b = mine.back(); mine.pop_back();
						if(!stamp_ok(b.p, b.n, b.s)) viol("double-handout", "large: stamp of %p overwritten while live", b.p);
						pool->free(b.p);
					}
				}
				lives[me] = mine;
			}, TMO);
		} else continue;
		// ---- quiescent: oracles over the whole pool
		std::vector<Blk> all;
		for(auto &v : lives) for(auto &b : v) all.push_back(b);
		for(auto &b : all) if(!stamp_ok(b.p, b.n, b.s)) { viol("double-handout", "%s: stamp of live block %p overwritten (seen after join)", o.c_str(), b.p); break; }
		overlap_check(all, o.c_str());
		size_t large_pages = 0;
		for(auto &b : all) {
			if(b.n > Pool::max_bucket_size) large_pages += (((b.n + Pool::page_size - 1) & ~(Pool::page_size - 1)) + Pool::huge_padding) / Pool::page_size;
			pool->free(b.p);
		}
		// now every slab has all of its objects free, hence sits in a partial tree
		size_t nslabs = 0, pp = partial_pages(*pool, nslabs);
		if(pool->numUsedPages() != pp)
			viol("accounting", "%s: numUsedPages() = %zu at quiescence, but the %zu slabs account for %zu pages (lost update on _usedPages?)", o.c_str(), pool->numUsedPages(), nslabs, pp);
		(void)large_pages; (void)large_live;
		if(t_held != 0) { viol("lock-held-at-return", "main thread holds %d pool mutex(es)", t_held); t_held = 0; }
		printf("mt %s done\n", o.c_str());
	}
}

static void body(const vh::Lines &ls) {
	arena_reset();
	t_held = 0;
	if(ls.empty()) return;
	auto h = vh::split(ls[0]);
	std::string mode = h[0], pol = h.size() > 1 ? h[1] : "aligned";
	int nt = h.size() > 2 ? atoi(h[2].c_str()) : 1;
	try {
	if(mode == "st") {
		if(pol == "aligned") run_st<PolAligned>(ls);
		else if(pol == "unaligned") run_st<PolUnaligned>(ls);
		else if(pol == "poison") run_st<WithPoison<PolAligned>>(ls);
		else if(pol == "upoison") run_st<WithPoison<PolUnaligned>>(ls);
		else if(pol == "small") run_st<PolSmall>(ls);
	} else if(mode == "mt") {
		if(nt < 1) nt = 1; if(nt > 16) nt = 16;
		if(pol == "aligned") run_mt<PolAligned>(ls, nt);
		else if(pol == "unaligned") run_mt<PolUnaligned>(ls, nt);
		else if(pol == "poison") run_mt<WithPoison<PolAligned>>(ls, nt);
		else if(pol == "small") run_mt<PolSmall>(ls, nt);
	}
	} catch(vh::AssertStop &) { t_log = nullptr; t_held = 0; flush_viol(); throw; }
	flush_viol();
	printf("locks %s callbacks %s\n", g_locks.load() ? "yes" : "no", g_callbacks.load() ? "yes" : "no");
}

int main() { arena_init(); return vh::run(body); }
