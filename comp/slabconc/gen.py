"""Case generator for slabconc (C05).  Two kinds of cases (first line of a case selects the harness mode):
  st <policy>            single-threaded script; per API call the lock/unlock/callback log is compared with the skeleton
                         ops: a N | r0 N | f K | d K | f0 | r K N | g K | mf K (fail the K-th map from now)
  mt <policy> <threads>  concurrent scenarios, each on a fresh pool:
                         mix ITERS SEED XFREE% SIZE... | empty SIZE K | drain SIZE COUNT | large ITERS
                         rlog ITERS SEED XFREE% SIZE...   = mix + per-thread call log and global order of call entries /
                                                           critical sections (replayed on the extracted concurrent model)
"""
CLASSES = [8, 16, 32, 64, 128, 256, 512, 1024, 2048, 4096, 8192, 16384, 32768]
EDGE = sorted(set([0, 1, 7] + [c + d for c in CLASSES for d in (-1, 0, 1)] + [40000, 70000, 262144, 262145, 300000, 600000]))
ST_POL = ["aligned", "unaligned", "poison", "upoison", "small"]
MT_POL = ["aligned", "unaligned", "poison", "small"]


def corpus():
    """hand-written scripts: every lock path of allocate/free/realloc incl. both `return nullptr` paths"""
    return [
        ("corpus-paths-poison", ["st poison", "a 8", "a 100", "a 40000", "r 0 20", "r 1 3000", "f 0", "mf 1", "a 5000",
                                 "mf 1", "a 300000", "a 300000", "d 0", "f0", "g 0", "r0 64", "r 0 0", "r 0 1", "r 0 100000",
                                 "mf 1", "r 0 2000000", "f 0", "f 0", "f 0"]),
        ("corpus-paths-unaligned", ["st unaligned", "a 8", "a 70000", "f 1", "f 0", "a 0", "d 0", "mf 2", "a 16", "a 32", "a 64"]),
        ("corpus-fill-class", ["st small"] + ["a 4096"] * 16 + ["f 0"] * 3 + ["a 4096"] * 4 + ["f 3", "f 7", "a 4000", "r 2 9000", "r 2 100"]),
        ("corpus-mapfail-then-continue", ["st aligned", "mf 1", "a 8", "a 8", "mf 1", "a 50000", "a 50000", "mf 1", "r0 100",
                                          "r0 100", "r 0 70000", "mf 1", "r 0 140000", "r 0 140000", "f 0", "f 0", "f 0"]),
        ("corpus-mt-empty-class", ["mt aligned 8", "empty 64 40", "empty 32768 9", "empty 1 100"]),
        ("corpus-mt-xfree", ["mt poison 4", "mix 4000 11 60 8 16 24 64 100 1000", "drain 128 3000"]),
        ("corpus-mt-small-slabs", ["mt small 6", "mix 5000 3 40 8 512 4096 4097", "empty 4096 30", "drain 2048 400"]),
        ("corpus-mt-large", ["mt aligned 5", "large 60", "mix 2000 5 30 32768 32769 100000 8"]),
        ("corpus-mt-two", ["mt unaligned 2", "mix 8000 1 50 16 16 32", "empty 16 2000", "drain 16 8000"]),
        ("corpus-rlog-small", ["mt small 4", "rlog 2000 3 50 8 64 512 4096 4097", "rlog 1500 9 90 16 16 32"]),
        ("corpus-rlog-large", ["mt aligned 6", "rlog 1500 11 60 8 16 24 64 100 1000 40000 300000"]),
        ("corpus-rlog-unaligned-poison", ["mt unaligned 2", "rlog 3000 1 50 16 16 32 300000"]),
    ]


def gen_st(rng):
    pol = rng.choice(ST_POL)
    small = pol == "small"
    big = 4096 if small else 32768
    sizes = [s for s in EDGE if s <= (20000 if small else 700000)]
    lines = ["st " + pol]
    n = rng.choice([6, 12, 25, 50])
    live = 0
    focus = rng.choice(sizes)
    for _ in range(n):
        x = rng.random()
        if x < 0.08:
            lines.append("mf %d" % rng.choice([1, 1, 2, 3]))
        elif x < 0.50 or live == 0:
            s = focus if rng.random() < 0.5 else rng.choice(sizes)
            if rng.random() < 0.15:
                s = big if rng.random() < 0.5 else big + 1
            reps = rng.choice([1, 1, 1, 2, 8, 17]) if s <= big else 1
            for _ in range(reps):
                lines.append(("a %d" if rng.random() < 0.9 else "r0 %d") % s); live += 1
        elif x < 0.72:
            lines.append(("f %d" if rng.random() < 0.6 else "d %d") % rng.randrange(64)); live -= 1
        elif x < 0.92:
            lines.append("r %d %d" % (rng.randrange(64), rng.choice(sizes)))
            if lines[-1].endswith(" 0"):
                live -= 1
        elif x < 0.96:
            lines.append("g %d" % rng.randrange(64))
        else:
            lines.append("f0")
    return lines


def gen_mt(rng, scale=1.0, rlog_p=0.30):
    pol = rng.choice(MT_POL)
    nt = rng.choice([2, 2, 3, 4, 4, 6, 8])
    small = pol == "small"
    big = 4096 if small else 32768
    cls = [c for c in CLASSES if c <= big]
    lines = ["mt %s %d" % (pol, nt)]
    for _ in range(rng.choice([1, 2, 3])):
        k = rng.random()
        if k < rlog_p:              # replay-logged variant of mix (not scaled: the replay cost is linear in the number of calls)
            m = rng.choice([1, 2, 3, 6])
            sizes = [rng.choice(cls) - rng.choice([0, 0, 1, 3]) for _ in range(m)]
            if rng.random() < 0.3:
                sizes.append(big + 1 + rng.randrange(100000))
            lines.append("rlog %d %d %d %s" % (rng.choice([800, 2000, 4000]), rng.randrange(1, 10**6),
                                              rng.choice([0, 30, 60, 90]), " ".join(str(max(s, 0)) for s in sizes)))
        elif k < 0.45:
            m = rng.choice([1, 2, 3, 6])
            sizes = [rng.choice(cls) - rng.choice([0, 0, 1, 3]) for _ in range(m)]
            if rng.random() < 0.2:
                sizes.append(big + 1 + rng.randrange(100000))
            lines.append("mix %d %d %d %s" % (int(rng.choice([1500, 4000, 9000]) * scale), rng.randrange(1, 10**6),
                                             rng.choice([0, 30, 60, 90]), " ".join(str(max(s, 0)) for s in sizes)))
        elif k < 0.7:
            s = rng.choice(cls)
            per_slab = max(2, ((1 << 16) if small else (1 << 18)) // s)
            lines.append("empty %d %d" % (s - rng.choice([0, 1]), rng.choice([3, per_slab // 2 + 1, per_slab + 3])))
        elif k < 0.9:
            s = rng.choice(cls[:9])
            lines.append("drain %d %d" % (s, int(rng.choice([300, 2000, 6000]) * scale)))
        else:
            lines.append("large %d" % int(rng.choice([20, 60]) * scale))
    return lines
