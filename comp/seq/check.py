"""seq component (vector, small_vector, dyn_array, stack, frg::list, intrusive_list): builds the model driver and
the harness, generates cases, runs legs C and O into the given Check.
Used by checks/c13.py (functional kinds) and checks/c16_seq.py / the coordinator's c16.py (lifetime kinds)."""
import os
import vlib
from comp.seq import gen

RULE = ("seeded op scripts over 3 container variables per case: vector / small_vector<N=2,4> (push const&/&&, emplace, pop, "
        "resize with and without value, clear, front/back/[], ==, copy/move construction, copy/move assignment, swap), "
        "the three container variables of a script live on three different instances of a stateful allocator (swap / move / copy between them); "
        "dyn_array, stack, frg::list, two intrusive_lists over 6 objects (push_front/back, insert before front/middle/back/end, "
        "erase by role, pop, clear, splice); element types uint64_t, copy/move-observable (vh::TV + self pointer), move-only, and for vector (the only container with ==) double incl. +-0.0/NaN/+-inf and a padded POD compared by key only; for vector and small_vector an alignas(64) tracked type (aligned allocator, adjacent container objects, oracle alignment); Bag with (count, fill) and initializer_list constructors for every operation that forwards constructor arguments (emplace2/resize2, reference std::vector emplace_back); "
        "resize targets at 0, size+-1, cap-1, cap, cap+1, N-1, N, N+1, 2N+2; non-trivial = distinct script of >= 8 ops")
TRUSTED = ["extraction: ExtrOcamlBasic only; OCaml 4.13.1; comp/seq/driver.ml",
           "correspondence harness comp/seq/harness.cpp (g++ -fsanitize=address,undefined, -fno-access-control)",
           "oracle: std::vector/std::deque/std::list references (== against std::vector of the same element type), per-instance allocator accounting (bad-free: block released into an instance that never handed it out), own-storage check of the element type (raw-read, "
           "relocated-bytewise), lifetime/allocation registries in lib/vharness.hpp, ASan",
           "modelled, not verified: placement new / destructor calls as slot updates; raw pointers as naturals"]
ASSUMPTIONS = ["sizeof(T) * capacity does not overflow size_t (sizes are naturals in the model)",
               "element copy/move construction transfers the value and cannot fail",
               "pop/back/front/operator[] of vector, dyn_array, stack, frg::list only within bounds (no assert in the source; "
               "the model yields UB there and scripts that do so stop on both sides)",
               "intrusive_list: erase/insert-before only with elements of that list, pop only when non-empty, splice of two distinct lists"]

def nontrivial(cid, lines, ri):
    return "|".join(lines) if len(lines) >= 9 else None

def run(c):
    okm, mlog = vlib.coq_make(["Seq/SeqExtract.vo"])
    okd, drv, dlog = vlib.ocaml_build("seq_m", ["seq_model"], os.path.join(vlib.ROOT, "comp/seq/driver.ml"))
    okh, har, hlog = vlib.cxx_build("seq_h", os.path.join(vlib.ROOT, "comp/seq/harness.cpp"))
    if not (okm and okd):
        c.broken.append("seq model extraction/driver build failed: " + (mlog[-800:] if not okm else dlog[-800:]))
    if not okh:
        c.broken.append("seq harness does not compile against the repo: " + hlog[-1500:])
        return False
    if c.replay:
        cases = vlib.read_replay(c.replay)
    else:
        cases = gen.corpus()
        n = 3000 if c.tier == "quick" else 30000
        for i in range(n):
            cases.append(("g%d" % i, gen.gen_case(c.rng, c.rng.choice([10, 25, 50, 90]))))
        if c.tier == "thorough":
            cases += gen.exhaustive_small(4)
    for _, ls in cases:
        t = ls[0].split()
        c.count("seq_ops", len(ls) - 1)
        c.count("seq_cases_" + t[1] + ("_" + t[2] if t[1] != "ilist" else ""))
        for l in ls[1:]:
            c.count("seq_op_" + t[1] + "_" + l.split()[0])
    impl = vlib.run_cases(har, cases)
    model = vlib.run_cases(drv, cases) if okd else {}
    c.compare(cases, impl, model, nontrivial)
    return True
