// Harness for the frg sequence containers (C13, and the vector/small_vector/dyn_array/list part of C16):
// runs op scripts on the REAL containers from /repo/include, prints canonical lines (compared with the
// extracted Gallina models, comp/seq/driver.ml) and evaluates the property with std:: reference
// containers, own-storage checks of the element type, and the lifetime/allocation registries of
// lib/vharness.hpp (oracle; independent of the model).
#include <deque>
#include <list>
#include <algorithm>
#include <new>
#include <cmath>
#include <initializer_list>
#include <limits>
#include "vharness.hpp"
#include <frg/vector.hpp>
#include <frg/small_vector.hpp>
#include <frg/dyn_array.hpp>
#include <frg/stack.hpp>
#include <frg/list.hpp>

namespace sq {

// ---- event log in the vocabulary of coq/Common/EventLog.v: objects are named (block id, slot)
struct Tracker {
	bool on = false;                  // off while the harness itself observes the containers
	std::vector<std::string> ev;
	struct Blk { int raw; size_t bytes; int inst; };          // raw = number of the allocation, inst = allocator instance
	std::map<const char *, Blk> blocks;                       // live allocator blocks by base address
	int next_id = 1;
	int ninst = 4;                    // a block is named raw * ninst + instance (coq/Seq/SlotModel.v: enc)
	size_t align = 0;                 // > 16: the element type is over-aligned, the allocator hands out blocks aligned to it
	struct Inl { const char *base; size_t bytes; int reg; };
	std::vector<Inl> inl;             // inline storage of the small_vector registers
	size_t esz = 1, inl_n = 0;
	std::set<const void *> live;      // objects constructed by the container and not yet destroyed
	void reset() { on = false; ev.clear(); blocks.clear(); next_id = 1; ninst = 4; align = 0; inl.clear(); esz = 1; inl_n = 0; live.clear(); }
	bool resolve(const void *p, int &b, size_t &slot) {
		const char *c = (const char *)p;
		auto it = blocks.upper_bound(c);
		if(it != blocks.begin()) {
			--it;
			if(c < it->first + it->second.bytes) { b = it->second.raw * ninst + it->second.inst; slot = (c - it->first) / esz; return true; }
		}
		for(auto &r : inl)
			if(c >= r.base && c < r.base + r.bytes) { b = 0; slot = r.reg * inl_n + (c - r.base) / esz; return true; }
		return false;
	}
	void note(char k, const void *p) {
		if(!on) return;
		int b; size_t s;
		if(resolve(p, b, s)) { char buf[48]; snprintf(buf, sizeof buf, "%c%d.%zu", k, b, s); ev.push_back(buf); }
	}
	void born(const void *p) { live.insert(p); note('C', p); }
	void died(const void *p) { live.erase(p); note('D', p); }
	// an element is read/moved from/assigned: inside container storage it must be a constructed one
	void use(const void *p, const char *what) {
		int b; size_t s;
		if(resolve(p, b, s) && !live.count(p))
			vh::oracle("raw-read", "%s of slot %d.%zu, which holds no constructed element", what, b, s);
		note('U', p);
	}
	void print_ev() {
		printf("ev");
		for(auto &e : ev) printf(" %s", e.c_str());
		printf("\n");
		ev.clear();
	}
};
inline Tracker T;

// Stateful allocator handle: every instance accounts for the blocks it handed out (the storage itself comes from
// vh::TrackAlloc's registry).  A release names the block as the releasing instance knows it.
struct LogAlloc : vh::TrackAlloc {
	int inst = 0;
	bool arena = true;                // false once the handle has been moved from (like a moved-from shared arena handle)
	LogAlloc() = default;
	explicit LogAlloc(int i) : inst(i) { }
	LogAlloc(const LogAlloc &) = default;
	LogAlloc &operator=(const LogAlloc &) = default;
	LogAlloc(LogAlloc &&o) : inst(o.inst), arena(o.arena) { o.arena = false; }
	LogAlloc &operator=(LogAlloc &&o) { inst = o.inst; arena = o.arena; if(&o != this) o.arena = false; return *this; }
	void live_handle(const char *what) {
		if(!arena) vh::oracle("lifetime", "moved-from-allocator: %s through an allocator handle (instance %d) that has been moved from", what, inst);
	}
	void *allocate(size_t n) {
		live_handle("allocate");
		void *p;
		if(T.align > 16) {          // over-aligned element type: an allocator for such a T hands out blocks aligned for T
			p = ::aligned_alloc(T.align, ((n ? n : 1) + T.align - 1) / T.align * T.align);
			vh::g_alloc.blocks[p] = n; vh::g_alloc.allocs++;
		} else p = vh::TrackAlloc::allocate(n);
		memset(p, 0xA5, n);             // fresh blocks hold junk, never zeroes
		int raw = T.next_id++;
		T.blocks[(const char *)p] = {raw, n, inst};
		if(T.on) { char buf[48]; snprintf(buf, sizeof buf, "A%d:%zu", raw * T.ninst + inst, n); T.ev.push_back(buf); }
		return p;
	}
	// returns the name under which this instance releases the block, -1 if the block is unknown
	int forget(void *p) {
		auto it = T.blocks.find((const char *)p);
		if(it == T.blocks.end()) return -1;
		if(it->second.inst != inst)
			vh::oracle("bad-free", "foreign release: block %d handed out by allocator instance %d is released into instance %d, which never handed it out",
				it->second.raw, it->second.inst, inst);
		int id = it->second.raw * T.ninst + inst; T.blocks.erase(it); return id;
	}
	void deallocate(void *p, size_t n) {
		if(p) live_handle("deallocate");
		if(p) { int id = forget(p); if(T.on) { char buf[48]; snprintf(buf, sizeof buf, "X%d:%zu", id, n); T.ev.push_back(buf); } }
		vh::TrackAlloc::deallocate(p, n);
	}
	void free(void *p) {
		if(p) live_handle("free");
		if(p) { int id = forget(p); if(T.on) { char buf[48]; snprintf(buf, sizeof buf, "F%d", id); T.ev.push_back(buf); } }
		vh::TrackAlloc::free(p);
	}
};

// ---- element with observable copy/move: registers its lifetime (vh::TV), logs events, and reads its
// value through a pointer to itself (like an SSO string), so a bytewise relocation is visible
inline void check_aligned(const void *p, size_t a, const char *what) {
	if((uintptr_t)p % a) vh::oracle("alignment", "%s at an address that is not a multiple of alignof(T) = %zu (address mod %zu = %zu)", what, a, a, (size_t)((uintptr_t)p % a));
}
template<bool Copyable, size_t Align = alignof(vh::TV)>
struct alignas(Align) Elem {
	vh::TV tv;
	const Elem *self;
	Elem() : tv(), self(this) { check_aligned(this, Align, "element constructed"); T.born(this); }
	Elem(uint64_t x) : tv(x), self(this) { check_aligned(this, Align, "element constructed"); T.born(this); }
	Elem(const Elem &o) requires Copyable : tv(o.tv), self(this) { check_aligned(this, Align, "element constructed"); T.use(&o, "copy"); T.born(this); }
	Elem(Elem &&o) : tv(std::move(o.tv)), self(this) { check_aligned(this, Align, "element constructed"); T.use(&o, "move"); T.born(this); }
	Elem &operator=(const Elem &o) requires Copyable { tv = o.tv; T.use(this, "assign-to"); T.use(&o, "assign-from"); return *this; }
	Elem &operator=(Elem &&o) { tv = std::move(o.tv); T.use(this, "assign-to"); T.use(&o, "move-assign-from"); return *this; }
	~Elem() { T.died(this); }
	uint64_t get() const {
		T.use(this, "read");
		tv.get();
		if(self != this) vh::oracle("relocated-bytewise", "element read at an address where it was never constructed");
		return self->tv.v;
	}
	bool operator==(const Elem &o) const { uint64_t a = get(); uint64_t b = o.get(); return a == b; }
};
using TVE = Elem<true>;
using MOE = Elem<false>;
using A64 = Elem<true, 64>;       // over-aligned (alignof > alignof(max_align_t)), copy/move observable
static_assert(alignof(A64) == 64 && sizeof(A64) == 64);

// ---- trivially destructible element with observable copy/move: user-provided copy/move constructors re-point a
// self pointer, there is NO destructor (a cursor / self-registering handle).  is_trivially_destructible, but not
// trivially copyable: relocating it with memcpy leaves the self pointer in the old storage.
struct Cur {
	uint64_t v;
	const Cur *self;
	Cur() : v(0), self(this) { T.born(this); }
	Cur(uint64_t x) : v(x), self(this) { T.born(this); }
	Cur(const Cur &o) : v(o.v), self(this) { o.chk("copied from"); T.use(&o, "copy"); T.born(this); }
	Cur(Cur &&o) : v(o.v), self(this) { o.chk("moved from"); T.use(&o, "move"); T.born(this); }
	Cur &operator=(const Cur &o) { v = o.v; T.use(this, "assign-to"); T.use(&o, "assign-from"); return *this; }
	Cur &operator=(Cur &&o) { v = o.v; T.use(this, "assign-to"); T.use(&o, "move-assign-from"); return *this; }
	void chk(const char *what) const {
		if(self != this) vh::oracle("relocated-bytewise", "element %s at an address where it was never constructed (its self pointer designates other storage)", what);
	}
	uint64_t get() const { T.use(this, "read"); chk("read"); return v; }
	bool operator==(const Cur &o) const { uint64_t a = get(); uint64_t b = o.get(); return a == b; }
};
static_assert(std::is_trivially_destructible_v<Cur> && !std::is_trivially_copyable_v<Cur> && sizeof(Cur) == 16);

// ---- element types whose VALUE-initialisation (T{} / T()) must zero members that default-initialisation leaves alone
// Vi: not trivially default constructible (member with a user-provided default constructor), implicit default constructor,
//     scalar/pointer members without initialisers; value = n, invariant p == nullptr
struct ViTag { uint8_t t; ViTag() : t(7) { } };
struct Vi { ViTag tag; uint64_t n; void *p; bool operator==(const Vi &o) const { return n == o.n; } };
static_assert(!std::is_trivially_default_constructible_v<Vi> && std::is_trivially_copyable_v<Vi> && sizeof(Vi) == 24);
// Pm: trivially default constructible, with a pointer to data member (null is not all-zero bits); value = a, invariant pm == nullptr
struct Pm { uint64_t a; uint64_t Pm::*pm; bool operator==(const Pm &o) const { return a == o.a; } };
static_assert(std::is_trivially_default_constructible_v<Pm> && sizeof(Pm) == 16);

// ---- trivially copyable element types whose operator== is not bytewise equality
// double: code 0 = +0.0, 1 = -0.0, 2 = NaN, 3 = +inf, 4 = -inf, c >= 5 = (double)c
inline double dbl_of(uint64_t c) {
	switch(c) {
	case 0: return 0.0; case 1: return -0.0; case 2: return std::numeric_limits<double>::quiet_NaN();
	case 3: return std::numeric_limits<double>::infinity(); case 4: return -std::numeric_limits<double>::infinity();
	default: return (double)c; }
}
inline uint64_t code_of(double d) {
	if(std::isnan(d)) return 2;
	if(std::isinf(d)) return d > 0 ? 3 : 4;
	if(d == 0) return std::signbit(d) ? 1 : 0;
	return (uint64_t)d;
}
// padded POD compared by key only: code = key * 4 + tag
struct Pod {
	uint8_t tag;
	uint32_t key;
	bool operator==(const Pod &o) const { return key == o.key; }
};
static_assert(std::is_trivially_copyable_v<Pod> && sizeof(Pod) == 8);

// element type with a (count, fill) constructor AND an initializer_list constructor: T(n, x) and T{n, x} differ.
// value code = len * 2^32 + (sum of the elements mod 2^32)
struct Bag {
	uint32_t len = 0, sum = 0;
	Bag() = default;
	Bag(size_t count, uint64_t fill) : len((uint32_t)count), sum((uint32_t)(count * fill)) { }
	Bag(std::initializer_list<uint64_t> il) : len((uint32_t)il.size()) { for(auto v : il) sum += (uint32_t)v; }
	static Bag of(uint64_t c) { Bag b; b.len = (uint32_t)(c >> 32); b.sum = (uint32_t)c; return b; }
	bool operator==(const Bag &) const = default;
};
static_assert(sizeof(Bag) == 8);

template<class X> constexpr bool is_plain = std::is_same_v<X, double> || std::is_same_v<X, Pod> || std::is_same_v<X, Bag> || std::is_same_v<X, Vi> || std::is_same_v<X, Pm>;
template<class X> constexpr bool is_vinit = std::is_same_v<X, Vi> || std::is_same_v<X, Pm>;
template<class X> uint64_t val(const X &x) {
	if constexpr(std::is_same_v<X, uint64_t>) return x;
	else if constexpr(std::is_same_v<X, double>) return code_of(x);
	else if constexpr(std::is_same_v<X, Cur>) return x.get();
	else if constexpr(std::is_same_v<X, Pod>) return (uint64_t)x.key * 4 + x.tag;
	else if constexpr(std::is_same_v<X, Bag>) return ((uint64_t)x.len << 32) | x.sum;
	else if constexpr(std::is_same_v<X, Vi>) {
		if(x.p != nullptr || x.tag.t != 7) vh::oracle("refseq", "element with a pointer member %p / tag %d: std::vector<T>(n) value-initialises (null pointer, constructed tag)", x.p, (int)x.tag.t);
		return x.n;
	} else if constexpr(std::is_same_v<X, Pm>) {
		if(x.pm != nullptr) vh::oracle("refseq", "element whose pointer-to-member is not null: std::vector<T>(n) value-initialises it to null");
		return x.a;
	} else return x.get();
}
template<class X> X mk(uint64_t c) {
	if constexpr(std::is_same_v<X, double>) return dbl_of(c);
	else if constexpr(std::is_same_v<X, Pod>) { Pod p{}; p.tag = (uint8_t)(c % 4); p.key = (uint32_t)(c / 4); return p; }
	else if constexpr(std::is_same_v<X, Bag>) return Bag::of(c);
	else if constexpr(std::is_same_v<X, Vi>) { Vi v{}; v.n = c; return v; }
	else if constexpr(std::is_same_v<X, Pm>) { Pm v{}; v.a = c; return v; }
	else return X(c);
}
template<class X> constexpr bool copyable = std::is_copy_constructible_v<X>;

// what the std:: containers store for emplace_back(n, x) / resize(k, n, x): direct-initialisation T(n, x)
template<class X> uint64_t std_emplace_code(uint64_t n, uint64_t x) {
	std::vector<X> v; v.emplace_back((size_t)n, x); return val(v.back());
}

// the elements [from, to) of a container were value-initialised: they must equal those of std::vector<T>(n)
template<class X, class C> void check_value_init(C &c, size_t from, size_t to, const char *what) {
	if constexpr(is_vinit<X>) {
		std::vector<X> sv(to);
		for(size_t i = from; i < to; i++)
			if(val(c[i]) != val(sv[i]))
				vh::oracle("refseq", "%s: value-initialised element %zu = %llu, std::vector<T>(n) holds %llu", what, i, (unsigned long long)val(c[i]), (unsigned long long)val(sv[i]));
	}
}

// ---- container variables ("registers") in raw storage, so scripts can destroy and re-construct them
template<class C, int K = 3>
struct Regs {
	// K adjacent objects at an address that is aligned for C and for nothing stricter (so that an under-aligned C shows)
	alignas(256) unsigned char store[K * sizeof(C) + 256];
	bool alive[K] = {};
	Regs() { memset(store, 0xA5, sizeof store); }
	unsigned char *base() { return store + (alignof(C) < 256 ? alignof(C) : 0); }
	C &operator[](int i) { return *std::launder(reinterpret_cast<C *>(base() + i * sizeof(C))); }
	void *at(int i) { return base() + i * sizeof(C); }
	~Regs() { for(int i = 0; i < K; i++) if(alive[i]) (*this)[i].~C(); }
};

struct Stop { const char *why; };

static void line(int k, size_t sz, bool em, long cap, const std::vector<uint64_t> &idx, const std::vector<uint64_t> &it,
		bool have_fb, uint64_t fr, uint64_t bk) {
	printf("r%d %zu %d ", k, sz, em ? 1 : 0);
	if(cap < 0) printf("-"); else printf("%ld", cap);
	printf(" |");
	for(auto x : idx) printf(" %llu", (unsigned long long)x);
	printf(idx.empty() ? "  |" : " |");
	for(auto x : it) printf(" %llu", (unsigned long long)x);
	printf(it.empty() ? "  |" : " |");
	if(have_fb) printf(" %llu %llu\n", (unsigned long long)fr, (unsigned long long)bk); else printf(" - -\n");
}

static void check_ref(int k, const char *what, size_t sz, bool em, const std::vector<uint64_t> &idx, const std::vector<uint64_t> &it,
		bool have_fb, uint64_t fr, uint64_t bk, const std::vector<uint64_t> &ref) {
	if(sz != ref.size()) vh::oracle("refseq", "%s r%d: size() = %zu, reference %zu", what, k, sz, ref.size());
	if(em != ref.empty()) vh::oracle("refseq", "%s r%d: empty() = %d but the reference holds %zu element(s)", what, k, (int)em, ref.size());
	if(idx != ref) vh::oracle("refseq", "%s r%d: elements by index differ from the reference", what, k);
	if(it != ref) vh::oracle("refseq", "%s r%d: elements by iteration differ from the reference", what, k);
	if(have_fb && !ref.empty() && (fr != ref.front() || bk != ref.back()))
		vh::oracle("refseq", "%s r%d: front()/back() = %llu/%llu, reference %llu/%llu", what, k,
			(unsigned long long)fr, (unsigned long long)bk, (unsigned long long)ref.front(), (unsigned long long)ref.back());
}

static int R_(const std::string &s) { int r = atoi(s.c_str()); if(r < 0 || r > 2) throw Stop{"badop"}; return r; }

// =============================================================================================== vector
template<class E>
static void run_vec(const vh::Lines &ls) {
	using C = frg::vector<E, LogAlloc>;
	T.esz = sizeof(E); T.align = alignof(E);
	std::vector<uint64_t> ref[3];
	{
	Regs<C> R;
	for(int i = 0; i < 3; i++) { new (R.at(i)) C(LogAlloc(i)); R.alive[i] = true; }
	auto dump = [&]() {
		for(int k = 0; k < 3; k++) {
			C &c = R[k];
			std::vector<uint64_t> idx, it;
			for(size_t i = 0; i < c.size(); i++) { check_aligned(&c[i], alignof(E), "vector element"); idx.push_back(val(c[i])); }
			for(auto p = c.begin(); p != c.end(); ++p) it.push_back(val(*p));
			bool fb = c.size() > 0;
			uint64_t fr = fb ? val(c.front()) : 0, bk = fb ? val(c.back()) : 0;
			line(k, c.size(), c.empty(), (long)c._capacity, idx, it, fb, fr, bk);
			check_ref(k, "vector", c.size(), c.empty(), idx, it, fb, fr, bk, ref[k]);
			if(c.size() > c._capacity) vh::oracle("cap-bound", "vector r%d: size %zu exceeds capacity %zu", k, c.size(), c._capacity);
		}
	};
	for(size_t li = 1; li < ls.size(); li++) {
		auto t = vh::split(ls[li]);
		const std::string &o = t[0];
		std::string out = "o u";
		char ob[64];
		T.ev.clear();
		T.on = true;
		if(o == "push" || o == "pushm" || o == "emplace") {
			int r = R_(t[1]); uint64_t x = vh::u64(t[2]);
			if(o == "push") { if constexpr(copyable<E>) { E tmp = mk<E>(x); R[r].push(tmp); } else throw Stop{"badop"}; }
			else if(o == "pushm") R[r].push(mk<E>(x));
			else if constexpr(is_plain<E>) R[r].emplace_back(mk<E>(x));
			else R[r].emplace_back(x);
			ref[r].push_back(x);
		} else if(o == "emplace2") {      // emplace_back(n, x): constructor arguments are forwarded; std:: stores T(n, x)
			int r = R_(t[1]); uint64_t n = vh::u64(t[2]), x = vh::u64(t[3]);
			if constexpr(std::is_same_v<E, Bag>) { R[r].emplace_back((size_t)n, x); ref[r].push_back(std_emplace_code<E>(n, x)); } else throw Stop{"badop"};
		} else if(o == "resize2") {       // resize(k, n, x): every new element is T(n, x)
			int r = R_(t[1]); size_t k = vh::u64(t[2]); uint64_t n = vh::u64(t[3]), x = vh::u64(t[4]);
			if constexpr(std::is_same_v<E, Bag>) { R[r].resize(k, (size_t)n, x); ref[r].resize(k, std_emplace_code<E>(n, x)); } else throw Stop{"badop"};
		} else if(o == "pop") {
			int r = R_(t[1]);
			if(ref[r].empty()) throw Stop{"ub"};
			E e = R[r].pop();
			T.on = false;
			uint64_t got = val(e);
			snprintf(ob, sizeof ob, "o v %llu", (unsigned long long)got); out = ob;
			if(got != ref[r].back()) vh::oracle("refseq", "vector: pop() returned %llu, reference %llu", (unsigned long long)got, (unsigned long long)ref[r].back());
			ref[r].pop_back();
		} else if(o == "resize") {
			int r = R_(t[1]); size_t n = vh::u64(t[2]);
			size_t old = ref[r].size();
			R[r].resize(n); ref[r].resize(n);
			if(n > old) check_value_init<E>(R[r], old, n, "vector::resize(n)");
		} else if(o == "resizev") {
			int r = R_(t[1]); size_t n = vh::u64(t[2]); uint64_t x = vh::u64(t[3]);
			if constexpr(copyable<E>) { E tmp = mk<E>(x); R[r].resize(n, tmp); } else throw Stop{"badop"};
			ref[r].resize(n, x);
		} else if(o == "clear") {
			int r = R_(t[1]); R[r].clear(); ref[r].clear();
		} else if(o == "detach") {        // detach(): the caller takes the buffer over and releases it by hand
			int r = R_(t[1]);
			E *p = R[r].data(); size_t n = R[r].size();
			LogAlloc a = R[r]._allocator;
			R[r].detach();
			if(R[r].size() != 0 || R[r].data() != nullptr || R[r]._capacity != 0)
				vh::oracle("refseq", "vector: after detach() size = %zu, data() %s null, capacity = %zu (an empty vector without a buffer has capacity 0)",
					R[r].size(), R[r].data() ? "not" : "is", R[r]._capacity);
			for(size_t i = 0; i < n; i++) p[i].~E();
			a.free(p);
			ref[r].clear();
		} else if(o == "front" || o == "back" || o == "idx") {
			int r = R_(t[1]);
			size_t i = o == "idx" ? vh::u64(t[2]) : o == "front" ? 0 : ref[r].size() - 1;
			if(ref[r].empty() || i >= ref[r].size()) throw Stop{"ub"};
			E &e = o == "idx" ? R[r][i] : o == "front" ? R[r].front() : R[r].back();
			T.on = false;
			uint64_t got = val(e);
			snprintf(ob, sizeof ob, "o v %llu", (unsigned long long)got); out = ob;
			if(got != ref[r][i]) vh::oracle("refseq", "vector: %s = %llu, reference %llu", o.c_str(), (unsigned long long)got, (unsigned long long)ref[r][i]);
		} else if(o == "eq") {
			int r = R_(t[1]), s = R_(t[2]);
			bool b = R[r] == R[s];
			T.on = false;
			bool nb = !(R[r] != R[s]);
			out = b ? "o b 1" : "o b 0";
			bool want;
			if constexpr(is_plain<E>) {     // std::vector of the same element type: the element type's own operator==
				std::vector<E> x, y;
				for(auto c : ref[r]) x.push_back(mk<E>(c));
				for(auto c : ref[s]) y.push_back(mk<E>(c));
				want = x == y;
			} else want = ref[r] == ref[s];
			if(b != want || nb != b) vh::oracle("refseq", "vector: operator== = %d, operator!= = %d, but the reference sequences compare %s", (int)b, (int)!nb, want ? "equal" : "unequal");
		} else if(o == "assign") {
			int r = R_(t[1]), s = R_(t[2]);
			if constexpr(copyable<E>) R[r] = R[s]; else throw Stop{"badop"};
			ref[r] = ref[s];
		} else if(o == "massign") {
			int r = R_(t[1]), s = R_(t[2]);
			R[r] = std::move(R[s]);
			if(r != s) { ref[r] = ref[s]; ref[s].clear(); }
		} else if(o == "cctor") {
			int r = R_(t[1]), s = R_(t[2]);
			if(r != s) {
				if constexpr(copyable<E>) { R[r].~C(); R.alive[r] = false; new (R.at(r)) C(R[s]); R.alive[r] = true; } else throw Stop{"badop"};
				ref[r] = ref[s];
			}
		} else if(o == "mctor") {
			int r = R_(t[1]), s = R_(t[2]);
			if(r != s) {
				R[r].~C(); R.alive[r] = false; new (R.at(r)) C(std::move(R[s])); R.alive[r] = true;
				ref[r] = ref[s]; ref[s].clear();
			}
		} else if(o == "swap") {
			int r = R_(t[1]), s = R_(t[2]);
			swap(R[r], R[s]);
			std::swap(ref[r], ref[s]);
		} else throw Stop{"badop"};
		T.on = false;
		printf("%s\n", out.c_str());
		dump();
		T.print_ev();
	}
	printf("fin\n");
	T.ev.clear();
	T.on = true;
	for(int i = 0; i < 3; i++) { R[i].~C(); R.alive[i] = false; }
	T.on = false;
	T.print_ev();
	}
	vh::g_life.check_empty("vector");
	vh::g_alloc.check_empty("vector");
}

// ========================================================================================= small_vector
template<class E, size_t N>
static void run_sv(const vh::Lines &ls) {
	using C = frg::small_vector<E, N, LogAlloc>;
	T.esz = sizeof(E); T.inl_n = N; T.align = alignof(E);
	std::vector<uint64_t> ref[3];
	{
	Regs<C> R;
	for(int i = 0; i < 3; i++) {
		new (R.at(i)) C(LogAlloc(i)); R.alive[i] = true;
		T.inl.push_back({(const char *)&R[i]._array, N * sizeof(E), i});
		check_aligned(&R[i]._array, alignof(E), "inline storage of a small_vector");
	}
	if(alignof(C) < alignof(E)) vh::oracle("alignment", "alignof(small_vector<T, N>) = %zu is smaller than alignof(T) = %zu", alignof(C), alignof(E));
	auto dump = [&]() {
		for(int k = 0; k < 3; k++) {
			C &c = R[k];
			std::vector<uint64_t> idx, it;
			for(size_t i = 0; i < c.size(); i++) { check_aligned(&c[i], alignof(E), "small_vector element"); idx.push_back(val(c[i])); }
			for(auto p = c.begin(); p != c.end(); ++p) it.push_back(val(*p));
			bool fb = c.size() > 0;
			uint64_t fr = fb ? val(c.front()) : 0, bk = fb ? val(c.back()) : 0;
			line(k, c.size(), c.empty(), (long)c._capacity, idx, it, fb, fr, bk);
			check_ref(k, "small_vector", c.size(), c.empty(), idx, it, fb, fr, bk, ref[k]);
			if(c.size() > c._capacity) vh::oracle("cap-bound", "small_vector r%d: size %zu exceeds capacity %zu", k, c.size(), c._capacity);
			if(c._capacity < N) vh::oracle("cap-bound", "small_vector r%d: capacity %zu below the inline capacity", k, c._capacity);
		}
	};
	for(size_t li = 1; li < ls.size(); li++) {
		auto t = vh::split(ls[li]);
		const std::string &o = t[0];
		std::string out = "o u";
		char ob[64];
		T.ev.clear();
		T.on = true;
		if(o == "push" || o == "pushm" || o == "emplace") {
			int r = R_(t[1]); uint64_t x = vh::u64(t[2]);
			if(o == "push") { if constexpr(copyable<E>) { E tmp = mk<E>(x); R[r].push_back(tmp); } else throw Stop{"badop"}; }
			else if(o == "pushm") R[r].push_back(mk<E>(x));
			else if constexpr(is_plain<E>) R[r].emplace_back(mk<E>(x));
			else R[r].emplace_back(x);
			ref[r].push_back(x);
		} else if(o == "emplace2") {
			int r = R_(t[1]); uint64_t n = vh::u64(t[2]), x = vh::u64(t[3]);
			if constexpr(std::is_same_v<E, Bag>) { R[r].emplace_back((size_t)n, x); ref[r].push_back(std_emplace_code<E>(n, x)); } else throw Stop{"badop"};
		} else if(o == "resize2") {
			int r = R_(t[1]); size_t k = vh::u64(t[2]); uint64_t n = vh::u64(t[3]), x = vh::u64(t[4]);
			if constexpr(std::is_same_v<E, Bag>) { R[r].resize(k, (size_t)n, x); ref[r].resize(k, std_emplace_code<E>(n, x)); } else throw Stop{"badop"};
		} else if(o == "pop") {
			int r = R_(t[1]);
			R[r].pop_back();                       // FRG_ASSERT(_size) stops the case when empty
			if(ref[r].empty()) vh::oracle("refseq", "small_vector: pop_back() on an empty vector did not stop");
			else ref[r].pop_back();
		} else if(o == "resize") {
			int r = R_(t[1]); size_t n = vh::u64(t[2]);
			size_t old = ref[r].size();
			R[r].resize(n); ref[r].resize(n);
			if(n > old) check_value_init<E>(R[r], old, n, "small_vector::resize(n)");
		} else if(o == "resizev") {
			int r = R_(t[1]); size_t n = vh::u64(t[2]); uint64_t x = vh::u64(t[3]);
			if constexpr(copyable<E>) { E tmp = mk<E>(x); R[r].resize(n, tmp); } else throw Stop{"badop"};
			ref[r].resize(n, x);
		} else if(o == "front" || o == "back") {
			int r = R_(t[1]);
			E &e = o == "front" ? R[r].front() : R[r].back();    // FRG_ASSERT(_size)
			T.on = false;
			if(ref[r].empty()) { vh::oracle("refseq", "small_vector: %s() on an empty vector did not stop", o.c_str()); throw Stop{"ub"}; }
			uint64_t got = val(e), want = o == "front" ? ref[r].front() : ref[r].back();
			snprintf(ob, sizeof ob, "o v %llu", (unsigned long long)got); out = ob;
			if(got != want) vh::oracle("refseq", "small_vector: %s() = %llu, reference %llu", o.c_str(), (unsigned long long)got, (unsigned long long)want);
		} else if(o == "idx") {
			int r = R_(t[1]); size_t i = vh::u64(t[2]);
			if(i >= ref[r].size()) throw Stop{"ub"};
			E &e = R[r][i];
			T.on = false;
			uint64_t got = val(e);
			snprintf(ob, sizeof ob, "o v %llu", (unsigned long long)got); out = ob;
			if(got != ref[r][i]) vh::oracle("refseq", "small_vector: [%zu] = %llu, reference %llu", i, (unsigned long long)got, (unsigned long long)ref[r][i]);
		} else if(o == "cctor") {
			int r = R_(t[1]), s = R_(t[2]);
			if(r != s) {
				if constexpr(copyable<E>) { R[r].~C(); R.alive[r] = false; new (R.at(r)) C(R[s]); R.alive[r] = true; } else throw Stop{"badop"};
				ref[r] = ref[s];
			}
		} else if(o == "mctor") {
			int r = R_(t[1]), s = R_(t[2]);
			if(r != s) {
				R[r].~C(); R.alive[r] = false; new (R.at(r)) C(std::move(R[s])); R.alive[r] = true;
				ref[r] = ref[s]; ref[s].clear();
			}
		} else if(o == "swap") {
			int r = R_(t[1]), s = R_(t[2]);
			swap(R[r], R[s]);
			std::swap(ref[r], ref[s]);
		} else throw Stop{"badop"};
		T.on = false;
		printf("%s\n", out.c_str());
		dump();
		T.print_ev();
	}
	printf("fin\n");
	T.ev.clear();
	T.on = true;
	for(int i = 0; i < 3; i++) { R[i].~C(); R.alive[i] = false; }
	T.on = false;
	T.print_ev();
	}
	vh::g_life.check_empty("small_vector");
	vh::g_alloc.check_empty("small_vector");
}

// ============================================================================================ dyn_array
template<class E>
static void run_dyn(const vh::Lines &ls) {
	using C = frg::dyn_array<E, LogAlloc>;
	T.esz = sizeof(E);
	std::vector<uint64_t> ref[3];
	{
	Regs<C> R;
	for(int i = 0; i < 3; i++) { new (R.at(i)) C(LogAlloc(i)); R.alive[i] = true; }
	auto dump = [&]() {
		for(int k = 0; k < 3; k++) {
			C &c = R[k];
			std::vector<uint64_t> idx, it;
			for(size_t i = 0; i < c.size(); i++) idx.push_back(val(c[i]));
			for(auto p = c.begin(); p != c.end(); ++p) it.push_back(val(*p));
			bool fb = c.size() > 0;
			uint64_t fr = fb ? val(*c.begin()) : 0, bk = fb ? val(*(c.end() - 1)) : 0;
			line(k, c.size(), c.empty(), -1, idx, it, fb, fr, bk);
			check_ref(k, "dyn_array", c.size(), c.empty(), idx, it, fb, fr, bk, ref[k]);
		}
	};
	for(size_t li = 1; li < ls.size(); li++) {
		auto t = vh::split(ls[li]);
		const std::string &o = t[0];
		std::string out = "o u";
		char ob[64];
		T.ev.clear();
		T.on = true;
		if(o == "make") {
			int r = R_(t[1]); size_t n = vh::u64(t[2]);
			LogAlloc a = R[r].allocator_; R[r].~C(); R.alive[r] = false; new (R.at(r)) C(n, a); R.alive[r] = true;
			ref[r].assign(n, 0);
			check_value_init<E>(R[r], 0, n, "dyn_array(n)");
		} else if(o == "default") {
			int r = R_(t[1]);
			LogAlloc a = R[r].allocator_; R[r].~C(); R.alive[r] = false; new (R.at(r)) C(a); R.alive[r] = true;
			ref[r].clear();
		} else if(o == "set") {
			int r = R_(t[1]); size_t i = vh::u64(t[2]); uint64_t x = vh::u64(t[3]);
			if(i >= ref[r].size()) throw Stop{"ub"};
			R[r][i] = mk<E>(x);
			ref[r][i] = x;
		} else if(o == "idx") {
			int r = R_(t[1]); size_t i = vh::u64(t[2]);
			if(i >= ref[r].size()) throw Stop{"ub"};
			const C &cc = R[r];
			const E &e = cc[i];
			T.on = false;
			uint64_t got = val(e);
			snprintf(ob, sizeof ob, "o v %llu", (unsigned long long)got); out = ob;
			if(got != ref[r][i]) vh::oracle("refseq", "dyn_array: [%zu] = %llu, reference %llu", i, (unsigned long long)got, (unsigned long long)ref[r][i]);
		} else if(o == "empty") {
			int r = R_(t[1]);
			bool b = R[r].empty();
			out = b ? "o b 1" : "o b 0";
			if(b != ref[r].empty()) vh::oracle("refseq", "dyn_array: empty() = %d for an array of %zu element(s)", (int)b, ref[r].size());
		} else if(o == "assign") {
			int r = R_(t[1]), s = R_(t[2]);
			if constexpr(copyable<E>) R[r] = R[s]; else throw Stop{"badop"};
			ref[r] = ref[s];
		} else if(o == "massign") {
			int r = R_(t[1]), s = R_(t[2]);
			R[r] = std::move(R[s]);
			if(r != s) { ref[r] = ref[s]; ref[s].clear(); }
		} else if(o == "cctor") {
			int r = R_(t[1]), s = R_(t[2]);
			if(r != s) {
				if constexpr(copyable<E>) { R[r].~C(); R.alive[r] = false; new (R.at(r)) C(R[s]); R.alive[r] = true; } else throw Stop{"badop"};
				ref[r] = ref[s];
			}
		} else if(o == "mctor") {
			int r = R_(t[1]), s = R_(t[2]);
			if(r != s) {
				R[r].~C(); R.alive[r] = false; new (R.at(r)) C(std::move(R[s])); R.alive[r] = true;
				ref[r] = ref[s]; ref[s].clear();
			}
		} else if(o == "swap") {
			int r = R_(t[1]), s = R_(t[2]);
			swap(R[r], R[s]);
			std::swap(ref[r], ref[s]);
		} else throw Stop{"badop"};
		T.on = false;
		printf("%s\n", out.c_str());
		dump();
		T.print_ev();
	}
	printf("fin\n");
	T.ev.clear();
	T.on = true;
	for(int i = 0; i < 3; i++) { R[i].~C(); R.alive[i] = false; }
	T.on = false;
	T.print_ev();
	}
	vh::g_life.check_empty("dyn_array");
	vh::g_alloc.check_empty("dyn_array");
}

// ================================================================================================ stack
template<class E>
static void run_stack(const vh::Lines &ls) {
	using C = frg::stack<E, LogAlloc>;
	T.esz = sizeof(E);
	std::deque<uint64_t> ref;
	{
	C s;
	auto dump = [&]() {
		std::vector<uint64_t> idx, it, rv(ref.begin(), ref.end());
		for(size_t i = 0; i < s.size(); i++) idx.push_back(val(s._container[i]));
		for(auto p = s._container.begin(); p != s._container.end(); ++p) it.push_back(val(*p));
		bool fb = s.size() > 0;
		uint64_t fr = fb ? val(s._container.front()) : 0, bk = fb ? val(s.top()) : 0;
		line(0, s.size(), s.empty(), (long)s._container._capacity, idx, it, fb, fr, bk);
		check_ref(0, "stack", s.size(), s.empty(), idx, it, fb, fr, bk, rv);
	};
	for(size_t li = 1; li < ls.size(); li++) {
		auto t = vh::split(ls[li]);
		const std::string &o = t[0];
		std::string out = "o u";
		char ob[64];
		T.ev.clear();
		T.on = true;
		if(o == "push") {
			uint64_t x = vh::u64(t[1]);
			if constexpr(copyable<E>) { E tmp = mk<E>(x); s.push(tmp); } else throw Stop{"badop"};
			ref.push_back(x);
		} else if(o == "emplace") {
			uint64_t x = vh::u64(t[1]);
			if constexpr(is_plain<E>) s.emplace(mk<E>(x)); else s.emplace(x);
			ref.push_back(x);
		} else if(o == "emplace2") {      // stack::emplace(n, x) forwards to the container's emplace_back
			uint64_t n = vh::u64(t[1]), x = vh::u64(t[2]);
			if constexpr(std::is_same_v<E, Bag>) { s.emplace((size_t)n, x); ref.push_back(std_emplace_code<E>(n, x)); } else throw Stop{"badop"};
		} else if(o == "pop") {
			if(ref.empty()) throw Stop{"ub"};
			s.pop(); ref.pop_back();
		} else if(o == "top") {
			if(ref.empty()) throw Stop{"ub"};
			E &e = s.top();
			T.on = false;
			uint64_t got = val(e);
			snprintf(ob, sizeof ob, "o v %llu", (unsigned long long)got); out = ob;
			if(got != ref.back()) vh::oracle("refseq", "stack: top() = %llu, reference %llu", (unsigned long long)got, (unsigned long long)ref.back());
		} else throw Stop{"badop"};
		T.on = false;
		printf("%s\n", out.c_str());
		dump();
		T.print_ev();
	}
	printf("fin\n");
	T.ev.clear();
	T.on = true;
	}
	T.on = false;
	T.print_ev();
	vh::g_life.check_empty("stack");
	vh::g_alloc.check_empty("stack");
}

// ============================================================================================ frg::list
template<class E>
static void run_list(const vh::Lines &ls) {
	using C = frg::list<E, LogAlloc>;
	T.esz = sizeof(typename C::item);
	T.ninst = 1;                      // a single list on instance 0: blocks keep their allocation numbers
	std::list<uint64_t> ref;
	{
	Regs<C, 1> R;
	new (R.at(0)) C(); R.alive[0] = true;
	C &l = R[0];
	auto dump = [&]() {
		std::vector<uint64_t> it, rv(ref.begin(), ref.end());
		size_t steps = 0;
		for(auto p = l.items_.begin(); p != l.items_.end(); ++p) {
			it.push_back(val((*p)->object));
			if(++steps > ref.size() + 8) { vh::oracle("refseq", "list: iteration does not terminate"); break; }
		}
		bool fb = !it.empty();
		uint64_t fr = 0, bk = fb ? it.back() : 0;
		if(!ref.empty() && !l.empty()) fr = val(l.front());
		line(0, it.size(), l.empty(), -1, it, it, fb, fr, bk);
		check_ref(0, "list", it.size(), l.empty(), it, it, fb, fr, bk, rv);
	};
	for(size_t li = 1; li < ls.size(); li++) {
		auto t = vh::split(ls[li]);
		const std::string &o = t[0];
		std::string out = "o u";
		char ob[64];
		T.ev.clear();
		T.on = true;
		if(o == "emplace") {
			uint64_t x = vh::u64(t[1]);
			if constexpr(is_plain<E>) l.emplace_back(mk<E>(x)); else l.emplace_back(x);
			ref.push_back(x);
		} else if(o == "emplace2") {      // list::emplace_back(n, x): construct<item>(allocator, n, x)
			uint64_t n = vh::u64(t[1]), x = vh::u64(t[2]);
			if constexpr(std::is_same_v<E, Bag>) { l.emplace_back((size_t)n, x); ref.push_back(std_emplace_code<E>(n, x)); } else throw Stop{"badop"};
		} else if(o == "pop") {
			if(ref.empty()) throw Stop{"ub"};
			l.pop_front(); ref.pop_front();
		} else if(o == "front") {
			if(ref.empty()) throw Stop{"ub"};
			E &e = l.front();
			T.on = false;
			uint64_t got = val(e);
			snprintf(ob, sizeof ob, "o v %llu", (unsigned long long)got); out = ob;
			if(got != ref.front()) vh::oracle("refseq", "list: front() = %llu, reference %llu", (unsigned long long)got, (unsigned long long)ref.front());
		} else if(o == "empty") {
			bool b = l.empty();
			out = b ? "o b 1" : "o b 0";
			if(b != ref.empty()) vh::oracle("refseq", "list: empty() = %d, reference holds %zu", (int)b, ref.size());
		} else throw Stop{"badop"};
		T.on = false;
		printf("%s\n", out.c_str());
		dump();
		T.print_ev();
	}
	printf("fin\n");
	T.ev.clear();
	T.on = true;
	l.~C(); R.alive[0] = false;
	T.on = false;
	T.print_ev();
	}
	vh::g_life.check_empty("list");
	vh::g_alloc.check_empty("list");
}

// ======================================================================================= intrusive_list
struct Obj {
	int id = 0;
	frg::default_list_hook<Obj> hook;
};
using IL = frg::intrusive_list<Obj, frg::locate_member<Obj, frg::default_list_hook<Obj>, &Obj::hook>>;
static const int NOBJ = 6;

static void run_ilist(const vh::Lines &ls) {
	Obj objs[NOBJ + 1];
	for(int i = 0; i <= NOBJ; i++) objs[i].id = i;
	IL L[2];
	std::list<int> ref[2];
	auto idof = [&](Obj *p) { return p ? p->id : 0; };
	auto in_ref = [&](int l, int x) { return std::find(ref[l].begin(), ref[l].end(), x) != ref[l].end(); };
	auto foreign = [&](int l, int x) { return x != 0 && in_ref(1 - l, x); };
	auto show = [&](const std::vector<int> &v, bool cyc) {
		if(cyc) { printf("cycle"); return; }
		for(size_t i = 0; i < v.size(); i++) printf(i ? " %d" : "%d", v[i]);
	};
	auto dump = [&]() {
		for(int l = 0; l < 2; l++) {
			std::vector<int> fw, bw; bool cf = false, cb = false;
			for(auto it = L[l].begin(); it != L[l].end(); ++it) {
				if(fw.size() >= 8) { cf = true; break; }
				fw.push_back(idof(*it));
			}
			for(Obj *p = L[l].back(); p; p = p->hook.previous) {
				if(bw.size() >= 8) { cb = true; break; }
				bw.push_back(idof(p));
			}
			// the same walk with post-increment: `old = it++` must designate the position BEFORE the step
			{
				std::vector<int> pw; size_t steps = 0;
				for(auto it = L[l].begin(); it != L[l].end() && steps < 8; steps++) {
					auto old = it++;
					pw.push_back(idof(*old));
					if(old == it) { vh::oracle("reflist", "intrusive_list %d: it++ returned the advanced position", l); break; }
				}
				if(!cf && pw != fw) vh::oracle("reflist", "intrusive_list %d: the positions returned by it++ are not the positions visited by ++it", l);
			}
			printf("L%d f=%d b=%d e=%d fw=[", l, idof(L[l].front()), idof(L[l].back()), L[l].empty() ? 1 : 0);
			show(fw, cf); printf("] bw=["); show(bw, cb); printf("]\n");
			// oracle: std::list reference
			std::vector<int> want(ref[l].begin(), ref[l].end()), rwant(ref[l].rbegin(), ref[l].rend());
			if(cf || fw != want) vh::oracle("reflist", "intrusive_list %d: forward iteration differs from the reference", l);
			if(cb || bw != rwant) vh::oracle("reflist", "intrusive_list %d: walk over the back links is not the reverse of the reference", l);
			if(L[l].empty() != ref[l].empty()) vh::oracle("reflist", "intrusive_list %d: empty() disagrees with the reference", l);
			if(idof(L[l].front()) != (want.empty() ? 0 : want.front()) || idof(L[l].back()) != (want.empty() ? 0 : want.back()))
				vh::oracle("reflist", "intrusive_list %d: front()/back() disagree with the reference", l);
		}
		printf("h");
		for(int x = 1; x <= NOBJ; x++) {
			auto &h = objs[x].hook;
			printf(" %d:%d,%d,%d", x, idof(h.next), idof(h.previous), h.in_list ? 1 : 0);
			bool member = in_ref(0, x) || in_ref(1, x);
			if(h.in_list != member) vh::oracle("reflist", "object %d: in_list = %d but the reference says %s", x, (int)h.in_list, member ? "member" : "not a member");
			if(!member && (h.next || h.previous)) vh::oracle("reflist", "object %d is in no list but its hook is not null", x);
		}
		printf("\n");
	};
	auto P = [&](const std::string &s) -> Obj * { int x = atoi(s.c_str()); if(x < 0 || x > NOBJ) throw Stop{"badop"}; return x ? &objs[x] : nullptr; };
	auto Lx = [&](const std::string &s) { int l = atoi(s.c_str()); if(l < 0 || l > 1) throw Stop{"badop"}; return l; };
	for(size_t li = 1; li < ls.size(); li++) {
		auto t = vh::split(ls[li]);
		const std::string &o = t[0];
		std::string out = "o u";
		char ob[64];
		if(o == "pf") {
			int l = Lx(t[1]); Obj *x = P(t[2]);
			L[l].push_front(x); ref[l].push_front(idof(x));
		} else if(o == "pb") {
			int l = Lx(t[1]); Obj *x = P(t[2]);
			L[l].push_back(x); ref[l].push_back(idof(x));
		} else if(o == "ins") {
			int l = Lx(t[1]); Obj *b = P(t[2]); Obj *x = P(t[3]);
			if(foreign(l, idof(b))) throw Stop{"pre"};
			L[l].insert(b ? L[l].iterator_to(b) : L[l].end(), x);
			ref[l].insert(b ? std::find(ref[l].begin(), ref[l].end(), idof(b)) : ref[l].end(), idof(x));
		} else if(o == "erase") {
			int l = Lx(t[1]); Obj *x = P(t[2]);
			if(!x || foreign(l, idof(x))) throw Stop{"pre"};
			Obj *e = L[l].erase(L[l].iterator_to(x));
			snprintf(ob, sizeof ob, "o v %d", idof(e)); out = ob;
			if(e != x) vh::oracle("reflist", "erase returned another object");
			ref[l].remove(idof(x));
		} else if(o == "popf" || o == "popb") {
			int l = Lx(t[1]);
			if(ref[l].empty()) throw Stop{"pre"};
			Obj *e = o == "popf" ? L[l].pop_front() : L[l].pop_back();
			int want = o == "popf" ? ref[l].front() : ref[l].back();
			snprintf(ob, sizeof ob, "o v %d", idof(e)); out = ob;
			if(idof(e) != want) vh::oracle("reflist", "%s returned %d, reference %d", o.c_str(), idof(e), want);
			if(o == "popf") ref[l].pop_front(); else ref[l].pop_back();
		} else if(o == "clear") {
			int l = Lx(t[1]);
			L[l].clear(); ref[l].clear();
		} else if(o == "filter") {        // erase-while-iterating: erase(it++) for the elements whose id has parity p
			int l = Lx(t[1]); int p = atoi(t[2].c_str()) & 1;
			size_t guard = 0;
			for(auto it = L[l].begin(); it != L[l].end() && guard < 16; guard++) {
				if((idof(*it) & 1) == p) L[l].erase(it++); else ++it;
			}
			for(auto r = ref[l].begin(); r != ref[l].end();) { if((*r & 1) == p) ref[l].erase(r++); else ++r; }
		} else if(o == "splice") {
			int l = Lx(t[1]), m = Lx(t[2]);
			if(l == m) throw Stop{"pre"};
			L[l].splice(L[l].end(), L[m]);
			ref[l].splice(ref[l].end(), ref[m]);
		} else throw Stop{"badop"};
		printf("%s\n", out.c_str());
		dump();
	}
}

} // namespace sq

static void body(const vh::Lines &ls) {
	using namespace sq;
	T.reset();
	if(ls.empty()) return;
	auto t = vh::split(ls[0]);
	std::string cont = t.size() > 1 ? t[1] : "vec", elem = t.size() > 2 ? t[2] : "int";
	int n = t.size() > 3 ? atoi(t[3].c_str()) : 4;
	size_t es = (elem == "int" || elem == "dbl" || elem == "pod" || elem == "bag") ? sizeof(uint64_t) : elem == "a64" ? sizeof(A64) : (elem == "cur" || elem == "pm") ? 16 : sizeof(TVE);
	if(cont == "list") es += sizeof(frg::default_list_hook<int>);
	printf("hdr %s %s esz=%zu\n", cont.c_str(), elem.c_str(), es);
	try {
		if(cont == "vec") { if(elem == "int") run_vec<uint64_t>(ls); else if(elem == "dbl") run_vec<double>(ls); else if(elem == "pod") run_vec<Pod>(ls); else if(elem == "bag") run_vec<Bag>(ls); else if(elem == "a64") run_vec<A64>(ls); else if(elem == "cur") run_vec<Cur>(ls); else if(elem == "vi") run_vec<Vi>(ls); else if(elem == "pm") run_vec<Pm>(ls); else if(elem == "tv") run_vec<TVE>(ls); else run_vec<MOE>(ls); }
		else if(cont == "sv") {
			if(n == 2) { if(elem == "int") run_sv<uint64_t, 2>(ls); else if(elem == "bag") run_sv<Bag, 2>(ls); else if(elem == "a64") run_sv<A64, 2>(ls); else if(elem == "cur") run_sv<Cur, 2>(ls); else if(elem == "vi") run_sv<Vi, 2>(ls); else if(elem == "pm") run_sv<Pm, 2>(ls); else if(elem == "tv") run_sv<TVE, 2>(ls); else run_sv<MOE, 2>(ls); }
			else { if(elem == "int") run_sv<uint64_t, 4>(ls); else if(elem == "bag") run_sv<Bag, 4>(ls); else if(elem == "a64") run_sv<A64, 4>(ls); else if(elem == "cur") run_sv<Cur, 4>(ls); else if(elem == "vi") run_sv<Vi, 4>(ls); else if(elem == "pm") run_sv<Pm, 4>(ls); else if(elem == "tv") run_sv<TVE, 4>(ls); else run_sv<MOE, 4>(ls); }
		}
		else if(cont == "dyn") { if(elem == "int") run_dyn<uint64_t>(ls); else if(elem == "cur") run_dyn<Cur>(ls); else if(elem == "vi") run_dyn<Vi>(ls); else if(elem == "pm") run_dyn<Pm>(ls); else if(elem == "tv") run_dyn<TVE>(ls); else run_dyn<MOE>(ls); }
		else if(cont == "stack") { if(elem == "int") run_stack<uint64_t>(ls); else if(elem == "bag") run_stack<Bag>(ls); else if(elem == "cur") run_stack<Cur>(ls); else if(elem == "tv") run_stack<TVE>(ls); else run_stack<MOE>(ls); }
		else if(cont == "list") { if(elem == "int") run_list<uint64_t>(ls); else if(elem == "bag") run_list<Bag>(ls); else if(elem == "tv") run_list<TVE>(ls); else run_list<MOE>(ls); }
		else if(cont == "ilist") run_ilist(ls);
		else printf("badtype\n");
	} catch(Stop &s) {
		T.on = false;
		printf("%s\n", s.why);
	}
	T.on = false;
}

int main() { return vh::run(body); }
