(* driver for the extracted sequence-container models: same scripts and the same canonical lines as
   comp/seq/harness.cpp.  First line of a case: "type <vec|sv|dyn|stack|list|ilist> <int|tv|mo> [N]". *)
let nat = nat_of_int
let ios = int_of_string
let nos = n_of_string
let nregs_i = 3
let n_elems = 6          (* objects available to the intrusive lists: ids 1..6 *)
let ifuel = nat 8

exception Stop of string

(* Bag: the value code of T(n, x) -- direct-initialisation, which is what emplace_back(n, x) / resize(k, n, x) of the
   std:: containers perform: n copies of x; code = len * 2^32 + (sum mod 2^32), as in comp/seq/harness.cpp *)
let bag_paren (n : string) (x : string) : n =
  let n = Int64.of_string ("0u" ^ n) and x = Int64.of_string ("0u" ^ x) in
  let m32 = 0xFFFFFFFFL in
  n_of_i64 (Int64.logor (Int64.shift_left (Int64.logand n m32) 32) (Int64.logand (Int64.mul n x) m32))

(* the element type's operator== on value codes, as in comp/seq/harness.cpp (dbl_of / Pod) *)
let dbl_of (c : int64) : float =
  if c = 0L then 0.0 else if c = 1L then (-0.0) else if c = 2L then nan
  else if c = 3L then infinity else if c = 4L then neg_infinity else Int64.to_float c
let veq_of elem : n -> n -> bool =
  match elem with
  | "dbl" -> (fun a b -> dbl_of (i64_of_n a) = dbl_of (i64_of_n b))        (* IEEE: nan <> nan, 0.0 = -0.0 *)
  | "pod" -> (fun a b -> Int64.unsigned_div (i64_of_n a) 4L = Int64.unsigned_div (i64_of_n b) 4L)
  | _ -> (fun a b -> Int64.equal (i64_of_n a) (i64_of_n b))

let get = function
  | Ok a -> a
  | AssertStop -> raise (Stop "assert")
  | UB -> raise (Stop "ub")
  | OutOfFuel -> raise (Stop "fuel")

let show_out = function
  | OUnit -> "o u"
  | OVal v -> "o v " ^ string_of_n v
  | OBool b -> if b then "o b 1" else "o b 0"

let show_ev tracked e =
  let o (b, s) = string_of_int (int_of_nat b) ^ "." ^ string_of_int (int_of_nat s) in
  match e with
  | EAlloc (b, n) -> Some ("A" ^ string_of_int (int_of_nat b) ^ ":" ^ string_of_n n)
  | EDealloc (b, n) -> Some ("X" ^ string_of_int (int_of_nat b) ^ ":" ^ string_of_n n)
  | EFree b -> Some ("F" ^ string_of_int (int_of_nat b))
  | EConstruct x -> if tracked then Some ("C" ^ o x) else None
  | EDestroy x -> if tracked then Some ("D" ^ o x) else None
  | EUse x -> if tracked then Some ("U" ^ o x) else None

let nodtor_flag = ref false
let print_evs tracked evs =
  let keep e = match e with EDestroy _ -> not !nodtor_flag | _ -> true in
  print_string ("ev" ^ String.concat "" (List.map (fun e -> match (if keep e then show_ev tracked e else None) with Some s -> " " ^ s | None -> "") evs) ^ "\n")

let show_slot = function Some v -> string_of_n v | None -> "raw"
let show_slots l = String.concat " " (List.map show_slot l)

(* one register line: "r<k> <size> <empty> <cap> | <by index> | <by iteration> | <front> <back>" *)
let reg_line k sz em cap (elems : n option list) =
  let s = show_slots elems in
  let fr, bk = match elems with
    | [] -> "-", "-"
    | _ -> show_slot (List.hd elems), show_slot (List.nth elems (List.length elems - 1)) in
  Printf.printf "r%d %d %d %s | %s | %s | %s %s\n" k sz (if em then 1 else 0) cap s s fr bk

let elem_size cont elem =
  let e = if elem = "int" || elem = "dbl" || elem = "pod" || elem = "bag" then 8 else if elem = "a64" then 64
          else if elem = "cur" || elem = "pm" then 16 else 24 in
  if cont = "list" then e + 24 else e

let body lines =
  match lines with
  | [] -> ()
  | hd :: ops ->
    let cont, elem, ni = match words hd with
      | ["type"; c; e] -> c, e, 4
      | ["type"; c; e; n] -> c, e, ios n
      | _ -> "vec", "int", 4 in
    let tracked = elem = "tv" || elem = "mo" || elem = "a64" || elem = "cur" in
    nodtor_flag := (elem = "cur");       (* no destructor: destroy events are not observable *)
    let veq = veq_of elem in
    let esz_i = elem_size cont elem in
    let esz = n_of_i64 (Int64.of_int esz_i) in
    Printf.printf "hdr %s %s esz=%d\n" cont elem esz_i;
    (try
      (match cont with
      | "vec" ->
        let st = ref vst0 in
        let dump () = for k = 0 to nregs_i - 1 do
            let v = regs !st (nat k) in
            reg_line k (int_of_nat (size v)) (empty v) (string_of_int (int_of_nat (v_cap v))) (iterate v) done in
        List.iter (fun l ->
          let o = match words l with
            | ["push"; r; x] -> VPush (nat (ios r), nos x)
            | ["pushm"; r; x] -> VPushMove (nat (ios r), nos x)
            | ["emplace"; r; x] -> VEmplace (nat (ios r), nos x)
            | ["emplace2"; r; n; x] -> VEmplace (nat (ios r), bag_paren n x)
            | ["resize2"; r; k; n; x] -> VResize (nat (ios r), nat (ios k), bag_paren n x)
            | ["pop"; r] -> VPop (nat (ios r))
            | ["resize"; r; n] -> VResize (nat (ios r), nat (ios n), N0)
            | ["resizev"; r; n; x] -> VResize (nat (ios r), nat (ios n), nos x)
            | ["clear"; r] -> VClear (nat (ios r))
            | ["front"; r] -> VFront (nat (ios r))
            | ["back"; r] -> VBack (nat (ios r))
            | ["idx"; r; i] -> VIndex (nat (ios r), nat (ios i))
            | ["eq"; r; s] -> VEq (nat (ios r), nat (ios s))
            | ["assign"; r; s] -> VAssign (nat (ios r), nat (ios s))
            | ["massign"; r; s] -> VMoveAssign (nat (ios r), nat (ios s))
            | ["cctor"; r; s] -> VCopyCtor (nat (ios r), nat (ios s))
            | ["mctor"; r; s] -> VMoveCtor (nat (ios r), nat (ios s))
            | ["swap"; r; s] -> VSwap (nat (ios r), nat (ios s))
            | ["detach"; _] -> VClear (nat 0)      (* placeholder, handled below *)
            | _ -> raise (Stop ("badop " ^ l)) in
          let ((st1, out), evs) =
            (match words l with
             | ["detach"; r] ->
               (* detach() + release of the buffer by the caller = what the destructor does, then an empty vector
                  (size 0, capacity 0, null buffer) on the same allocator instance *)
               let r = nat (ios r) in
               let evs = get (destruct (!st.als r) (!st.regs r)) in
               (({ regs = set_reg !st.regs r vec_empty; als = !st.als; nextb = !st.nextb }, OUnit), evs)
             | _ -> get (vstep esz veq !st o)) in
          st := st1;
          print_string (show_out out ^ "\n"); dump (); print_evs tracked evs) ops;
        print_string "fin\n"; print_evs tracked (get (vfinish !st))
      | "sv" ->
        let nI = nat ni in
        let st = ref (sst0 nI) in
        let dump () = for k = 0 to nregs_i - 1 do
            let v = sregs !st (nat k) in
            reg_line k (int_of_nat (sv_size v)) (sv_is_empty v) (string_of_int (int_of_nat (s_cap v))) (sv_iterate nI v) done in
        List.iter (fun l ->
          let o = match words l with
            | ["push"; r; x] -> SPush (nat (ios r), nos x)
            | ["pushm"; r; x] -> SPushMove (nat (ios r), nos x)
            | ["emplace"; r; x] -> SEmplace (nat (ios r), nos x)
            | ["emplace2"; r; n; x] -> SEmplace (nat (ios r), bag_paren n x)
            | ["resize2"; r; k; n; x] -> SResize (nat (ios r), nat (ios k), bag_paren n x)
            | ["pop"; r] -> SPop (nat (ios r))
            | ["resize"; r; n] -> SResize (nat (ios r), nat (ios n), N0)
            | ["resizev"; r; n; x] -> SResize (nat (ios r), nat (ios n), nos x)
            | ["front"; r] -> SFront (nat (ios r))
            | ["back"; r] -> SBack (nat (ios r))
            | ["idx"; r; i] -> SIndex (nat (ios r), nat (ios i))
            | ["cctor"; r; s] -> SCopyCtor (nat (ios r), nat (ios s))
            | ["mctor"; r; s] -> SMoveCtor (nat (ios r), nat (ios s))
            | ["swap"; r; s] -> SSwap (nat (ios r), nat (ios s))
            | _ -> raise (Stop ("badop " ^ l)) in
          let ((st1, out), evs) = get (sstep esz nI !st o) in
          st := st1;
          print_string (show_out out ^ "\n"); dump (); print_evs tracked evs) ops;
        print_string "fin\n"; print_evs tracked (get (sfinish esz nI !st))
      | "dyn" ->
        let st = ref dst0 in
        let dump () = for k = 0 to nregs_i - 1 do
            let v = dregs !st (nat k) in
            reg_line k (int_of_nat (da_size v)) (da_empty v) "-" (da_iterate v) done in
        List.iter (fun l ->
          let o = match words l with
            | ["make"; r; n] -> DMake (nat (ios r), nat (ios n))
            | ["default"; r] -> DDefault (nat (ios r))
            | ["set"; r; i; x] -> DSet (nat (ios r), nat (ios i), nos x)
            | ["idx"; r; i] -> DIndex (nat (ios r), nat (ios i))
            | ["empty"; r] -> DEmpty (nat (ios r))
            | ["assign"; r; s] -> DAssign (nat (ios r), nat (ios s))
            | ["massign"; r; s] -> DMoveAssign (nat (ios r), nat (ios s))
            | ["cctor"; r; s] -> DCopyCtor (nat (ios r), nat (ios s))
            | ["mctor"; r; s] -> DMoveCtor (nat (ios r), nat (ios s))
            | ["swap"; r; s] -> DSwap (nat (ios r), nat (ios s))
            | _ -> raise (Stop ("badop " ^ l)) in
          let ((st1, out), evs) = get (dstep esz !st o) in
          st := st1;
          print_string (show_out out ^ "\n"); dump (); print_evs tracked evs) ops;
        print_string "fin\n"; print_evs tracked (get (dfinish esz !st))
      | "stack" ->
        let st = ref (stk_empty, nat 1) in
        let dump () =
          let s = fst !st in
          reg_line 0 (int_of_nat (stk_size s)) (stk_is_empty s) (string_of_int (int_of_nat (v_cap (container s)))) (iterate (container s)) in
        List.iter (fun l ->
          let o = match words l with
            | ["push"; x] -> KPush (nos x)
            | ["emplace"; x] -> KEmplace (nos x)
            | ["emplace2"; n; x] -> KEmplace (bag_paren n x)
            | ["pop"] -> KPop
            | ["top"] -> KTop
            | _ -> raise (Stop ("badop " ^ l)) in
          let ((st1, out), evs) = get (kstep esz !st o) in
          st := st1;
          print_string (show_out out ^ "\n"); dump (); print_evs tracked evs) ops;
        print_string "fin\n"; print_evs tracked (get (kfinish !st))
      | "list" ->
        let st = ref (fl_empty, nat 1) in
        let dump () =
          let l = fst !st in
          let el = List.map (fun (_, x) -> Some x) (items l) in
          reg_line 0 (List.length el) (fl_is_empty l) "-" el in
        List.iter (fun l ->
          let o = match words l with
            | ["emplace"; x] -> LEmplaceBack (nos x)
            | ["emplace2"; n; x] -> LEmplaceBack (bag_paren n x)
            | ["pop"] -> LPopFront
            | ["front"] -> LFront
            | ["empty"] -> LEmpty
            | _ -> raise (Stop ("badop " ^ l)) in
          let ((st1, out), evs) = get (lstep esz !st o) in
          st := st1;
          print_string (show_out out ^ "\n"); dump (); print_evs tracked evs) ops;
        print_string "fin\n"; print_evs tracked (lfinish esz !st)
      | "ilist" ->
        let st = ref ist0 in
        let wk f p = match f ifuel (hooks !st) p with
          | Ok l -> String.concat " " (List.map (fun x -> string_of_int (int_of_nat x)) l)
          | _ -> "cycle" in
        let members l = match walk ifuel (hooks !st) (lists !st (nat l)).l_front with
          | Ok w -> List.map int_of_nat w | _ -> [] in
        let dump () =
          for l = 0 to 1 do
            let ll = lists !st (nat l) in
            Printf.printf "L%d f=%d b=%d e=%d fw=[%s] bw=[%s]\n" l (int_of_nat ll.l_front) (int_of_nat ll.l_back)
              (if il_empty ll then 1 else 0) (wk walk ll.l_front) (wk walk_back ll.l_back) done;
          print_string "h";
          for x = 1 to n_elems do
            let hk = hooks !st (nat x) in
            Printf.printf " %d:%d,%d,%d" x (int_of_nat hk.h_next) (int_of_nat hk.h_prev) (if hk.h_in then 1 else 0) done;
          print_string "\n" in
        (* operations whose precondition (element of THIS list) cannot be checked by the library: both
           sides stop with "pre" *)
        let foreign l x = x <> 0 && (hooks !st (nat x)).h_in && not (List.mem x (members l)) in
        List.iter (fun l ->
          let o = match words l with
            | ["pf"; l; x] -> IPushFront (nat (ios l), nat (ios x))
            | ["pb"; l; x] -> IPushBack (nat (ios l), nat (ios x))
            | ["ins"; l; b; x] -> if foreign (ios l) (ios b) then raise (Stop "pre"); IInsert (nat (ios l), nat (ios b), nat (ios x))
            | ["erase"; l; x] -> if ios x = 0 || foreign (ios l) (ios x) then raise (Stop "pre"); IErase (nat (ios l), nat (ios x))
            | ["popf"; l] -> if members (ios l) = [] then raise (Stop "pre"); IPopFront (nat (ios l))
            | ["popb"; l] -> if members (ios l) = [] then raise (Stop "pre"); IPopBack (nat (ios l))
            | ["clear"; l] -> IClear (nat (ios l))
            | ["filter"; _; _] -> IClear (nat 0)    (* placeholder, handled below *)
            | ["splice"; l; m] -> if ios l = ios m then raise (Stop "pre"); ISplice (nat (ios l), nat (ios m))
            | _ -> raise (Stop ("badop " ^ l)) in
          let (st1, out) =
            (match words l with
             | ["filter"; li; p] ->
               (* erase(it++) over the list: the members whose id has parity p are erased, in list order *)
               let li = ios li and p = (ios p) land 1 in
               let victims = List.filter (fun x -> x land 1 = p) (members li) in
               let s1 = List.fold_left (fun s x -> fst (get (istep ifuel s (IErase (nat li, nat x))))) !st victims in
               (s1, OUnit)
             | _ -> get (istep ifuel !st o)) in
          st := st1;
          print_string (show_out out ^ "\n"); dump ()) ops
      | _ -> raise (Stop "badtype"))
    with Stop s -> print_string (s ^ "\n"))

let () = run_cases body
