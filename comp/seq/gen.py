"""Script generator for the sequence containers (C13, C16-seq).
A case = ["type <cont> <elem> [N]", op, op, ...]; see comp/seq/harness.cpp for the op vocabulary.
Aimed at: sizes crossing 0, the inline capacity N and every doubling of the capacity; both sides of the
inline/heap boundary; ops interleaved with whole-container copy/move/assign/swap; for intrusive_list
insert-before at front/middle/end, erase by role (front/middle/back/only), splice from and into empty lists."""
import itertools

ELEMS = ["int", "tv", "tv", "mo"]

def _val(rng):
    return rng.choice([rng.randrange(1, 100), rng.randrange(1, 100), rng.randrange(1 << 32, 1 << 40), 2**64 - 1, 0]) if rng.random() < 0.15 else rng.randrange(1, 1000)

class _VecSim:
    """what the generator believes about sizes/capacities (only used to aim the next op)"""
    def __init__(self, small_n=None):
        self.n = small_n
        self.size = [0, 0, 0]
        self.cap = [small_n or 0] * 3
    def ensure(self, r, c):
        if c > self.cap[r]:
            self.cap[r] = 2 * c
    def targets(self, r):
        s, c = self.size[r], self.cap[r]
        t = {0, 1, s, max(0, s - 1), s + 1, c, c + 1, max(0, c - 1), 2 * c + 1, c // 2}
        if self.n is not None:
            t |= {self.n, self.n + 1, max(0, self.n - 1), 2 * self.n + 2, 2 * self.n + 3}
        return sorted(x for x in t if x <= 80)

def _val_for(rng, elem):
    """dbl: codes 0..4 are +0.0, -0.0, NaN, +inf, -inf; pod: code = key*4 + tag, equality ignores the tag"""
    if elem == "dbl":
        return rng.choice([0, 1, 2, 3, 4, 0, 1, 2, 5, 6, 7, rng.randrange(5, 1 << 40)])
    if elem == "pod":
        return rng.randrange(16) if rng.random() < 0.9 else rng.randrange(1 << 30)
    if elem == "bag":             # code = len * 2^32 + sum
        return (rng.randrange(6) << 32) | rng.randrange(100)
    return _val(rng)

def _bag_args(rng):
    """(n, x) for emplace_back(n, x): T(n, x) = n copies of x, T{n, x} = the two elements n and x"""
    return rng.choice([0, 1, 3, 4, 5, 7]), rng.choice([0, 1, 3, 9, 20, 1000])

def gen_vec(rng, n_ops, elem=None, cont="vec", small_n=None):
    elem = elem or rng.choice(ELEMS + ["a64", "bag", "cur", "cur", "vi", "pm"] + (["dbl", "pod"] if cont == "vec" else []))
    copy_ok = elem != "mo"
    hdr = "type %s %s" % (cont, elem) + (" %d" % small_n if cont == "sv" else "")
    sim = _VecSim(small_n if cont == "sv" else None)
    lines = [hdr]
    phase = rng.choice(["grow", "mixed", "whole", "shrink", "resize"])
    for _ in range(n_ops):
        if rng.random() < 0.06:
            phase = rng.choice(["grow", "mixed", "whole", "shrink", "resize"])
        r = rng.choice([0, 0, 0, 1, 1, 2])
        s = rng.choice([0, 1, 2])
        w = {"grow":   dict(push=6, pop=1, resize=1, obs=1, whole=1, clear=0.2),
             "mixed":  dict(push=3, pop=2, resize=2, obs=2, whole=2, clear=0.4),
             "whole":  dict(push=2, pop=1, resize=1, obs=1, whole=6, clear=0.3),
             "shrink": dict(push=1, pop=5, resize=2, obs=1, whole=1, clear=0.5),
             "resize": dict(push=1, pop=1, resize=6, obs=1, whole=1, clear=0.3)}[phase]
        k = rng.choices(list(w), list(w.values()))[0]
        if k == "push":
            o = rng.choice((["push"] if copy_ok else []) + ["pushm", "emplace"] + (["emplace2"] * 4 if elem == "bag" else []))
            if o == "emplace2":
                lines.append("emplace2 %d %d %d" % ((r,) + _bag_args(rng)))
            else:
                lines.append("%s %d %d" % (o, r, _val_for(rng, elem)))
            sim.ensure(r, sim.size[r] + 1); sim.size[r] += 1
        elif k == "pop":
            if sim.size[r] == 0 and rng.random() < 0.97:
                continue
            lines.append("pop %d" % r)
            if sim.size[r] == 0:
                break                       # stops the case (precondition / FRG_ASSERT)
            sim.size[r] -= 1
        elif k == "resize":
            n = rng.choice(sim.targets(r))
            if elem in ("vi", "pm") and rng.random() < 0.8:
                lines.append("resize %d %d" % (r, n))          # value-initialisation of the new elements
            elif elem == "bag" and rng.random() < 0.4:
                lines.append("resize2 %d %d %d %d" % ((r, n) + _bag_args(rng)))
            elif copy_ok and rng.random() < 0.5:
                lines.append("resizev %d %d %d" % (r, n, _val_for(rng, elem)))
            else:
                lines.append("resize %d %d" % (r, n))
            sim.ensure(r, n); sim.size[r] = n
        elif k == "clear":
            if cont == "sv":
                lines.append("resize %d 0" % r); sim.size[r] = 0
            else:
                lines.append("clear %d" % r); sim.size[r] = 0
        elif k == "obs":
            o = rng.choice((["front", "back", "idx", "eq"] + (["eq"] * 4 if elem in ("dbl", "pod") else [])) if cont == "vec" else ["front", "back", "idx"])
            if o == "eq":
                lines.append("eq %d %d" % (r, s))
            elif o == "idx":
                if sim.size[r] == 0:
                    continue
                lines.append("idx %d %d" % (r, rng.randrange(sim.size[r])))
            else:
                if sim.size[r] == 0 and (cont == "vec" or rng.random() < 0.9):
                    continue
                lines.append("%s %d" % (o, r))
                if sim.size[r] == 0:
                    break
        else:
            opts = ["mctor", "swap", "swap"]
            if cont == "vec":
                opts += ["massign", "detach"]
            if copy_ok:
                opts += ["cctor"] + (["assign", "assign"] if cont == "vec" else [])
            o = rng.choice(opts)
            if o == "detach":
                lines.append("detach %d" % r); sim.size[r] = 0; sim.cap[r] = 0
                continue
            lines.append("%s %d %d" % (o, r, s))
            if o in ("cctor", "assign"):
                if not (o == "cctor" and r == s):
                    sim.size[r] = sim.size[s]
                    sim.cap[r] = max(sim.n or 0, 2 * sim.size[s] if sim.size[s] > (sim.n or 0) else (sim.n or 0)) if cont == "sv" else 2 * sim.size[s]
            elif o in ("mctor", "massign"):
                if r != s:
                    sim.size[r], sim.cap[r] = sim.size[s], sim.cap[s]
                    sim.size[s], sim.cap[s] = 0, (sim.n or 0)
            else:
                sim.size[r], sim.size[s] = sim.size[s], sim.size[r]
                sim.cap[r], sim.cap[s] = sim.cap[s], sim.cap[r]
    return lines

def gen_sv(rng, n_ops, elem=None):
    return gen_vec(rng, n_ops, elem, "sv", rng.choice([2, 4, 4]))

def gen_dyn(rng, n_ops, elem=None):
    elem = elem or rng.choice(ELEMS + ["cur", "vi", "vi", "pm", "pm"])
    copy_ok = elem != "mo"
    lines = ["type dyn %s" % elem]
    size = [0, 0, 0]
    for _ in range(n_ops):
        r = rng.choice([0, 0, 1, 2]); s = rng.choice([0, 1, 2])
        k = rng.choices(["make", "default", "set", "idx", "empty", "whole"], [3, 0.6, 4, 2, 2, 4])[0]
        if k == "make":
            n = rng.choice([0, 0, 1, 2, 3, 5, 8, 17]); lines.append("make %d %d" % (r, n)); size[r] = n
        elif k == "default":
            lines.append("default %d" % r); size[r] = 0
        elif k in ("set", "idx"):
            if size[r] == 0:
                continue
            i = rng.randrange(size[r])
            lines.append("set %d %d %d" % (r, i, _val(rng)) if k == "set" else "idx %d %d" % (r, i))
        elif k == "empty":
            lines.append("empty %d" % r)
        else:
            o = rng.choice(["mctor", "massign", "swap"] + (["cctor", "assign", "assign"] if copy_ok else []))
            lines.append("%s %d %d" % (o, r, s))
            if o in ("cctor", "assign"):
                size[r] = size[s]
            elif o in ("mctor", "massign"):
                if r != s:
                    size[r] = size[s]; size[s] = 0
            else:
                size[r], size[s] = size[s], size[r]
    return lines

def gen_stack(rng, n_ops, elem=None):
    elem = elem or rng.choice(ELEMS + ["bag", "cur"])
    lines = ["type stack %s" % elem]
    size = 0
    bias = rng.choice([0.5, 0.65, 0.8])
    for _ in range(n_ops):
        x = rng.random()
        if x < bias:
            if elem == "bag" and rng.random() < 0.6:
                lines.append("emplace2 %d %d" % _bag_args(rng))
            else:
                lines.append("%s %d" % (rng.choice(["emplace"] + (["push"] if elem != "mo" else [])), _val_for(rng, elem)))
            size += 1
        elif x < bias + 0.1:
            if size:
                lines.append("top")
        else:
            if size == 0 and rng.random() < 0.97:
                continue
            lines.append("pop")
            if size == 0:
                break
            size -= 1
    return lines

def gen_list(rng, n_ops, elem=None):
    elem = elem or rng.choice(ELEMS + ["bag"])
    lines = ["type list %s" % elem]
    size = 0
    bias = rng.choice([0.4, 0.55, 0.7])
    for _ in range(n_ops):
        x = rng.random()
        if x < bias:
            if elem == "bag" and rng.random() < 0.6:
                lines.append("emplace2 %d %d" % _bag_args(rng))
            else:
                lines.append("emplace %d" % _val_for(rng, elem))
            size += 1
        elif x < bias + 0.1:
            lines.append("empty")
        elif x < bias + 0.2:
            if size:
                lines.append("front")
        else:
            if size == 0 and rng.random() < 0.97:
                continue
            lines.append("pop")
            if size == 0:
                break
            size -= 1
    if rng.random() < 0.5:                  # leave it empty at destruction in half of the cases
        lines += ["pop"] * size
    return lines

NOBJ = 6
def gen_ilist(rng, n_ops):
    lines = ["type ilist -"]
    L = [[], []]
    def free():
        return [x for x in range(1, NOBJ + 1) if x not in L[0] and x not in L[1]]
    for _ in range(n_ops):
        l = rng.choice([0, 0, 1])
        k = rng.choices(["pf", "pb", "ins", "erase", "popf", "popb", "clear", "splice", "bad"], [2, 2, 5, 4, 1, 1, 0.8, 1.5, 0.25])[0]
        fr = free()
        if k in ("pf", "pb"):
            if not fr:
                continue
            x = rng.choice(fr); lines.append("%s %d %d" % (k, l, x))
            if k == "pf": L[l].insert(0, x)
            else: L[l].append(x)
        elif k == "ins":
            if not fr:
                continue
            x = rng.choice(fr)
            role = rng.choice(["front", "middle", "back", "end"])
            if not L[l] or role == "end":
                b = 0
            elif role == "front":
                b = L[l][0]
            elif role == "back":
                b = L[l][-1]
            else:
                b = rng.choice(L[l])
            lines.append("ins %d %d %d" % (l, b, x))
            L[l].insert(L[l].index(b) if b else len(L[l]), x)
        elif k == "erase":
            if not L[l]:
                continue
            role = rng.choice(["front", "middle", "back"])
            x = L[l][0] if role == "front" else L[l][-1] if role == "back" else rng.choice(L[l])
            lines.append("erase %d %d" % (l, x)); L[l].remove(x)
        elif k in ("popf", "popb"):
            if not L[l]:
                continue
            lines.append("%s %d" % (k, l))
            if k == "popf": L[l].pop(0)
            else: L[l].pop()
        elif k == "clear":
            if rng.random() < 0.6:
                p = rng.randrange(2)
                lines.append("filter %d %d" % (l, p)); L[l] = [x for x in L[l] if x % 2 != p]
            else:
                lines.append("clear %d" % l); L[l] = []
        elif k == "splice":
            lines.append("splice %d %d" % (l, 1 - l)); L[l] += L[1 - l]; L[1 - l] = []
        else:
            # operations that stop the case: FRG_ASSERT (element already linked / not linked) or a
            # precondition the library cannot check (element of the other list, pop of an empty list)
            c = rng.choice(["dup", "erase_free", "ins_before_free", "foreign", "pop_empty", "null"])
            if c == "dup" and (L[0] + L[1]):
                lines.append("%s %d %d" % (rng.choice(["pf", "pb"]), l, rng.choice(L[0] + L[1]))); break
            if c == "erase_free" and fr:
                lines.append("erase %d %d" % (l, rng.choice(fr))); break
            if c == "ins_before_free" and len(fr) >= 2:
                lines.append("ins %d %d %d" % (l, fr[0], fr[1])); break
            if c == "foreign" and L[1 - l]:
                lines.append("erase %d %d" % (l, rng.choice(L[1 - l]))); break
            if c == "pop_empty" and not L[l]:
                lines.append("popf %d" % l); break
            if c == "null":
                lines.append("pb %d 0" % l); break
    return lines

GENS = {"vec": gen_vec, "sv": gen_sv, "dyn": gen_dyn, "stack": gen_stack, "list": gen_list}

def gen_case(rng, n_ops, cont=None):
    cont = cont or rng.choices(["vec", "sv", "dyn", "stack", "list", "ilist"], [5, 5, 2, 1, 1, 5])[0]
    if cont == "ilist":
        return gen_ilist(rng, n_ops)
    return GENS[cont](rng, n_ops)

def corpus():
    """Minimised past failures and one directed case per growth threshold; run first."""
    cs = []
    # D08: _ensure_capacity relocated _capacity (not _size) elements
    cs.append(("corpus-d08-vector", ["type vec tv", "push 0 1", "push 0 2", "push 0 3", "resize 0 7"]))
    cs.append(("corpus-d08-vector-int", ["type vec int", "push 0 1", "push 0 2", "push 0 3", "resize 0 7"]))
    cs.append(("corpus-d08-small-vector", ["type sv tv 4", "push 0 1", "push 0 2", "push 0 3", "resize 0 7"]))
    cs.append(("corpus-d08-small-vector-heap", ["type sv tv 2", "push 0 1", "push 0 2", "push 0 3", "resize 0 7", "push 0 9"]))
    # D09: dyn_array::empty()
    cs.append(("corpus-d09-dyn-empty", ["type dyn int", "empty 0", "make 0 3", "empty 0", "make 0 0", "empty 0"]))
    # D14: frg::list destroyed while non-empty
    cs.append(("corpus-d14-list-leak", ["type list tv", "emplace 1", "emplace 2", "front"]))
    # D16: small_vector swap / move construction with inline elements
    cs.append(("corpus-d16-swap-inline", ["type sv tv 4", "push 0 1", "push 0 2", "push 1 7", "swap 0 1", "idx 0 0", "idx 1 1"]))
    cs.append(("corpus-d16-mctor-inline", ["type sv tv 4", "push 0 1", "push 0 2", "mctor 1 0", "idx 1 0", "push 1 3"]))
    cs.append(("corpus-d16-swap-inline-heap", ["type sv mo 2", "pushm 0 1", "pushm 1 2", "pushm 1 3", "pushm 1 4", "swap 0 1", "swap 1 0", "swap 2 1"]))
    # every doubling for vector / small_vector, then shrink to 0
    for elem in ("int", "tv", "mo"):
        push = "pushm"
        cs.append(("corpus-vec-doublings-" + elem, ["type vec " + elem] + ["%s 0 %d" % (push, i + 1) for i in range(40)] + ["pop 0"] * 40 + ["%s 0 5" % push]))
        cs.append(("corpus-sv-doublings-" + elem, ["type sv %s 4" % elem] + ["%s 0 %d" % (push, i + 1) for i in range(40)] + ["pop 0"] * 40 + ["%s 0 5" % push]))
    cs.append(("corpus-vec-whole", ["type vec tv", "push 0 1", "push 0 2", "assign 1 0", "eq 0 1", "push 1 3", "eq 0 1", "massign 2 1", "swap 0 2",
                                    "cctor 1 0", "mctor 2 1", "assign 0 0", "massign 1 1", "swap 2 2", "clear 0", "eq 0 1"]))
    # element equality that is not bytewise: +0.0 == -0.0, NaN != NaN, a POD compared by key only
    cs.append(("corpus-eq-double", ["type vec dbl", "push 0 0", "push 1 1", "eq 0 1", "push 0 2", "assign 1 0", "eq 0 1", "eq 1 0", "eq 0 0",
                                    "clear 0", "clear 1", "push 0 3", "push 1 4", "eq 0 1", "push 2 7", "assign 0 2", "eq 0 2"]))
    cs.append(("corpus-eq-pod", ["type vec pod", "push 0 5", "push 1 6", "eq 0 1", "push 0 9", "push 1 13", "eq 0 1", "assign 2 0", "eq 2 0", "push 2 1", "eq 2 0"]))
    # detach(): the vector must be a fresh empty vector afterwards (capacity 0), also after travelling through move/swap
    cs.append(("corpus-detach-reuse", ["type vec tv", "push 0 1", "push 0 2", "push 0 3", "detach 0", "push 0 4", "emplace 0 5", "detach 0", "resize 0 3",
                                       "push 1 7", "detach 1", "swap 1 2", "push 2 8", "detach 0", "mctor 1 0", "push 1 9", "detach 2", "massign 0 2", "pushm 0 6"]))
    cs.append(("corpus-detach-int", ["type vec int", "push 0 1", "push 0 2", "detach 0", "push 0 3", "detach 0", "detach 0", "resize 0 2"]))
    # post-increment of intrusive_list::iterator: erase(it++) filter loops
    cs.append(("corpus-ilist-postinc", ["type ilist -", "pb 0 1", "pb 0 2", "pb 0 3", "pb 0 4", "pb 0 5", "filter 0 0", "pb 0 2", "filter 0 1", "pb 1 6", "pb 1 4", "filter 1 0", "filter 1 1"]))
    # trivially destructible element with user-provided copy/move (self pointer): every relocation must go through the constructors
    cs.append(("corpus-cursor-vec", ["type vec cur"] + ["push 0 %d" % i for i in range(1, 8)] + ["idx 0 0", "assign 1 0", "massign 2 1", "swap 0 2", "resize 2 20", "eq 0 2"]))
    cs.append(("corpus-cursor-sv", ["type sv cur 2", "push 0 1", "push 0 2", "push 1 7", "swap 0 1", "push 0 3", "push 0 4", "mctor 2 0", "cctor 1 2", "resize 1 9", "idx 1 0"]))
    cs.append(("corpus-cursor-stack", ["type stack cur"] + ["push %d" % i for i in range(1, 12)] + ["top", "pop", "top"]))
    cs.append(("corpus-cursor-dyn", ["type dyn cur", "make 0 3", "set 0 1 5", "assign 1 0", "mctor 2 1", "swap 0 2", "idx 0 1"]))
    # value-initialisation (fresh blocks hold 0xA5 junk): members without initialisers are zero/null, as in std::vector<T>(n)
    cs.append(("corpus-valueinit-dyn-vi", ["type dyn vi", "make 0 3", "idx 0 0", "idx 0 2", "make 1 5", "assign 0 1", "make 2 1"]))
    cs.append(("corpus-valueinit-dyn-pm", ["type dyn pm", "make 0 3", "idx 0 0", "make 1 2", "swap 0 1", "make 2 4"]))
    cs.append(("corpus-valueinit-resize", ["type vec vi", "push 0 3", "resize 0 6", "idx 0 5", "resize 0 1", "resize 0 12", "idx 0 11"]))
    cs.append(("corpus-valueinit-resize-sv", ["type sv pm 2", "resize 0 2", "idx 0 1", "resize 0 7", "idx 0 6", "push 1 4", "resize 1 2"]))
    # a move-constructed container keeps working on a live allocator handle (grow past N, take over a heap block, destroy)
    cs.append(("corpus-mctor-allocator-sv", ["type sv tv 2", "push 0 1", "mctor 1 0", "push 1 2", "push 1 3", "push 1 4", "push 0 5", "push 0 6", "push 0 7", "mctor 2 0", "push 2 8", "pop 2"]))
    cs.append(("corpus-mctor-allocator-vec", ["type vec tv", "push 0 1", "mctor 1 0", "push 1 2", "push 1 3", "push 0 4", "massign 2 1", "push 2 5", "push 2 6", "push 2 7"]))
    cs.append(("corpus-mctor-allocator-dyn", ["type dyn tv", "make 0 2", "mctor 1 0", "make 1 3", "make 0 1", "massign 2 1", "make 2 2"]))
    # forwarded constructor arguments: emplace_back(n, x) / resize(k, n, x) / stack::emplace(n, x) store T(n, x), not T{n, x}
    cs.append(("corpus-emplace-args-vec", ["type vec bag", "emplace2 0 3 9", "emplace2 0 0 5", "resize2 0 4 5 1", "idx 0 0", "idx 0 3", "emplace2 1 7 1000", "swap 0 1"]))
    cs.append(("corpus-emplace-args-sv", ["type sv bag 2", "emplace2 0 3 9", "emplace2 0 4 1", "emplace2 0 5 20", "resize2 0 7 1 3", "back 0", "mctor 1 0", "emplace2 1 3 3"]))
    cs.append(("corpus-emplace-args-stack", ["type stack bag", "emplace2 3 9", "top", "emplace2 5 0", "top", "pop", "top"]))
    cs.append(("corpus-emplace-args-list", ["type list bag", "emplace2 3 9", "front", "emplace2 4 20", "pop", "front"]))
    # over-aligned element type (alignas(64)): inline storage, heap blocks, both sides of the boundary
    cs.append(("corpus-overaligned-sv", ["type sv a64 2", "push 0 1", "emplace 1 2", "pushm 2 3", "push 0 4", "push 0 5", "swap 0 1", "cctor 2 0", "resize 1 1", "pop 0", "mctor 0 2", "resizev 2 5 9"]))
    cs.append(("corpus-overaligned-sv4", ["type sv a64 4", "push 1 1", "push 1 2", "swap 1 2", "push 0 3", "cctor 1 0"] + ["pushm 2 %d" % i for i in range(6)] + ["resize 2 3", "swap 2 0"]))
    cs.append(("corpus-overaligned-vec", ["type vec a64", "push 0 1", "push 0 2", "push 0 3", "assign 1 0", "pop 1", "resize 1 9", "massign 2 1", "swap 0 2", "eq 0 2"]))
    # container variables on different allocator instances: the allocator travels with the heap block
    cs.append(("corpus-alloc-instances-sv", ["type sv tv 2", "push 0 1", "push 0 2", "push 0 3", "push 1 7", "swap 0 1", "push 1 4", "push 1 5", "push 1 6", "push 1 8",
                                             "push 0 9", "push 0 10", "push 0 11", "mctor 2 0", "swap 2 1"]))
    cs.append(("corpus-alloc-instances-vec", ["type vec tv", "push 0 1", "push 1 2", "swap 0 1", "push 0 3", "push 0 4", "massign 2 0", "mctor 0 1", "assign 1 2", "push 1 5", "push 1 6", "push 1 7"]))
    cs.append(("corpus-alloc-instances-dyn", ["type dyn tv", "make 0 2", "make 1 3", "swap 0 1", "make 0 1", "massign 2 1", "mctor 1 0", "assign 0 2", "make 2 4"]))
    cs.append(("corpus-ilist-roles", ["type ilist -", "ins 0 0 1", "ins 0 1 2", "ins 0 0 3", "ins 0 1 4", "ins 0 3 5", "erase 0 4", "erase 0 2", "erase 0 3",
                                      "splice 1 0", "splice 1 0", "splice 0 1", "popb 0", "popf 0", "clear 0", "splice 0 1"]))
    cs.append(("corpus-ilist-asserts", ["type ilist -", "pb 0 1", "pb 1 1"]))
    return cs

def exhaustive_small(maxlen):
    """All op sequences up to maxlen over small alphabets (thorough tier)."""
    out = []
    alpha_il = ["pf 0 1", "pb 0 2", "ins 0 1 3", "ins 0 2 3", "ins 0 0 3", "erase 0 1", "erase 0 2", "erase 0 3", "popf 0", "popb 0", "splice 1 0", "splice 0 1", "clear 0"]
    alpha_sv = ["pushm 0 1", "pop 0", "resize 0 3", "resize 0 0", "swap 0 1", "mctor 1 0", "pushm 1 2"]
    alpha_vec = ["pushm 0 1", "pop 0", "resize 0 3", "resize 0 0", "swap 0 1", "massign 1 0", "assign 1 0", "clear 0"]
    for name, hdr, alpha in (("il", "type ilist -", alpha_il), ("sv", "type sv tv 2", alpha_sv), ("vec", "type vec tv", alpha_vec)):
        for n in range(1, maxlen + 1):
            for seq in itertools.product(alpha, repeat=n):
                out.append(("ex-%s-%d-%d" % (name, n, len(out)), [hdr] + list(seq)))
    return out
