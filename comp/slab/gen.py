"""Script generator for frg::slab_pool (C01-C04).

A script is: a `cfg` line (name + the constants of that template configuration as printed by the harness build),
then ops on slots:  a <slot> <n> <env> | f <slot> | d <slot> <n> | r <slot> <n> <env> | g <slot> | w <slot> <off> <len> <tag>
| c <slot> <off> <len> | v | recycle | sc ;  env = ok | ok:<K> (skip K arena units before mapping) | fail.

Aimed at the case splits of the proofs: every size class boundary +-1, 0, the small/large threshold, page rounding
boundaries, up to 3*sb; fill/drain histories ("slab becomes full", "full slab becomes partial", "lower-address slab
re-enters the partial tree"), realloc over (old class, new class) pairs incl. the large path, failing the k-th and the
(k,l)-th map call and retrying, unmapped regions being handed out again (recycle)."""
import random

class Cfg:
    def __init__(self, row):
        t = row.split()
        self.name = t[0]
        (self.page, self.sb, self.slabsz, self.nb, self.aligned, self.poison, self.hdr_frame, self.hdr_slab) = [int(x) for x in t[1:9]]
        self.line = "cfg " + " ".join(t[:9])
        self.classes = [8 << i for i in range(self.nb)]
        self.maxsmall = self.classes[-1]
    def ovh(self, item):
        return (self.hdr_slab + item - 1) // item * item
    def per_slab(self, item):
        return (self.slabsz - self.ovh(item)) // item
    def cls_of(self, n):
        n = max(n, 1)
        for c in self.classes:
            if n <= c:
                return c
        return None
    def admissible(self):
        """cfg_ok of the model: at least two objects of the largest class fit"""
        return self.per_slab(self.maxsmall) >= 2

def interesting_sizes(cfg):
    s = {0, 1, 2, 7}
    for c in cfg.classes:
        s |= {c - 1, c, c + 1}
    m, pg, sb = cfg.maxsmall, cfg.page, cfg.sb
    s |= {m + 2, m + pg - 1, m + pg, m + pg + 1, pg - 1, pg, pg + 1, 2 * pg, 2 * pg + 1, 3 * pg - 1}
    s |= {sb - pg - 1, sb - pg, sb - pg + 1, sb - 1, sb, sb + 1, 2 * sb - pg, 2 * sb, 2 * sb + 1, 3 * sb}
    return sorted(x for x in s if x >= 0)

class Script:
    """tracks, per slot, the set of requested sizes the block may have (None = may be null)"""
    def __init__(self, cfg, rng):
        self.cfg, self.rng = cfg, rng
        self.lines = [cfg.line]
        self.slots = {}          # slot -> set of possible sizes / None
        self.next_slot = 0
        self.tag = 1
        self.nops = 0
    def fresh(self):
        self.next_slot += 1
        return self.next_slot - 1
    def env(self, fail=False):
        if fail:
            return "fail"
        r = self.rng.random()
        if r < 0.15:
            return "ok:%d" % self.rng.choice([1, 2, 3, 5, 16, 17, 31, 64])
        return "ok"
    def sure_live(self, s):
        return s in self.slots and None not in self.slots[s]
    def live_slots(self):
        return [s for s in self.slots if self.slots[s] - {None}]
    def alloc(self, n, fail=False, fill=True):
        s = self.fresh()
        self.lines.append("a %d %d %s" % (s, n, self.env(fail)))
        self.slots[s] = {n, None} if fail else {n}
        self.nops += 1
        if fill:
            self.write_all(s)
        return s
    def write_all(self, s, lo=0):
        sizes = self.slots.get(s, set()) - {None}
        if not sizes:
            return
        hi = max(min(sizes), 1)
        if lo >= hi:
            return
        self.tag += 1
        self.lines.append("w %d %d %d %d" % (s, lo, hi - lo, self.tag % 251))
    def check(self, s):
        sizes = self.slots.get(s, set()) - {None}
        if not sizes:
            return
        n = max(min(sizes), 1)
        for off, ln in {(0, min(n, 24)), (max(0, n - 24), min(n, 24)), (n // 2, min(n - n // 2, 8))}:
            if ln > 0:
                self.lines.append("c %d %d %d" % (s, off, ln))
    def free(self, s, sized=None):
        if s not in self.slots:
            return
        sizes = self.slots[s] - {None}
        if sized is None:
            sized = self.rng.random() < 0.3
        if sized and sizes and len(sizes) == 1 and None not in self.slots[s]:
            n = min(sizes)
            self.lines.append("d %d %d" % (s, self.rng.choice([n, n, 0, max(n, 1), n // 2])))
        else:
            self.lines.append("f %d" % s)
        del self.slots[s]
        self.nops += 1
    def realloc(self, s, n, fail=False, fill=True):
        if s not in self.slots:
            self.slots[s] = {None}
        old = self.slots[s]
        oldmin = min([x for x in old if x is not None], default=None)
        self.lines.append("r %d %d %s" % (s, n, self.env(fail)))
        self.nops += 1
        if n == 0 and None not in old:
            del self.slots[s]
            return
        if n == 0:
            # realloc(null, 0) allocates one byte; realloc(p, 0) frees
            self.slots[s] = {0, None}
            return
        if fail:
            self.slots[s] = set(old) | {n}
        else:
            self.slots[s] = {n}
        if fill and not fail and self.sure_live(s):
            self.check(s)
            self.write_all(s, lo=(oldmin if (oldmin is not None and oldmin < n and self.rng.random() < 0.7) else 0))
    def churn(self, n, count):
        """count allocate/free pairs of a SMALL size (the harness runs them in a tight loop)"""
        self.lines.append("churn %d %d" % (n, count))
        self.nops += 1
    def getsize(self, s):
        self.lines.append("g %d" % s)
    def verify(self):
        self.lines.append("v")

def gen_mixed(sc, n_ops, sizes, p_fail=0.0):
    rng = sc.rng
    cap = rng.choice([4, 16, 64])
    while sc.nops < n_ops:
        live = sc.live_slots()
        r = rng.random()
        fail = rng.random() < p_fail
        if r < 0.45 and len(live) < cap or not live:
            sc.alloc(rng.choice(sizes) if rng.random() < 0.8 else rng.randrange(0, sc.cfg.maxsmall * 2), fail)
        elif r < 0.7:
            sc.free(rng.choice(live))
        elif r < 0.9:
            s = rng.choice(live)
            sc.realloc(s, rng.choice(sizes), fail)
        elif r < 0.95:
            sc.getsize(rng.choice(live)); sc.check(rng.choice(live))
        else:
            sc.verify()
        if rng.random() < 0.04:
            small = [x for x in sizes if x <= sc.cfg.maxsmall]
            sc.churn(rng.choice(small), rng.choice([1, 2, 7, 300, 5000])); sc.verify()
        if rng.random() < 0.01:
            sc.lines.append("f %d" % (sc.fresh()))      # free(nullptr)
            sc.lines.append("r %d 0 ok" % (sc.fresh()))  # realloc(nullptr, 0)

def gen_fill(sc, max_objs=700):
    """fill k slabs of one class, then drain/refill in the patterns that move slabs in and out of the partial tree"""
    rng, cfg = sc.rng, sc.cfg
    cands = [c for c in cfg.classes if 2 <= cfg.per_slab(c) and cfg.per_slab(c) * 2 + 3 <= max_objs]
    if not cands:
        cands = [cfg.classes[-1]]
    item = rng.choice(cands)
    per = cfg.per_slab(item)
    nsl = rng.choice([1, 2, 2, 3]) if per * 3 + 3 <= max_objs else (2 if per * 2 + 3 <= max_objs else 1)
    def size():
        return rng.choice([item, item, item // 2 + 1, item - 1]) if item > 8 else rng.choice([0, 1, 8, 7])
    groups = []
    for k in range(nsl):
        groups.append([sc.alloc(size(), fill=(rng.random() < 0.2)) for _ in range(per)])
    extra = [sc.alloc(size()) for _ in range(rng.choice([0, 1, 2]))]
    sc.verify()
    pattern = rng.choice(["low_reenters", "drain_all", "alternate", "lifo", "random"])
    if pattern == "low_reenters" and nsl >= 2:
        # free one object of the second slab, then one of the first: the lower slab must become head again
        sc.free(groups[1].pop(rng.randrange(len(groups[1]))))
        sc.alloc(size()); sc.free(sc.next_slot - 1)
        sc.free(groups[0].pop(rng.randrange(len(groups[0]))))
        a = sc.alloc(size()); b = sc.alloc(size()); c = sc.alloc(size())
        extra += [a, b, c]
    elif pattern == "drain_all":
        order = [s for gq in groups for s in gq]
        rng.shuffle(order)
        for s in order:
            sc.free(s)
        groups = []
        sc.verify()
        for _ in range(rng.choice([per // 2 + 1, per + 2])):
            extra.append(sc.alloc(size(), fill=False))
    elif pattern == "alternate":
        for gq in groups:
            for s in gq[::2]:
                sc.free(s)
            del gq[::2]
        for _ in range(per):
            extra.append(sc.alloc(size(), fill=False))
    elif pattern == "lifo":
        gq = groups[-1]
        for _ in range(min(len(gq), 5)):
            sc.free(gq.pop())
        for _ in range(7):
            extra.append(sc.alloc(size()))
    else:
        allS = [s for gq in groups for s in gq] + extra
        for _ in range(min(len(allS), 2 * per)):
            if rng.random() < 0.55 and allS:
                sc.free(allS.pop(rng.randrange(len(allS))))
            else:
                allS.append(sc.alloc(size(), fill=False))
        groups, extra = [], allS
    sc.verify()
    sc.churn(size(), rng.choice([1, 3, 1000, 70000])); sc.verify()
    # steady churn: must not map anything new (footprint)
    pool = [s for gq in groups for s in gq] + extra
    for _ in range(rng.choice([0, 20, 60])):
        if pool and rng.random() < 0.5:
            sc.free(pool.pop(rng.randrange(len(pool))))
        else:
            pool.append(sc.alloc(size(), fill=False))
    sc.verify()

def gen_realloc_pairs(sc, n_pairs):
    rng, cfg = sc.rng, sc.cfg
    sizes = interesting_sizes(cfg)
    for _ in range(n_pairs):
        a, b = rng.choice(sizes), rng.choice(sizes)
        s = sc.alloc(a)
        sc.realloc(s, b)
        if rng.random() < 0.5:
            sc.realloc(s, rng.choice(sizes))
        if rng.random() < 0.3:
            sc.realloc(s, max(1, a // 2))
        if rng.random() < 0.7:
            sc.free(s)
        if rng.random() < 0.1:
            sc.verify()

def gen_fault(sc, n_ops):
    """fail the k-th map and the (k,l)-th, retry the same request with a working map"""
    rng, cfg = sc.rng, sc.cfg
    sizes = interesting_sizes(cfg)
    big = [x for x in sizes if x > cfg.maxsmall]
    k = rng.randrange(0, 6)
    l = k + rng.randrange(1, 4)
    mapping_reqs = 0
    used_classes = set()
    while sc.nops < n_ops:
        n = rng.choice(sizes)
        cl = cfg.cls_of(n)
        needs = (cl is None) or (cl not in used_classes)
        live = sc.live_slots()
        if needs and rng.random() < 0.8:
            fail = mapping_reqs in (k, l) or rng.random() < 0.15
            mapping_reqs += 1
            if live and rng.random() < 0.4:
                s = rng.choice(live)
                sc.realloc(s, n, fail)
                if fail:
                    sc.check(s); sc.getsize(s)
                    sc.realloc(s, n, False)
            else:
                s = sc.alloc(n, fail)
                if fail:
                    sc.verify() if rng.random() < 0.3 else None
                    if rng.random() < 0.3:
                        sc.realloc(s, n, True)        # realloc(null, n) failing as well
                    sc.realloc(s, n, False) if rng.random() < 0.5 else sc.alloc(n, False)
            if cl is not None:
                used_classes.add(cl) if not fail or True else None
        elif live and rng.random() < 0.4:
            sc.free(rng.choice(live))
        elif live and rng.random() < 0.5:
            sc.realloc(rng.choice(live), rng.choice(big + sizes), rng.random() < 0.3)
        else:
            sc.alloc(n, rng.random() < 0.2)
    sc.verify()

def gen_large(sc, n_ops):
    rng, cfg = sc.rng, sc.cfg
    if rng.random() < 0.7:
        sc.lines.append("recycle")
    pg, sb, m = cfg.page, cfg.sb, cfg.maxsmall
    sizes = [m + 1, m + 2, m + pg, m + pg + 1, 2 * pg * ((m // pg) + 1), sb - pg, sb - pg + 1, sb, sb + 1, 2 * sb, 3 * sb, 3 * sb - pg - 1]
    sizes = [x for x in sizes if x > m]
    while sc.nops < n_ops:
        live = sc.live_slots()
        r = rng.random()
        if r < 0.4 or not live:
            sc.alloc(rng.choice(sizes), rng.random() < 0.05)
        elif r < 0.7:
            sc.free(rng.choice(live))
        elif r < 0.95:
            s = rng.choice(live)
            sc.realloc(s, rng.choice(sizes + [1, m, m // 2, 0]), rng.random() < 0.05)
        else:
            sc.verify()
    for s in list(sc.live_slots()):
        if rng.random() < 0.8:
            sc.free(s)
    sc.verify()

def gen_two_pools(sc, n_ops):
    """two pools built on ONE policy object: their blocks must be disjoint, the callbacks of both arrive at the one
    object (a pool that copies its policy hands out the same addresses twice)"""
    rng, cfg = sc.rng, sc.cfg
    sizes = interesting_sizes(cfg)
    owner = {}
    cur = 0
    def switch(i):
        nonlocal cur
        if i != cur:
            sc.lines.append("pool %d" % i); cur = i
    while sc.nops < n_ops:
        i = rng.randrange(2)
        mine = [s for s in sc.live_slots() if owner.get(s) == i]
        switch(i)
        r = rng.random()
        if r < 0.5 or not mine:
            s = sc.alloc(rng.choice(sizes)); owner[s] = i
        elif r < 0.75:
            sc.free(rng.choice(mine))
        elif r < 0.92:
            sc.realloc(rng.choice(mine), rng.choice(sizes))
        else:
            sc.verify()
    for i in (0, 1):
        switch(i); sc.verify()
    switch(0)

def gen_huge(sc):
    """one allocation >= 4 GiB (only virtual address space is used: non-poisoning policies) mixed with ordinary ones:
    sb_reservation / length arithmetic beyond 32 bits, unmap of the whole reservation"""
    rng, cfg = sc.rng, sc.cfg
    sizes = interesting_sizes(cfg)
    huge = rng.choice([(4 << 30) + 12345, (4 << 30), (4 << 30) + cfg.page, (5 << 30) - 1, (4 << 30) - cfg.page - 1 + rng.randrange(3)])
    if rng.random() < 0.5:
        sc.lines.append("recycle")
    pre = [sc.alloc(rng.choice(sizes)) for _ in range(rng.choice([0, 2, 5]))]
    h = sc.alloc(huge, fill=False)
    sc.getsize(h)
    mid = [sc.alloc(rng.choice(sizes)) for _ in range(rng.choice([1, 3]))]
    sc.verify()
    r = rng.random()
    if r < 0.3:
        sc.realloc(h, rng.choice([100, cfg.maxsmall + 1, huge - 5]), fill=False)      # in place
        sc.getsize(h); sc.verify()
    # (no MOVING realloc of the huge block: the real pool would memcpy >= 4 GiB, i.e. touch that much memory per case)
    for s in pre[:1] + mid[:1]:
        sc.free(s)
    sc.free(h, sized=rng.random() < 0.5 and None)
    sc.verify()
    if rng.random() < 0.5:
        h2 = sc.alloc(huge, fill=False); sc.verify(); sc.free(h2, sized=False)
    for s in sc.live_slots():
        sc.free(s)
    sc.verify()

MODES = {
    "C01": ["mixed", "mixed", "fill", "fill", "large", "realloc", "fault", "twopools"],
    "C02": ["realloc", "realloc", "fill", "fill", "mixed", "large", "fault", "twopools"],
    "C03": ["large", "large", "realloc", "mixed", "fill", "fault", "twopools"],
    "C04": ["fault", "fault", "fault", "mixed_fail", "large", "fill", "twopools"],
}

def gen_case(rng, cfg, focus="C01", mode=None):
    sc = Script(cfg, rng)
    mode = mode or rng.choice(MODES.get(focus, MODES["C01"]))
    if mode == "mixed":
        gen_mixed(sc, rng.choice([30, 80, 200]), interesting_sizes(cfg))
    elif mode == "mixed_fail":
        gen_mixed(sc, rng.choice([30, 80, 200]), interesting_sizes(cfg), p_fail=0.25)
    elif mode == "fill":
        gen_fill(sc, max_objs=rng.choice([120, 300, 700]))
    elif mode == "realloc":
        gen_realloc_pairs(sc, rng.choice([10, 40]))
    elif mode == "fault":
        gen_fault(sc, rng.choice([20, 60]))
    elif mode == "large":
        gen_large(sc, rng.choice([20, 60]))
    elif mode == "huge":
        gen_huge(sc)
    elif mode == "twopools":
        gen_two_pools(sc, rng.choice([20, 60]))
    return mode, sc.lines

def by_name(cfgs, name):
    return next(c for c in cfgs if c.name == name)

def corpus(cfgs):
    """Minimised past failures and hand-written boundary cases; run first."""
    cs = []
    d = by_name(cfgs, "def_ap")
    # D01: copying realloc memcpy'd get_size bytes out of a block of which only 20 bytes were unpoisoned
    cs.append(("corpus-d01-realloc-grow-poisoned-tail", [d.line, "a 0 20 ok", "w 0 0 20 1", "r 0 100 ok", "c 0 0 20", "v"]))
    cs.append(("corpus-d01-large-to-larger", [d.line, "a 0 40000 ok", "w 0 0 40000 3", "r 0 100 ok", "w 0 0 100 5", "r 0 70000 ok", "c 0 0 100", "v"]))
    # D02: class 32768 does not divide the payload of a 0x1C000 slab: the last carved object ended 16 KiB past the mapping
    for nm in ("p4k_s112k_b13_ap", "p4k_s112k_b13_up"):
        q = by_name(cfgs, nm)
        cs.append(("corpus-d02-trailing-partial-object-" + nm, [q.line, "a 0 32768 ok", "w 0 0 32768 1", "a 1 32768 ok", "a 2 32768 ok", "v", "f 0", "f 1", "f 2", "v"]))
        cs.append(("corpus-d02-class-16384-" + nm, [q.line] + ["a %d 16384 ok" % i for i in range(8)] + ["v"]))
    # D42: num_reserved was incremented per allocation and never decremented (wrap-around after 2^32 pairs, see long_corpus);
    # the structure dump shows the counter after a short churn
    for q in cfgs:
        cs.append(("corpus-d42-churn-" + q.name, [q.line, "a 0 64 ok", "churn 64 1", "v", "churn 64 1000", "v", "churn 9 3", "a 1 9 ok",
                                                  "churn 9 2", "v", "f 0", "churn 64 5", "v", "f 1", "v"]))
    # seeded miss 2: a reservation >= 4 GiB (frame::sb_reservation narrowed to 32 bits unmapped len mod 2^32)
    for q in cfgs:
        if not q.poison:
            n = (4 << 30) + 12345
            cs.append(("corpus-huge-4g-" + q.name, [q.line, "a 0 100 ok", "a 1 %d ok" % n, "g 1", "a 2 %d ok" % (q.maxsmall + 1), "v",
                                                    "r 1 %d ok" % (n - 7), "g 1", "f 0", "f 1", "v", "a 3 %d ok" % n, "d 3 %d" % n, "f 2", "v"]))
    # seeded miss 1: page == sb: a large block starts exactly on a superblock boundary (the -1 of the frame lookup)
    for q in cfgs:
        if q.page == q.sb:
            m = q.maxsmall
            cs.append(("corpus-page-eq-sb-" + q.name, [q.line, "a 0 %d ok" % (m + 1), "w 0 0 %d 3" % (m + 1), "g 0", "a 1 %d ok" % (3 * q.sb), "g 1",
                                                       "r 0 %d ok" % (m + 2), "g 0", "r 0 %d ok" % (2 * q.sb + 5), "c 0 0 24", "g 0", "v", "d 1 %d" % (3 * q.sb),
                                                       "f 0", "v", "a 2 %d ok" % (m + 1), "f 2", "v"]))
    # seeded miss: num_reserved narrowed to 16 bits -- more than 65536 objects of ONE slab live at the same time (1 MiB slabs)
    for q in cfgs:
        per8 = q.per_slab(8)
        if per8 > 66000:
            cs.append(("corpus-66000-live-in-one-slab-" + q.name, [q.line, "fill 8 66000", "v", "a 0 8 ok", "drain", "v", "f 0", "v"]))
        cs.append(("corpus-fill-drain-" + q.name, [q.line, "fill 24 %d" % min(300, 2 * q.per_slab(32) + 3), "v", "fill 100 5", "a 0 24 ok", "drain", "v", "f 0",
                                                   "fill %d 2" % (q.maxsmall + 1), "v", "drain", "v"]))
    # seeded miss: the pool copied its policy object -- two pools on one policy object, interleaved
    for q in cfgs:
        m = q.maxsmall
        cs.append(("corpus-two-pools-" + q.name, [q.line, "a 0 24 ok", "pool 1", "a 1 24 ok", "a 2 %d ok" % (m + 1), "pool 0", "a 3 %d ok" % (m + 1), "v",
                                                  "pool 1", "v", "f 1", "f 2", "pool 0", "f 0", "f 3", "v"]))
    # seeded miss (C04-r8-3): slab_allocator::reallocate freed the source block when pool_->realloc failed.  Growing
    # reallocate on the copying path with map() failing, through the wrapper (`wrap`), small and large source
    for q in cfgs:
        m = q.maxsmall
        cs.append(("corpus-wrapper-realloc-fails-" + q.name, [q.line, "wrap", "a 0 24 ok", "w 0 0 24 7", "a 1 %d ok" % (m + 1), "w 1 0 %d 9" % (m + 1),
                                                              "r 0 %d fail" % (m + 5), "c 0 0 24", "g 0", "v", "r 1 %d fail" % (3 * q.sb), "c 1 0 24", "g 1", "v",
                                                              "a 2 24 ok", "a 3 %d ok" % (m + 1), "v", "r 0 %d ok" % (m + 5), "r 1 %d ok" % (3 * q.sb), "c 0 0 24", "c 1 0 24",
                                                              "f 0", "d 1 %d" % (3 * q.sb), "f 2", "f 3", "v"]))
    for q in cfgs:
        cs.append(("corpus-sizeclasses-" + q.name, [q.line, "sc"]))
        cs.append(("corpus-first-map-fails-" + q.name, [q.line, "a 0 24 fail", "a 1 24 ok", "a 2 %d fail" % (q.maxsmall + 1), "a 3 %d ok" % (q.maxsmall + 1),
                                                      "r 1 %d fail" % (q.maxsmall + 5), "c 1 0 8", "g 1", "r 1 %d ok" % (q.maxsmall + 5), "v", "f 1", "f 3", "f 0", "f 2", "v"]))
        cs.append(("corpus-null-ops-" + q.name, [q.line, "f 0", "d 0 16", "g 0", "r 0 0 ok", "r 1 0 fail", "r 1 0 ok", "v", "f 0", "f 1", "v"]))
        big = q.classes[-1]
        per = q.per_slab(big)
        if q.admissible():
            cs.append(("corpus-fill-largest-class-" + q.name, [q.line] + ["a %d %d ok" % (i, big) for i in range(2 * per + 1)] + ["v"]
                       + ["f %d" % i for i in range(per, 2 * per)] + ["v", "f 0", "v", "a 900 %d ok" % big, "a 901 %d ok" % big, "v"]))
    return cs

def long_corpus(cfgs):
    """thorough tier only (about a minute in a -O2 build without sanitizers): 2^32 allocate/free pairs on one slab.
    D42: before the fix the counter num_reserved wrapped to 0 and a valid free stopped in FRG_ASSERT."""
    q = by_name(cfgs, "def_an")
    out = [("long-churn-d42", [q.line, "a 0 64 ok", "churn 64 4294967296", "v", "f 0", "v"])]
    for q2 in cfgs:
        if q2.per_slab(8) > 70000:     # every object of a 1 MiB slab of the 8-byte class live at once, and a second slab
            out.append(("big-fill-" + q2.name, [q2.line, "fill 8 %d" % (q2.per_slab(8) + 10), "v", "drain", "v"]))
    return out

def exhaustive_small(cfg, depth):
    """thorough tier: all op sequences up to `depth` over two sizes of the largest class / large path on 3 slots"""
    import itertools
    big = cfg.classes[-1]
    alphabet = []
    for s in (0, 1):
        alphabet += ["a %d %d ok" % (s, big), "a %d %d fail" % (s, big), "f %d" % s, "r %d %d ok" % (s, cfg.maxsmall + 1), "r %d 8 ok" % s, "r %d %d fail" % (s, cfg.maxsmall + 1)]
    out = []
    for n in range(1, depth + 1):
        for seq in itertools.product(alphabet, repeat=n):
            # a slot must not be allocated over while it may be live
            state, ok = {}, True
            for l in seq:
                t = l.split()
                if t[0] == "a":
                    if state.get(t[1]):
                        ok = False; break
                    state[t[1]] = True
                elif t[0] == "f":
                    state[t[1]] = False
                elif t[0] == "r":
                    state[t[1]] = True
            if ok:
                out.append(("ex-%s-%d-%d" % (cfg.name, n, len(out)), [cfg.line] + list(seq) + ["v"]))
    return out
