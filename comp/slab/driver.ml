(* driver for the extracted slab_pool model: same scripts as comp/slab/harness.cpp.
   Replays the harness's deterministic arena policy (bump pointer with one guard unit after every mapping,
   optional LIFO recycling of unmapped regions of the same length, "ok:K" = skip K units before mapping) to
   produce the map answers the model takes as op input. *)
let vbase = 0x100000000
let unit_ = 0x1000
let to_i (x : n) : int = Int64.to_int (i64_of_n x)
let of_i (x : int) : n = n_of_i64 (Int64.of_int x)

type arena = { mutable cur : int; mutable recycled : (int * int) list; mutable recycle : bool }

(* streaming RLE of unpoison lines, identical to Core::line_unpoison in the harness *)
let run_open = ref false and run_a0 = ref 0 and run_last = ref 0 and run_n = ref 0
and run_stride = ref 0 and run_cnt = ref 0
let flush_run () =
  if !run_open then begin
    if !run_cnt = 1 then Printf.printf "unpoison %d %d\n" !run_a0 !run_n
    else Printf.printf "unpoison* %d %d %d %d\n" !run_a0 !run_n !run_stride !run_cnt;
    run_open := false end
let line_unpoison a n =
  if !run_open && n = !run_n && a > !run_last && (!run_cnt = 1 || a - !run_last = !run_stride) then begin
    if !run_cnt = 1 then run_stride := a - !run_last;
    run_last := a; incr run_cnt end
  else begin
    flush_run ();
    run_open := true; run_a0 := a; run_last := a; run_n := n; run_stride := 0; run_cnt := 1 end

let print_cb = function
  | CMap (len, al, r) -> flush_run (); Printf.printf "map %d %d %d\n" (to_i len) (to_i al) (to_i r)
  | CUnmap (b, len) -> flush_run (); Printf.printf "unmap %d %d\n" (to_i b) (to_i len)
  | CPoison (a, k) -> flush_run (); Printf.printf "poison %d %d\n" (to_i a) (to_i k)
  | CUnpoison (a, k) -> line_unpoison (to_i a) (to_i k)
  | CUnpoisonExpand (a, k) -> flush_run (); Printf.printf "unpoison_expand %d %d\n" (to_i a) (to_i k)
  | CAccess (_, _, _) -> ()

exception Stop
let quiet = ref false

let body lines =
  match lines with
  | [] -> ()
  | l0 :: ops ->
    (match words l0 with
     | ["cfg"; _; pg; sbs; slb; nb; al; po; hf; hs] ->
       let c = { page = n_of_string pg; sb = n_of_string sbs; slabsz = n_of_string slb; nbuckets = n_of_string nb;
                 aligned = (al <> "0"); poison = (po <> "0"); hdr_frame = n_of_string hf; hdr_slab = n_of_string hs } in
       let pagei = to_i c.page and sbi = to_i c.sb in
       let ar = { cur = unit_ * 16; recycled = []; recycle = false } in
       let s = ref (init c) in
       let other = ref (init c) and cur_pool = ref 0 in
       let bulk : n list ref = ref [] and bulk_h = ref 0 in     (* two pools on ONE policy object: two model states, one arena *)
       let slots : (int, n) Hashtbl.t = Hashtbl.create 64 in
       let slot i = try Hashtbl.find slots i with Not_found -> N0 in
       (* the policy's answer for this op, should it call map(len) *)
       let env_for (mk : env -> op) (envs : string) : op * (unit -> unit) =
         let probe = mk MapFail in
         if envs = "fail" then (probe, fun () -> ())
         else match map_len c !s probe with
           | None -> (probe, fun () -> ())
           | Some len ->
             let len = to_i len in
             let skip = if String.length envs > 3 && String.sub envs 0 3 = "ok:" then
                 int_of_string (String.sub envs 3 (String.length envs - 3)) else 0 in
             let rec take acc = function
               | [] -> None
               | (o, l) :: r when l = len -> Some (o, List.rev_append acc r)
               | x :: r -> take (x :: acc) r in
             (match (if ar.recycle then take [] ar.recycled else None) with
              | Some (off, rest) ->
                (mk (MapRet (of_i (vbase + off))), fun () -> ar.recycled <- rest)
              | None ->
                let a = if c.aligned then sbi else pagei in
                let cur = ar.cur + skip * unit_ in
                let off = (cur + a - 1) land (lnot (a - 1)) in
                (mk (MapRet (of_i (vbase + off))), fun () -> ar.cur <- off + len + unit_)) in
       let exec (o : op) (commit : unit -> unit) : result =
         let ((s', r), cbs) = step c !s o in
         if not !quiet then (List.iter print_cb cbs; flush_run ());
         (* arena bookkeeping follows the calls the model actually made *)
         List.iter (function
             | CMap (_, _, r) -> if r <> N0 then commit ()
             | CUnmap (b, len) -> ar.recycled <- (to_i b - vbase, to_i len) :: ar.recycled
             | _ -> ()) cbs;
         (match r with
          | RAssert _ -> print_string "assert\n"; raise Stop
          | RUB w -> Printf.printf "ub %d\n" (to_i w); raise Stop
          | _ -> ());
         s := s'; r in
       let print_ptr (p : n) =
         let sz = if p = N0 then 0 else (match get_size_of c !s p with RSize k -> to_i k | _ -> -1) in
         Printf.printf "= %d sz=%d used=%d\n" (to_i p) sz (to_i !s.used) in
       (try List.iter (fun l ->
          match words l with
          | ["a"; sl; k; e] ->
            let (o, commit) = env_for (fun e -> Alloc (n_of_string k, e)) e in
            (match exec o commit with
             | RPtr p -> print_ptr p; Hashtbl.replace slots (int_of_string sl) p
             | _ -> print_ptr N0; Hashtbl.replace slots (int_of_string sl) N0)
          | ["churn"; k; cnt] ->
            (* <cnt> allocate/free pairs.  As soon as the class has a partial slab the remaining pairs are the model's
               [churn_fast] (SlabChurn.v: equal to iterating Alloc;Free any number of times); before that (first pair
               of a class without partial slab, large sizes) the pairs are iterated. *)
            let cnt = ref (Int64.to_int (Int64.of_string cnt)) in
            quiet := true;
            (try
              while !cnt > 0 do
                match churn_class c !s (n_of_string k) with
                | Some idx -> s := churn_fast !s idx; cnt := 0
                | None ->
                  let (o, commit) = env_for (fun e -> Alloc (n_of_string k, e)) "ok" in
                  (match exec o commit with
                   | RPtr p -> ignore (exec (Free p) (fun () -> ()))
                   | _ -> ());
                  decr cnt
              done
            with Stop -> quiet := false; raise Stop);
            quiet := false;
            Printf.printf "= churn used=%d\n" (to_i !s.used)
          | ["fill"; k; cnt] ->
            let cnt = int_of_string cnt in
            quiet := true;
            (try
              for _ = 1 to cnt do
                let (o, commit) = env_for (fun e -> Alloc (n_of_string k, e)) "ok" in
                (match exec o commit with
                 | RPtr p -> bulk := p :: !bulk; bulk_h := (!bulk_h * 31 + to_i p) land 0xffffffff
                 | _ -> ())
              done
            with Stop -> quiet := false; raise Stop);
            quiet := false;
            Printf.printf "= fill %d %d used=%d\n" (List.length !bulk) !bulk_h (to_i !s.used);
            bulk_h := 0
          | ["drain"] ->
            quiet := true;
            (try List.iter (fun p -> ignore (exec (Free p) (fun () -> ()))) !bulk
             with Stop -> quiet := false; raise Stop);
            bulk := []; quiet := false;
            Printf.printf "= drain used=%d\n" (to_i !s.used)
          | ["f"; sl] ->
            ignore (exec (Free (slot (int_of_string sl))) (fun () -> ()));
            Printf.printf "= unit used=%d\n" (to_i !s.used);
            Hashtbl.replace slots (int_of_string sl) N0
          | ["d"; sl; k] ->
            ignore (exec (Dealloc (slot (int_of_string sl), n_of_string k)) (fun () -> ()));
            Printf.printf "= unit used=%d\n" (to_i !s.used);
            Hashtbl.replace slots (int_of_string sl) N0
          | ["r"; sl; k; e] ->
            let sl = int_of_string sl in
            let p = slot sl in
            let (o, commit) = env_for (fun e -> Realloc (p, n_of_string k, e)) e in
            (match exec o commit with
             | RPtr q -> print_ptr q; Hashtbl.replace slots sl q
             | _ -> print_ptr N0;
               (* null: freed (k = 0) or failed (p stays) or allocate(null) failed *)
               if n_of_string k = N0 then Hashtbl.replace slots sl N0)
          | ["g"; sl] ->
            (match exec (GetSize (slot (int_of_string sl))) (fun () -> ()) with
             | RSize k -> Printf.printf "= size %d\n" (to_i k)
             | _ -> print_string "= size ?\n")
          | ["w"; sl; off; len; tag] ->
            let p = slot (int_of_string sl) in
            let o = Write (p, n_of_string off, n_of_string len, n_of_string tag) in
            if p <> N0 && op_api_ok c !s o then ignore (exec o (fun () -> ()))
          | ["c"; sl; off; len] ->
            (match digest !s (slot (int_of_string sl)) (n_of_string off) (n_of_string len) with
             | Some d -> Printf.printf "c %d\n" (to_i d)
             | None -> print_string "c indet\n")
          | ["recycle"] -> ar.recycle <- true
          | ["pool"; i] ->
            let i = if int_of_string i <> 0 then 1 else 0 in
            if i <> !cur_pool then begin let t = !s in s := !other; other := t; cur_pool := i end
          | ["v"] ->
            List.iteri (fun i b ->
                Printf.printf "b %d%s\n" i (String.concat "" (List.map (fun a -> " " ^ string_of_int (to_i a)) b)))
              !s.partial;
            List.iter (fun (x : slab) ->
                let h = List.fold_left (fun h a -> (h * 31 + (to_i a - to_i x.sl_frame)) land 0xffffffff) 0 x.sl_avail in
                Printf.printf "s %d %d %d %d %d\n" (to_i x.sl_frame) (to_i x.sl_idx) (to_i x.sl_nres)
                  (List.length x.sl_avail) h) (List.rev !s.slabs);
            List.iter (fun (x : large) ->
                Printf.printf "l %d %d %d %d\n" (to_i x.lg_frame) (to_i x.lg_base) (to_i x.lg_res) (to_i x.lg_len))
              (List.rev !s.larges);
            Printf.printf "u %d\n" (to_i !s.used)
          | ["sc"] ->
            let nb = to_i c.nbuckets in
            for i = 0 to nb do Printf.printf "b2s %d %d\n" i (to_i (b2s (of_i i))) done;
            let mx = to_i (max_bucket_size c) in
            Printf.printf "max %d\n" mx;
            let prev = ref (-1) in
            for k = 0 to mx + 1 do
              let b = to_i (s2b (of_i k)) in
              if b <> !prev then begin Printf.printf "s2b %d %d\n" k b; prev := b end
            done
          | _ -> ()) ops
        with Stop -> ())
     | _ -> print_string "bad-cfg-line\n")

let () = run_cases body
