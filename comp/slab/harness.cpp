// Harness for frg::slab_pool (C01-C04): runs op scripts on the REAL pool with deterministic arena policies,
// prints canonical lines (compared with the extracted Gallina model coq/Slab/SlabModel.v) and evaluates the
// properties with an oracle that does not use the model (interval checker over live blocks and the policy log,
// content canaries, per-class footprint, unmap pairing / used-page accounting / byte-granular poison shadow,
// MapFail transparency).  Pool accesses to poisoned bytes trap through ASan manual poisoning.
//
// Addresses are printed "virtual": real - arena_base + VBASE, arena_base is 4 GiB aligned, so every alignment
// the pool can observe is preserved and the driver can replay the arena policy exactly.
#include <sys/mman.h>
#include <algorithm>
#include <memory>
#include "vharness.hpp"
#include <frg/slab.hpp>

#if defined(__SANITIZE_ADDRESS__)
#include <sanitizer/asan_interface.h>
#define VH_POISON(p, n) ASAN_POISON_MEMORY_REGION((p), (n))
#define VH_UNPOISON(p, n) ASAN_UNPOISON_MEMORY_REGION((p), (n))
#else
#define VH_POISON(p, n) ((void)0)
#define VH_UNPOISON(p, n) ((void)0)
#endif

typedef unsigned long long ull;
static constexpr uint64_t VBASE = 1ull << 32;
static constexpr size_t ARENA_UNIT = 0x1000;     // unit of the "skip" directive and of the guard gap

struct FatalOracle { };   // the case cannot continue meaningfully (e.g. block outside every mapping)

// ------------------------------------------------------------------------------------------------
// configuration table
// ------------------------------------------------------------------------------------------------
struct CfgInfo {
	const char *name;
	size_t page, sb, slabsz; int nb; bool aligned, poison;
	bool pool_detects_poison;      // slab_pool::has_poisoning (must agree with what the policy offers)
	size_t hdr_frame, hdr_slab;
};

// ------------------------------------------------------------------------------------------------
// arena + policy core (shared by all policy types)
// ------------------------------------------------------------------------------------------------
struct Mutex;
struct Core {
	uint8_t *base = nullptr;       // 4 GiB aligned
	size_t cap = 0;                // usable bytes
	size_t hi_seen = 0;            // highest bump offset handed out by any policy object (diagnostics only)
	size_t poisoned_hi = 0;        // [0, poisoned_hi) has been ASan-poisoned for this case, except the holes
	std::vector<std::pair<size_t, size_t>> holes;   // huge regions of non-poisoning policies: never (un)poisoned in ASan
	static constexpr size_t HUGE = (size_t)1 << 30;
	size_t dirty_hi = 0;
	std::vector<std::pair<size_t, size_t>> recycled;   // (off, len), LIFO
	bool recycle = false;
	const CfgInfo *ci = nullptr;

	// script-driven environment for the next map() call of the current op
	bool fail_next = false;
	size_t skip_units = 0;
	bool quiet = false;            // churn: policy calls are made but not printed

	// policy log / registries (real addresses)
	std::map<uintptr_t, size_t> regions;       // outstanding map answers
	std::vector<uint64_t> shadow;              // 1 bit per arena byte: 1 = unpoisoned (own shadow, oracle)
	int held = 0;                              // Mutex instances currently locked
	// per-op observations
	int op_maps = 0, op_failed_maps = 0, op_unmaps = 0, op_cbs = 0;
	uintptr_t op_map_r = 0; size_t op_map_len = 0;
	uintptr_t op_unmap_b = 0; size_t op_unmap_len = 0;
	uintptr_t cur_free_p = 0;                  // block being freed by the current op (may be inside an unmap)
	std::function<bool(uintptr_t, size_t, uintptr_t)> live_intersects;   // set by the body

	// streaming run-length encoder for unpoison lines
	bool run_open = false; uintptr_t run_a0 = 0, run_last = 0; size_t run_n = 0, run_stride = 0, run_cnt = 0;

	uint64_t v(uintptr_t real) const { return real ? (uint64_t)(real - (uintptr_t)base) + VBASE : 0; }
	uintptr_t real(uint64_t virt) const { return virt ? (uintptr_t)base + (virt - VBASE) : 0; }

	void init() {
		if(base) return;
		size_t want = 24ull << 30;
		void *m = mmap(nullptr, want, PROT_READ | PROT_WRITE, MAP_PRIVATE | MAP_ANONYMOUS | MAP_NORESERVE, -1, 0);
		if(m == MAP_FAILED) { want = 10ull << 30; m = mmap(nullptr, want, PROT_READ | PROT_WRITE, MAP_PRIVATE | MAP_ANONYMOUS | MAP_NORESERVE, -1, 0); }
		if(m == MAP_FAILED) { perror("mmap arena"); exit(3); }
		uintptr_t a = ((uintptr_t)m + (1ull << 32) - 1) & ~((1ull << 32) - 1);
		base = (uint8_t *)a;
		cap = want - (a - (uintptr_t)m);
	}
	void reset(const CfgInfo *c) {
		init();
		if(dirty_hi) {
			size_t lo = 0;
			for(auto &h : holes) { if(h.first > lo) VH_UNPOISON(base + lo, h.first - lo); lo = h.second; }
			if(poisoned_hi > lo) VH_UNPOISON(base + lo, poisoned_hi - lo);
			madvise(base, dirty_hi, MADV_DONTNEED);
		}
		holes.clear();
		hi_seen = 0; poisoned_hi = 0; dirty_hi = 0;
		recycled.clear(); recycle = false; ci = c;
		fail_next = false; skip_units = 0; quiet = false;
		regions.clear(); shadow.clear(); held = 0;
		run_open = false; cur_free_p = 0;
		begin_op();
	}
	void begin_op() { op_maps = op_failed_maps = op_unmaps = op_cbs = 0; op_map_r = 0; op_map_len = 0; op_unmap_b = 0; op_unmap_len = 0; }
	void ensure(size_t hi) {     // everything below hi is poisoned in ASan (except holes) and, for poisoning policies, covered by the own shadow
		if(hi > cap) { fprintf(stderr, "arena exhausted\n"); exit(3); }
		if(hi > poisoned_hi) {
			size_t nh = std::min(cap, std::max<size_t>(hi, poisoned_hi + ((size_t)32 << 20)));
			VH_POISON(base + poisoned_hi, nh - poisoned_hi);
			poisoned_hi = nh;
			if(ci->poison) shadow.resize((nh + 63) / 64, 0);
		}
		if(hi > dirty_hi) dirty_hi = hi;
	}
	// a huge region of a non-poisoning policy: only virtual address space; skip it in the ASan poisoning
	void ensure_with_hole(size_t off, size_t len) {
		if(off + len > cap) { fprintf(stderr, "arena exhausted\n"); exit(3); }
		ensure(off);                                    // poisons at least [.., off)
		size_t covered = std::min(poisoned_hi, off + len);
		if(covered > off) VH_UNPOISON(base + off, covered - off);      // the part of the region that is already poisoned
		if(off + len > poisoned_hi) { holes.push_back({poisoned_hi, off + len}); poisoned_hi = off + len; }
		if(off + len > dirty_hi) dirty_hi = off + len;
	}

	// ---- own shadow
	void sh_set(uintptr_t a, size_t n, bool unp) {
		size_t o = a - (uintptr_t)base;
		for(size_t i = o; i < o + n; ) {
			size_t w = i / 64, b = i % 64;
			size_t take = std::min<size_t>(64 - b, o + n - i);
			uint64_t m = (take == 64) ? ~0ull : (((1ull << take) - 1) << b);
			if(unp) shadow[w] |= m; else shadow[w] &= ~m;
			i += take;
		}
	}
	bool sh_all(uintptr_t a, size_t n, bool unp) const {
		size_t o = a - (uintptr_t)base;
		for(size_t i = o; i < o + n; ) {
			size_t w = i / 64, b = i % 64;
			size_t take = std::min<size_t>(64 - b, o + n - i);
			uint64_t m = (take == 64) ? ~0ull : (((1ull << take) - 1) << b);
			uint64_t x = w < shadow.size() ? shadow[w] : 0;
			if(unp ? ((x & m) != m) : ((x & m) != 0)) return false;
			i += take;
		}
		return true;
	}
	bool in_region(uintptr_t a, size_t n) const {
		auto it = regions.upper_bound(a);
		if(it == regions.begin()) return false;
		--it;
		return a >= it->first && a + n <= it->first + it->second && a + n >= a;
	}

	// ---- canonical callback lines
	void flush_run() {
		if(!run_open) return;
		if(quiet) { run_open = false; return; }
		if(run_cnt == 1) printf("unpoison %llu %zu\n", (ull)v(run_a0), run_n);
		else printf("unpoison* %llu %zu %zu %zu\n", (ull)v(run_a0), run_n, run_stride, run_cnt);
		run_open = false;
	}
	void line_unpoison(uintptr_t a, size_t n) {
		if(run_open && n == run_n && a > run_last && (run_cnt == 1 || a - run_last == run_stride)) {
			if(run_cnt == 1) run_stride = a - run_last;
			run_last = a; run_cnt++;
			return;
		}
		flush_run();
		run_open = true; run_a0 = run_last = a; run_n = n; run_stride = 0; run_cnt = 1;
	}

	// ---- the policy entry points
	uintptr_t do_map(size_t &cur, size_t len, size_t al) {      // cur: the bump cursor of the calling policy object
		flush_run(); op_cbs++; op_maps++;
		if(held) vh::oracle("lock-at-callback", "map() called with %d pool lock(s) held", held);
		if(fail_next) {
			fail_next = false; op_failed_maps++;
			if(!quiet) printf("map %zu %zu 0\n", len, al);
			return 0;
		}
		size_t off = 0; bool reused = false;
		if(recycle) {
			for(size_t i = recycled.size(); i-- > 0; )
				if(recycled[i].second == len) { off = recycled[i].first; recycled.erase(recycled.begin() + i); reused = true; break; }
		}
		if(!reused) {
			size_t a = al ? al : ci->page;
			cur += skip_units * ARENA_UNIT;
			off = (cur + a - 1) & ~(a - 1);
			cur = off + len + ARENA_UNIT;             // one guard unit after every mapping, never unpoisoned
		}
		skip_units = 0;
		bool huge = !ci->poison && len >= HUGE;
		if(huge && !reused) { ensure_with_hole(off, len); ensure(cur); } else ensure(std::max(cur, off + len));
		uintptr_t r = (uintptr_t)base + off;
		for(auto &rg : regions)
			if(!(r + len <= rg.first || rg.first + rg.second <= r)) {
				// cannot happen with ONE policy object whose cursor only grows: the pool works on a copy of the policy
				flush_run(); printf("map %zu %zu %llu\n", len, al, (ull)v(r));
				vh::oracle("policy-identity", "map() answered [%llu,+%zu) which overlaps an outstanding region: the pool does not use the caller's policy object", (ull)v(r), len);
				throw FatalOracle{};
			}
		regions[r] = len;
		if(!ci->poison && !huge) VH_UNPOISON((void *)r, len);   // a policy without poison hooks hands out plain memory
		op_map_r = r; op_map_len = len;
		if(!quiet) printf("map %zu %zu %llu\n", len, al, (ull)v(r));
		return r;
	}
	void do_unmap(uintptr_t b, size_t len) {
		flush_run(); op_cbs++; op_unmaps++;
		if(!quiet) printf("unmap %llu %zu\n", (ull)v(b), len);
		if(held) vh::oracle("lock-at-callback", "unmap() called with %d pool lock(s) held", held);
		auto it = regions.find(b);
		if(it == regions.end()) { vh::oracle("unmap", "unmap(%llu, %zu): base is not an outstanding map() answer", (ull)v(b), len); return; }
		if(it->second != len) { vh::oracle("unmap", "unmap(%llu, %zu): the region was mapped with length %zu", (ull)v(b), len, it->second); }
		size_t rl = it->second;
		if(live_intersects && live_intersects(b, rl, cur_free_p))
			vh::oracle("unmap", "unmap(%llu, %zu) while a live block lies inside", (ull)v(b), len);
		op_unmap_b = b; op_unmap_len = rl;
		regions.erase(it);
		if(ci->poison || rl < HUGE) VH_POISON((void *)b, rl);
		if(ci->poison) sh_set(b, rl, false);
		recycled.push_back({b - (uintptr_t)base, rl});
	}
	// returns the part of n that lies inside the mapped region containing a (the whole of n when the call is legal)
	size_t range_check(const char *what, uintptr_t a, size_t n) {
		if(held) vh::oracle("lock-at-callback", "%s() called with %d pool lock(s) held", what, held);
		if(n && !in_region(a, n)) {
			vh::oracle("poison", "%s(%llu, %zu): range is not inside a mapped region", what, (ull)v(a), n);
			auto it = regions.upper_bound(a);
			if(it == regions.begin()) return 0;
			--it;
			if(a >= it->first + it->second) return 0;
			return it->first + it->second - a;
		}
		return n;
	}
	void do_poison(void *p, size_t n) {
		flush_run(); op_cbs++;
		if(!quiet) printf("poison %llu %zu\n", (ull)v((uintptr_t)p), n);
		n = range_check("poison", (uintptr_t)p, n);
		VH_POISON(p, n); sh_set((uintptr_t)p, n, false);
	}
	void do_unpoison(void *p, size_t n) {
		op_cbs++;
		if(!quiet) line_unpoison((uintptr_t)p, n);
		n = range_check("unpoison", (uintptr_t)p, n);
		VH_UNPOISON(p, n); sh_set((uintptr_t)p, n, true);
	}
	void do_unpoison_expand(void *p, size_t n) {
		flush_run(); op_cbs++;
		if(!quiet) printf("unpoison_expand %llu %zu\n", (ull)v((uintptr_t)p), n);
		n = range_check("unpoison_expand", (uintptr_t)p, n);
		VH_UNPOISON(p, n); sh_set((uintptr_t)p, n, true);
	}
};
static Core g;

struct Mutex {
	bool locked = false;
	void lock() { if(locked) { vh::oracle("deadlock", "lock() on a mutex the thread already holds"); } locked = true; g.held++; }
	void unlock() {
		if(!locked) vh::oracle("lock-balance", "unlock() of a pool mutex that is not locked (%d lock(s) held)", g.held);
		else g.held--;
		locked = false;
	}
};

// The state of the policy (bump cursor, call counter) is IN the policy object the harness owns and passes by reference.
struct PolicyState {
	size_t cur = ARENA_UNIT * 16;     // bump offset
	uint64_t calls = 0;               // calls received by THIS object
};
struct MapAligned : virtual PolicyState {
	uintptr_t map(size_t len, size_t al) { calls++; return g.do_map(cur, len, al); }
	void unmap(uintptr_t b, size_t len) { calls++; g.do_unmap(b, len); }
};
struct MapPlain : virtual PolicyState {
	uintptr_t map(size_t len) { calls++; return g.do_map(cur, len, 0); }
	void unmap(uintptr_t b, size_t len) { calls++; g.do_unmap(b, len); }
};
struct Poisoning : virtual PolicyState {
	static constexpr bool wants_poison = true;
	void poison(void *p, size_t n) { calls++; g.do_poison(p, n); }
	void unpoison(void *p, size_t n) { calls++; g.do_unpoison(p, n); }
	void unpoison_expand(void *p, size_t n) { calls++; g.do_unpoison_expand(p, n); }
};
// the three hooks OVERLOADED (void * and uintptr_t flavours): &Policy::poison is ambiguous, the call expression is not
struct PoisoningOverloaded : virtual PolicyState {
	static constexpr bool wants_poison = true;
	void poison(void *p, size_t n) { calls++; g.do_poison(p, n); }
	void poison(uintptr_t p, size_t n) { poison((void *)p, n); }
	void unpoison(void *p, size_t n) { calls++; g.do_unpoison(p, n); }
	void unpoison(uintptr_t p, size_t n) { unpoison((void *)p, n); }
	void unpoison_expand(void *p, size_t n) { calls++; g.do_unpoison_expand(p, n); }
	void unpoison_expand(uintptr_t p, size_t n) { unpoison_expand((void *)p, n); }
};
// the three hooks as member TEMPLATES
struct PoisoningTemplated : virtual PolicyState {
	static constexpr bool wants_poison = true;
	template<class T> void poison(T p, size_t n) { calls++; g.do_poison((void *)p, n); }
	template<class T> void unpoison(T p, size_t n) { calls++; g.do_unpoison((void *)p, n); }
	template<class T> void unpoison_expand(T p, size_t n) { calls++; g.do_unpoison_expand((void *)p, n); }
};
struct NoPoisoning { static constexpr bool wants_poison = false; };
struct NoConsts { };
template<size_t PG, size_t SBS, size_t SLB, int NB>
struct Consts {
	static constexpr size_t pagesize = PG;
	static constexpr size_t sb_size = SBS;
	static constexpr size_t slabsize = SLB;
	static constexpr int num_buckets = NB;
};
// the same constants with a narrower DECLARED type (the pool must not inherit that type for its masks)
template<class T, T PG, T SBS, T SLB, T NB>
struct ConstsT {
	static constexpr T pagesize = PG;
	static constexpr T sb_size = SBS;
	static constexpr T slabsize = SLB;
	static constexpr T num_buckets = NB;
};
template<class M, class P, class C> struct Policy : M, P, C { };

// name, policy type
#define CONFIGS(X) \
	X(def_ap,    Policy<MapAligned, Poisoning,   NoConsts>) \
	X(def_up,    Policy<MapPlain,   Poisoning,   NoConsts>) \
	X(def_an,    Policy<MapAligned, NoPoisoning, NoConsts>) \
	X(def_un,    Policy<MapPlain,   NoPoisoning, NoConsts>) \
	X(p4k_s64k_b10_ap,  Policy<MapAligned, Poisoning,   Consts<0x1000, 0x10000, 0x10000, 10>>) \
	X(p16k_s64k_b10_up, Policy<MapPlain,   Poisoning,   Consts<0x4000, 0x10000, 0x10000, 10>>) \
	X(p16k_s256k_b13_ap, Policy<MapAligned, Poisoning,  Consts<0x4000, 0x40000, 0x40000, 13>>) \
	X(p4k_s112k_b13_ap, Policy<MapAligned, Poisoning,   Consts<0x1000, 0x20000, 0x1C000, 13>>) \
	X(p4k_s112k_b13_up, Policy<MapPlain,   Poisoning,   Consts<0x1000, 0x20000, 0x1C000, 13>>) \
	X(p16k_s112k_b10_un, Policy<MapPlain,  NoPoisoning, Consts<0x4000, 0x20000, 0x1C000, 10>>) \
	X(p4k_s64k_b4_an,   Policy<MapAligned, NoPoisoning, Consts<0x1000, 0x10000, 0x10000, 4>>) \
	X(p4k_s256k_b4_up,  Policy<MapPlain,   Poisoning,   Consts<0x1000, 0x40000, 0x40000, 4>>) \
	X(p64k_s64k_b12_ap, Policy<MapAligned, Poisoning,   Consts<0x10000, 0x10000, 0x10000, 12>>) \
	X(p64k_s64k_b12_un, Policy<MapPlain,   NoPoisoning, Consts<0x10000, 0x10000, 0x10000, 12>>) \
	X(u32_p4k_s64k_b10_ap, Policy<MapAligned, Poisoning, ConstsT<uint32_t, 0x1000, 0x10000, 0x10000, 10>>) \
	X(int_p4k_s112k_b13_up, Policy<MapPlain,  Poisoning, ConstsT<int, 0x1000, 0x20000, 0x1C000, 13>>) \
	X(u32_p64k_s64k_b12_un, Policy<MapPlain,  NoPoisoning, ConstsT<unsigned, 0x10000, 0x10000, 0x10000, 12>>) \
	X(p4k_s1m_b13_ap,   Policy<MapAligned, Poisoning,   Consts<0x1000, 0x100000, 0x100000, 13>>) \
	X(ovl_def_ap,       Policy<MapAligned, PoisoningOverloaded, NoConsts>) \
	X(tpl_p4k_s64k_b10_up, Policy<MapPlain, PoisoningTemplated, Consts<0x1000, 0x10000, 0x10000, 10>>)

template<class Pol> CfgInfo make_info(const char *name) {
	using Pool = frg::slab_pool<Pol, Mutex>;
	CfgInfo c;
	c.name = name; c.page = Pool::page_size; c.sb = Pool::sb_size; c.slabsz = Pool::slabsize; c.nb = Pool::num_buckets;
	c.aligned = frg::is_detected_v<frg::policy_map_aligned_t, Pol>;
	c.poison = Pol::wants_poison;          // what the POLICY offers; the model is run with this
	c.pool_detects_poison = Pool::has_poisoning;
	c.hdr_frame = sizeof(typename Pool::frame); c.hdr_slab = sizeof(typename Pool::slab_frame);
	return c;
}

// ------------------------------------------------------------------------------------------------
// the per-case body
// ------------------------------------------------------------------------------------------------
static inline uint8_t pat(uint64_t tag, uint64_t j) { return (uint8_t)((tag + j * 7 + j / 251) % 256); }

struct Blk {
	size_t n;            // requested
	size_t size0;        // get_size when it became live
	bool small; int cls; int pool_id = 0;
	uint64_t seq;
	std::vector<uint8_t> data; std::vector<uint8_t> det;    // expected contents of the requested bytes
};

template<class Pol>
struct Runner {
	using Pool = frg::slab_pool<Pol, Mutex>;
	using frame = typename Pool::frame;
	using slab_frame = typename Pool::slab_frame;
	const CfgInfo &ci;
	Pol pol;                                       // ONE policy object, owned by the harness, referenced by both pools
	struct Ctx {                                   // one pool and what the oracle knows about it
		Pool pool_;
		std::vector<uintptr_t> slab_frames_;            // creation order
		std::vector<uint64_t> slab_maps_, live_small_, peak_small_;   // per class
		std::map<uintptr_t, size_t> region_pages_;      // outstanding region base -> pages it accounts for
		Ctx(Pol &p, int nb) : pool_(p), slab_maps_(nb, 0), live_small_(nb, 0), peak_small_(nb, 0) { }
	};
	Ctx cx0, cx1;
	Ctx *cx = &cx0;
	int cxi = 0;
#define pool (cx->pool_)
#define slab_frames (cx->slab_frames_)
#define slab_maps (cx->slab_maps_)
#define live_small (cx->live_small_)
#define peak_small (cx->peak_small_)
#define region_pages (cx->region_pages_)
	std::map<uintptr_t, Blk> live;                 // blocks of BOTH pools (they must be pairwise disjoint)
	std::vector<void *> slots;
	uint64_t seq = 0;
	size_t opno = 0;
	uint64_t calls_before = 0;
	bool wrap = false;             // script op `wrap`: issue allocate/free/deallocate/reallocate/get_size through slab_allocator
	frg::slab_allocator<Pol, Mutex> W() { return frg::slab_allocator<Pol, Mutex>(&pool); }

	// the calls the pool made during this op must have arrived at the harness's own policy object
	void begin_identity() { calls_before = pol.calls; }
	void check_identity(const char *what) {
		if(pol.calls - calls_before != (uint64_t)g.op_cbs)
			vh::oracle("policy-identity", "%s: the pool made %d policy call(s) but the caller's policy object received %llu",
				what, g.op_cbs, (ull)(pol.calls - calls_before));
	}

	Runner(const CfgInfo &c) : ci(c), cx0(pol, c.nb), cx1(pol, c.nb) {
		g.live_intersects = [this](uintptr_t b, size_t len, uintptr_t except) {
			auto it = live.lower_bound(b);
			if(it != live.begin()) { auto pr = std::prev(it); if(pr->first != except && pr->first + pr->second.size0 > b) return true; }
			for(; it != live.end() && it->first < b + len; ++it) if(it->first != except) return true;
			return false;
		};
	}

	// ---- oracle arithmetic (independent of the pool's own functions)
	size_t max_small() const { return (size_t)8 << (ci.nb - 1); }
	static size_t pow2ceil(size_t n) { size_t p = 1; while(p < n) p <<= 1; return p; }
	size_t align_of(size_t n) const { return std::min(ci.page, std::max<size_t>(8, pow2ceil(n))); }
	size_t ovh_of(size_t item) const { return (ci.hdr_slab + item - 1) / item * item; }
	size_t per_slab(size_t item) const { return (ci.slabsz - ovh_of(item)) / item; }
	uintptr_t frame_of_region(uintptr_t b) const { return ci.aligned ? b : ((b + ci.sb - 1) & ~(ci.sb - 1)); }
	static int cls_of_size(size_t sz) { int c = 0; while(((size_t)8 << c) < sz) c++; return c; }

	void *slot(size_t i) { if(i >= slots.size()) slots.resize(i + 1, nullptr); return slots[i]; }
	void set_slot(size_t i, void *p) { if(i >= slots.size()) slots.resize(i + 1, nullptr); slots[i] = p; }

	void set_env(const std::string &e) {
		g.fail_next = false; g.skip_units = 0;
		if(e == "fail") g.fail_next = true;
		else if(e.rfind("ok:", 0) == 0) g.skip_units = strtoull(e.c_str() + 3, nullptr, 0);
	}

	// fingerprint of the pool's own state (for MapFail transparency)
	uint64_t fingerprint() {
		uint64_t h = 1469598103934665603ull;
		auto mix = [&](uint64_t x) { h = (h ^ x) * 1099511628211ull; };
		mix(pool._usedPages);
		for(int i = 0; i < ci.nb; i++) {
			auto &b = pool._bkts[i];
			mix((uint64_t)(uintptr_t)b.head_slb);
			size_t guard = 0;
			for(slab_frame *s = b.partial_tree.first(); s && guard < 100000; s = Pool::partial_tree_type::successor(s), guard++)
				mix((uint64_t)(uintptr_t)s);
			mix(0xabcdef);
		}
		for(uintptr_t f : slab_frames) {
			auto s = reinterpret_cast<slab_frame *>(f);
			mix((uint64_t)(uintptr_t)s->available); mix(s->num_reserved);
		}
		mix(g.regions.size());
		return h;
	}

	// ---- checks on one live block
	void check_block(uintptr_t p, const Blk &b, bool fresh) {
		size_t gs = pool.get_size((void *)p);
		size_t n1 = b.n ? b.n : 1;
		if(gs < n1) vh::oracle("size", "block %llu: get_size %zu < requested %zu", (ull)g.v(p), gs, n1);
		if(gs != b.size0) vh::oracle("size", "block %llu: get_size changed from %zu to %zu while live", (ull)g.v(p), b.size0, gs);
		if(!g.in_region(p, gs)) {
			vh::oracle("inside", "block [%llu,+%zu) (requested %zu) is not inside a region obtained from map() and not unmapped", (ull)g.v(p), gs, b.n);
			throw FatalOracle{};
		}
		if(p % align_of(n1)) vh::oracle("align", "block %llu requested %zu is not aligned to %zu", (ull)g.v(p), b.n, align_of(n1));
		auto it = live.find(p);
		if(it != live.end()) {
			if(it != live.begin()) { auto pr = std::prev(it); if(pr->first + pr->second.size0 > p) vh::oracle("overlap", "block %llu overlaps live block [%llu,+%zu)", (ull)g.v(p), (ull)g.v(pr->first), pr->second.size0); }
			auto nx = std::next(it);
			if(nx != live.end() && p + gs > nx->first) vh::oracle("overlap", "block [%llu,+%zu) overlaps live block %llu", (ull)g.v(p), gs, (ull)g.v(nx->first));
		}
		// bookkeeping: the frame header of the block's own superblock
		uintptr_t f = (p - 1) & ~(uintptr_t)(ci.sb - 1);
		if(g.in_region(f, ci.hdr_frame)) {
			auto fr = reinterpret_cast<frame *>(f);
			size_t hdr = fr->type == Pool::frame_type::slab ? ci.hdr_slab : ci.hdr_frame;
			if(!(p >= f + hdr || p + gs <= f)) vh::oracle("bookkeeping", "block %llu overlaps its frame header", (ull)g.v(p));
			if(fr->type == Pool::frame_type::slab) {
				auto s = static_cast<slab_frame *>(fr);
				if((uintptr_t)s->available == p) vh::oracle("bookkeeping", "live block %llu is the head of its slab's free list", (ull)g.v(p));
				if(!b.small) vh::oracle("bookkeeping", "large request served from a slab frame");
			}
		} else vh::oracle("bookkeeping", "block %llu: frame lookup address is not inside a mapped region", (ull)g.v(p));
		if(ci.poison && !g.sh_all(p, n1, true))
			vh::oracle("poison", "live block %llu: some of its %zu requested bytes are poisoned", (ull)g.v(p), n1);
		(void)fresh;
	}
	void check_content(uintptr_t p, const Blk &b) {
		const uint8_t *m = (const uint8_t *)p;
		for(size_t i = 0; i < b.data.size(); i++)
			if(b.det[i] && m[i] != b.data[i]) {
				vh::oracle("content", "block %llu (requested %zu): byte %zu changed without a write by its owner (expected %u, found %u)",
					(ull)g.v(p), b.n, i, (unsigned)b.data[i], (unsigned)m[i]);
				return;
			}
	}
	size_t live_bytes() const { size_t t = 0; for(auto &kv : live) t += kv.second.data.size(); return t; }
	void sweep(bool force) {
		if(!force && live_bytes() > (1u << 15) && (opno % 32)) return;
		for(auto &kv : live) check_content(kv.first, kv.second);
	}

	void check_pages() {
		size_t want = 0;
		for(auto &kv : region_pages) want += kv.second;
		if(pool.numUsedPages() != want)
			vh::oracle("pages", "numUsedPages() = %zu but the outstanding regions account for %zu", pool.numUsedPages(), want);
		bool any_large = false;
		for(auto &kv : live) if(!kv.second.small) { any_large = true; break; }
		size_t all_slabs = cx0.slab_frames_.size() + cx1.slab_frames_.size();
		if(!any_large && g.regions.size() != all_slabs)
			vh::oracle("unmap", "no large block is live but %zu regions are mapped for %zu slabs", g.regions.size(), all_slabs);
	}

	// ---- full structural walk (verify points and end of case)
	void verify(bool dump) {
		for(auto &kv : live) check_block(kv.first, kv.second, false);
		sweep(true);
		check_pages();
		if(dump) {
			for(int i = 0; i < ci.nb; i++) {
				auto &b = pool._bkts[i];
				printf("b %d", i);
				size_t guard = 0;
				slab_frame *first = b.partial_tree.first();
				for(slab_frame *s = first; s && guard < 100000; s = Pool::partial_tree_type::successor(s), guard++)
					printf(" %llu", (ull)g.v((uintptr_t)s));
				printf("\n");
				if(first != b.head_slb) vh::oracle("bookkeeping", "bucket %d: head_slb is not the first partial slab", i);
			}
		}
		for(uintptr_t f : slab_frames) {
			auto s = reinterpret_cast<slab_frame *>(f);
			size_t item = (size_t)8 << s->index;
			size_t cap = per_slab(item);
			size_t navail = 0; uint64_t h = 0;
			std::set<uintptr_t> seen;
			for(auto o = s->available; o; o = o->link) {
				uintptr_t a = (uintptr_t)o;
				if(a < s->address || a + item > s->address + s->length || (a - s->address) % item) {
					vh::oracle("freelist", "slab %llu: free object %llu is not an object of the slab", (ull)g.v(f), (ull)g.v(a)); break; }
				if(!g.in_region(a, item)) { vh::oracle("inside", "slab %llu: free object %llu extends past the mapping", (ull)g.v(f), (ull)g.v(a)); break; }
				if(!seen.insert(a).second) { vh::oracle("freelist", "slab %llu: object %llu is twice on the free list", (ull)g.v(f), (ull)g.v(a)); break; }
				if(live.count(a)) vh::oracle("freelist", "slab %llu: live block %llu is on the free list", (ull)g.v(f), (ull)g.v(a));
				if(ci.poison && !(g.sh_all(a, 8, true) && g.sh_all(a + 8, item - 8, false)))
					vh::oracle("poison", "free object %llu: not (link word unpoisoned, rest poisoned)", (ull)g.v(a));
				h = (h * 31 + (a - f)) & 0xffffffffull; navail++;
				if(navail > cap + 2) { vh::oracle("freelist", "slab %llu: free list longer than the slab's capacity", (ull)g.v(f)); break; }
			}
			size_t nlive = 0;
			for(auto it = live.lower_bound(f); it != live.end() && it->first < f + ci.slabsz; ++it) nlive++;
			if(navail + nlive != cap) vh::oracle("freelist", "slab %llu: %zu free + %zu live objects, capacity %zu", (ull)g.v(f), navail, nlive, cap);
			if(dump) printf("s %llu %d %u %zu %llu\n", (ull)g.v(f), s->index, s->num_reserved, navail, (ull)h);
		}
		if(dump) {
			std::vector<std::pair<uint64_t, uintptr_t>> lg;
			for(auto &kv : live) if(!kv.second.small && kv.second.pool_id == cxi) lg.push_back({kv.second.seq, kv.first});
			std::sort(lg.begin(), lg.end());
			for(auto &x : lg) {
				auto fr = reinterpret_cast<frame *>((x.second - 1) & ~(uintptr_t)(ci.sb - 1));
				printf("l %llu %llu %zu %zu\n", (ull)g.v((uintptr_t)fr), (ull)g.v(fr->sb_base), fr->sb_reservation, fr->length);
			}
			printf("u %zu\n", pool.numUsedPages());
		}
	}

	// ---- registering the outcome of a successful allocate / moving realloc
	void born(uintptr_t p, size_t n, bool mapped_now) {
		size_t n1 = n ? n : 1;
		Blk b; b.n = n; b.seq = ++seq; b.pool_id = cxi;
		b.small = n1 <= max_small();
		b.size0 = pool.get_size((void *)p);
		b.cls = b.small ? cls_of_size(b.size0) : -1;
		if(n1 <= ((size_t)64 << 20)) { b.data.assign(n1, 0); b.det.assign(n1, 0); }   // huge blocks: contents not tracked
		if(live.count(p)) vh::oracle("overlap", "allocate returned %llu which is already live", (ull)g.v(p));
		if(mapped_now) {
			if(b.small) {
				uintptr_t f = frame_of_region(g.op_map_r);
				slab_frames.push_back(f);
				size_t item = (size_t)8 << b.cls;
				region_pages[g.op_map_r] = (ci.slabsz - ovh_of(item) + ci.page) / ci.page;
				if(b.cls < ci.nb) slab_maps[b.cls]++;
			} else {
				size_t area = (n1 + ci.page - 1) & ~(ci.page - 1);
				region_pages[g.op_map_r] = (area + ci.page) / ci.page;
			}
		}
		live[p] = b;
		if(b.small && b.cls < ci.nb) {
			live_small[b.cls]++;
			peak_small[b.cls] = std::max(peak_small[b.cls], live_small[b.cls]);
			size_t item = (size_t)8 << b.cls;
			size_t ps = per_slab(item);
			if(ps && slab_maps[b.cls] > (peak_small[b.cls] + ps - 1) / ps)
				vh::oracle("footprint", "class %zu: %llu slabs mapped for a peak of %llu live blocks (%zu per slab)",
					item, (ull)slab_maps[b.cls], (ull)peak_small[b.cls], ps);
		}
		check_block(p, live[p], true);
	}
	void died(uintptr_t p) {
		auto it = live.find(p);
		if(it == live.end()) return;
		Blk &b = it->second;
		if(b.small) {
			if(b.cls < ci.nb) live_small[b.cls]--;
			if(ci.poison && g.in_region(p, b.size0) && !(g.sh_all(p, 8, true) && g.sh_all(p + 8, b.size0 - 8, false)))
				vh::oracle("poison", "freed small block %llu: not (link word unpoisoned, rest poisoned)", (ull)g.v(p));
		} else {
			if(g.op_unmaps != 1) vh::oracle("unmap", "freeing large block %llu made %d unmap calls", (ull)g.v(p), g.op_unmaps);
			else region_pages.erase(g.op_unmap_b);
		}
		live.erase(it);
	}

	void after_failed_map(const char *what, void *ret, uint64_t fp_before, size_t used_before) {
		if(ret) vh::oracle("mapfail", "%s returned non-null although map() failed", what);
		if(g.op_cbs != 1) vh::oracle("mapfail", "%s made %d policy calls besides the failing map()", what, g.op_cbs - 1);
		if(pool.numUsedPages() != used_before) vh::oracle("mapfail", "%s: numUsedPages changed across a failed map()", what);
		if(fingerprint() != fp_before) vh::oracle("mapfail", "%s: the pool's bucket/slab state changed across a failed map()", what);
		if(g.held) vh::oracle("mapfail", "%s: %d lock(s) still held after the failed call", what, g.held);
	}

	// nothing may be left locked when an API call returns
	void check_locks(const char *what) {
		int still = pool._tree_mutex.locked ? 1 : 0;
		for(int i = 0; i < ci.nb; i++) if(pool._bkts[i].bucket_mutex.locked) still++;
		if(still || g.held)
			vh::oracle("lock-balance", "%s returned with %d pool mutex(es) locked (balance %d)", what, still, g.held);
	}

	void result_ptr(void *p) {
		g.flush_run();
		printf("= %llu sz=%zu used=%zu\n", (ull)g.v((uintptr_t)p), p ? pool.get_size(p) : (size_t)0, pool.numUsedPages());
	}

	void op_alloc(size_t sl, size_t n, const std::string &env) {
		set_env(env); g.begin_op();
		uint64_t fp = fingerprint(); size_t ub = pool.numUsedPages();
		begin_identity();
		void *p = wrap ? W().allocate(n) : pool.allocate(n);
		check_identity("allocate");
		check_locks(g.op_failed_maps ? "allocate (map failed)" : "allocate");
		result_ptr(p);
		if(g.op_failed_maps) after_failed_map("allocate", p, fp, ub);
		else if(!p) vh::oracle("mapfail", "allocate(%zu) returned null although no map() failed", n);
		if(p) born((uintptr_t)p, n, g.op_maps > g.op_failed_maps);
		set_slot(sl, p);
	}

	// <count> allocate/free pairs of <n> bytes in a tight loop (policy calls are made but not printed)
	void op_churn(size_t n, uint64_t count) {
		g.begin_op(); g.fail_next = false; g.skip_units = 0; g.quiet = true;
		for(uint64_t i = 0; i < count; i++) {
			void *p = pool.allocate(n);
			if(!p) { g.quiet = false; vh::oracle("mapfail", "allocate(%zu) returned null during churn although no map() failed", n); break; }
			if(i == 0 || i + 1 == count) {          // first and last pair go through the full oracle
				bool mapped_now = g.op_maps > g.op_failed_maps; g.quiet = false;
				born((uintptr_t)p, n, mapped_now); g.begin_op(); g.cur_free_p = (uintptr_t)p; g.quiet = true;
				pool.free(p);
				g.quiet = false; died((uintptr_t)p); g.cur_free_p = 0; g.begin_op(); g.quiet = true;
			} else {
				if(g.op_maps) { g.quiet = false; vh::oracle("footprint", "churn of %zu bytes mapped memory in pair %llu", n, (ull)i); g.quiet = true; g.begin_op(); }
				g.cur_free_p = (uintptr_t)p;
				pool.free(p);
				g.cur_free_p = 0;
			}
		}
		g.quiet = false; g.run_open = false;
		check_locks("allocate/free churn");
		printf("= churn used=%zu\n", pool.numUsedPages());
	}

	// fill <n> <count>: <count> blocks of <n> bytes become live (policy calls made, not printed); drain: free them, last first
	std::vector<void *> bulk;
	void op_fill(size_t n, uint64_t count) {
		uint64_t h = 0;
		for(uint64_t i = 0; i < count; i++) {
			g.begin_op(); g.fail_next = false; g.skip_units = 0; g.quiet = true;
			void *p = pool.allocate(n);
			bool mapped_now = g.op_maps > g.op_failed_maps;
			g.quiet = false; g.run_open = false;
			if(!p) { vh::oracle("mapfail", "allocate(%zu) returned null during fill although no map() failed", n); break; }
			born((uintptr_t)p, n, mapped_now);
			auto it = live.find((uintptr_t)p); if(it != live.end()) { it->second.data.clear(); it->second.det.clear(); }
			bulk.push_back(p);
			h = (h * 31 + g.v((uintptr_t)p)) & 0xffffffffull;
		}
		check_locks("allocate (fill)");
		printf("= fill %zu %llu used=%zu\n", bulk.size(), (ull)h, pool.numUsedPages());
	}
	void op_drain() {
		while(!bulk.empty()) {
			void *p = bulk.back(); bulk.pop_back();
			g.begin_op(); g.quiet = true; g.cur_free_p = (uintptr_t)p;
			pool.free(p);
			g.quiet = false; g.run_open = false; g.cur_free_p = 0;
			died((uintptr_t)p);
		}
		check_locks("free (drain)");
		printf("= drain used=%zu\n", pool.numUsedPages());
	}

	void op_free(size_t sl, bool sized, size_t n) {
		void *p = slot(sl);
		g.begin_op(); g.fail_next = false; g.cur_free_p = (uintptr_t)p;
		uint64_t fp = p ? 0 : fingerprint();
		begin_identity();
		if(wrap) { if(sized) W().deallocate(p, n); else W().free(p); }
		else { if(sized) pool.deallocate(p, n); else pool.free(p); }
		check_identity("free");
		check_locks("free");
		g.flush_run();
		printf("= unit used=%zu\n", pool.numUsedPages());
		if(!p) {
			if(g.op_cbs || fingerprint() != fp) vh::oracle("nullop", "free/deallocate of null changed the pool");
		} else died((uintptr_t)p);
		g.cur_free_p = 0;
		set_slot(sl, nullptr);
	}

	void op_realloc(size_t sl, size_t n, const std::string &env) {
		void *p = slot(sl);
		set_env(env); g.begin_op(); g.cur_free_p = (uintptr_t)p;
		uint64_t fp = fingerprint(); size_t ub = pool.numUsedPages();
		Blk old; bool had = false;
		if(p) { auto it = live.find((uintptr_t)p); if(it != live.end()) { old = it->second; had = true; } }
		begin_identity();
		void *q = wrap ? W().reallocate(p, n) : pool.realloc(p, n);
		check_identity("realloc");
		check_locks(g.op_failed_maps ? "realloc (map failed)" : "realloc");
		result_ptr(q);
		g.cur_free_p = 0;
		if(!p) {                                   // realloc(null, n) == allocate(n)
			if(g.op_failed_maps) after_failed_map("realloc(null)", q, fp, ub);
			else if(!q) vh::oracle("realloc", "realloc(null, %zu) returned null although no map() failed", n);
			if(q) born((uintptr_t)q, n, g.op_maps > g.op_failed_maps);
			set_slot(sl, q);
			return;
		}
		if(!n) {                                   // realloc(p, 0) == free(p), returns null
			if(q) vh::oracle("realloc", "realloc(p, 0) returned non-null");
			died((uintptr_t)p);
			set_slot(sl, nullptr);
			return;
		}
		if(!had) return;
		if(n <= old.size0) {                       // must stay in place
			if(q != p) vh::oracle("realloc", "realloc to %zu <= get_size %zu moved the block", n, old.size0);
			if(g.op_maps || g.op_unmaps) vh::oracle("realloc", "in-place realloc called map/unmap");
			if(q == p) {
				Blk &b = live[(uintptr_t)p];
				b.n = n;
				if(n <= ((size_t)64 << 20) && (b.data.size() || old.n == 0 || old.data.size())) { b.data.resize(n, 0); b.det.resize(n, 0); }
				else { b.data.clear(); b.det.clear(); }      // huge blocks: contents not tracked
				check_block((uintptr_t)p, b, false);
				// still live: must not have been pushed on its slab's free list
				if(b.small) {
					auto s = reinterpret_cast<slab_frame *>(((uintptr_t)p - 1) & ~(uintptr_t)(ci.sb - 1));
					size_t guard = 0;
					for(auto o = s->available; o && guard < (1u << 20); o = o->link, guard++)
						if((void *)o == p) { vh::oracle("realloc", "in-place realloc put the live block on the free list"); break; }
				}
			}
			set_slot(sl, q ? q : p);
			return;
		}
		// must move (or fail leaving p intact)
		if(!q) {
			if(g.op_failed_maps) after_failed_map("realloc", q, fp, ub);
			else vh::oracle("realloc", "growing realloc returned null although no map() failed");
			check_block((uintptr_t)p, live[(uintptr_t)p], false);
			check_content((uintptr_t)p, live[(uintptr_t)p]);
			return;
		}
		if(q == p) { vh::oracle("realloc", "realloc to %zu > get_size %zu returned the same block", n, old.size0); return; }
		died((uintptr_t)p);
		born((uintptr_t)q, n, g.op_maps > g.op_failed_maps);
		Blk &nb = live[(uintptr_t)q];
		size_t keep = std::min(old.data.size(), nb.data.size());
		for(size_t i = 0; i < keep; i++) { nb.data[i] = old.data[i]; nb.det[i] = old.det[i]; }
		check_content((uintptr_t)q, nb);
		set_slot(sl, q);
	}

	void run(const vh::Lines &ls) {
		for(size_t i = 1; i < ls.size(); i++) {
			auto t = vh::split(ls[i]);
			if(t.empty()) continue;
			const std::string &o = t[0];
			opno++;
			if(o == "a" && t.size() >= 4) op_alloc(vh::u64(t[1]), vh::u64(t[2]), t[3]);
			else if(o == "churn" && t.size() >= 3) op_churn(vh::u64(t[1]), vh::u64(t[2]));
			else if(o == "fill" && t.size() >= 3) op_fill(vh::u64(t[1]), vh::u64(t[2]));
			else if(o == "drain") op_drain();
			else if(o == "f" && t.size() >= 2) op_free(vh::u64(t[1]), false, 0);
			else if(o == "d" && t.size() >= 3) op_free(vh::u64(t[1]), true, vh::u64(t[2]));
			else if(o == "r" && t.size() >= 4) op_realloc(vh::u64(t[1]), vh::u64(t[2]), t[3]);
			else if(o == "g" && t.size() >= 2) {
				void *p = slot(vh::u64(t[1]));
				size_t gs = wrap ? W().get_size(p) : pool.get_size(p);
				printf("= size %zu\n", gs);
				if(p) { auto it = live.find((uintptr_t)p); if(it != live.end() && gs != it->second.size0) vh::oracle("size", "get_size changed from %zu to %zu while the block is live", it->second.size0, gs); }
				else if(gs) vh::oracle("size", "get_size(null) = %zu", gs);
			} else if(o == "w" && t.size() >= 5) {
				void *p = slot(vh::u64(t[1]));
				size_t off = vh::u64(t[2]), len = vh::u64(t[3]); uint64_t tag = vh::u64(t[4]);
				auto it = p ? live.find((uintptr_t)p) : live.end();
				if(it != live.end() && off + len <= it->second.data.size()) {
					uint8_t *m = (uint8_t *)p;
					for(size_t j = 0; j < len; j++) { m[off + j] = pat(tag, j); it->second.data[off + j] = pat(tag, j); it->second.det[off + j] = 1; }
				}
			} else if(o == "c" && t.size() >= 4) {
				void *p = slot(vh::u64(t[1]));
				size_t off = vh::u64(t[2]), len = vh::u64(t[3]);
				auto it = p ? live.find((uintptr_t)p) : live.end();
				bool ok = it != live.end() && off + len <= it->second.data.size();
				if(ok) for(size_t j = 0; j < len; j++) if(!it->second.det[off + j]) { ok = false; break; }
				if(!ok) printf("c indet\n");
				else {
					uint64_t acc = 0; const uint8_t *m = (const uint8_t *)p;
					for(size_t j = 0; j < len; j++) acc = (acc * 31 + m[off + j]) & 0xffffffffull;
					printf("c %llu\n", (ull)acc);
				}
			} else if(o == "v") verify(true);
			else if(o == "recycle") g.recycle = true;
			else if(o == "wrap") { wrap = true; continue; }
			else if(o == "pool" && t.size() >= 2) { cxi = vh::u64(t[1]) ? 1 : 0; cx = cxi ? &cx1 : &cx0; continue; }
			else if(o == "sc") sizeclasses();
			else continue;
			if(o != "v" && o != "sc" && o != "recycle") { sweep(false); check_pages(); }
		}
		verify(false);
	}

	// exhaustive size-class sweep 0 .. max_bucket_size+1 (printed as change points) + oracle
	void sizeclasses() {
		for(int i = 0; i <= ci.nb; i++) printf("b2s %d %zu\n", i, Pool::bucket_to_size(i));
		size_t mx = Pool::max_bucket_size;
		printf("max %zu\n", mx);
		size_t prev = (size_t)-1;
		for(size_t n = 0; n <= mx + 1; n++) {
			size_t b = Pool::size_to_bucket(n);
			if(b != prev) { printf("s2b %zu %zu\n", n, b); prev = b; }
			if(n >= 1 && n <= mx) {
				if((int)b >= ci.nb) { vh::oracle("sizeclass", "size_to_bucket(%zu) = %zu >= num_buckets", n, b); break; }
				if(Pool::bucket_to_size(b) < n) { vh::oracle("sizeclass", "bucket_to_size(size_to_bucket(%zu)) < %zu", n, n); break; }
				if(b > 0 && Pool::bucket_to_size(b - 1) >= n) { vh::oracle("sizeclass", "size_to_bucket(%zu) is not the smallest fitting class", n); break; }
			}
		}
	}
};

#undef pool
#undef slab_frames
#undef slab_maps
#undef live_small
#undef peak_small
#undef region_pages

template<class Pol> void run_cfg(const CfgInfo &ci, const vh::Lines &ls) {
	g.reset(&ci);
	if(ci.poison != ci.pool_detects_poison)
		vh::oracle("poison", "the policy %s poison/unpoison/unpoison_expand hooks but slab_pool::has_poisoning is %s",
			ci.poison ? "has" : "has no", ci.pool_detects_poison ? "true" : "false");
	auto r = std::make_unique<Runner<Pol>>(ci);
	try { r->run(ls); }
	catch(FatalOracle &) { g.flush_run(); printf("fatal\n"); }
	catch(vh::AssertStop &) { g.flush_run(); g.live_intersects = nullptr; throw; }
	g.live_intersects = nullptr;
}

static std::vector<CfgInfo> all_infos() {
	std::vector<CfgInfo> v;
#define X(name, ...) v.push_back(make_info<__VA_ARGS__>(#name));
	CONFIGS(X)
#undef X
	return v;
}

static void body(const vh::Lines &ls) {
	if(ls.empty()) return;
	auto t = vh::split(ls[0]);
	if(t.size() < 10 || t[0] != "cfg") { printf("bad-cfg-line\n"); return; }
	static std::vector<CfgInfo> infos = all_infos();
	const CfgInfo *ci = nullptr;
	for(auto &c : infos) if(t[1] == c.name) ci = &c;
	if(!ci) { printf("unknown-cfg %s\n", t[1].c_str()); return; }
	// the numbers on the cfg line are what the model is run with: they must be the build's
	if(vh::u64(t[2]) != ci->page || vh::u64(t[3]) != ci->sb || vh::u64(t[4]) != ci->slabsz || (int)vh::u64(t[5]) != ci->nb
		|| (vh::u64(t[6]) != 0) != ci->aligned || (vh::u64(t[7]) != 0) != ci->poison
		|| vh::u64(t[8]) != ci->hdr_frame || vh::u64(t[9]) != ci->hdr_slab) {
		printf("cfg-mismatch %s\n", ci->name); return; }
#define X(name, ...) if(t[1] == #name) { run_cfg<__VA_ARGS__>(*ci, ls); return; }
	CONFIGS(X)
#undef X
}

#if defined(__SANITIZE_ADDRESS__)
extern "C" void __asan_on_error() {      // keep the lines printed before a sanitizer report; classify arena hits
	uintptr_t a = (uintptr_t)__asan_get_report_address();
	// arena memory carries no redzones: the only poison there is the policy's (manual poisoning)
	if(g.base && a >= (uintptr_t)g.base && a < (uintptr_t)g.base + g.cap)
		printf("!ORACLE poison-access the pool touched the poisoned byte %llu (%s of size %zu)\n", (ull)g.v(a),
			__asan_get_report_access_type() ? "write" : "read", __asan_get_report_access_size());
	fflush(stdout);
}
#endif

int main(int argc, char **argv) {
	if(argc > 1 && std::string(argv[1]) == "--sizes") {
		for(auto &c : all_infos())
			printf("%s %zu %zu %zu %d %d %d %zu %zu\n", c.name, c.page, c.sb, c.slabsz, c.nb, (int)c.aligned, (int)c.poison, c.hdr_frame, c.hdr_slab);
		return 0;
	}
	return vh::run(body);
}
