"""slab_pool component (C01-C04): builds model driver + harness, generates cases, runs legs C and O into the given Check.
`run(c, focus)`: focus in {"C01","C02","C03","C04"} selects which oracle kinds count for the property and which
generator emphasis is used.  The correspondence leg is the same for all four (one model)."""
import os, re
import vlib
from comp.slab import gen

KINDS = {
    "C01": {"overlap", "inside", "align", "size", "bookkeeping", "freelist", "sizeclass", "assert"},
    "C02": {"content", "footprint", "realloc", "nullop", "churn", "policy-identity"},
    "C03": {"unmap", "pages", "poison", "poison-access"},
    "C04": {"mapfail", "lock-balance"},
}
COMMON = {"crash"}          # a crash of the real code that is not an access to poisoned memory counts for every property
OTHER = {"lock-at-callback", "deadlock"}     # C05's ("lock-balance": unlock of an unlocked mutex / a mutex held at return -> C04)

RULE = ("seeded op scripts (allocate/free/deallocate/realloc/get_size/user writes/digests/structure dumps on slots) over 20 "
        "template configurations (page 0x1000/0x4000, slab/sb 2^16, 2^18, 0x1C000/0x20000, 4/10/13 buckets, aligned/unaligned map, "
        "with/without poison hooks) and 6 generator modes (mixed sizes at every class boundary, fill/drain of whole slabs, realloc "
        "class pairs, map-failure injection with retry, large path with region recycling; churn ops = tight allocate/free loops, 2^32 pairs in the thorough tier of C01/C02); non-trivial = distinct script in which "
        "the pool mapped at least two regions or moved a block by realloc or survived a failed map")
TRUSTED = ["extraction: ExtrOcamlBasic only; OCaml 4.13.1; comp/slab/driver.ml (replays the harness's deterministic arena policy)",
           "correspondence harness comp/slab/harness.cpp (g++ -fsanitize=address,undefined, -fno-access-control; ASan manual poisoning)",
           "oracle: interval checker over live blocks and the policy log, content canaries, per-class footprint, unmap pairing, "
           "used-page accounting, byte-granular poison shadow, MapFail fingerprint (all in harness.cpp, independent of the model)",
           "modelled, not verified: the partial-slab rbtree as a sorted list (C06 is its refinement theorem), free-list links as lists, "
           "memcpy as transfer of the owner's write log"]
ASSUMPTIONS = ["cfg_ok: page/sb powers of two, page | slabsize <= sb, slabsize <= 2^34, at least two objects of the largest class per slab, <= 56 buckets",
               "policy_ok: map answers non-zero, non-wrapping, disjoint from outstanding regions, sb-aligned for the aligned signature",
               "api_ok: free/deallocate/realloc/get_size only of live pointers (or null), request sizes < 2^62, deallocate size <= block size",
               "the policy is an external object REFERENCED, not owned or copied, by the pool: its answers are the op inputs of the model; "
               "two pools on one policy object are two model states fed from one arena",
               "single-threaded (C05 is the concurrent statement)"]

_built = {}

def build(c):
    """build model driver + harness once per process; returns (driver, harness, cfg rows) or None"""
    if "r" in _built:
        return _built["r"]
    okm, mlog = vlib.coq_make(["Slab/SlabExtract.vo"])
    okd, drv, dlog = vlib.ocaml_build("slab_m", ["slab_model"], os.path.join(vlib.ROOT, "comp/slab/driver.ml"))
    okh, har, hlog = vlib.cxx_build("slab_h", os.path.join(vlib.ROOT, "comp/slab/harness.cpp"))
    if not (okm and okd):
        c.broken.append("slab model extraction/driver build failed: " + (mlog[-800:] if not okm else dlog[-800:]))
    if not okh:
        c.broken.append("slab harness does not compile against the repo: " + hlog[-1500:])
        _built["r"] = None
        return None
    rc, out, err = vlib.sh([har, "--sizes"], env=vlib.SAN_ENV)
    cfgs = [gen.Cfg(l) for l in out.strip().split("\n") if l.strip()]
    if rc != 0 or not cfgs:
        c.broken.append("slab harness --sizes failed: " + err[-500:])
        _built["r"] = None
        return None
    _built["r"] = (drv if okd else None, har, cfgs)
    return _built["r"]

def build_fast(c):
    """-O2 build without sanitizers, only for the long churn replays (2^32 allocate/free pairs)"""
    if "fast" not in _built:
        ok, exe, log = vlib.cxx_build("slab_h_fast", os.path.join(vlib.ROOT, "comp/slab/harness.cpp"), san="none", extra=["-O2"])
        if not ok:
            c.broken.append("slab fast harness does not compile: " + log[-800:])
        _built["fast"] = exe if ok else None
    return _built["fast"]

def is_long(lines):
    for l in lines:
        t = l.split()
        if t and t[0] == "churn" and len(t) >= 3 and int(t[2]) > 5000000:
            return True
        if t and t[0] == "fill" and len(t) >= 3 and int(t[2]) > 100000:
            return True
    return False

def nontrivial(cid, lines, ri):
    maps = sum(1 for l in ri["lines"] if l.startswith("map ") and not l.endswith(" 0"))
    failed = sum(1 for l in ri["lines"] if l.startswith("map ") and l.endswith(" 0"))
    moved = any(l.startswith("unpoison_expand") for l in ri["lines"]) or sum(1 for l in lines if l.startswith("r ")) > 0 and maps >= 2
    if maps >= 2 or failed or moved:
        return "|".join(lines)
    return None

def make_cases(c, focus, cfgs):
    cases = gen.corpus(cfgs)
    adm = [q for q in cfgs if q.admissible()]
    n = 420 if c.tier == "quick" else 4000
    for i in range(n):
        q = adm[i % len(adm)] if i < 2 * len(adm) else c.rng.choice(adm)
        mode, lines = gen.gen_case(c.rng, q, focus)
        cases.append(("g%d-%s-%s" % (i, q.name, mode), lines))
    # a block >= 4 GiB needs a policy that only hands out address space (no poison hooks): C01 and C03
    if focus in ("C01", "C03"):
        plain = [q for q in adm if not q.poison]
        for i in range(8 if c.tier == "quick" else 60):
            mode, lines = gen.gen_case(c.rng, plain[i % len(plain)], focus, mode="huge")
            cases.append(("h%d-%s-%s" % (i, plain[i % len(plain)].name, mode), lines))
    # the same scripts through the front end frg::slab_allocator (script op `wrap`; the model is unchanged: wrapper ops =
    # pool ops): every failure-injection case and every corpus case with a failing map, plus a sample of the others
    wrapped = []
    for k, (cid, lines) in enumerate(cases):
        has_fail = any(l.endswith(" fail") for l in lines)
        if (has_fail or k % 6 == 0) and not is_long(lines) and "sc" not in lines:
            wrapped.append((cid + "-wrap", [lines[0], "wrap"] + lines[1:]))
    cases += wrapped
    if c.tier == "thorough":
        if focus in ("C01", "C02"):
            cases += gen.long_corpus(cfgs)
        for q in adm:
            if q.name in ("p4k_s112k_b13_ap", "p4k_s64k_b4_an", "p16k_s64k_b10_up"):
                cases += gen.exhaustive_small(q, 3)
    return cases

def run(c, focus="C01"):
    """legs C and O for slab_pool; returns False if the harness could not be built."""
    b = build(c)
    if b is None:
        return False
    drv, har, cfgs = b
    mine = KINDS[focus] | COMMON
    if c.replay:
        cases = vlib.read_replay(c.replay)
    else:
        cases = make_cases(c, focus, cfgs)
    for cid, ls in cases:
        c.count("slab_ops", len(ls) - 1)
        c.count("slab_cfg_" + (ls[0].split()[1] if ls and ls[0].startswith("cfg ") else "?"))
        if cid.endswith("-wrap"):
            c.count("slab_through_slab_allocator")
        m = re.match(r"[gh]\d+-.*?-(\w+?)(-wrap)?$", cid)
        c.count("slab_mode_" + (m.group(1) if m else "corpus"))
        for l in ls[1:]:
            t = l.split()
            if t[0] in "adr" and len(t) >= 3:
                c.count("slab_op_" + t[0])
                if t[-1] == "fail":
                    c.count("slab_env_fail")
            elif t[0] == "fill":
                c.count("slab_op_fill"); c.count("slab_fill_blocks", int(t[2]))
            elif t[0] == "churn":
                c.count("slab_op_churn"); c.count("slab_churn_pairs", int(t[2]))
            elif t[0] in ("f", "g", "w", "c", "v"):
                c.count("slab_op_" + t[0])
    long_cases = [x for x in cases if is_long(x[1])]
    short_cases = [x for x in cases if not is_long(x[1])]
    impl = vlib.run_cases(har, short_cases, timeout=1500, env={"VH_CASE_CPU_SECONDS": "30"})       # <= 600: the harness's 30 s per-case CPU watchdog is armed
    if long_cases:
        fast = build_fast(c)
        if fast:
            impl.update(vlib.run_cases(fast, long_cases, shards=len(long_cases), timeout=1800))
            c.count("slab_long_churn_cases", len(long_cases))
    model = vlib.run_cases(drv, cases, timeout=1800) if drv else {}
    for cid, lines in cases:
        ri, rm = impl.get(cid), model.get(cid)
        key = None
        if ri is not None:
            try:
                key = nontrivial(cid, lines, ri)
            except Exception:
                key = None
        c.add_case(cid, lines, key)
        if ri is None:
            c.mismatch(cid, lines, "implementation produced no output")
            continue
        def orc(kind, msg):
            if kind in mine:
                c.oracle(kind, msg, cid, lines)
            else:
                c.ignored_oracle += 1
        if ri.get("crash"):
            txt = ri["crash"]
            if any(o.startswith("poison-access") for o in ri["oracle"]):
                pass          # reported by the harness's ASan hook below
            elif "use-after-poison" in txt:
                orc("poison-access", vlib._crash_summary(txt) + " (the pool touched a poisoned byte)")
            else:
                orc("crash", vlib._crash_summary(txt))
        for o in ri["oracle"]:
            k, _, msg = o.partition(" ")
            orc(k, msg)
        if "assert" in ri["lines"]:
            # the generator only writes admissible histories: an FRG_ASSERT firing is a failure of C01's "never stops"
            orc("assert", "an FRG_ASSERT of the pool fired on an admissible history (after %d output lines)" % ri["lines"].index("assert"))
            if any(l.startswith("churn ") or l.startswith("fill ") for l in lines):
                # C02: arbitrarily long alloc/free churn must keep working
                orc("churn", "an FRG_ASSERT of the pool fired after alloc/free churn (after %d output lines)" % ri["lines"].index("assert"))
        if rm is None:
            if drv:
                c.mismatch(cid, lines, "model produced no output")
            continue
        if rm.get("crash"):
            c.mismatch(cid, lines, "model driver crashed: " + rm["crash"][-300:])
            continue
        if any(l.startswith("!MODEL-EXN") for l in rm["lines"]):
            c.mismatch(cid, lines, "model driver raised: " + [l for l in rm["lines"] if l.startswith("!MODEL-EXN")][0])
            continue
        if not ri.get("crash"):
            d = vlib.first_diff(ri["lines"], rm["lines"])
            if d:
                c.mismatch(cid, lines, "line %d: impl=%r model=%r" % d)
        else:
            # the real code died in the middle of the script: what it printed must be a prefix of the model's output,
            # and the model (which never stops on an admissible script) goes on
            k = len(ri["lines"])
            d = vlib.first_diff(ri["lines"], rm["lines"][:k])
            if d:
                c.mismatch(cid, lines, "line %d: impl=%r model=%r" % d)
            elif len(rm["lines"]) > k:
                c.mismatch(cid, lines, "the implementation crashed after %d output lines, the model continues with %r"
                           % (k, rm["lines"][k]))
    return True
