#!/usr/bin/env python3
"""Self-test of the TIE: applies hand-made source changes to a scratch worktree of /repo, regenerates coq/Gen/Cxx_<part>.v
from it and recompiles the Tie file of that part.  Breaking changes must make coqc fail (or the translator reject);
harmless rewrites must stay green.  Restores the Gen files from the real repo at the end.
usage: python3 comp/cxxleaf/selftest.py [name-substring]"""
import os, re, subprocess, sys
ROOT = os.path.dirname(os.path.dirname(os.path.dirname(os.path.abspath(__file__))))
WT = "/tmp/cxxleaf_wt"
INC = "include/frg/"
# (name, part, tie file(s), header, old text, new text, expectation)  expectation: "break" | "green" | "any"
M = [
 # ---- breaking: constants, operators, loop bounds
 ("slab.b2s.offset",    "slab",  ["Tie_slab"], "slab.hpp", "auto ip = (idx - tc + 1) >> small_step_exp;", "auto ip = (idx - tc + 2) >> small_step_exp;", "break"),
 ("slab.s2b.loopbound", "slab",  ["Tie_slab"], "slab.hpp", "for(unsigned int i = 0; i < tc - 1; i++)", "for(unsigned int i = 1; i < tc - 1; i++)", "break"),
 ("slab.s2b.roundup",   "slab",  ["Tie_slab"], "slab.hpp", "(static_cast<size_t>(1) << f) - 1) >> f;", "(static_cast<size_t>(1) << f)) >> f;", "break"),
 ("radix.pfx.const",    "radix", ["Tie_radix"], "rcu_radixtree.hpp", "(uint64_t(-1) << (64 - d * 4))", "(uint64_t(-1) << (60 - d * 4))", "break"),
 ("radix.pfx.guard",    "radix", ["Tie_radix"], "rcu_radixtree.hpp", "\t\tif(!d)\n\t\t\treturn 0;\n", "", "break"),
 ("radix.idx.mask",     "radix", ["Tie_radix"], "rcu_radixtree.hpp", "(d + 1) * 4) & 0xF)", "(d + 1) * 4) & 0x7)", "break"),
 ("pcg.next.shift",     "bits",  ["Tie_bits"], "random.hpp", "((oldstate >> 18u) ^ oldstate) >> 27u", "((oldstate >> 17u) ^ oldstate) >> 27u", "break"),
 ("pcg.next.rot",       "bits",  ["Tie_bits"], "random.hpp", "((-rot) & 31)", "((-rot) & 15)", "break"),
 ("pcg.seed.inc",       "bits",  ["Tie_bits"], "random.hpp", "inc_ = (seq << 1) | 1;", "inc_ = (seq << 1);", "break"),
 ("pcg.bounded.cmp",    "bits",  ["Tie_bits"], "random.hpp", "if (r >= threshold) {", "if (r > threshold) {", "break"),
 ("mt.seed.shift",      "bits",  ["Tie_bits"], "random.hpp", "(_st[_ctr - 1] >> 30)) + _ctr);", "(_st[_ctr - 1] >> 29)) + _ctr);", "break"),
 ("mt.seed.bound",      "bits",  ["Tie_bits"], "random.hpp", "for(_ctr = 1; _ctr < n; _ctr++)", "for(_ctr = 1; _ctr < n - 1; _ctr++)", "break"),
 ("mt.next.loopbound",  "bits",  ["Tie_bits"], "random.hpp", "for(int kk = 0; kk < n - m; kk++) {", "for(int kk = 0; kk < n - m - 1; kk++) {", "break"),
 ("mt.next.index",      "bits",  ["Tie_bits"], "random.hpp", "_st[kk] = _st[kk + (m - n)] ^ (y >> 1) ^ mag01[y & 1];", "_st[kk] = _st[kk + (m - n) + 1] ^ (y >> 1) ^ mag01[y & 1];", "break"),
 ("mt.next.temper",     "bits",  ["Tie_bits"], "random.hpp", "res ^= (res << 15) & 0xefc60000;", "res ^= (res << 15) & 0xefc60001;", "break"),
 ("mt.next.postinc",    "bits",  ["Tie_bits"], "random.hpp", "uint32_t res = _st[_ctr++];", "uint32_t res = _st[++_ctr];", "break"),
 ("sort.swapargs",      "sort",  ["Tie_sort"], "algorithm.hpp", "if (comp(*i, *j)) {", "if (comp(*j, *i)) {", "break"),
 ("sort.innerstart",    "sort",  ["Tie_sort"], "algorithm.hpp", "\t\tauto j = i;\n\t\t++j;\n", "\t\tauto j = i;\n", "break"),
 ("str.strlen.inc",     "str",   ["Tie_str"], "string.hpp", "\twhile (*(c++)) {\n\t\tlen++;", "\twhile (*(c++)) {\n\t\tlen += 2;", "break"),
 ("str.strnlen.cmp",    "str",   ["Tie_str"], "string.hpp", "while (len < max && *(c++)) {", "while (len <= max && *(c++)) {", "break"),
 ("str.ff.bound",       "str",   ["Tie_str"], "string.hpp", "for(size_t i = start_from; i < _length; i++)", "for(size_t i = start_from; i <= _length; i++)", "break"),
 ("str.fl.bound",       "str",   ["Tie_str"], "string.hpp", "for(size_t i = _length; i > 0; i--)", "for(size_t i = _length; i > 1; i--)", "break"),
 ("str.fl.ret",         "str",   ["Tie_str"], "string.hpp", "if(_pointer[i - 1] == c)\n\t\t\t\treturn i - 1;", "if(_pointer[i - 1] == c)\n\t\t\t\treturn i;", "break"),
 ("str.cmp.sign",       "str",   ["Tie_str"], "string.hpp", "\tint compare(const char *other) const {\n\t\tauto other_len = generic_strlen(other);\n\t\tif(_length != other_len)\n\t\t\treturn _length < other_len ? -1 : 1;\n\t\tfor(size_t i = 0; i < _length; i++)\n\t\t\tif(_buffer[i] != other[i])\n\t\t\t\treturn _buffer[i] < other[i] ? -1 : 1;", "\tint compare(const char *other) const {\n\t\tauto other_len = generic_strlen(other);\n\t\tif(_length != other_len)\n\t\t\treturn _length < other_len ? -1 : 1;\n\t\tfor(size_t i = 0; i < _length; i++)\n\t\t\tif(_buffer[i] != other[i])\n\t\t\t\treturn (unsigned char)_buffer[i] < (unsigned char)other[i] ? -1 : 1;", "break"),
 ("str.tonum.radix",    "str",   ["Tie_str"], "string.hpp", "__builtin_mul_overflow(value, T(10), &value)", "__builtin_mul_overflow(value, T(8), &value)", "break"),
 ("str.tonum.digit",    "str",   ["Tie_str"], "string.hpp", "_pointer[i] <= '9'))", "_pointer[i] < '9'))", "break"),
 ("str.tonum.nocheck",  "str",   ["Tie_str"], "string.hpp", "\t\t\tif(__builtin_mul_overflow(value, T(10), &value)\n\t\t\t\t\t|| __builtin_add_overflow(value, T(_pointer[i] - '0'), &value))\n\t\t\t\treturn null_opt;", "\t\t\tvalue = value * 10 + (_pointer[i] - '0');", "break"),
 ("locks.islocked.lt",  "locks", ["Tie_locks"], "spinlock.hpp", "\t\treturn __atomic_load_n(&serving_ticket_, __ATOMIC_RELAXED)\n\t\t\t!= __atomic_load_n(&next_ticket_, __ATOMIC_RELAXED);", "\t\treturn __atomic_load_n(&serving_ticket_, __ATOMIC_RELAXED)\n\t\t\t< __atomic_load_n(&next_ticket_, __ATOMIC_RELAXED);", "break"),
 ("locks.unlock.plus2", "locks", ["Tie_locks"], "spinlock.hpp", "__atomic_store_n(&serving_ticket_, current + 1, __ATOMIC_RELEASE);", "__atomic_store_n(&serving_ticket_, current + 2, __ATOMIC_RELEASE);", "break"),
 ("locks.unlock.rmw",   "locks", ["Tie_locks"], "spinlock.hpp", "__atomic_store_n(&serving_ticket_, current + 1, __ATOMIC_RELEASE);", "__atomic_fetch_add(&serving_ticket_, 1, __ATOMIC_RELEASE);", "break"),
 ("mt.next.preinc-lv",  "bits",  ["Tie_bits"], "random.hpp", "uint32_t res = _st[_ctr++];", "uint32_t res = _st[++_ctr];", "break"),
 # ---- outside the subset: the translator must refuse
 ("reject.float",       "bits",  ["Tie_bits"], "random.hpp", "uint32_t rot = oldstate >> 59u;", "uint32_t rot = (uint32_t)((double)(oldstate >> 59u));", "break"),
 ("reject.unseq",       "str",   ["Tie_str"], "string.hpp", "\twhile (*(c++)) {\n\t\tlen++;", "\twhile (*(c++)) {\n\t\tlen = len++ + 1;", "break"),
 # ---- harmless: renaming a local / parameter, comments, whitespace
 ("ok.rename.pcg",      "bits",  ["Tie_bits"], "random.hpp", "oldstate", "prev_state", "green"),
 ("ok.rename.slab",     "slab",  ["Tie_slab"], "slab.hpp", "auto ip = (idx - tc + 1) >> small_step_exp;\n\t\tauto is = (idx - tc + 1) & (s - 1);\n\t\tauto f = small_base_exp + ip;", "auto ipp = (idx - tc + 1) >> small_step_exp;\n\t\tauto is = (idx - tc + 1) & (s - 1);\n\t\tauto f = small_base_exp + ipp;", "green"),
 ("ok.rename.str",      "str",   ["Tie_str"], "string.hpp", "\tstd::size_t len = 0;\n\twhile (*(c++)) {\n\t\tlen++;\n\t}\n\treturn len;", "\tstd::size_t count = 0;\n\twhile (*(c++)) {\n\t\tcount++;\n\t}\n\treturn count;", "green"),
 ("ok.comment.radix",   "radix", ["Tie_radix"], "rcu_radixtree.hpp", "return k & (uint64_t(-1) << (64 - d * 4));", "return k & (uint64_t(-1) << (64 - d * 4)); // mask", "green"),
 # ---- semantics-preserving rewrites: reported, either result is acceptable
 ("same.commute",       "bits",  ["Tie_bits"], "random.hpp", "state_ = oldstate * 6364136223846793005ULL + inc_;", "state_ = inc_ + oldstate * 6364136223846793005ULL;", "any"),
 ("same.preinc",        "bits",  ["Tie_bits"], "random.hpp", "for(int kk = 0; kk < n - m; kk++) {", "for(int kk = 0; kk < n - m; ++kk) {", "any"),
 ("same.shift-for-mul", "radix", ["Tie_radix"], "rcu_radixtree.hpp", "(64 - d * 4)", "(64 - (d << 2))", "any"),
 ("same.braces",        "str",   ["Tie_str"], "string.hpp", "for(size_t i = start_from; i < _length; i++)\n\t\t\tif(_pointer[i] == c)\n\t\t\t\treturn i;", "for(size_t i = start_from; i < _length; i++) {\n\t\t\tif(_pointer[i] == c) {\n\t\t\t\treturn i; } }", "any"),
 ("same.while-for",     "str",   ["Tie_str"], "string.hpp", "\twhile (*(c++)) {\n\t\tlen++;\n\t}", "\tfor (; *(c++); ) {\n\t\tlen++;\n\t}", "any"),
 ("same.temp",          "radix", ["Tie_radix"], "rcu_radixtree.hpp", "return (k >> (64 - (d + 1) * 4) & 0xF);", "unsigned int sh = 64 - (d + 1) * 4;\n\t\treturn (k >> sh & 0xF);", "any"),
 ("same.ne-zero",       "radix", ["Tie_radix"], "rcu_radixtree.hpp", "if(!d)", "if(d == 0)", "any"),
 ("same.compound",      "bits",  ["Tie_bits"], "random.hpp", "res ^= (res >> 18);", "res = res ^ (res >> 18);", "any"),
]


def sh(cmd, **kw):
    return subprocess.run(cmd, capture_output=True, text=True, **kw)


def main():
    flt = sys.argv[1] if len(sys.argv) > 1 else ""
    sh(["git", "-C", "/repo", "worktree", "remove", "--force", WT])
    r = sh(["git", "-C", "/repo", "worktree", "add", "--detach", WT])
    if r.returncode:
        print(r.stderr); return 2
    env = dict(os.environ, VERIF_REPO=WT)
    bad = 0
    try:
        for name, part, ties, hdr, old, new, expect in M:
            if flt not in name:
                continue
            sh(["git", "-C", WT, "checkout", "--", "."])
            path = os.path.join(WT, INC, hdr)
            src = open(path).read()
            if src.count(old) < 1:
                print("%-22s SKIP (pattern not in %s)" % (name, hdr)); bad += 1; continue
            open(path, "w").write(src.replace(old, new))
            g = sh([sys.executable, os.path.join(ROOT, "translator/gen_cxxleaf.py"), part], env=env)
            res, detail = "green", ""
            if g.returncode:
                res = "translator-rejects"
                detail = " | ".join(l for l in g.stdout.split("\n") if "FAILED" in l)[:230]
            c = sh(["timeout", "300", "coqc", "-Q", ".", "FV", "Gen/Cxx_%s.v" % part], cwd=os.path.join(ROOT, "coq"))
            if c.returncode:
                res, detail = res + "+gen-file-fails", (c.stdout + c.stderr)[-200:]
            else:
                for t in ties:
                    c = sh(["timeout", "300", "coqc", "-Q", ".", "FV", "CxxLeaf/%s.v" % t], cwd=os.path.join(ROOT, "coq"))
                    if c.returncode:
                        msg = c.stdout + c.stderr
                        mline = re.search(r'line (\d+)', msg)
                        lem = "?"
                        if mline:
                            ln = int(mline.group(1))
                            lines = open(os.path.join(ROOT, "coq/CxxLeaf/%s.v" % t)).read().split("\n")[:ln]
                            for l in reversed(lines):
                                mm = re.match(r"\s*(Lemma|Theorem)\s+(\w+)", l)
                                if mm:
                                    lem = mm.group(2); break
                        res = ("tie-breaks" if res == "green" else res + "+tie-breaks")
                        detail = (detail + " " if detail else "") + "%s: coqc error in %s" % (t, lem)
            okk = (expect == "any") or (expect == "break" and res != "green") or (expect == "green" and res == "green")
            bad += not okk
            print("%-22s expect=%-5s result=%-28s %s %s" % (name, expect, res, "" if okk else "UNEXPECTED", detail))
            sys.stdout.flush()
    finally:
        sh(["git", "-C", "/repo", "worktree", "remove", "--force", WT])
        env2 = dict(os.environ, VERIF_REPO="/repo")
        sh([sys.executable, os.path.join(ROOT, "translator/gen_cxxleaf.py")], env=env2)
        for part in ("slab", "radix", "bits", "sort", "str", "locks"):
            sh(["timeout", "300", "coqc", "-Q", ".", "FV", "Gen/Cxx_%s.v" % part], cwd=os.path.join(ROOT, "coq"))
        for t in ("Tie_slab", "Tie_radix", "Tie_bits", "Tie_sort", "Tie_str", "Tie_locks"):
            c = sh(["timeout", "300", "coqc", "-Q", ".", "FV", "CxxLeaf/%s.v" % t], cwd=os.path.join(ROOT, "coq"))
            if c.returncode:
                print("RESTORE FAILED for", t, (c.stdout + c.stderr)[-300:]); bad += 1
    print("selftest: %d unexpected" % bad)
    return 1 if bad else 0


sys.exit(main())
