"""cxxleaf component (TIE): leaf functions of /repo are translated from the clang AST to Gallina on every run
(translator/gen_cxxleaf.py -> coq/Gen/Cxx_<part>.v); coq/CxxLeaf/Tie_<part>.v proves the generated definitions equal to
the hand-written models.  run(c, parts) only regenerates and records one obligation per translated function; the proof
leg is `c.prove(prop_ids(parts))` in the caller (checks/tie.py, or a property check that wants its part of the tie:
e.g. C18: `cxxleaf.run(c, ['bits']); c.prove(['C18', 'TIE_bits'])`)."""
import os, sys
import vlib

RULE = ("no sampling: each listed leaf function is re-translated from the current source (clang JSON AST, restricted imperative "
        "subset, explicit wrap-around / UB / fuel) and the equality with the hand-written model definition is a Coq lemma "
        "over all inputs of the stated ranges")
TRUSTED = ["translator/cxx2coq.py + translator/gen_cxxleaf.py (AST -> Gallina; fails on anything outside its subset)",
           "clang 14 front end (-std=c++20): the JSON AST with its implicit conversions and resolved types is taken as the "
           "meaning of the source; x86-64 LP64 type widths (checked by static_asserts appended to each translation unit)",
           "coq/CxxLeaf/CxxSem.v: reading of C++20 integer semantics (mod 2^w, shift count >= width and signed overflow "
           "undefined, modular conversions, arithmetic >>), lists as arrays, __builtin_clz/ctz/popcount/*_overflow"]
ASSUMPTIONS = ["ranges stated in each TIE_* theorem (argument < 2^width, array length, fuel lower bound)",
               "data members are the explicit arguments/results of the generated functions; aliasing between distinct "
               "pointer arguments is outside the subset (rejected by the translator)"]

ALL_PARTS = ["slab", "radix", "bits", "str", "locks", "printf"]
# property part -> generator parts (coq/Gen/Cxx_<g>.v) it needs
GEN_PARTS = {"slab": ["slab"], "radix": ["radix"], "bits": ["bits", "sort"], "str": ["str"], "locks": ["locks"],
             "printf": ["printf"]}


def prop_ids(parts=None):
    return ["TIE_" + p for p in (parts or available_parts())]


def available_parts():
    return [p for p in ALL_PARTS if os.path.exists(os.path.join(vlib.COQ, "Props", "Properties_TIE_%s.v" % p))]


def run(c, parts=None):
    """(1) run the translator against vlib.REPO for the given parts; one c.gen_obligation("translate <f>", ok) per function."""
    parts = [g for p in (parts or available_parts()) for g in GEN_PARTS.get(p, [p])]
    env = dict(os.environ)
    env["VERIF_REPO"] = vlib.REPO
    rc, out, err = vlib.sh([sys.executable, os.path.join(vlib.ROOT, "translator", "gen_cxxleaf.py")] + parts,
                           timeout=900, env=env)
    seen = 0
    for line in out.split("\n"):
        t = line.split(None, 4)
        if len(t) >= 4 and t[0] == "cxxleaf":
            ok = t[3] == "ok"
            seen += 1
            c.count("cxxleaf.translated" if ok else "cxxleaf.rejected")
            c.gen_obligation("translate %s (%s)" % (t[2], t[1]), ok, "" if ok else "(" + line[:600] + ")")
    if seen == 0 or (rc != 0 and "FAILED" not in out):
        c.gen_obligation("translate (gen_cxxleaf.py ran)", False, "(rc=%d %s)" % (rc, (out + err)[-600:]))
    return rc == 0
