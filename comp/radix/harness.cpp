// Harness for frg::rcu_radixtree: runs op scripts on the real code, prints canonical lines (compared
// with the extracted Gallina model, comp/radix/driver.ml) and evaluates properties C09 / C16 with an
// oracle that does not use the model: std::map<uint64_t, value*> (find results, never a second
// address, address stability, ascending iteration), UBSan/ASan, lifetime + allocation registries.
//
// Ops:  f k | o k v | i k v | e k | it
// "e k" is the documented erase protocol: p = find(k); erase(k); [grace period]; p->~T().
#include <map>
#include <set>
#include <algorithm>
#include <initializer_list>
#include "vharness.hpp"
#include <frg/rcu_radixtree.hpp>

namespace {

struct Ev { int kind; int a; int b; };   // 0 alloc 1 dealloc (a = block, b = size class) 2 construct 3 destroy (a = block, b = slot)
std::vector<Ev> g_events;
bool g_quiet = false;                                // unwinding after an assertion: do not log

struct NodeRec { void *base; size_t size; bool freed; };
std::vector<NodeRec> g_nodes;                        // index = allocation order = node id
std::map<const void *, int> g_node_id;               // base -> id (also for freed nodes; malloc may reuse: last wins)

// vh::TrackAlloc plus an allocation-order record (so that nodes can be named by creation order)
struct RAlloc {
	vh::TrackAlloc inner;
	void *allocate(size_t n) {
		void *p = inner.allocate(n);
		g_node_id[p] = (int)g_nodes.size();
		g_nodes.push_back({p, n, false});
		g_events.push_back({0, (int)g_nodes.size(), (int)n});
		return p;
	}
	void deallocate(void *p, size_t n) {
		auto it = g_node_id.find(p);
		g_events.push_back({1, it == g_node_id.end() ? -1 : it->second + 1, (int)n});
		if(it != g_node_id.end()) g_nodes[it->second].freed = true;
		inner.deallocate(p, n);
	}
	void free(void *p) { inner.free(p); }
};

// vh::TV plus construct/destroy events (named (block, slot) at the time of the event)
void value_event(int kind, const void *p);
struct RV : vh::TV {
	RV(uint64_t x) : vh::TV(x) { value_event(2, this); }
	RV(const RV &) = delete;
	~RV() { value_event(3, this); }
};

// Second instantiation (oracle kind "value-ctor"): a value type with an initializer_list constructor, constructed from
// TWO arguments.  rcu_radixtree.hpp constructs the value with T{std::forward<Args>(args)...} in all three insertion
// cases, so Bag{a, b} (the list {a, b}) is what must be held whatever case the key's insertion took; T(args...) would
// pick Bag(int n, int v) (n copies of v).  The reference is a std::map<uint64_t, Bag> built with the same brace form.
// The model stores "the value made from the arguments" abstractly (MConstruct n i v in every case): that the stored
// value does not depend on the insertion case is the modelling assumption this instantiation checks.
struct Bag {
	std::vector<int> items;
	Bag(std::initializer_list<int> l) : items(l) { }
	Bag(int n, int v) : items((size_t)n, v) { }
	bool operator==(const Bag &o) const { return items == o.items; }
	std::string str() const { std::string r = "{"; for(int x : items) r += std::to_string(x) + ","; return r + "}"; }
};
using BagTree = frg::rcu_radixtree<Bag, vh::TrackAlloc>;
inline int bag_a(uint64_t v) { return 2 + (int)(v % 3); }
inline int bag_b(uint64_t v) { return 11 + (int)(v % 1000); }

using Tree = frg::rcu_radixtree<RV, RAlloc>;
using Node = Tree::node;
using LinkNode = Tree::link_node;
using EntryNode = Tree::entry_node;

int id_of(const void *p) {
	if(!p) return -1;
	auto it = g_node_id.find(p);
	return it == g_node_id.end() ? -2 : it->second;
}
std::string ids(const void *p) { int i = id_of(p); return i == -1 ? "-" : std::to_string(i); }

// (node#, idx) of a value pointer: the live entry node whose entries[] array contains it
bool locate(const void *v, int &node, int &idx) {
	for(size_t i = 0; i < g_nodes.size(); i++) {
		auto &r = g_nodes[i];
		if(r.freed || r.size != sizeof(EntryNode)) continue;
		auto e = static_cast<EntryNode *>(r.base);
		auto lo = reinterpret_cast<const char *>(&e->entries[0]);
		auto hi = reinterpret_cast<const char *>(&e->entries[16]);
		auto c = reinterpret_cast<const char *>(v);
		if(c >= lo && c < hi) {
			if((c - lo) % sizeof(e->entries[0])) return false;
			node = (int)i; idx = (int)((c - lo) / sizeof(e->entries[0]));
			return true;
		}
	}
	return false;
}
std::string addr(const void *v) {
	int n, i;
	if(!locate(v, n, i)) return "? ?";
	return std::to_string(n) + " " + std::to_string(i);
}

void value_event(int kind, const void *p) {
	int n = -2, i = -1;
	locate(p, n, i);
	g_events.push_back({kind, n + 1, i});
}
void print_events() {
	for(auto &e : g_events) {
		if(e.kind == 0 || e.kind == 1) {
			const char *k = (size_t)e.b == sizeof(EntryNode) ? "entry" : (size_t)e.b == sizeof(LinkNode) ? "link" : "?";
			printf("e %s %d %s\n", e.kind == 0 ? "alloc" : "dealloc", e.a, k);
		} else
			printf("e %s %d %d\n", e.kind == 2 ? "construct" : "destroy", e.a, e.b);
	}
	g_events.clear();
}

std::map<int, std::string> g_shown;
void dump(Tree &t, bool full) {
	printf("r %s\n", ids(t._root.load()).c_str());
	for(size_t id = 0; id < g_nodes.size(); id++) {
		auto &r = g_nodes[id];
		if(r.freed) continue;
		std::ostringstream os;
		auto n = static_cast<Node *>(r.base);
		if(r.size == sizeof(LinkNode)) {
			auto l = static_cast<LinkNode *>(n);
			os << "n " << id << " L " << n->prefix << " " << n->depth << " " << ids(n->parent);
			for(int i = 0; i < 16; i++) os << " " << ids(l->links[i].load());
		} else {
			auto e = static_cast<EntryNode *>(n);
			os << "n " << id << " E " << n->prefix << " " << n->depth << " " << ids(n->parent) << " " << e->mask.load() << " [";
			bool first = true;
			for(int i = 0; i < 16; i++) {
				auto p = reinterpret_cast<RV *>(e->entries[i].buffer);
				if(vh::g_life.live.count(static_cast<vh::TV *>(p))) {
					os << (first ? "" : " ") << i << "=" << p->v; first = false;
				}
			}
			os << "]";
		}
		std::string s = os.str();
		auto it = g_shown.find((int)id);
		if(full || it == g_shown.end() || it->second != s) { printf("%s\n", s.c_str()); g_shown[(int)id] = s; }
	}
}

struct Ref { RV *p; uint64_t v; };

// independent oracle: every present key is found at its recorded address with its value
void sweep(Tree &t, std::map<uint64_t, Ref> &ref, const char *when) {
	for(auto &kv : ref) {
		RV *p = t.find(kv.first);
		if(p != kv.second.p) {
			vh::oracle("addr-stable", "%s: find(%#llx) = %s, but the value was inserted at %s", when,
				(unsigned long long)kv.first, p ? addr(p).c_str() : "null", addr(kv.second.p).c_str());
			return;
		}
		if(p->get() != kv.second.v) { vh::oracle("refmap", "%s: value of key %#llx changed", when, (unsigned long long)kv.first); return; }
	}
}
void probe_absent(Tree &t, std::map<uint64_t, Ref> &ref, uint64_t k) {
	// neighbours of k at every nibble position: present iff the reference says so
	for(int pos = 0; pos < 16; pos++) {
		uint64_t q = k ^ (uint64_t(1) << (4 * pos));
		RV *p = t.find(q);
		auto it = ref.find(q);
		if((p != nullptr) != (it != ref.end()) || (p && p != it->second.p)) {
			vh::oracle("refmap", "find(%#llx): tree says %s, reference says %s", (unsigned long long)q,
				p ? "present" : "absent", it != ref.end() ? "present" : "absent");
			return;
		}
	}
}

// After a call that violates a documented precondition (erase of an absent key, insert of a present key) -- whether it
// stopped in the assertion hook or not -- nothing may have changed: every key of the reference is still found at its
// address with its value, no neighbour appeared, and iteration yields exactly the reference in ascending key order.
void assert_path_recheck(Tree &t, std::map<uint64_t, Ref> &ref, uint64_t k, const char *what) {
	for(auto &kv : ref) {
		RV *p = t.find(kv.first);
		if(p != kv.second.p || (p && p->get() != kv.second.v)) {
			vh::oracle("assert-path-damage", "%s(%#llx) violates its precondition; afterwards present key %#llx is %s",
				what, (unsigned long long)k, (unsigned long long)kv.first, p ? "found at another address / with another value" : "no longer found");
			return;
		}
	}
	if(t.find(k) && !ref.count(k)) { vh::oracle("assert-path-damage", "%s(%#llx): the absent key is found afterwards", what, (unsigned long long)k); return; }
	std::vector<RV *> seen, want;
	size_t n = 0;
	for(auto i = t.begin(); i != t.end(); ++i) { seen.push_back(&*i); if(++n > ref.size() + 8) break; }
	for(auto &kv : ref) want.push_back(kv.second.p);
	if(seen != want) vh::oracle("assert-path-damage", "%s(%#llx) violates its precondition; afterwards iteration yields %zu values, %zu keys are present (or order/contents differ)",
		what, (unsigned long long)k, seen.size(), want.size());
}

void body(const vh::Lines &ls) {
	g_events.clear(); g_nodes.clear(); g_node_id.clear(); g_shown.clear(); g_quiet = false;
	std::map<uint64_t, Ref> ref;
	bool stopped = false;
	{
		Tree t;
		BagTree bt;                       // mirrors every insert/erase of the script with a two-argument Bag
		std::map<uint64_t, Bag> bref;
		auto bag_check = [&](uint64_t k, const char *when) {
			Bag *p = bt.find(k);
			auto it = bref.find(k);
			if((p != nullptr) != (it != bref.end()))
				vh::oracle("value-ctor", "%s: Bag tree %s key %#llx, reference %s", when, p ? "holds" : "lacks",
					(unsigned long long)k, it != bref.end() ? "holds it" : "does not");
			else if(p && !(*p == it->second))
				vh::oracle("value-ctor", "%s: key %#llx holds %s, but T{args...} of its insertion is %s (value depends on the insertion case)",
					when, (unsigned long long)k, p->str().c_str(), it->second.str().c_str());
		};
		size_t opno = 0;
		for(auto &line : ls) {
			auto w = vh::split(line);
			if(w.empty()) continue;
			const std::string &o = w[0];
			opno++;
			bool expect_assert = false;
			uint64_t bad_key = 0; const char *bad_what = "";
			try {
				if(o == "f") {
					uint64_t k = vh::u64(w[1]);
					RV *p = t.find(k);
					if(p) printf("p %s\n", addr(p).c_str()); else printf("p none\n");
					auto it = ref.find(k);
					if(it == ref.end() ? p != nullptr : p != it->second.p)
						vh::oracle("refmap", "find(%#llx) = %s, reference %s", (unsigned long long)k,
							p ? addr(p).c_str() : "null", it == ref.end() ? "absent" : addr(it->second.p).c_str());
					else if(p && p->get() != it->second.v)
						vh::oracle("refmap", "find(%#llx): wrong value", (unsigned long long)k);
					probe_absent(t, ref, k);
				} else if(o == "o" || o == "i") {
					uint64_t k = vh::u64(w[1]), v = vh::u64(w[2]);
					auto it = ref.find(k);
					bool had = it != ref.end();
					RV *p; bool ins;
					if(o == "o") {
						auto r = t.find_or_insert(k, v);
						p = r.template get<0>(); ins = r.template get<1>();
						printf("o %s %d\n", addr(p).c_str(), ins ? 1 : 0);
					} else {
						expect_assert = had; bad_key = k; bad_what = "insert";
						p = t.insert(k, v); ins = true;
						if(had) { vh::oracle("refmap", "insert(%#llx) of a present key did not stop in FRG_ASSERT", (unsigned long long)k);
							assert_path_recheck(t, ref, k, "insert"); }
						printf("p %s\n", addr(p).c_str());
					}
					if(had) {
						if(ins && o == "o") vh::oracle("refmap", "find_or_insert(%#llx) reports an insertion but the key is present", (unsigned long long)k);
						if(p != it->second.p) vh::oracle("refmap", "find_or_insert(%#llx) returned a second address %s for a key present at %s",
							(unsigned long long)k, addr(p).c_str(), addr(it->second.p).c_str());
						else if(p->get() != it->second.v) vh::oracle("refmap", "find_or_insert(%#llx) changed the value", (unsigned long long)k);
					} else {
						if(!ins) vh::oracle("refmap", "find_or_insert(%#llx) reports no insertion but the key is absent", (unsigned long long)k);
						for(auto &kv : ref)
							if(kv.second.p == p) { vh::oracle("refmap", "new value for %#llx placed at the address of present key %#llx",
								(unsigned long long)k, (unsigned long long)kv.first); break; }
						if(!p || p->get() != v) vh::oracle("refmap", "find_or_insert(%#llx): value not constructed from the argument", (unsigned long long)k);
						ref[k] = Ref{p, v};
					}
					if(t.find(k) != ref[k].p) vh::oracle("refmap", "find(%#llx) right after find_or_insert does not return its address", (unsigned long long)k);
					{	// the same insertion on the Bag tree, through insert or find_or_insert with two constructor arguments
						bool bhad = bref.count(k);
						Bag *bp; bool bins;
						if(o == "i" && !bhad) { bp = bt.insert(k, bag_a(v), bag_b(v)); bins = true; }
						else { auto r = bt.find_or_insert(k, bag_a(v), bag_b(v)); bp = r.template get<0>(); bins = r.template get<1>(); }
						if(bins == bhad) vh::oracle("value-ctor", "Bag tree: find_or_insert(%#llx) insertion flag wrong", (unsigned long long)k);
						if(!bhad) bref.emplace(k, Bag{bag_a(v), bag_b(v)});
						if(bp != bt.find(k)) vh::oracle("value-ctor", "Bag tree: find(%#llx) does not return the inserted address", (unsigned long long)k);
						bag_check(k, o == "i" ? "after insert" : "after find_or_insert");
					}
				} else if(o == "e") {
					uint64_t k = vh::u64(w[1]);
					auto it = ref.find(k);
					expect_assert = it == ref.end(); bad_key = k; bad_what = "erase";
					RV *p = t.find(k);
					if(!expect_assert && p != it->second.p) vh::oracle("refmap", "find(%#llx) before erase: wrong address", (unsigned long long)k);
					t.erase(k);
					if(expect_assert) { vh::oracle("refmap", "erase(%#llx) of an absent key did not stop in FRG_ASSERT", (unsigned long long)k);
						assert_path_recheck(t, ref, k, "erase"); }
					if(t.find(k)) vh::oracle("refmap", "find(%#llx) still finds the key after erase", (unsigned long long)k);
					if(p) p->~RV();          // the caller's part of the protocol (after the grace period)
					if(it != ref.end()) ref.erase(it);
					if(bref.count(k)) { Bag *bp = bt.find(k); bt.erase(k); if(bp) bp->~Bag(); bref.erase(k); bag_check(k, "after erase"); }
					printf("u\n");
				} else if(o == "it") {
					std::vector<RV *> seen;
					printf("s");
					size_t n = 0;
					for(auto i = t.begin(); i != t.end(); ++i) {
						RV *p = &*i;
						printf(" %s", addr(p).c_str());
						seen.push_back(p);
						if(++n > ref.size() + 8) { vh::oracle("iter-order", "iteration does not end within size+8 steps"); break; }
					}
					printf("\n");
					{	// the Bag tree iterates the same keys: values must be the reference's, in ascending key order
						auto bi = bt.begin(); size_t bn = 0;
						for(auto &kv : bref) {
							if(bi == bt.end()) { vh::oracle("value-ctor", "Bag tree: iteration ends after %zu of %zu values", bn, bref.size()); break; }
							if(!(*bi == kv.second)) { vh::oracle("value-ctor", "Bag tree: iterator yields %s for key %#llx, T{args...} is %s",
								bi->str().c_str(), (unsigned long long)kv.first, kv.second.str().c_str()); break; }
							++bi; bn++;
						}
						if(bn == bref.size() && bi != bt.end()) vh::oracle("value-ctor", "Bag tree: iteration yields more than %zu values", bref.size());
					}
					std::vector<RV *> want;
					for(auto &kv : ref) want.push_back(kv.second.p);   // ascending key order
					if(seen != want) {
						std::vector<RV *> a = seen, b = want;
						std::sort(a.begin(), a.end()); std::sort(b.begin(), b.end());
						vh::oracle("iter-order", a == b ? "iteration visits the present values but not in ascending key order"
							: "iteration visits %zu values, %zu keys are present (or the sets differ)", seen.size(), want.size());
					}
				} else continue;
			} catch(vh::AssertStop &a) {
				g_quiet = true;
				printf("assert\n");
				if(!expect_assert) vh::oracle("unexpected-assert", "op %zu '%s': %s", opno, line.c_str(), a.where.c_str());
				else assert_path_recheck(t, ref, bad_key, bad_what);   // the stopped call must not have changed anything
				stopped = true;
				break;
			}
			print_events();
			dump(t, false);
			if(ref.size() <= 48 || opno % 8 == 0) sweep(t, ref, "after op");
			if(bref.size() <= 48 || opno % 8 == 0) for(auto &kv : bref) bag_check(kv.first, "sweep");
		}
		if(!stopped) {
			sweep(t, ref, "final sweep");
			for(auto &kv : bref) bag_check(kv.first, "final sweep");
			printf("final\n");
			dump(t, true);
			printf("d\n");
			g_events.clear();
		}
		// the destructor runs here
	}
	if(!stopped) print_events();
	g_events.clear();
	vh::g_life.check_empty("rcu_radixtree");
	vh::g_alloc.check_empty("rcu_radixtree");
}

} // namespace

int main() { return vh::run(body); }
