#!/bin/sh
# Self-test: hand-made mutations of rcu_radixtree.hpp in a scratch worktree; reports which leg catches which.
# usage: comp/radix/selftest.sh [check ids...]   (default: C09 C16_radix)
set -u
W=/tmp/radix_mut
CHECKS="${*:-C09 C16_radix}"
git -C /repo worktree remove --force $W 2>/dev/null
git -C /repo worktree add --detach $W HEAD >/dev/null 2>&1 || exit 2
F=$W/include/frg/rcu_radixtree.hpp
mut() { # name, python expression transforming s
  git -C $W checkout -q -- include/frg/rcu_radixtree.hpp
  python3 - "$F" "$2" <<'PY'
import sys
p, code = sys.argv[1], sys.argv[2]
s = open(p).read()
t = eval(code)
assert t != s, "mutation did not apply"
open(p, "w").write(t)
PY
  for c in $CHECKS; do
    out=$(cd /verif && VERIF_REPO=$W timeout 1200 bin/check $c 2>&1 | grep -v WARNING | tail -3)
    rc=$?
    rp=$(echo "$out" | sed -n 's/.*replay=\([^ ]*\).*/\1/p' | head -1)
    why=""
    [ -n "$rp" ] && why=$(sed -n '2,3p' "$rp" | tr '\n' ' ' | cut -c1-230)
    ev=$(python3 -c "
import json
c=json.load(open('/verif/evidence/$c.json'))['coverage']
print('oracle_fail=%d corr_mismatch=%d'%(c['oracle_failures'],c['correspondence_mismatches']))")
    echo "[$1] $c: $(echo "$out" | grep -c VIOLATION) violation line(s); $ev; $why"
  done
}
mut idx_off_by_one_nibble 's.replace("return (k >> (64 - (d + 1) * 4) & 0xF);", "return d ? (k >> (64 - d * 4) & 0xF) : (k >> 60 & 0xF);")'
mut split_wrong_child_index 's.replace("r->links[idx_of(s->prefix, d)].store(s, std::memory_order_relaxed);", "r->links[idx_of(s->prefix, d + 1)].store(s, std::memory_order_relaxed);")'
mut erase_keeps_mask_bit 's.replace("cn->mask.store(mask & ~(uint16_t(1) << idx), std::memory_order_release);", "cn->mask.store(mask, std::memory_order_release);")'
mut displaced_child_parent_not_updated 's.replace("\t\t\t\ts->parent = r;\n", "")'
mut revert_d03 's.replace("\t\tif(!d)\n\t\t\treturn 0;\n", "")'
mut split_loop_starts_at_1 's.replace("unsigned int d = 0;\n\t\t\t\twhile", "unsigned int d = 1;\n\t\t\t\twhile")'
mut case3_mask_relaxed_wrong_bit 's.replace("cs->mask.store(mask | (uint16_t(1) << idx), std::memory_order_release);", "cs->mask.store(mask | (uint16_t(1) << (idx ^ 8)), std::memory_order_release);")'
mut dtor_skips_value_destroy 's.replace("\t\t\t\t\tp->~T();\n", "")'
mut dtor_destroys_value_twice 's.replace("\t\t\t\t\tp->~T();\n", "\t\t\t\t\tp->~T();\n\t\t\t\t\tp->~T();\n")'
mut dtor_entry_dealloc_wrong_size 's.replace("\t\t\t\ttn = cn->parent;\n\t\t\t\tfrg::destruct(_allocator, cn);\n\t\t\t}else{", "\t\t\t\ttn = cn->parent;\n\t\t\t\t_allocator.deallocate(cn, sizeof(link_node));\n\t\t\t}else{")'
mut root_store_weakened_to_relaxed 's.replace("\t\t\t\t\t_root.store(n, std::memory_order_release);", "\t\t\t\t\t_root.store(n, std::memory_order_relaxed);")'
mut split_case_constructs_with_parens 's.replace("auto r = construct<link_node>(_allocator);", "auto r = construct<link_node>(_allocator); /*m*/", 1).replace("T{std::forward<Args>(args)...};", "T{std::forward<Args>(args)...} ;", 1).replace("T{std::forward<Args>(args)...};", "T(std::forward<Args>(args)...);", 1).replace("T{std::forward<Args>(args)...} ;", "T{std::forward<Args>(args)...};", 1)'
mut erase_prefix_assert_only_for_inner_nodes 's.replace("\t\t\tFRG_ASSERT(pfx_of(k, n->depth) == n->prefix);\n\n\t\t\tauto idx = idx_of(k, n->depth);\n\t\t\tif(n->depth == ll) {\n\t\t\t\tauto cn = static_cast<entry_node *>(n);\n\t\t\t\tauto mask = cn->mask.load(std::memory_order_acquire);\n\t\t\t\tFRG_ASSERT(mask", "\n\t\t\tauto idx = idx_of(k, n->depth);\n\t\t\tif(n->depth == ll) {\n\t\t\t\tauto cn = static_cast<entry_node *>(n);\n\t\t\t\tauto mask = cn->mask.load(std::memory_order_acquire);\n\t\t\t\tFRG_ASSERT(mask")'
git -C /repo worktree remove --force $W
